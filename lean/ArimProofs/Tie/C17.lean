import ArimModel.Geometry
import ArimProofs.Generated.SrcC17
/-! # C17 (C16) — tie between the generated translations of `rotation_matrix_x/y/z/ypr` and the model's
    `rotX/rotY/rotZ/rotYpr` (the matrices the theorems of C16 and C17 are about) -/
namespace Arim.Tie.C17
open Arim.Geo

variable {K : Type} [Add K] [Sub K] [Mul K] [Div K] [Neg K]

/-- **tie**: `rotation_matrix_x(θ)` is the model's `rotX` of `cos θ`, `sin θ` (literals `0`, `1` as the code writes them) -/
theorem tie_rotation_matrix_x (o : Src.Ops K) (θ : K) :
    Src.rotation_matrix_x o θ = rotX (o.ofNat 0) (o.ofNat 1) (o.cos θ) (o.sin θ) := rfl

theorem tie_rotation_matrix_y (o : Src.Ops K) (θ : K) :
    Src.rotation_matrix_y o θ = rotY (o.ofNat 0) (o.ofNat 1) (o.cos θ) (o.sin θ) := rfl

theorem tie_rotation_matrix_z (o : Src.Ops K) (θ : K) :
    Src.rotation_matrix_z o θ = rotZ (o.ofNat 0) (o.ofNat 1) (o.cos θ) (o.sin θ) := rfl

/-- **tie**: `rotation_matrix_ypr = Rz(yaw) @ Ry(pitch) @ Rx(roll)`, products associated as Python associates `@` -/
theorem tie_rotation_matrix_ypr (o : Src.Ops K) (yaw pitch roll : K) :
    Src.rotation_matrix_ypr o yaw pitch roll =
      rotYpr (o.ofNat 0) (o.ofNat 1) (o.cos yaw) (o.sin yaw) (o.cos pitch) (o.sin pitch) (o.cos roll) (o.sin roll) := rfl

/-- **tie**: `to_gcs`, one point: `einsum("...ij,...i->...j", bases, coords) + origins` is `c · B + O` (rows of `B` are the basis vectors) -/
theorem tie_to_gcs (o : Src.Ops K) (c : P3 K) (b : M3 K) (org : P3 K) : Src.to_gcs o c b org = toGcs c b org := rfl

/-- **tie**: `from_gcs`, one point: `einsum("...ji,...i->...j", bases, p - origins)` is `B · (p − O)` -/
theorem tie_from_gcs (o : Src.Ops K) (p : P3 K) (b : M3 K) (org : P3 K) : Src.from_gcs o p b org = fromGcs p b org := rfl

/-- **tie**: `rotate` without a centre is `R · c`, with a centre `R · (c − centre) + centre` -/
theorem tie_rotate_about_origin (o : Src.Ops K) (c : P3 K) (r : M3 K) : Src.rotate_about_origin o c r = rotate c r none := rfl
theorem tie_rotate_about_centre (o : Src.Ops K) (c : P3 K) (r : M3 K) (centre : P3 K) :
    Src.rotate_about_centre o c r centre = rotate c r (some centre) := rfl

end Arim.Tie.C17
