import ArimModel.RayCache
import ArimProofs.Generated.SrcC14
/-! # C14 — tie between the structural translation of `arim.ray` (decorator `_cache_ray_geometry`, the 17 cached query
methods of `RayGeometry`, the two clearing methods, `precompute`) and the hand-written state machine `Arim.RayCache`.

The generated definitions (`ArimProofs/Generated/SrcC14.lean`, rewritten from /repo/src/arim/ray.py on every run) say, for
every method, which sub-queries its body issues in which order, when it answers `None`, when it raises; the decorator says
what is stored under which key.  The theorems below prove them equal to the model for the current code
(`rawZeroTest = false`: the `inc_*` bodies test the *normalised* index, finding F3), so every theorem of `ArimProofs/C14.lean`
is a theorem about what the source says now. -/
namespace Arim.Tie.C14
open Arim.RayCache

/-- the decorator -/
theorem tie_wrap : @Arim.SrcC14.wrap = @Arim.RayCache.wrap := rfl

theorem tie_clearIntermediate : @Arim.SrcC14.clearIntermediate = @Arim.RayCache.clearIntermediate := rfl

theorem tie_clearAll (s : St) : Arim.SrcC14.clearAll s = (step ⟨0, fun _ => none, fun _ => none, false⟩ s .clearAll).2 := rfl

/-- `precompute` has no `try/finally`: the clean-up is skipped when the block raises (as `step` models it) -/
theorem tie_precompute : Arim.SrcC14.precomputeCleansUpOnError = false := rfl

theorem andThen_ret (x : Res × St) : andThen x (fun v s => (.ok v, s)) = x := by
  obtain ⟨a, s⟩ := x
  cases a <;> rfl

theorem tie_leg_points (g : Geo) : Arim.SrcC14.q_leg_points g = qLeg g := rfl
theorem tie_orientations_of_legs_points (g : Geo) : Arim.SrcC14.q_orientations_of_legs_points g = qOrient g := rfl

section current
variable (g : Geo) (h : g.rawZeroTest = false)
include h

theorem isFirst_eq (r : Int) : isFirst g r = (norm g.n r == some 0) := by simp [isFirst, h]

theorem tie_inc_leg_size : Arim.SrcC14.q_inc_leg_size g = qIncLegSize g := by
  funext s r fin
  simp only [Arim.SrcC14.q_inc_leg_size, qIncLegSize, tie_wrap, tie_leg_points, isFirst_eq g h]

theorem tie_inc_leg_cartesian : Arim.SrcC14.q_inc_leg_cartesian g = qIncCart g := by
  funext s r fin
  simp only [Arim.SrcC14.q_inc_leg_cartesian, qIncCart, tie_wrap, tie_leg_points, tie_orientations_of_legs_points, isFirst_eq g h]

theorem tie_inc_leg_radius : Arim.SrcC14.q_inc_leg_radius g = qIncRadius g := by
  funext s r fin
  simp only [Arim.SrcC14.q_inc_leg_radius, qIncRadius, tie_wrap, tie_inc_leg_cartesian g h]

theorem tie_inc_leg_polar : Arim.SrcC14.q_inc_leg_polar g = qIncPolar g := by
  funext s r fin
  simp only [Arim.SrcC14.q_inc_leg_polar, qIncPolar, tie_wrap, tie_inc_leg_cartesian g h, tie_inc_leg_radius g h]

theorem tie_inc_leg_azimuth : Arim.SrcC14.q_inc_leg_azimuth g = qIncAzimuth g := by
  funext s r fin
  simp only [Arim.SrcC14.q_inc_leg_azimuth, qIncAzimuth, tie_wrap, tie_inc_leg_cartesian g h]

theorem tie_inc_angle : Arim.SrcC14.q_inc_angle g = qIncAngle g := by
  funext s r fin
  simp only [Arim.SrcC14.q_inc_angle, qIncAngle, tie_wrap, tie_inc_leg_polar g h]

theorem tie_signed_inc_angle : Arim.SrcC14.q_signed_inc_angle g = qSignedInc g := by
  funext s r fin
  simp only [Arim.SrcC14.q_signed_inc_angle, qSignedInc, tie_wrap, tie_inc_leg_azimuth g h, tie_inc_leg_polar g h]

/-- both branches of the normal-side flag read the incoming polar angle once (`pi - theta` is a computation on the copy) -/
theorem tie_conventional_inc_angle : Arim.SrcC14.q_conventional_inc_angle g = qConvInc g := by
  funext s r fin
  simp only [Arim.SrcC14.q_conventional_inc_angle, qConvInc, tie_wrap, tie_inc_leg_polar g h, isFirst_eq g h, andThen_ret]
  congr 1
  funext s r
  by_cases hc : (norm g.n r == some 0) = true
  · rw [if_pos hc, if_pos hc]
  · rw [if_neg hc, if_neg hc]
    cases hb : (norm g.n r).bind g.incSide with
    | none => rfl
    | some b => cases b <;> rfl

end current

/-! the outgoing side does not depend on the first-interface test -/

theorem tie_out_leg_cartesian (g : Geo) : Arim.SrcC14.q_out_leg_cartesian g = qOutCart g := by
  funext s r fin
  simp only [Arim.SrcC14.q_out_leg_cartesian, qOutCart, tie_wrap, tie_leg_points, tie_orientations_of_legs_points, isLast]
  rfl

theorem tie_out_leg_radius (g : Geo) : Arim.SrcC14.q_out_leg_radius g = qOutRadius g := by
  funext s r fin
  simp only [Arim.SrcC14.q_out_leg_radius, qOutRadius, tie_wrap, tie_out_leg_cartesian]

theorem tie_out_leg_polar (g : Geo) : Arim.SrcC14.q_out_leg_polar g = qOutPolar g := by
  funext s r fin
  simp only [Arim.SrcC14.q_out_leg_polar, qOutPolar, tie_wrap, tie_out_leg_cartesian, tie_out_leg_radius]

theorem tie_out_leg_azimuth (g : Geo) : Arim.SrcC14.q_out_leg_azimuth g = qOutAzimuth g := by
  funext s r fin
  simp only [Arim.SrcC14.q_out_leg_azimuth, qOutAzimuth, tie_wrap, tie_out_leg_cartesian]

theorem tie_out_angle (g : Geo) : Arim.SrcC14.q_out_angle g = qOutAngle g := by
  funext s r fin
  simp only [Arim.SrcC14.q_out_angle, qOutAngle, tie_wrap, tie_out_leg_polar]

theorem tie_signed_out_angle (g : Geo) : Arim.SrcC14.q_signed_out_angle g = qSignedOut g := by
  funext s r fin
  simp only [Arim.SrcC14.q_signed_out_angle, qSignedOut, tie_wrap, tie_out_leg_azimuth, tie_out_leg_polar]

theorem tie_conventional_out_angle (g : Geo) : Arim.SrcC14.q_conventional_out_angle g = qConvOut g := by
  funext s r fin
  simp only [Arim.SrcC14.q_conventional_out_angle, qConvOut, tie_wrap, tie_out_leg_polar, andThen_ret]
  congr 1
  funext s r
  by_cases hc : isLast g r = true
  · have hc' : (norm g.n r == some (g.n - 1)) = true := hc
    rw [if_pos hc', if_pos hc]
  · have hc' : ¬ (norm g.n r == some (g.n - 1)) = true := hc
    rw [if_neg hc', if_neg hc]
    cases hb : (norm g.n r).bind g.outSide with
    | none => rfl
    | some b => cases b <;> rfl

/-- **tie**: every cached query of the source, as translated, is the model's query -/
theorem tie_query (g : Geo) (h : g.rawZeroTest = false) : Arim.SrcC14.query g = query g := by
  funext s m r fin
  cases m <;>
    simp only [Arim.SrcC14.query, query, tie_leg_points, tie_orientations_of_legs_points, tie_inc_leg_size g h, tie_inc_leg_cartesian g h,
      tie_inc_leg_radius g h, tie_inc_leg_polar g h, tie_inc_leg_azimuth g h, tie_inc_angle g h, tie_signed_inc_angle g h,
      tie_conventional_inc_angle g h, tie_out_leg_cartesian, tie_out_leg_radius, tie_out_leg_polar, tie_out_leg_azimuth, tie_out_angle,
      tie_signed_out_angle, tie_conventional_out_angle]

end Arim.Tie.C14
