import ArimModel.Geometry
import ArimProofs.Tie.C01
import ArimProofs.Tie.C17
import ArimProofs.Lemmas.Geometry
import Mathlib.Tactic.Ring
import Mathlib.Tactic.LinearCombination
import Mathlib.Tactic.Linarith
import Mathlib.Tactic.FieldSimp
import Mathlib.Tactic.Positivity
import Mathlib.Algebra.Order.Floor.Ring
import Mathlib.Algebra.Order.Field.Basic
import Mathlib.Analysis.SpecialFunctions.Trigonometric.Inverse
import Mathlib.Analysis.SpecialFunctions.Complex.Arg
/-! # C17 — coordinate changes are exact isometries; grids and distances are as specified

1. coordinate changes (`to_gcs`/`from_gcs`, `CoordinateSystem`, `rotate`) are mutually inverse
   isometries for orthonormal bases;
2. the rotation matrices are proper (orthonormal, determinant one); proper rotations preserve the
   cross product;
3. `direct_isometry_3d` sends the departure frame to the arrival frame by a proper rotation;
4. grids: `linspace`, number of points of an axis, flattening order, `points_in_rectbox`;
5. spherical coordinates invert back to Cartesian ones (over `ℝ`);
6. non-vacuity examples on rational data. -/
namespace Arim.C17
open Arim Arim.Geo

section algebra
variable {K : Type} [CommRing K]

/-- orthonormality of the rows of a basis matrix, written out -/
structure Orthonormal (b : M3 K) : Prop where
  n0 : dot b.r0 b.r0 = 1
  n1 : dot b.r1 b.r1 = 1
  n2 : dot b.r2 b.r2 = 1
  o01 : dot b.r0 b.r1 = 0
  o02 : dot b.r0 b.r2 = 0
  o12 : dot b.r1 b.r2 = 0

omit [CommRing K] in
@[ext] theorem P3.ext' {a b : P3 K} (hx : a.x = b.x) (hy : a.y = b.y) (hz : a.z = b.z) : a = b := by
  cases a; cases b; simp_all

/-- `from_gcs (to_gcs c) = c` for every orthonormal basis and origin -/
theorem from_to_gcs (c o : P3 K) (b : M3 K) (h : Orthonormal b) : fromGcs (toGcs c b o) b o = c := by
  obtain ⟨n0, n1, n2, o01, o02, o12⟩ := h
  obtain ⟨⟨a1, a2, a3⟩, ⟨b1, b2, b3⟩, ⟨c1, c2, c3⟩⟩ := b
  obtain ⟨x, y, z⟩ := c
  obtain ⟨ox, oy, oz⟩ := o
  simp only [dot] at n0 n1 n2 o01 o02 o12
  apply P3.ext' <;>
    simp only [fromGcs, toGcs, mulVec, vecMul, vadd, vsub, dot, M3.col0, M3.col1, M3.col2]
  · linear_combination x * n0 + y * o01 + z * o02
  · linear_combination x * o01 + y * n1 + z * o12
  · linear_combination x * o02 + y * o12 + z * n2

/-- the axis rotation matrices are orthonormal whenever `c² + s² = 1` -/
theorem rotX_orthonormal (c s : K) (h : c * c + s * s = 1) : Orthonormal (rotX 0 1 c s) := by
  constructor <;> simp only [rotX, dot] <;> first | (linear_combination h) | ring
theorem rotY_orthonormal (c s : K) (h : c * c + s * s = 1) : Orthonormal (rotY 0 1 c s) := by
  constructor <;> simp only [rotY, dot] <;> first | (linear_combination h) | ring
theorem rotZ_orthonormal (c s : K) (h : c * c + s * s = 1) : Orthonormal (rotZ 0 1 c s) := by
  constructor <;> simp only [rotZ, dot] <;> first | (linear_combination h) | ring

/-- squared Euclidean norm -/
def nsq (v : P3 K) : K := dot v v

/-- `to_gcs` preserves distances (isometry) for a basis with orthonormal rows -/
theorem to_gcs_isometry (c c' o : P3 K) (b : M3 K) (h : Orthonormal b) :
    nsq (vsub (toGcs c b o) (toGcs c' b o)) = nsq (vsub c c') := by
  obtain ⟨n0, n1, n2, o01, o02, o12⟩ := h
  obtain ⟨⟨a1, a2, a3⟩, ⟨b1, b2, b3⟩, ⟨c1, c2, c3⟩⟩ := b
  obtain ⟨x, y, z⟩ := c
  obtain ⟨x', y', z'⟩ := c'
  obtain ⟨ox, oy, oz⟩ := o
  simp only [dot] at n0 n1 n2 o01 o02 o12
  simp only [nsq, toGcs, vecMul, vadd, vsub, dot, M3.col0, M3.col1, M3.col2]
  linear_combination (x - x') ^ 2 * n0 + (y - y') ^ 2 * n1 + (z - z') ^ 2 * n2
    + 2 * (x - x') * (y - y') * o01 + 2 * (x - x') * (z - z') * o02 + 2 * (y - y') * (z - z') * o12

/-! ## 1. coordinate changes -/

/-- `Orthonormal b` is `B Bᵀ = 1` for the corresponding Mathlib matrix -/
theorem orthonormal_iff_toMatrix (b : M3 K) :
    Orthonormal b ↔ toMatrix b * (toMatrix b).transpose = 1 := by
  rw [← rows_orthonormal_iff_toMatrix]
  exact ⟨fun ⟨a, b, c, d, e, f⟩ => ⟨a, b, c, d, e, f⟩, fun ⟨a, b, c, d, e, f⟩ => ⟨a, b, c, d, e, f⟩⟩

/-- rows orthonormal ⇒ columns orthonormal (`B Bᵀ = 1 ⇒ Bᵀ B = 1`), over any commutative ring -/
theorem orthonormal_transpose (b : M3 K) (h : Orthonormal b) : Orthonormal b.transpose := by
  rw [orthonormal_iff_toMatrix] at h ⊢
  exact toMatrix_transpose_mul_of_mul_transpose b h

omit [CommRing K] in
theorem transpose_transpose (b : M3 K) : b.transpose.transpose = b := by
  obtain ⟨⟨a1, a2, a3⟩, ⟨b1, b2, b3⟩, ⟨c1, c2, c3⟩⟩ := b
  rfl

theorem orthonormal_transpose_iff (b : M3 K) : Orthonormal b.transpose ↔ Orthonormal b :=
  ⟨fun h => by simpa [transpose_transpose] using orthonormal_transpose _ h, orthonormal_transpose b⟩

/-- `to_gcs (from_gcs p) = p` needs only the *columns* of the basis matrix to be orthonormal -/
theorem to_from_gcs_of_cols (p o : P3 K) (b : M3 K) (h' : Orthonormal b.transpose) :
    toGcs (fromGcs p b o) b o = p := by
  obtain ⟨n0, n1, n2, o01, o02, o12⟩ := h'
  obtain ⟨⟨a1, a2, a3⟩, ⟨b1, b2, b3⟩, ⟨c1, c2, c3⟩⟩ := b
  obtain ⟨x, y, z⟩ := p
  obtain ⟨ox, oy, oz⟩ := o
  simp only [dot, M3.transpose, M3.col0, M3.col1, M3.col2] at n0 n1 n2 o01 o02 o12
  apply P3.ext' <;>
    simp only [fromGcs, toGcs, mulVec, vecMul, vadd, vsub, dot, M3.col0, M3.col1, M3.col2]
  · linear_combination (x - ox) * n0 + (y - oy) * o01 + (z - oz) * o02
  · linear_combination (x - ox) * o01 + (y - oy) * n1 + (z - oz) * o12
  · linear_combination (x - ox) * o02 + (y - oy) * o12 + (z - oz) * n2

/-- `to_gcs (from_gcs p) = p`: the other direction of the inverse (the row hypothesis is in fact
    not used, see `to_from_gcs_of_cols`; and it implies the column one, see `to_from_gcs'`) -/
theorem to_from_gcs (p o : P3 K) (b : M3 K) (_h : Orthonormal b) (h' : Orthonormal b.transpose) :
    toGcs (fromGcs p b o) b o = p := to_from_gcs_of_cols p o b h'

/-- over a commutative ring row-orthonormality alone suffices -/
theorem to_from_gcs' (p o : P3 K) (b : M3 K) (h : Orthonormal b) :
    toGcs (fromGcs p b o) b o = p := to_from_gcs_of_cols p o b (orthonormal_transpose b h)

/-- `M v` has the norm of `v` when the columns of `M` are orthonormal -/
theorem nsq_mulVec (m : M3 K) (v : P3 K) (h' : Orthonormal m.transpose) :
    nsq (mulVec m v) = nsq v := by
  obtain ⟨n0, n1, n2, o01, o02, o12⟩ := h'
  obtain ⟨⟨a1, a2, a3⟩, ⟨b1, b2, b3⟩, ⟨c1, c2, c3⟩⟩ := m
  obtain ⟨x, y, z⟩ := v
  simp only [dot, M3.transpose, M3.col0, M3.col1, M3.col2] at n0 n1 n2 o01 o02 o12
  simp only [nsq, mulVec, dot]
  linear_combination x ^ 2 * n0 + y ^ 2 * n1 + z ^ 2 * n2
    + 2 * x * y * o01 + 2 * x * z * o02 + 2 * y * z * o12

/-- more generally `M` preserves the dot product -/
theorem dot_mulVec (m : M3 K) (v w : P3 K) (h' : Orthonormal m.transpose) :
    dot (mulVec m v) (mulVec m w) = dot v w := by
  obtain ⟨n0, n1, n2, o01, o02, o12⟩ := h'
  obtain ⟨⟨a1, a2, a3⟩, ⟨b1, b2, b3⟩, ⟨c1, c2, c3⟩⟩ := m
  obtain ⟨x, y, z⟩ := v
  obtain ⟨x', y', z'⟩ := w
  simp only [dot, M3.transpose, M3.col0, M3.col1, M3.col2] at n0 n1 n2 o01 o02 o12
  simp only [mulVec, dot]
  linear_combination x * x' * n0 + y * y' * n1 + z * z' * n2
    + (x * y' + y * x') * o01 + (x * z' + z * x') * o02 + (y * z' + z * y') * o12

theorem mulVec_vsub (m : M3 K) (v w : P3 K) : vsub (mulVec m v) (mulVec m w) = mulVec m (vsub v w) := by
  obtain ⟨⟨a1, a2, a3⟩, ⟨b1, b2, b3⟩, ⟨c1, c2, c3⟩⟩ := m
  obtain ⟨x, y, z⟩ := v
  obtain ⟨x', y', z'⟩ := w
  apply P3.ext' <;> simp only [mulVec, vsub, dot] <;> ring

theorem mulVec_vadd (m : M3 K) (v w : P3 K) : vadd (mulVec m v) (mulVec m w) = mulVec m (vadd v w) := by
  obtain ⟨⟨a1, a2, a3⟩, ⟨b1, b2, b3⟩, ⟨c1, c2, c3⟩⟩ := m
  obtain ⟨x, y, z⟩ := v
  obtain ⟨x', y', z'⟩ := w
  apply P3.ext' <;> simp only [mulVec, vadd, dot] <;> ring

theorem vsub_vsub_cancel (p p' o : P3 K) : vsub (vsub p o) (vsub p' o) = vsub p p' := by
  apply P3.ext' <;> simp only [vsub] <;> ring

theorem vadd_vsub_cancel_right (p p' o : P3 K) : vsub (vadd p o) (vadd p' o) = vsub p p' := by
  apply P3.ext' <;> simp only [vsub, vadd] <;> ring

theorem vadd_vsub (x y : P3 K) : vadd (vsub x y) y = x := by
  apply P3.ext' <;> simp only [vsub, vadd] <;> ring

theorem vsub_vadd (x y : P3 K) : vsub (vadd x y) y = x := by
  apply P3.ext' <;> simp only [vsub, vadd] <;> ring

theorem vadd_vsub_left (x y : P3 K) : vsub (vadd x y) x = y := by
  apply P3.ext' <;> simp only [vsub, vadd] <;> ring

/-- `from_gcs` is an isometry when the columns of the basis matrix are orthonormal -/
theorem from_gcs_isometry (p p' o : P3 K) (b : M3 K) (h' : Orthonormal b.transpose) :
    nsq (vsub (fromGcs p b o) (fromGcs p' b o)) = nsq (vsub p p') := by
  simp only [fromGcs]
  rw [mulVec_vsub, vsub_vsub_cancel, nsq_mulVec _ _ h']

theorem from_gcs_isometry' (p p' o : P3 K) (b : M3 K) (h : Orthonormal b) :
    nsq (vsub (fromGcs p b o) (fromGcs p' b o)) = nsq (vsub p p') :=
  from_gcs_isometry p p' o b (orthonormal_transpose b h)

/-! ### `rotate` -/

theorem rotate_centre_fixed (r : M3 K) (o : P3 K) : rotate o r (some o) = o := by
  obtain ⟨⟨a1, a2, a3⟩, ⟨b1, b2, b3⟩, ⟨c1, c2, c3⟩⟩ := r
  obtain ⟨x, y, z⟩ := o
  apply P3.ext' <;> simp only [rotate, mulVec, vadd, vsub, dot] <;> ring

theorem rotate_vsub (c c' : P3 K) (r : M3 K) (centre : Option (P3 K)) :
    vsub (rotate c r centre) (rotate c' r centre) = mulVec r (vsub c c') := by
  cases centre with
  | none => simp only [rotate, mulVec_vsub]
  | some o => simp only [rotate, vadd_vsub_cancel_right, mulVec_vsub, vsub_vsub_cancel]

/-- `rotate` (about any centre, or none) is an isometry when the columns of `r` are orthonormal -/
theorem rotate_isometry (c c' : P3 K) (r : M3 K) (centre : Option (P3 K))
    (h' : Orthonormal r.transpose) :
    nsq (vsub (rotate c r centre) (rotate c' r centre)) = nsq (vsub c c') := by
  rw [rotate_vsub, nsq_mulVec _ _ h']

theorem rotate_isometry' (c c' : P3 K) (r : M3 K) (centre : Option (P3 K)) (h : Orthonormal r) :
    nsq (vsub (rotate c r centre) (rotate c' r centre)) = nsq (vsub c c') :=
  rotate_isometry c c' r centre (orthonormal_transpose r h)

/-! ### cross product and coordinate systems -/

/-- Lagrange's identity -/
theorem cross_nsq (i j : P3 K) :
    dot (cross i j) (cross i j) = dot i i * dot j j - dot i j * dot i j := by
  simp only [dot, cross]; ring

theorem dot_cross_left (i j : P3 K) : dot i (cross i j) = 0 := by
  simp only [dot, cross]; ring
theorem dot_cross_right (i j : P3 K) : dot j (cross i j) = 0 := by
  simp only [dot, cross]; ring

/-- if `î, ĵ` are orthonormal then `(î, ĵ, î × ĵ)` is an orthonormal triple -/
theorem frame_orthonormal (i j : P3 K) (hi : dot i i = 1) (hj : dot j j = 1) (hij : dot i j = 0) :
    Orthonormal ⟨i, j, cross i j⟩ := by
  refine ⟨hi, hj, ?_, hij, dot_cross_left _ _, dot_cross_right _ _⟩
  show dot (cross i j) (cross i j) = 1
  rw [cross_nsq, hi, hj, hij]; ring

theorem cs_khat_orthonormal (cs : CS K) (hi : dot cs.i cs.i = 1) (hj : dot cs.j cs.j = 1)
    (hij : dot cs.i cs.j = 0) : Orthonormal cs.rows :=
  frame_orthonormal cs.i cs.j hi hj hij

theorem vecMul_transpose (v : P3 K) (m : M3 K) : vecMul v m.transpose = mulVec m v := by
  obtain ⟨⟨a1, a2, a3⟩, ⟨b1, b2, b3⟩, ⟨c1, c2, c3⟩⟩ := m
  obtain ⟨x, y, z⟩ := v
  apply P3.ext' <;> simp only [vecMul, mulVec, dot, M3.transpose, M3.col0, M3.col1, M3.col2] <;> ring

/-- `CoordinateSystem.convert_from_gcs` is `from_gcs` with the basis vectors as rows -/
theorem cs_fromGcs_eq (cs : CS K) (p : P3 K) : cs.fromGcs p = fromGcs p cs.rows cs.origin := by
  simp only [CS.fromGcs, fromGcs, vecMul_transpose]

theorem cs_toGcs_eq (cs : CS K) (c : P3 K) : cs.toGcs c = toGcs c cs.rows cs.origin := rfl

/-- `convert_to_gcs ∘ convert_from_gcs = id` when the columns of `rows` are orthonormal -/
theorem cs_from_to (cs : CS K) (p : P3 K) (h' : Orthonormal cs.rows.transpose) :
    cs.toGcs (cs.fromGcs p) = p := by
  rw [cs_fromGcs_eq]; exact to_from_gcs_of_cols p cs.origin cs.rows h'

/-- `convert_from_gcs ∘ convert_to_gcs = id` when `(î, ĵ, î × ĵ)` is orthonormal -/
theorem cs_to_from (cs : CS K) (c : P3 K) (h : Orthonormal cs.rows) :
    cs.fromGcs (cs.toGcs c) = c := by
  rw [cs_fromGcs_eq]; exact from_to_gcs c cs.origin cs.rows h

/-- both directions for a coordinate system with orthonormal `î, ĵ` -/
theorem cs_inverse_of_unit (cs : CS K) (hi : dot cs.i cs.i = 1) (hj : dot cs.j cs.j = 1)
    (hij : dot cs.i cs.j = 0) :
    (∀ p, cs.toGcs (cs.fromGcs p) = p) ∧ (∀ c, cs.fromGcs (cs.toGcs c) = c) :=
  have h := cs_khat_orthonormal cs hi hj hij
  ⟨fun p => cs_from_to cs p (orthonormal_transpose _ h), fun c => cs_to_from cs c h⟩

/-! ### `CoordinateSystem.translate` / `rotate` -/

theorem cs_translate_basis (cs : CS K) (v : P3 K) :
    (cs.translate v).i = cs.i ∧ (cs.translate v).j = cs.j ∧ (cs.translate v).origin = vadd cs.origin v :=
  ⟨rfl, rfl, rfl⟩

/-- rotating a coordinate system rotates its basis vectors by `r` (whatever the centre) -/
theorem cs_rotate_basis (cs : CS K) (r : M3 K) (centre : Option (P3 K)) :
    (cs.rotate r centre).i = mulVec r cs.i ∧ (cs.rotate r centre).j = mulVec r cs.j ∧
    (cs.rotate r centre).origin = rotate cs.origin r centre := by
  refine ⟨?_, ?_, rfl⟩
  · show vsub (rotate (vadd cs.origin cs.i) r centre) (rotate cs.origin r centre) = _
    rw [rotate_vsub, vadd_vsub_left]
  · show vsub (rotate (vadd cs.origin cs.j) r centre) (rotate cs.origin r centre) = _
    rw [rotate_vsub, vadd_vsub_left]

/-- a rotated coordinate system keeps orthonormal `î, ĵ` when the columns of `r` are orthonormal -/
theorem cs_rotate_unit (cs : CS K) (r : M3 K) (centre : Option (P3 K)) (h' : Orthonormal r.transpose)
    (hi : dot cs.i cs.i = 1) (hj : dot cs.j cs.j = 1) (hij : dot cs.i cs.j = 0) :
    dot (cs.rotate r centre).i (cs.rotate r centre).i = 1 ∧
    dot (cs.rotate r centre).j (cs.rotate r centre).j = 1 ∧
    dot (cs.rotate r centre).i (cs.rotate r centre).j = 0 := by
  obtain ⟨ei, ej, -⟩ := cs_rotate_basis cs r centre
  rw [ei, ej, dot_mulVec _ _ _ h', dot_mulVec _ _ _ h', dot_mulVec _ _ _ h']
  exact ⟨hi, hj, hij⟩

/-! ## 2. rotation matrices are proper -/

/-- determinant of a 3×3 matrix: the triple product of its rows -/
def det (m : M3 K) : K := dot m.r0 (cross m.r1 m.r2)

/-- the axis rotation matrices have determinant one whenever `c² + s² = 1` -/
theorem rotX_det (c s : K) (h : c * c + s * s = 1) : det (rotX 0 1 c s) = 1 := by
  simp only [det, rotX, dot, cross]; linear_combination h
theorem rotY_det (c s : K) (h : c * c + s * s = 1) : det (rotY 0 1 c s) = 1 := by
  simp only [det, rotY, dot, cross]; linear_combination h
theorem rotZ_det (c s : K) (h : c * c + s * s = 1) : det (rotZ 0 1 c s) = 1 := by
  simp only [det, rotZ, dot, cross]; linear_combination h

/-- the determinant is multiplicative -/
theorem det_mmul (a b : M3 K) : det (mmul a b) = det a * det b := by
  obtain ⟨⟨a1, a2, a3⟩, ⟨b1, b2, b3⟩, ⟨c1, c2, c3⟩⟩ := a
  obtain ⟨⟨d1, d2, d3⟩, ⟨e1, e2, e3⟩, ⟨f1, f2, f3⟩⟩ := b
  simp only [det, mmul, vecMul, dot, cross, M3.col0, M3.col1, M3.col2]; ring

theorem det_transpose (a : M3 K) : det a.transpose = det a := by
  obtain ⟨⟨a1, a2, a3⟩, ⟨b1, b2, b3⟩, ⟨c1, c2, c3⟩⟩ := a
  simp only [det, dot, cross, M3.transpose, M3.col0, M3.col1, M3.col2]; ring

theorem transpose_mmul (a b : M3 K) : (mmul a b).transpose = mmul b.transpose a.transpose := by
  obtain ⟨⟨a1, a2, a3⟩, ⟨b1, b2, b3⟩, ⟨c1, c2, c3⟩⟩ := a
  obtain ⟨⟨d1, d2, d3⟩, ⟨e1, e2, e3⟩, ⟨f1, f2, f3⟩⟩ := b
  simp only [mmul, vecMul, dot, M3.transpose, M3.col0, M3.col1, M3.col2, M3.mk.injEq, P3.mk.injEq]
  refine ⟨⟨?_, ?_, ?_⟩, ⟨?_, ?_, ?_⟩, ⟨?_, ?_, ?_⟩⟩ <;> ring

/-- a product of matrices with orthonormal rows has orthonormal rows -/
theorem mmul_orthonormal_rows (a b : M3 K) (ha : Orthonormal a) (hb : Orthonormal b) :
    Orthonormal (mmul a b) := by
  obtain ⟨p0, p1, p2, p01, p02, p12⟩ := ha
  obtain ⟨n0, n1, n2, o01, o02, o12⟩ := hb
  obtain ⟨⟨a1, a2, a3⟩, ⟨b1, b2, b3⟩, ⟨c1, c2, c3⟩⟩ := a
  obtain ⟨⟨d1, d2, d3⟩, ⟨e1, e2, e3⟩, ⟨f1, f2, f3⟩⟩ := b
  simp only [dot] at p0 p1 p2 p01 p02 p12 n0 n1 n2 o01 o02 o12
  constructor <;> simp only [mmul, vecMul, dot, M3.col0, M3.col1, M3.col2]
  · linear_combination a1 * a1 * n0 + a2 * a2 * n1 + a3 * a3 * n2 + (a1 * a2 + a2 * a1) * o01
      + (a1 * a3 + a3 * a1) * o02 + (a2 * a3 + a3 * a2) * o12 + p0
  · linear_combination b1 * b1 * n0 + b2 * b2 * n1 + b3 * b3 * n2 + (b1 * b2 + b2 * b1) * o01
      + (b1 * b3 + b3 * b1) * o02 + (b2 * b3 + b3 * b2) * o12 + p1
  · linear_combination c1 * c1 * n0 + c2 * c2 * n1 + c3 * c3 * n2 + (c1 * c2 + c2 * c1) * o01
      + (c1 * c3 + c3 * c1) * o02 + (c2 * c3 + c3 * c2) * o12 + p2
  · linear_combination a1 * b1 * n0 + a2 * b2 * n1 + a3 * b3 * n2 + (a1 * b2 + a2 * b1) * o01
      + (a1 * b3 + a3 * b1) * o02 + (a2 * b3 + a3 * b2) * o12 + p01
  · linear_combination a1 * c1 * n0 + a2 * c2 * n1 + a3 * c3 * n2 + (a1 * c2 + a2 * c1) * o01
      + (a1 * c3 + a3 * c1) * o02 + (a2 * c3 + a3 * c2) * o12 + p02
  · linear_combination b1 * c1 * n0 + b2 * c2 * n1 + b3 * c3 * n2 + (b1 * c2 + b2 * c1) * o01
      + (b1 * c3 + b3 * c1) * o02 + (b2 * c3 + b3 * c2) * o12 + p12

/-- a product of matrices with orthonormal rows and columns has orthonormal rows and columns -/
theorem mmul_orthonormal (a b : M3 K) (ha : Orthonormal a) (ha' : Orthonormal a.transpose)
    (hb : Orthonormal b) (hb' : Orthonormal b.transpose) :
    Orthonormal (mmul a b) ∧ Orthonormal (mmul a b).transpose := by
  refine ⟨mmul_orthonormal_rows a b ha hb, ?_⟩
  rw [transpose_mmul]
  exact mmul_orthonormal_rows _ _ hb' ha'

/-- yaw–pitch–roll matrix built from any three (cos, sin) pairs on the unit circle is a proper
    rotation -/
theorem rotYpr_proper (cy sy cp sp cr sr : K) (hy : cy * cy + sy * sy = 1)
    (hp : cp * cp + sp * sp = 1) (hr : cr * cr + sr * sr = 1) :
    Orthonormal (rotYpr 0 1 cy sy cp sp cr sr) ∧ det (rotYpr 0 1 cy sy cp sp cr sr) = 1 := by
  unfold rotYpr
  refine ⟨mmul_orthonormal_rows _ _ (mmul_orthonormal_rows _ _ (rotZ_orthonormal cy sy hy)
    (rotY_orthonormal cp sp hp)) (rotX_orthonormal cr sr hr), ?_⟩
  rw [det_mmul, det_mmul, rotZ_det _ _ hy, rotY_det _ _ hp, rotX_det _ _ hr]; ring

theorem rotYpr_orthonormal_cols (cy sy cp sp cr sr : K) (hy : cy * cy + sy * sy = 1)
    (hp : cp * cp + sp * sp = 1) (hr : cr * cr + sr * sr = 1) :
    Orthonormal (rotYpr 0 1 cy sy cp sp cr sr).transpose :=
  orthonormal_transpose _ (rotYpr_proper cy sy cp sp cr sr hy hp hr).1

/-- for a proper rotation every row is the cross product of the other two (the matrix equals its
    cofactor matrix) -/
theorem proper_rows (m : M3 K) (h : Orthonormal m) (hd : det m = 1) :
    cross m.r1 m.r2 = m.r0 ∧ cross m.r2 m.r0 = m.r1 ∧ cross m.r0 m.r1 = m.r2 := by
  obtain ⟨n0, n1, n2, o01, o02, o12⟩ := orthonormal_transpose m h
  obtain ⟨⟨a1, a2, a3⟩, ⟨b1, b2, b3⟩, ⟨c1, c2, c3⟩⟩ := m
  simp only [dot, M3.transpose, M3.col0, M3.col1, M3.col2] at n0 n1 n2 o01 o02 o12
  simp only [det, dot, cross] at hd
  refine ⟨?_, ?_, ?_⟩ <;> apply P3.ext' <;> simp only [cross]
  · linear_combination (-(b2 * c3 - b3 * c2)) * n0 - (b3 * c1 - b1 * c3) * o01 - (b1 * c2 - b2 * c1) * o02 + a1 * hd
  · linear_combination (-(b2 * c3 - b3 * c2)) * o01 - (b3 * c1 - b1 * c3) * n1 - (b1 * c2 - b2 * c1) * o12 + a2 * hd
  · linear_combination (-(b2 * c3 - b3 * c2)) * o02 - (b3 * c1 - b1 * c3) * o12 - (b1 * c2 - b2 * c1) * n2 + a3 * hd
  · linear_combination (-(c2 * a3 - c3 * a2)) * n0 - (c3 * a1 - c1 * a3) * o01 - (c1 * a2 - c2 * a1) * o02 + b1 * hd
  · linear_combination (-(c2 * a3 - c3 * a2)) * o01 - (c3 * a1 - c1 * a3) * n1 - (c1 * a2 - c2 * a1) * o12 + b2 * hd
  · linear_combination (-(c2 * a3 - c3 * a2)) * o02 - (c3 * a1 - c1 * a3) * o12 - (c1 * a2 - c2 * a1) * n2 + b3 * hd
  · linear_combination (-(a2 * b3 - a3 * b2)) * n0 - (a3 * b1 - a1 * b3) * o01 - (a1 * b2 - a2 * b1) * o02 + c1 * hd
  · linear_combination (-(a2 * b3 - a3 * b2)) * o01 - (a3 * b1 - a1 * b3) * n1 - (a1 * b2 - a2 * b1) * o12 + c2 * hd
  · linear_combination (-(a2 * b3 - a3 * b2)) * o02 - (a3 * b1 - a1 * b3) * o12 - (a1 * b2 - a2 * b1) * n2 + c3 * hd

/-- proper rotations preserve the cross product -/
theorem cross_rotate (m : M3 K) (a b : P3 K) (h : Orthonormal m) (hd : det m = 1) :
    mulVec m (cross a b) = cross (mulVec m a) (mulVec m b) := by
  obtain ⟨e0, e1, e2⟩ := proper_rows m h hd
  obtain ⟨⟨a1, a2, a3⟩, ⟨b1, b2, b3⟩, ⟨c1, c2, c3⟩⟩ := m
  obtain ⟨x, y, z⟩ := a
  obtain ⟨x', y', z'⟩ := b
  simp only [cross, P3.mk.injEq] at e0 e1 e2
  obtain ⟨e0x, e0y, e0z⟩ := e0
  obtain ⟨e1x, e1y, e1z⟩ := e1
  obtain ⟨e2x, e2y, e2z⟩ := e2
  apply P3.ext' <;> simp only [mulVec, cross, dot]
  · linear_combination (-(y * z' - z * y')) * e0x - (z * x' - x * z') * e0y - (x * y' - y * x') * e0z
  · linear_combination (-(y * z' - z * y')) * e1x - (z * x' - x * z') * e1y - (x * y' - y * x') * e1z
  · linear_combination (-(y * z' - z * y')) * e2x - (z * x' - x * z') * e2y - (x * y' - y * x') * e2z

/-! ## 3. `direct_isometry_3d` -/

/-- a right-handed orthonormal frame has determinant one -/
theorem frame_det (i j : P3 K) (hi : dot i i = 1) (hj : dot j j = 1) (hij : dot i j = 0) :
    det ⟨i, j, cross i j⟩ = 1 := by
  have e : det ⟨i, j, cross i j⟩ = dot (cross i j) (cross i j) := by
    simp only [det, dot, cross]; ring
  rw [e, cross_nsq, hi, hj, hij]; ring

theorem mulVec_mmul (a b : M3 K) (v : P3 K) : mulVec (mmul a b) v = mulVec a (mulVec b v) := by
  obtain ⟨⟨a1, a2, a3⟩, ⟨b1, b2, b3⟩, ⟨c1, c2, c3⟩⟩ := a
  obtain ⟨⟨d1, d2, d3⟩, ⟨e1, e2, e3⟩, ⟨f1, f2, f3⟩⟩ := b
  obtain ⟨x, y, z⟩ := v
  apply P3.ext' <;> simp only [mmul, mulVec, vecMul, dot, M3.col0, M3.col1, M3.col2] <;> ring

/-- `direct_isometry_3d` returns the proper rotation `M` and translation `P` with
    `M î = û`, `M ĵ = v̂`, `M (î × ĵ) = û × v̂`, `M A + P = B`. -/
theorem isometry3d_spec (a i j b u v : P3 K)
    (hi : dot i i = 1) (hj : dot j j = 1) (hij : dot i j = 0)
    (hu : dot u u = 1) (hv : dot v v = 1) (huv : dot u v = 0) :
    let mp := isometry3d a i j b u v
    mulVec mp.1 i = u ∧ mulVec mp.1 j = v ∧ mulVec mp.1 (cross i j) = cross u v ∧
    vadd (mulVec mp.1 a) mp.2 = b ∧ Orthonormal mp.1 ∧ det mp.1 = 1 := by
  intro mp
  have hdep := frame_orthonormal i j hi hj hij
  have harr := frame_orthonormal u v hu hv huv
  have hm : mp.1 = mmul (M3.transpose ⟨u, v, cross u v⟩) ⟨i, j, cross i j⟩ := rfl
  have hp : mp.2 = vsub b (mulVec mp.1 a) := rfl
  have hkk : dot (cross i j) (cross i j) = 1 := hdep.n2
  have hik : dot (cross i j) i = 0 := by simp only [dot, cross]; ring
  have hjk : dot (cross i j) j = 0 := by simp only [dot, cross]; ring
  have hji : dot j i = 0 := by rw [← hij]; simp only [dot]; ring
  have key : ∀ x : P3 K, mulVec mp.1 x =
      ⟨u.x * dot i x + v.x * dot j x + (cross u v).x * dot (cross i j) x,
       u.y * dot i x + v.y * dot j x + (cross u v).y * dot (cross i j) x,
       u.z * dot i x + v.z * dot j x + (cross u v).z * dot (cross i j) x⟩ := by
    intro x
    rw [hm]
    apply P3.ext' <;>
      simp only [mmul, mulVec, vecMul, dot, M3.transpose, M3.col0, M3.col1, M3.col2] <;> ring
  refine ⟨?_, ?_, ?_, ?_, ?_, ?_⟩
  · rw [key, hi, hji, hik]; apply P3.ext' <;> simp
  · rw [key, hij, hj, hjk]; apply P3.ext' <;> simp
  · rw [key, dot_cross_left, dot_cross_right, hkk]; apply P3.ext' <;> simp
  · rw [hp]; apply P3.ext' <;> simp only [vadd, vsub] <;> ring
  · rw [hm]; exact mmul_orthonormal_rows _ _ (orthonormal_transpose _ harr) hdep
  · rw [hm, det_mmul, det_transpose, frame_det u v hu hv huv, frame_det i j hi hj hij]; ring

end algebra

/-! ## 4. grids -/

section box
variable {α : Type} [LE α] [DecidableLE α]

/-- `points_in_rectbox`: inclusive bounds; an absent bound imposes nothing -/
theorem rectbox_iff (p : P3 α) (xmin xmax ymin ymax zmin zmax : Option α) :
    inRectbox p xmin xmax ymin ymax zmin zmax = true ↔
      (∀ b, xmin = some b → b ≤ p.x) ∧ (∀ b, xmax = some b → p.x ≤ b) ∧
      (∀ b, ymin = some b → b ≤ p.y) ∧ (∀ b, ymax = some b → p.y ≤ b) ∧
      (∀ b, zmin = some b → b ≤ p.z) ∧ (∀ b, zmax = some b → p.z ≤ b) := by
  have key : ∀ (o : Option α) (q : α → Prop) [DecidablePred q],
      (o.all (fun b => decide (q b)) = true) ↔ ∀ b, o = some b → q b := by
    intro o q _
    cases o <;> simp
  simp only [inRectbox, Bool.and_eq_true, key]
  tauto
end box

section mesh
variable {α : Type}

/-- the flattened meshgrid has `nx * ny * nz` points -/
theorem gridPoints_length (xs ys zs : List α) :
    (gridPoints xs ys zs).length = xs.length * ys.length * zs.length := by
  unfold gridPoints
  rw [flatMap_uniform_length _ (ys.length * zs.length), Nat.mul_assoc]
  intro x
  rw [flatMap_uniform_length _ zs.length]
  intro y; simp

/-- documented x-major (C order, `indexing="ij"`) flattening of the grid -/
theorem gridPoints_order (xs ys zs : List α) (ix iy iz : Nat)
    (hx : ix < xs.length) (hy : iy < ys.length) (hz : iz < zs.length) :
    (gridPoints xs ys zs)[(ix * ys.length + iy) * zs.length + iz]? = some ⟨xs[ix], ys[iy], zs[iz]⟩ := by
  unfold gridPoints
  have h1 : ∀ (x : α) (y : α), (zs.map (fun z => (⟨x, y, z⟩ : P3 α))).length = zs.length := by
    intro x y; simp
  have h2 : ∀ x : α, (ys.flatMap (fun y => zs.map (fun z => (⟨x, y, z⟩ : P3 α)))).length
      = ys.length * zs.length := fun x => flatMap_uniform_length _ _ (h1 x) ys
  have e : (ix * ys.length + iy) * zs.length + iz = ix * (ys.length * zs.length) + (iy * zs.length + iz) := by
    rw [Nat.add_mul, Nat.mul_assoc, Nat.add_assoc]
  have hlt : iy * zs.length + iz < ys.length * zs.length := by
    calc iy * zs.length + iz < iy * zs.length + zs.length := by omega
      _ = (iy + 1) * zs.length := by rw [Nat.succ_mul]
      _ ≤ ys.length * zs.length := Nat.mul_le_mul_right _ hy
  rw [e, flatMap_uniform_getElem? _ _ h2 xs ix _ hx hlt,
    flatMap_uniform_getElem? _ _ (h1 _) ys iy iz hy hz]
  simp [hz]
end mesh

section grids
variable {K : Type} [Field K]

/-- `np.linspace(a, b, n)` has `n` samples -/
theorem linspace_length (a b : K) (n : Nat) : (linspace (fun n : ℕ => (n : K)) a b n).length = n := by
  unfold linspace
  split_ifs with h0 h1
  · simp [h0]
  · simp [h1]
  · simp

theorem linspace_one (a b : K) : linspace (fun n : ℕ => (n : K)) a b 1 = [a] := by
  simp [linspace]

theorem linspace_zero (a b : K) : linspace (fun n : ℕ => (n : K)) a b 0 = [] := by
  simp [linspace]

variable [LinearOrder K] [IsStrictOrderedRing K]

/-- evenly spaced -/
theorem linspace_even (a b : K) (n k : Nat) (hn : 2 ≤ n) (hk : k < n) :
    (linspace (fun n : ℕ => (n : K)) a b n)[k]? = some (a + k * (b - a) / ((n : K) - 1)) := by
  have h0 : n ≠ 0 := by omega
  have h1 : n ≠ 1 := by omega
  have hc : ((n - 1 : ℕ) : K) = (n : K) - 1 := by
    rw [Nat.cast_sub (by omega)]; simp
  have hne : (n : K) - 1 ≠ 0 := by
    rw [← hc]; exact Nat.cast_ne_zero.mpr (by omega)
  unfold linspace
  simp only [if_neg h0, if_neg h1, List.getElem?_map, List.getElem?_range hk, Option.map_some]
  congr 1
  split_ifs with hkn
  · rw [hkn, hc]; field_simp; ring
  · rw [hc]; field_simp; ring

/-- for `n ≥ 2` the first sample is `a` -/
theorem linspace_first (a b : K) (n : Nat) (hn : 2 ≤ n) :
    (linspace (fun n : ℕ => (n : K)) a b n).head? = some a := by
  rw [List.head?_eq_getElem?, linspace_even a b n 0 hn (by omega)]
  simp

/-- for `n ≥ 2` the last sample is `b` -/
theorem linspace_last (a b : K) (n : Nat) (hn : 2 ≤ n) :
    (linspace (fun n : ℕ => (n : K)) a b n).getLast? = some b := by
  rw [List.getLast?_eq_getElem?, linspace_length, linspace_even a b n (n - 1) hn (by omega)]
  have hc : ((n - 1 : ℕ) : K) = (n : K) - 1 := by
    rw [Nat.cast_sub (by omega)]; simp
  have hne : (n : K) - 1 ≠ 0 := by
    rw [← hc]; exact Nat.cast_ne_zero.mpr (by omega)
  rw [hc]; congr 1; field_simp; ring

variable [FloorRing K]

/-- round half to even (Python `round`) -/
def roundHalfEven (x : K) : Int :=
  let f := ⌊x⌋
  let d := x - f
  if d < 1/2 then f else if 1/2 < d then f + 1 else if f % 2 = 0 then f else f + 1

/-- round-half-even is within `1/2` of its argument -/
theorem roundHalfEven_near (x : K) : |((roundHalfEven x : ℤ) : K) - x| ≤ 1/2 := by
  have h1 := Int.floor_le x
  have h2 := Int.lt_floor_add_one x
  unfold roundHalfEven
  simp only
  rw [abs_le]
  split_ifs with c1 c2 c3
  · constructor <;> linarith
  · push_cast; constructor <;> linarith
  · have : x - ⌊x⌋ = 1/2 := le_antisymm (not_lt.mp c2) (not_lt.mp c1)
    constructor <;> linarith
  · have : x - ⌊x⌋ = 1/2 := le_antisymm (not_lt.mp c2) (not_lt.mp c1)
    push_cast; constructor <;> linarith

omit [IsStrictOrderedRing K] in
theorem floor_le_roundHalfEven (x : K) : ⌊x⌋ ≤ roundHalfEven x := by
  unfold roundHalfEven
  simp only
  split_ifs <;> omega

/-- anything `≥ 3/2` rounds (half to even) to at least 2 -/
theorem two_le_roundHalfEven (x : K) (hx : 3 / 2 ≤ x) : 2 ≤ roundHalfEven x := by
  have h1 : (1 : ℤ) ≤ ⌊x⌋ := by rw [Int.le_floor]; push_cast; linarith
  unfold roundHalfEven
  simp only
  by_cases h2 : 2 ≤ ⌊x⌋
  · split_ifs <;> omega
  · have hf : ⌊x⌋ = 1 := by omega
    have hd : ¬ (x - ((⌊x⌋ : ℤ) : K) < 1 / 2) := by rw [hf]; push_cast; linarith
    rw [if_neg hd]; split_ifs <;> omega

/-- anything in `[1, 3/2)` rounds to 1 -/
theorem roundHalfEven_eq_one (x : K) (h1 : 1 ≤ x) (h2 : x < 3 / 2) : roundHalfEven x = 1 := by
  have hf : ⌊x⌋ = 1 := by
    rw [Int.floor_eq_iff]; push_cast; constructor <;> linarith
  unfold roundHalfEven
  simp only
  have hd : x - ((⌊x⌋ : ℤ) : K) < 1 / 2 := by rw [hf]; push_cast; linarith
  rw [if_pos hd, hf]

/-- the number of points is the nearest integer to `(hi - lo)/d + 1` (for every positive pixel) -/
theorem axisNum_near (lo hi d : K) (hlh : lo ≤ hi) (hd : 0 < d) :
    |((axisNum roundHalfEven (fun x : K => |x|) lo hi d : ℕ) : K) - ((hi - lo) / d + 1)| ≤ 1 / 2 := by
  simp only [axisNum]
  have hx : (|hi - lo| + d) / d = (hi - lo) / d + 1 := by
    rw [abs_of_nonneg (by linarith)]; field_simp
  have h1 : (1 : K) ≤ (|hi - lo| + d) / d := by
    rw [hx]; have : 0 ≤ (hi - lo) / d := div_nonneg (by linarith) hd.le
    linarith
  have hf : (1 : ℤ) ≤ ⌊(|hi - lo| + d) / d⌋ := by
    rw [Int.le_floor]; exact_mod_cast h1
  have hnn : 0 ≤ roundHalfEven ((|hi - lo| + d) / d) := by
    have := floor_le_roundHalfEven ((|hi - lo| + d) / d); omega
  have hcast : (((roundHalfEven ((|hi - lo| + d) / d)).toNat : ℕ) : K)
      = ((roundHalfEven ((|hi - lo| + d) / d) : ℤ) : K) := by
    rw [← Int.cast_natCast, Int.toNat_of_nonneg hnn]
  rw [hcast, ← hx]
  exact roundHalfEven_near _

/-- at least two points as soon as the pixel is at most twice the extent -/
theorem axisNum_ge_two_wide (lo hi d : K) (hlh : lo < hi) (hd : 0 < d) (hd' : d ≤ 2 * (hi - lo)) :
    2 ≤ axisNum roundHalfEven (fun x : K => |x|) lo hi d := by
  simp only [axisNum]
  have hx : (3 / 2 : K) ≤ (|hi - lo| + d) / d := by
    rw [abs_of_pos (by linarith), le_div_iff₀ hd]; linarith
  have := two_le_roundHalfEven _ hx
  omega

/-- at least two points when the pixel is at most the extent -/
theorem axisNum_ge_two (lo hi d : K) (hlh : lo < hi) (hd : 0 < d) (hd' : d ≤ hi - lo) :
    2 ≤ axisNum roundHalfEven (fun x : K => |x|) lo hi d :=
  axisNum_ge_two_wide lo hi d hlh hd (by linarith)

/-- number of points of a grid axis: nearest integer to `(hi - lo)/d + 1`, and at least 2 -/
theorem axisNum_nearest (lo hi d : K) (hlh : lo < hi) (hd : 0 < d) (hd' : d ≤ hi - lo) :
    |((axisNum roundHalfEven (fun x : K => |x|) lo hi d : ℕ) : K) - ((hi - lo) / d + 1)| ≤ 1 / 2
    ∧ 2 ≤ axisNum roundHalfEven (fun x : K => |x|) lo hi d :=
  ⟨axisNum_near lo hi d hlh.le hd, axisNum_ge_two lo hi d hlh hd hd'⟩

/-- both bounds are grid points as soon as the pixel is at most twice the extent -/
theorem gridAxis_bounds_wide (lo hi d : K) (hlh : lo < hi) (hd : 0 < d) (hd' : d ≤ 2 * (hi - lo)) :
    (gridAxis (fun n : ℕ => (n : K)) roundHalfEven (fun x : K => |x|) lo hi d).head? = some lo ∧
    (gridAxis (fun n : ℕ => (n : K)) roundHalfEven (fun x : K => |x|) lo hi d).getLast? = some hi := by
  unfold gridAxis
  rw [if_neg (ne_of_lt hlh)]
  exact ⟨linspace_first _ _ _ (axisNum_ge_two_wide lo hi d hlh hd hd'),
    linspace_last _ _ _ (axisNum_ge_two_wide lo hi d hlh hd hd')⟩

/-- both bounds are grid points (first and last) -/
theorem gridAxis_bounds (lo hi d : K) (hlh : lo < hi) (hd : 0 < d) (hd' : d ≤ hi - lo) :
    (gridAxis (fun n : ℕ => (n : K)) roundHalfEven (fun x : K => |x|) lo hi d).head? = some lo ∧
    (gridAxis (fun n : ℕ => (n : K)) roundHalfEven (fun x : K => |x|) lo hi d).getLast? = some hi :=
  gridAxis_bounds_wide lo hi d hlh hd (by linarith)

/-- **the hypothesis on the pixel size is necessary**: when the pixel is more than twice the
    extent the axis degenerates to the single point `lo` and the upper bound `hi` is *not* a grid
    point -/
theorem gridAxis_coarse (lo hi d : K) (hlh : lo < hi) (hd' : 2 * (hi - lo) < d) :
    gridAxis (fun n : ℕ => (n : K)) roundHalfEven (fun x : K => |x|) lo hi d = [lo] := by
  have hd : 0 < d := by linarith
  have hx1 : (1 : K) ≤ (|hi - lo| + d) / d := by
    rw [abs_of_pos (by linarith), le_div_iff₀ hd]; linarith
  have hx2 : (|hi - lo| + d) / d < 3 / 2 := by
    rw [abs_of_pos (by linarith), div_lt_iff₀ hd]; linarith
  have hn : axisNum roundHalfEven (fun x : K => |x|) lo hi d = 1 := by
    simp only [axisNum]; rw [roundHalfEven_eq_one _ hx1 hx2]; rfl
  unfold gridAxis
  rw [if_neg (ne_of_lt hlh), hn, linspace_one]

omit [IsStrictOrderedRing K] in
/-- a degenerate axis (`lo = hi`) is the single value `lo` -/
theorem gridAxis_degenerate (lo d : K) :
    gridAxis (fun n : ℕ => (n : K)) roundHalfEven (fun x : K => |x|) lo lo d = [lo] := by
  simp [gridAxis]

omit [IsStrictOrderedRing K] in
/-- `ceil(size/pixel + 1) | 1` is odd -/
theorem centredNum_odd (size pixel : K) : centredNum Int.ceil 1 size pixel % 2 = 1 := by
  unfold centredNum
  simp only
  split_ifs with h
  · exact h
  · omega

omit [IsStrictOrderedRing K] in
/-- and at least the ceiling (no sign hypothesis needed) -/
theorem centredNum_ge (size pixel : K) :
    ⌈size / pixel + 1⌉ ≤ (centredNum Int.ceil 1 size pixel : ℤ) := by
  unfold centredNum
  simp only
  have := Int.self_le_toNat ⌈size / pixel + 1⌉
  split_ifs with h
  · exact this
  · push_cast; omega

omit [IsStrictOrderedRing K] in
/-- it is the *smallest* odd natural number that is ≥ the ceiling -/
theorem centredNum_least (size pixel : K) (m : ℕ) (hm : m % 2 = 1) (h : ⌈size / pixel + 1⌉ ≤ (m : ℤ)) :
    centredNum Int.ceil 1 size pixel ≤ m := by
  unfold centredNum
  simp only
  have h1 : ⌈size / pixel + 1⌉.toNat ≤ m := by omega
  split_ifs with h2
  · exact h1
  · omega

/-- hence, as a number, it is at least `size / pixel + 1` -/
theorem centredNum_ge_cast (size pixel : K) :
    size / pixel + 1 ≤ (centredNum Int.ceil 1 size pixel : K) := by
  have h1 := centredNum_ge size pixel
  have h2 : size / pixel + 1 ≤ ((⌈size / pixel + 1⌉ : ℤ) : K) := Int.le_ceil _
  have h3 : ((⌈size / pixel + 1⌉ : ℤ) : K) ≤ ((centredNum Int.ceil 1 size pixel : ℤ) : K) := by
    exact_mod_cast h1
  calc size / pixel + 1 ≤ _ := h2
    _ ≤ _ := h3
    _ = _ := by push_cast; rfl
end grids

/-! ## 5. spherical coordinates -/

/-- spherical coordinates `(r, θ, φ)` (ISO convention: polar angle from `z`, azimuth by atan2)
    invert back to the Cartesian point -/
theorem spherical_inverse (x y z : ℝ) (hr : 0 < Real.sqrt (x ^ 2 + y ^ 2 + z ^ 2)) :
    let r := Real.sqrt (x ^ 2 + y ^ 2 + z ^ 2)
    let θ := Real.arccos (z / r)
    let φ := Complex.arg ⟨x, y⟩
    (0 ≤ θ ∧ θ ≤ Real.pi) ∧ (-Real.pi < φ ∧ φ ≤ Real.pi) ∧
    r * Real.sin θ * Real.cos φ = x ∧ r * Real.sin θ * Real.sin φ = y ∧ r * Real.cos θ = z := by
  intro r θ φ
  have hr' : 0 < r := hr
  have hS : 0 ≤ x ^ 2 + y ^ 2 + z ^ 2 := by positivity
  have hrr : r ^ 2 = x ^ 2 + y ^ 2 + z ^ 2 := Real.sq_sqrt hS
  have hzr : z ^ 2 ≤ r ^ 2 := by rw [hrr]; nlinarith [sq_nonneg x, sq_nonneg y]
  have habs : |z| ≤ r := by
    rw [← abs_of_pos hr']; exact sq_le_sq.mp hzr
  have hz1 : -1 ≤ z / r := by
    rw [le_div_iff₀ hr']; have := neg_abs_le z; linarith
  have hz2 : z / r ≤ 1 := by
    rw [div_le_iff₀ hr']; have := le_abs_self z; linarith
  have hcos : Real.cos θ = z / r := Real.cos_arccos hz1 hz2
  set ρ := Real.sqrt (x ^ 2 + y ^ 2) with hρ
  have hρ0 : 0 ≤ ρ := Real.sqrt_nonneg _
  have hρρ : ρ ^ 2 = x ^ 2 + y ^ 2 := Real.sq_sqrt (by positivity)
  have hsin : r * Real.sin θ = ρ := by
    have h1 : Real.sin θ = Real.sqrt (1 - (z / r) ^ 2) := Real.sin_arccos _
    have h2 : 1 - (z / r) ^ 2 = (x ^ 2 + y ^ 2) / r ^ 2 := by
      have hr2 : r ^ 2 ≠ 0 := by positivity
      rw [div_pow, eq_div_iff hr2, sub_mul, div_mul_cancel₀ _ hr2]; linarith [hrr]
    rw [h1, h2, Real.sqrt_div (by positivity), Real.sqrt_sq hr'.le, ← hρ]
    field_simp
  have hnorm : ‖(⟨x, y⟩ : ℂ)‖ = ρ := by
    rw [Complex.norm_def, Complex.normSq_mk, hρ]; congr 1; ring
  refine ⟨⟨Real.arccos_nonneg _, Real.arccos_le_pi _⟩, ⟨(Complex.arg_mem_Ioc _).1, (Complex.arg_mem_Ioc _).2⟩,
    ?_, ?_, ?_⟩
  · rw [hsin]
    by_cases h0 : ρ = 0
    · have : x ^ 2 + y ^ 2 = 0 := by rw [← hρρ, h0]; ring
      have hx : x = 0 := by nlinarith [sq_nonneg x, sq_nonneg y]
      rw [h0, hx]; ring
    · have hne : (⟨x, y⟩ : ℂ) ≠ 0 := by
        intro h; apply h0; rw [← hnorm, h, norm_zero]
      show ρ * Real.cos (Complex.arg ⟨x, y⟩) = x
      rw [Complex.cos_arg hne, hnorm]; field_simp
  · rw [hsin]
    show ρ * Real.sin (Complex.arg ⟨x, y⟩) = y
    rw [Complex.sin_arg, hnorm]
    by_cases h0 : ρ = 0
    · have : x ^ 2 + y ^ 2 = 0 := by rw [← hρρ, h0]; ring
      have hy : y = 0 := by nlinarith [sq_nonneg x, sq_nonneg y]
      rw [h0, hy]; simp
    · show ρ * (y / ρ) = y
      field_simp
  · rw [hcos]; field_simp

/-! ### over `ℝ` -/

/-- `rotation_matrix_ypr(yaw, pitch, roll)` is a proper rotation for all real angles -/
theorem rotYpr_real_proper (y p r : ℝ) :
    Orthonormal (rotYpr 0 1 (Real.cos y) (Real.sin y) (Real.cos p) (Real.sin p) (Real.cos r) (Real.sin r))
    ∧ det (rotYpr 0 1 (Real.cos y) (Real.sin y) (Real.cos p) (Real.sin p) (Real.cos r) (Real.sin r)) = 1 := by
  have h : ∀ t : ℝ, Real.cos t * Real.cos t + Real.sin t * Real.sin t = 1 := by
    intro t; have := Real.cos_sq_add_sin_sq t; rw [sq, sq] at this; exact this
  exact rotYpr_proper _ _ _ _ _ _ (h y) (h p) (h r)

/-- hence it preserves distances and cross products -/
theorem rotYpr_real_isometry (y p r : ℝ) (c c' : P3 ℝ) (centre : Option (P3 ℝ)) :
    let m := rotYpr 0 1 (Real.cos y) (Real.sin y) (Real.cos p) (Real.sin p) (Real.cos r) (Real.sin r)
    nsq (vsub (rotate c m centre) (rotate c' m centre)) = nsq (vsub c c') ∧
    mulVec m (cross c c') = cross (mulVec m c) (mulVec m c') := by
  intro m
  obtain ⟨h, hd⟩ := rotYpr_real_proper y p r
  exact ⟨rotate_isometry' c c' m centre h, cross_rotate m c c' h hd⟩

/-! ## 6. non-vacuity: the hypotheses are satisfiable and the conclusions are the expected numbers -/

section examples

/-- a rational rotation about `z` (3-4-5 triangle) -/
def r345 : M3 ℚ := rotZ 0 1 (3/5) (4/5)

example : Orthonormal r345 ∧ Orthonormal r345.transpose ∧ det r345 = 1 :=
  have h := rotZ_orthonormal (3/5 : ℚ) (4/5) (by norm_num)
  ⟨h, orthonormal_transpose _ h, rotZ_det _ _ (by norm_num)⟩

example : toGcs (fromGcs ⟨1, 2, 3⟩ r345 ⟨7, 8, 9⟩) r345 ⟨7, 8, 9⟩ = (⟨1, 2, 3⟩ : P3 ℚ) :=
  to_from_gcs' _ _ _ (rotZ_orthonormal _ _ (by norm_num))

example : fromGcs (⟨1, 2, 3⟩ : P3 ℚ) r345 ⟨0, 0, 0⟩ = ⟨-1, 2, 3⟩ := by
  simp only [fromGcs, r345, rotZ, mulVec, vsub, dot]; norm_num

/-- a non-orthonormal basis: the inverse law fails, so the hypothesis is needed -/
example : fromGcs (toGcs (⟨1, 0, 0⟩ : P3 ℚ) ⟨⟨2, 0, 0⟩, ⟨0, 1, 0⟩, ⟨0, 0, 1⟩⟩ ⟨0, 0, 0⟩)
    ⟨⟨2, 0, 0⟩, ⟨0, 1, 0⟩, ⟨0, 0, 1⟩⟩ ⟨0, 0, 0⟩ ≠ ⟨1, 0, 0⟩ := by
  simp only [fromGcs, toGcs, mulVec, vecMul, vadd, vsub, dot, M3.col0, M3.col1, M3.col2]; norm_num

/-- the yaw–pitch–roll matrix of three 3-4-5 angles -/
example : Orthonormal (rotYpr (0 : ℚ) 1 (3/5) (4/5) (4/5) (3/5) (5/13) (12/13)) ∧
    det (rotYpr (0 : ℚ) 1 (3/5) (4/5) (4/5) (3/5) (5/13) (12/13)) = 1 :=
  rotYpr_proper _ _ _ _ _ _ (by norm_num) (by norm_num) (by norm_num)

/-- `direct_isometry_3d` from the frame `(x̂, ŷ)` at `A = (1,1,1)` to the frame `(ŷ, ẑ)` at `B = (0,0,5)` -/
example : isometry3d (⟨1, 1, 1⟩ : P3 ℚ) ⟨1, 0, 0⟩ ⟨0, 1, 0⟩ ⟨0, 0, 5⟩ ⟨0, 1, 0⟩ ⟨0, 0, 1⟩
    = (⟨⟨0, 0, 1⟩, ⟨1, 0, 0⟩, ⟨0, 1, 0⟩⟩, ⟨-1, -1, 4⟩) := by
  simp only [isometry3d, mmul, mulVec, vecMul, vsub, cross, dot, M3.transpose, M3.col0, M3.col1, M3.col2]
  norm_num

example : (linspace (fun n : ℕ => (n : ℚ)) 0 1 5) = [0, 1/4, 1/2, 3/4, 1] := by
  simp [linspace, List.range, List.range.loop]; norm_num

example : roundHalfEven (5/2 : ℚ) = 2 ∧ roundHalfEven (7/2 : ℚ) = 4 ∧ roundHalfEven (8/3 : ℚ) = 3 := by
  refine ⟨?_, ?_, ?_⟩ <;> simp only [roundHalfEven] <;> norm_num

/-- `Grid(0, 1, pixel 1/4)` has 5 points per axis -/
example : axisNum roundHalfEven (fun x : ℚ => |x|) 0 1 (1/4) = 5 := by
  simp only [axisNum, roundHalfEven]; norm_num; rfl

/-- pixel 3 on the extent `[0, 1]`: one point only, `hi = 1` is lost (see `gridAxis_coarse`) -/
example : gridAxis (fun n : ℕ => (n : ℚ)) roundHalfEven (fun x : ℚ => |x|) 0 1 3 = [0] :=
  gridAxis_coarse 0 1 3 (by norm_num) (by norm_num)

example : (gridPoints [0, 1] [2, 3] [4, 5] : List (P3 ℚ)).length = 8 := rfl
example : (gridPoints [0, 1] [2, 3] [4, 5] : List (P3 ℚ))[(1 * 2 + 0) * 2 + 1]? = some ⟨1, 2, 5⟩ := rfl

example : centredNum Int.ceil (1 : ℚ) 10 3 = 5 ∧ centredNum Int.ceil (1 : ℚ) 9 3 = 5 ∧
    centredNum Int.ceil (1 : ℚ) 12 3 = 5 ∧ centredNum Int.ceil (1 : ℚ) 13 3 = 7 := by
  refine ⟨?_, ?_, ?_, ?_⟩ <;> simp only [centredNum] <;> norm_num <;> rfl

example : inRectbox (⟨1, 2, 3⟩ : P3 ℚ) (some 1) none none (some 2) (some 0) (some 3) = true := by
  simp [inRectbox]
example : inRectbox (⟨1, 2, 3⟩ : P3 ℚ) (some 1) none none (some 2) (some 0) (some (29/10)) = false := by
  simp [inRectbox]; norm_num
example : inRectbox (⟨1, 2, 3⟩ : P3 ℚ) none none none none none none = true := rfl

end examples

/-! ## Pairwise distances of the kernel as translated from the source on this run

`Src.distance_pairwise_cell` (file `Generated/SrcC01.lean`) is the translation, for one output cell, of
`arim.geometry._distance_pairwise`; `Tie.C01.tie_distance_pairwise` identifies it with the model's `dist3`. -/
section OnSourceDistance
open Arim.Tie.C01

/-- the routines of the translated code at `K = ℝ` -/
noncomputable def srcOpsR : Src.Ops ℝ :=
  { sin := Real.sin, cos := Real.cos, asin := Real.arcsin, sqrt := Real.sqrt, exp := Real.exp, sinc := id,
    pi := Real.pi, ofNat := fun n => (n : ℝ), ofInt := fun z => (z : ℝ),
    floor := fun x => ⌊x⌋, round := fun x => round x, trunc := fun x => ⌊x⌋ }

/-- **every entry of the distance table is the Euclidean distance of its pair** (translated kernel) -/
theorem src_distance_pairwise_euclidean (x1 y1 z1 x2 y2 z2 : Nat → ℝ) (i j : Nat) :
    Src.distance_pairwise_cell srcOpsR x1 y1 z1 x2 y2 z2 i j =
      Real.sqrt ((x1 i - x2 j) ^ 2 + (y1 i - y2 j) ^ 2 + (z1 i - z2 j) ^ 2) := by
  rw [tie_distance_pairwise]
  simp only [dist3, srcOpsR]
  congr 1; ring

/-- it is symmetric in the two point sets, non-negative, and zero exactly for coinciding points -/
theorem src_distance_pairwise_metric (x1 y1 z1 x2 y2 z2 : Nat → ℝ) (i j : Nat) :
    Src.distance_pairwise_cell srcOpsR x1 y1 z1 x2 y2 z2 i j = Src.distance_pairwise_cell srcOpsR x2 y2 z2 x1 y1 z1 j i
      ∧ 0 ≤ Src.distance_pairwise_cell srcOpsR x1 y1 z1 x2 y2 z2 i j
      ∧ (Src.distance_pairwise_cell srcOpsR x1 y1 z1 x2 y2 z2 i j = 0 ↔ (x1 i = x2 j ∧ y1 i = y2 j ∧ z1 i = z2 j)) := by
  rw [src_distance_pairwise_euclidean, src_distance_pairwise_euclidean]
  refine ⟨by congr 1; ring, Real.sqrt_nonneg _, ?_⟩
  have h0 : 0 ≤ (x1 i - x2 j) ^ 2 + (y1 i - y2 j) ^ 2 + (z1 i - z2 j) ^ 2 := by positivity
  rw [Real.sqrt_eq_zero h0]
  constructor
  · intro h
    have hx : (x1 i - x2 j) ^ 2 = 0 := by nlinarith [sq_nonneg (x1 i - x2 j), sq_nonneg (y1 i - y2 j), sq_nonneg (z1 i - z2 j)]
    have hy : (y1 i - y2 j) ^ 2 = 0 := by nlinarith [sq_nonneg (x1 i - x2 j), sq_nonneg (y1 i - y2 j), sq_nonneg (z1 i - z2 j)]
    have hz : (z1 i - z2 j) ^ 2 = 0 := by nlinarith [sq_nonneg (x1 i - x2 j), sq_nonneg (y1 i - y2 j), sq_nonneg (z1 i - z2 j)]
    exact ⟨sub_eq_zero.mp (pow_eq_zero_iff (by norm_num) |>.mp hx), sub_eq_zero.mp (pow_eq_zero_iff (by norm_num) |>.mp hy),
      sub_eq_zero.mp (pow_eq_zero_iff (by norm_num) |>.mp hz)⟩
  · rintro ⟨h1, h2, h3⟩; rw [h1, h2, h3]; ring

end OnSourceDistance

/-! ## On the source: the rotation matrices as translated from `/repo/src/arim/geometry.py` on every run -/
section OnSourceRotations
open Arim.Tie.C17

private theorem cs1 (t : ℝ) : Real.cos t * Real.cos t + Real.sin t * Real.sin t = 1 := by
  have := Real.cos_sq_add_sin_sq t; rw [sq, sq] at this; exact this

/-- **`rotation_matrix_x/y/z(θ)` as written in the source are proper rotations for every real angle** -/
theorem src_rotation_matrix_x_proper (t : ℝ) :
    Orthonormal (Src.rotation_matrix_x srcOpsR t) ∧ det (Src.rotation_matrix_x srcOpsR t) = 1 := by
  rw [tie_rotation_matrix_x]
  simp only [srcOpsR, Nat.cast_zero, Nat.cast_one]
  exact ⟨rotX_orthonormal _ _ (cs1 t), rotX_det _ _ (cs1 t)⟩

theorem src_rotation_matrix_y_proper (t : ℝ) :
    Orthonormal (Src.rotation_matrix_y srcOpsR t) ∧ det (Src.rotation_matrix_y srcOpsR t) = 1 := by
  rw [tie_rotation_matrix_y]
  simp only [srcOpsR, Nat.cast_zero, Nat.cast_one]
  exact ⟨rotY_orthonormal _ _ (cs1 t), rotY_det _ _ (cs1 t)⟩

theorem src_rotation_matrix_z_proper (t : ℝ) :
    Orthonormal (Src.rotation_matrix_z srcOpsR t) ∧ det (Src.rotation_matrix_z srcOpsR t) = 1 := by
  rw [tie_rotation_matrix_z]
  simp only [srcOpsR, Nat.cast_zero, Nat.cast_one]
  exact ⟨rotZ_orthonormal _ _ (cs1 t), rotZ_det _ _ (cs1 t)⟩

/-- **`rotation_matrix_ypr(yaw, pitch, roll)` as written in the source is a proper rotation for all real angles** -/
theorem src_rotation_matrix_ypr_proper (y p r : ℝ) :
    Orthonormal (Src.rotation_matrix_ypr srcOpsR y p r) ∧ det (Src.rotation_matrix_ypr srcOpsR y p r) = 1 := by
  rw [tie_rotation_matrix_ypr]
  simp only [srcOpsR, Nat.cast_zero, Nat.cast_one]
  exact rotYpr_real_proper y p r

/-- hence rotating points by it (about any centre) preserves distances, and it commutes with the cross product -/
theorem src_rotation_matrix_ypr_isometry (y p r : ℝ) (c c' : P3 ℝ) (centre : Option (P3 ℝ)) :
    nsq (vsub (rotate c (Src.rotation_matrix_ypr srcOpsR y p r) centre) (rotate c' (Src.rotation_matrix_ypr srcOpsR y p r) centre))
      = nsq (vsub c c') ∧
    mulVec (Src.rotation_matrix_ypr srcOpsR y p r) (cross c c')
      = cross (mulVec (Src.rotation_matrix_ypr srcOpsR y p r) c) (mulVec (Src.rotation_matrix_ypr srcOpsR y p r) c') := by
  obtain ⟨h, hd⟩ := src_rotation_matrix_ypr_proper y p r
  exact ⟨rotate_isometry' c c' _ centre h, cross_rotate _ c c' h hd⟩

/-- its transpose is its inverse: `to_gcs ∘ from_gcs = id` with the rotation as basis -/
theorem src_rotation_matrix_ypr_transpose_orthonormal (y p r : ℝ) :
    Orthonormal (Src.rotation_matrix_ypr srcOpsR y p r).transpose :=
  orthonormal_transpose _ (src_rotation_matrix_ypr_proper y p r).1

end OnSourceRotations


/-! ## On the source: the three einsum conventions (`to_gcs`, `from_gcs`, `rotate`) as translated on every run -/
section OnSourceFrames
open Arim.Tie.C17
variable {K : Type} [Field K]

/-- **`from_gcs ∘ to_gcs = id` and `to_gcs ∘ from_gcs = id` on the source**, for every orthonormal frame and origin -/
theorem src_frames_mutually_inverse (o : Src.Ops K) (c p org : P3 K) (b : M3 K) (h : Orthonormal b) :
    Src.from_gcs o (Src.to_gcs o c b org) b org = c ∧ Src.to_gcs o (Src.from_gcs o p b org) b org = p := by
  simp only [tie_to_gcs, tie_from_gcs]
  exact ⟨from_to_gcs c org b h, to_from_gcs' p org b h⟩

/-- **`rotate` on the source is an isometry** (with or without a centre) for every matrix with orthonormal rows, and keeps its centre fixed -/
theorem src_rotate_isometry (o : Src.Ops K) (c c' centre : P3 K) (r : M3 K) (h : Orthonormal r) :
    nsq (vsub (Src.rotate_about_origin o c r) (Src.rotate_about_origin o c' r)) = nsq (vsub c c') ∧
    nsq (vsub (Src.rotate_about_centre o c r centre) (Src.rotate_about_centre o c' r centre)) = nsq (vsub c c') ∧
    Src.rotate_about_centre o centre r centre = centre := by
  simp only [tie_rotate_about_origin, tie_rotate_about_centre]
  exact ⟨rotate_isometry' c c' r none h, rotate_isometry' c c' r (some centre) h, rotate_centre_fixed r centre⟩

end OnSourceFrames

end Arim.C17
