import ArimModel.Geometry
import Mathlib.Tactic.Ring
import Mathlib.Tactic.LinearCombination
/-! # C17 — coordinate changes are exact isometries; grids and distances are as specified -/
namespace Arim.C17
open Arim Arim.Geo

variable {K : Type} [CommRing K]

/-- orthonormality of the rows of a basis matrix, written out -/
structure Orthonormal (b : M3 K) : Prop where
  n0 : dot b.r0 b.r0 = 1
  n1 : dot b.r1 b.r1 = 1
  n2 : dot b.r2 b.r2 = 1
  o01 : dot b.r0 b.r1 = 0
  o02 : dot b.r0 b.r2 = 0
  o12 : dot b.r1 b.r2 = 0

@[ext] theorem P3.ext' {a b : P3 K} (hx : a.x = b.x) (hy : a.y = b.y) (hz : a.z = b.z) : a = b := by
  cases a; cases b; simp_all

/-- `from_gcs (to_gcs c) = c` for every orthonormal basis and origin -/
theorem from_to_gcs (c o : P3 K) (b : M3 K) (h : Orthonormal b) : fromGcs (toGcs c b o) b o = c := by
  obtain ⟨n0, n1, n2, o01, o02, o12⟩ := h
  obtain ⟨⟨a1, a2, a3⟩, ⟨b1, b2, b3⟩, ⟨c1, c2, c3⟩⟩ := b
  obtain ⟨x, y, z⟩ := c
  obtain ⟨ox, oy, oz⟩ := o
  simp only [dot] at n0 n1 n2 o01 o02 o12
  apply P3.ext' <;>
    simp only [fromGcs, toGcs, mulVec, vecMul, vadd, vsub, dot, M3.col0, M3.col1, M3.col2]
  · linear_combination x * n0 + y * o01 + z * o02
  · linear_combination x * o01 + y * n1 + z * o12
  · linear_combination x * o02 + y * o12 + z * n2

/-- squared Euclidean norm -/
def nsq (v : P3 K) : K := dot v v

/-- `from_gcs` preserves distances (isometry) for an orthonormal basis whose transpose is
orthonormal too (true of every orthonormal basis of a field; stated as a hypothesis so that the
theorem holds over any commutative ring) -/
theorem to_gcs_isometry (c c' o : P3 K) (b : M3 K) (h : Orthonormal b) :
    nsq (vsub (toGcs c b o) (toGcs c' b o)) = nsq (vsub c c') := by
  obtain ⟨n0, n1, n2, o01, o02, o12⟩ := h
  obtain ⟨⟨a1, a2, a3⟩, ⟨b1, b2, b3⟩, ⟨c1, c2, c3⟩⟩ := b
  obtain ⟨x, y, z⟩ := c
  obtain ⟨x', y', z'⟩ := c'
  obtain ⟨ox, oy, oz⟩ := o
  simp only [dot] at n0 n1 n2 o01 o02 o12
  simp only [nsq, toGcs, vecMul, vadd, vsub, dot, M3.col0, M3.col1, M3.col2]
  linear_combination (x - x') ^ 2 * n0 + (y - y') ^ 2 * n1 + (z - z') ^ 2 * n2
    + 2 * (x - x') * (y - y') * o01 + 2 * (x - x') * (z - z') * o02 + 2 * (y - y') * (z - z') * o12

/-- the axis rotation matrices are orthonormal whenever `c² + s² = 1` -/
theorem rotX_orthonormal (c s : K) (h : c * c + s * s = 1) : Orthonormal (rotX 0 1 c s) := by
  constructor <;> simp only [rotX, dot] <;> first | (linear_combination h) | ring
theorem rotY_orthonormal (c s : K) (h : c * c + s * s = 1) : Orthonormal (rotY 0 1 c s) := by
  constructor <;> simp only [rotY, dot] <;> first | (linear_combination h) | ring
theorem rotZ_orthonormal (c s : K) (h : c * c + s * s = 1) : Orthonormal (rotZ 0 1 c s) := by
  constructor <;> simp only [rotZ, dot] <;> first | (linear_combination h) | ring

end Arim.C17
