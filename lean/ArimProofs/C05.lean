import ArimModel.RayGeom
import ArimProofs.Tie.C05
import ArimProofs.C17
import Mathlib.Analysis.SpecialFunctions.Trigonometric.Inverse
import Mathlib.Analysis.SpecialFunctions.Complex.Arg
import Mathlib.Analysis.SpecialFunctions.Sqrt
import Mathlib.Algebra.BigOperators.Group.List.Basic
import Mathlib.Tactic.NormNum
import Mathlib.Tactic.Linarith
import Mathlib.Tactic.Ring
/-! # C05 — ray geometry: leg lengths, travel time and angle conventions are as documented

1. rules read off the model (signed angle, conventional angle, leg size);
2. reversal: every incoming quantity at interface `k` is the outgoing quantity at interface
   `n-1-k` of the reversed path, and conversely; reversal is an involution;
3. the first interface has no incoming leg, the last no outgoing leg, all others have both;
4. travel time is the left-associated sum of `size_k / v_k`;
5. over `ℝ`: ranges of the unsigned, conventional and signed angles, leg size = Euclidean
   distance, leg length independent of the (orthonormal) local frame;
6. non-vacuity examples. -/
namespace Arim.C05
open Arim Arim.Geo Arim.RayGeom

section rules
variable {α : Type} [Add α] [Sub α] [Mul α] [Div α] [Neg α] [LT α] [DecidableLT α] [LE α] [DecidableLE α]

set_option linter.unusedSectionVars false in
/-- **Signed-angle rule.** `+θ` when the azimuth lies in `(−π/2, π/2]`, `−θ` otherwise. -/
theorem signed_rule (t : Trig α) (polar az : α) :
    signedLegAngle t polar az = if (-(t.pi / t.two) < az ∧ az ≤ t.pi / t.two) then polar else -polar := rfl

/-- **Conventional angle**: the polar angle or its supplement according to the declared side -/
theorem conventional_rule (t : Trig α) (here : Node α) (other : P3 α) (side : Bool) :
    (legAt t here other (some side)).conventional =
      some (if side then (legAt t here other (some side)).polar else t.pi - (legAt t here other (some side)).polar) := rfl

/-- an undeclared normal side makes the conventional angle an error, nothing else -/
theorem conventional_undeclared (t : Trig α) (here : Node α) (other : P3 α) :
    (legAt t here other none).conventional = none := rfl

/-- the reported leg size is the norm of the difference of the two ray points -/
theorem leg_size_eq (t : Trig α) (here : Node α) (other : P3 α) (side : Option Bool) :
    (legAt t here other side).size = norm2 t (vsub other here.p) := rfl

end rules


section structural
variable {α : Type} [Add α] [Sub α] [Mul α] [Div α] [Neg α] [LT α] [DecidableLT α] [LE α] [DecidableLE α]

/-- the per-node operation of `Interface.reverse`: swap the two normal-side flags -/
def flipNode (nd : Node α) : Node α := { nd with incSide := nd.outSide, outSide := nd.incSide }

omit [Add α] [Sub α] [Mul α] [Div α] [Neg α] [LT α] [DecidableLT α] [LE α] [DecidableLE α] in
theorem reverseRay_eq (ray : List (Node α)) : RayGeom.reverseRay ray = (ray.map flipNode).reverse := rfl

omit [Add α] [Sub α] [Mul α] [Div α] [Neg α] [LT α] [DecidableLT α] [LE α] [DecidableLE α] in
theorem flipNode_flipNode (nd : Node α) : flipNode (flipNode nd) = nd := rfl

omit [Add α] [Sub α] [Mul α] [Div α] [Neg α] [LT α] [DecidableLT α] [LE α] [DecidableLE α] in
@[simp] theorem reverseRay_length (ray : List (Node α)) : (RayGeom.reverseRay ray).length = ray.length := by
  simp [reverseRay_eq]

omit [Add α] [Sub α] [Mul α] [Div α] [Neg α] [LT α] [DecidableLT α] [LE α] [DecidableLE α] in
/-- **Reversal is an involution** -/
theorem reverseRay_involutive (ray : List (Node α)) : RayGeom.reverseRay (RayGeom.reverseRay ray) = ray := by
  simp only [reverseRay_eq, List.map_reverse, List.reverse_reverse, List.map_map]
  conv_rhs => rw [← List.map_id ray]
  apply List.map_congr_left
  intro nd _
  rfl

omit [Add α] [Sub α] [Mul α] [Div α] [Neg α] [LT α] [DecidableLT α] [LE α] [DecidableLE α] in
/-- reversal maps position `i` to position `n-1-i` (and swaps the flags of that node) -/
theorem reverseRay_getElem? (ray : List (Node α)) (i : Nat) (hi : i < ray.length) :
    (RayGeom.reverseRay ray)[i]? = (ray[ray.length - 1 - i]?).map flipNode := by
  rw [reverseRay_eq, List.getElem?_reverse (by simpa using hi)]
  simp

omit [Add α] [Sub α] [Mul α] [Div α] [Neg α] [LT α] [DecidableLT α] [LE α] [DecidableLE α] in
theorem reverseRay_getElem?_none (ray : List (Node α)) (i : Nat) (hi : ray.length ≤ i) :
    (RayGeom.reverseRay ray)[i]? = none := by
  simp [hi]

/-- the leg seen from a node does not depend on that node's flags, only on the `side` passed -/
theorem legAt_flipNode (t : Trig α) (here : Node α) (other : P3 α) (side : Option Bool) :
    legAt t (flipNode here) other side = legAt t here other side := rfl

/-- **Incoming = outgoing of the reversed path.** -/
theorem inc_eq_out_reversed (t : Trig α) (ray : List (Node α)) (k : Nat) (hk : k < ray.length) :
    incLeg t ray k = outLeg t (RayGeom.reverseRay ray) (ray.length - 1 - k) := by
  unfold incLeg outLeg
  by_cases h0 : k = 0
  · subst h0
    rw [reverseRay_getElem?_none ray (ray.length - 1 - 0 + 1) (by omega)]
    simp
  · rw [if_neg h0]
    rw [reverseRay_getElem? ray _ (by omega), reverseRay_getElem? ray _ (by omega)]
    have e1 : ray.length - 1 - (ray.length - 1 - k) = k := by omega
    have e2 : ray.length - 1 - (ray.length - 1 - k + 1) = k - 1 := by omega
    rw [e1, e2]
    have h1 : ray[k]? = some ray[k] := List.getElem?_eq_getElem hk
    have h2 : ray[k - 1]? = some (ray[k - 1]'(by omega)) := List.getElem?_eq_getElem (by omega)
    rw [h1, h2]
    rfl

theorem out_eq_inc_reversed (t : Trig α) (ray : List (Node α)) (k : Nat) (hk : k < ray.length) :
    outLeg t ray k = incLeg t (RayGeom.reverseRay ray) (ray.length - 1 - k) := by
  unfold incLeg outLeg
  by_cases h0 : k + 1 = ray.length
  · have : ray.length - 1 - k = 0 := by omega
    rw [this, if_pos rfl]
    have : ray[k + 1]? = none := by simp; omega
    rw [this]
    split <;> simp_all
  · rw [if_neg (by omega)]
    rw [reverseRay_getElem? ray _ (by omega), reverseRay_getElem? ray _ (by omega)]
    have e1 : ray.length - 1 - (ray.length - 1 - k) = k := by omega
    have e2 : ray.length - 1 - (ray.length - 1 - k - 1) = k + 1 := by omega
    rw [e1, e2]
    have h1 : ray[k]? = some ray[k] := List.getElem?_eq_getElem hk
    have h2 : ray[k + 1]? = some (ray[k + 1]'(by omega)) := List.getElem?_eq_getElem (by omega)
    rw [h1, h2]
    rfl


/-- the first interface has no incoming leg (no hypothesis on the ray is needed) -/
theorem first_has_no_inc (t : Trig α) (ray : List (Node α)) : incLeg t ray 0 = none := rfl

/-- the last interface has no outgoing leg (also true, trivially, for the empty ray) -/
theorem last_has_no_out (t : Trig α) (ray : List (Node α)) : outLeg t ray (ray.length - 1) = none := by
  unfold outLeg
  cases ray with
  | nil => rfl
  | cons a l =>
    have : (a :: l)[(a :: l).length - 1 + 1]? = none := by simp
    rw [this]
    split <;> simp_all

/-- the incoming leg exists exactly at the interfaces `1 ≤ k < n` -/
theorem inc_isSome_iff (t : Trig α) (ray : List (Node α)) (k : Nat) :
    (incLeg t ray k).isSome ↔ 0 < k ∧ k < ray.length := by
  unfold incLeg
  by_cases h0 : k = 0
  · simp [h0]
  · rw [if_neg h0]
    by_cases hk : k < ray.length
    · have h1 : ray[k]? = some ray[k] := List.getElem?_eq_getElem hk
      have h2 : ray[k - 1]? = some (ray[k - 1]'(by omega)) := List.getElem?_eq_getElem (by omega)
      rw [h1, h2]
      simp; omega
    · have h1 : ray[k]? = none := by simp; omega
      rw [h1]
      simp; omega

/-- the outgoing leg exists exactly at the interfaces `k < n - 1` -/
theorem out_isSome_iff (t : Trig α) (ray : List (Node α)) (k : Nat) :
    (outLeg t ray k).isSome ↔ k + 1 < ray.length := by
  unfold outLeg
  by_cases hk : k + 1 < ray.length
  · have h1 : ray[k]? = some (ray[k]'(by omega)) := List.getElem?_eq_getElem (by omega)
    have h2 : ray[k + 1]? = some (ray[k + 1]'hk) := List.getElem?_eq_getElem hk
    rw [h1, h2]
    simp [hk]
  · have h1 : ray[k + 1]? = none := by simp; omega
    rw [h1]
    simp only [hk, iff_false]
    split <;> simp_all

/-- explicit value of the incoming leg at an inner/last interface -/
theorem incLeg_eq (t : Trig α) (ray : List (Node α)) (k : Nat) (h0 : 0 < k) (hk : k < ray.length) :
    incLeg t ray k = some (legAt t ray[k] (ray[k - 1]'(by omega)).p ray[k].incSide) := by
  unfold incLeg
  rw [if_neg (by omega)]
  have h1 : ray[k]? = some ray[k] := List.getElem?_eq_getElem hk
  have h2 : ray[k - 1]? = some (ray[k - 1]'(by omega)) := List.getElem?_eq_getElem (by omega)
  rw [h1, h2]

/-- explicit value of the outgoing leg at a first/inner interface -/
theorem outLeg_eq (t : Trig α) (ray : List (Node α)) (k : Nat) (hk : k + 1 < ray.length) :
    outLeg t ray k = some (legAt t (ray[k]'(by omega)) (ray[k + 1]'hk).p (ray[k]'(by omega)).outSide) := by
  unfold outLeg
  have h1 : ray[k]? = some (ray[k]'(by omega)) := List.getElem?_eq_getElem (by omega)
  have h2 : ray[k + 1]? = some (ray[k + 1]'hk) := List.getElem?_eq_getElem hk
  rw [h1, h2]

end structural

section travel
variable {α : Type} [Add α] [Sub α] [Mul α] [Div α]

/-- the list of leg sizes `size_k = ‖p_{k-1} − p_k‖`, `k = 1 … n-1` -/
def legSizes (t : Trig α) (ray : List (Node α)) : List α :=
  List.zipWith (fun a b => norm2 t (vsub a.p b.p)) ray ray.tail

omit [Div α] in
@[simp] theorem legSizes_cons_cons (t : Trig α) (a b : Node α) (rest : List (Node α)) :
    legSizes t (a :: b :: rest) = norm2 t (vsub a.p b.p) :: legSizes t (b :: rest) := rfl

omit [Div α] in
@[simp] theorem legSizes_length (t : Trig α) (ray : List (Node α)) : (legSizes t ray).length = ray.length - 1 := by
  simp [legSizes]

theorem go_eq (t : Trig α) (prev : Node α) (rest : List (Node α)) (vs : List α) (acc : α)
    (h : vs.length = rest.length) :
    travelTime.go t prev rest vs acc =
      some ((List.zipWith (fun s v => s / v) (legSizes t (prev :: rest)) vs).foldl (· + ·) acc) := by
  induction rest generalizing prev vs acc with
  | nil =>
    cases vs with
    | nil => simp [travelTime.go, legSizes]
    | cons v vs => simp at h
  | cons nd rest ih =>
    cases vs with
    | nil => simp at h
    | cons v vs =>
      simp only [List.length_cons, Nat.add_right_cancel_iff] at h
      rw [travelTime.go, ih nd vs _ h]
      simp

theorem go_none (t : Trig α) (prev : Node α) (rest : List (Node α)) (vs : List α) (acc : α)
    (h : vs.length ≠ rest.length) : travelTime.go t prev rest vs acc = none := by
  induction rest generalizing prev vs acc with
  | nil =>
    cases vs with
    | nil => simp at h
    | cons v vs => simp [travelTime.go]
  | cons nd rest ih =>
    cases vs with
    | nil => simp [travelTime.go]
    | cons v vs =>
      rw [travelTime.go]
      exact ih nd vs _ (by simpa using h)

/-- **Travel time = left-associated sum of `size_k / v_k`.** -/
theorem travelTime_eq_sum (t : Trig α) (a b : Node α) (rest : List (Node α)) (v : α) (vs : List α)
    (h : vs.length = rest.length) :
    travelTime t (a :: b :: rest) (v :: vs) =
      some ((List.zipWith (fun s v => s / v) (legSizes t (b :: rest)) vs).foldl (· + ·)
        (norm2 t (vsub a.p b.p) / v)) := by
  rw [travelTime]
  exact go_eq t b rest vs _ h

theorem travelTime_isSome_iff (t : Trig α) (ray : List (Node α)) (vels : List α) :
    (travelTime t ray vels).isSome ↔ 2 ≤ ray.length ∧ vels.length + 1 = ray.length := by
  match ray, vels with
  | [], _ => simp [travelTime]
  | [a], _ => simp [travelTime]
  | a :: b :: rest, [] => simp [travelTime]
  | a :: b :: rest, v :: vs =>
    by_cases h : vs.length = rest.length
    · rw [travelTime_eq_sum t a b rest v vs h]; simp [h]
    · rw [travelTime, go_none t b rest vs _ h]; simp [h]

end travel

section travelLegs
variable {α : Type} [Add α] [Sub α] [Mul α] [Div α] [Neg α] [LT α] [DecidableLT α] [LE α] [DecidableLE α]

/-- the `k`-th summand's size is the reported size of the incoming leg at interface `k+1`
    (equivalently, by `inc_eq_out_reversed`, of an outgoing leg of the reversed ray) -/
theorem legSizes_getElem? (t : Trig α) (ray : List (Node α)) (k : Nat) :
    (legSizes t ray)[k]? = (incLeg t ray (k + 1)).map (·.size) := by
  unfold legSizes incLeg
  rw [List.getElem?_zipWith, List.getElem?_tail]
  simp only [Nat.add_one_ne_zero, if_false, Nat.add_sub_cancel]
  cases h1 : ray[k]? <;> cases h2 : ray[k+1]? <;> simp [legAt]

end travelLegs

section travelSum
variable {K : Type} [AddMonoid K] [Sub K] [Mul K] [Div K]

omit [Sub K] [Mul K] [Div K] in
theorem foldl_add_eq (l : List K) (a : K) : l.foldl (· + ·) a = a + l.sum := by
  induction l generalizing a with
  | nil => simp
  | cons x l ih => simp [ih, add_assoc]

/-- in an additive monoid the accumulated travel time is the sum of the list `size_k / v_k` -/
theorem travelTime_eq_list_sum (t : Trig K) (ray : List (Node K)) (vels : List K)
    (h2 : 2 ≤ ray.length) (hv : vels.length + 1 = ray.length) :
    travelTime t ray vels = some (List.zipWith (fun s v => s / v) (legSizes t ray) vels).sum := by
  match ray, vels with
  | [], _ => simp at h2
  | [a], _ => simp at h2
  | a :: b :: rest, [] => simp at hv
  | a :: b :: rest, v :: vs =>
    rw [travelTime_eq_sum t a b rest v vs (by simpa using hv), foldl_add_eq]
    simp

end travelSum

section real

/-- the real instance of the external routines -/
noncomputable def tR : Trig ℝ :=
  { sqrt := Real.sqrt, acos := Real.arccos, atan2 := fun y x => Complex.arg ⟨x, y⟩, pi := Real.pi, two := 2 }

theorem legAt_signed (here : Node ℝ) (other : P3 ℝ) (side : Option Bool) :
    (legAt tR here other side).signed =
      signedLegAngle tR (legAt tR here other side).polar (legAt tR here other side).azimuth := rfl

/-- **Unsigned (polar) angle range**: `[0, π]` -/
theorem unsigned_range (here : Node ℝ) (other : P3 ℝ) (side : Option Bool) :
    0 ≤ (legAt tR here other side).polar ∧ (legAt tR here other side).polar ≤ Real.pi :=
  ⟨Real.arccos_nonneg _, Real.arccos_le_pi _⟩

/-- the azimuth lies in `(−π, π]` -/
theorem azimuth_range (here : Node ℝ) (other : P3 ℝ) (side : Option Bool) :
    -Real.pi < (legAt tR here other side).azimuth ∧ (legAt tR here other side).azimuth ≤ Real.pi :=
  ⟨Complex.neg_pi_lt_arg _, Complex.arg_le_pi _⟩

/-- **Conventional angle range** -/
theorem conventional_range (here : Node ℝ) (other : P3 ℝ) (side : Bool) :
    ∃ c, (legAt tR here other (some side)).conventional = some c ∧
      c = (if side then (legAt tR here other (some side)).polar
            else Real.pi - (legAt tR here other (some side)).polar) ∧
      0 ≤ c ∧ c ≤ Real.pi := by
  obtain ⟨h0, h1⟩ := unsigned_range here other (some side)
  refine ⟨_, rfl, rfl, ?_⟩
  cases side
  · simp only [Bool.false_eq_true, if_false]
    constructor <;> [exact sub_nonneg.mpr h1; exact sub_le_self _ h0]
  · exact ⟨h0, h1⟩

/-- the signed angle has the magnitude of the polar angle -/
theorem signed_abs_eq (here : Node ℝ) (other : P3 ℝ) (side : Option Bool) :
    |(legAt tR here other side).signed| = (legAt tR here other side).polar := by
  obtain ⟨h0, _⟩ := unsigned_range here other side
  show |signedLegAngle tR _ _| = _
  unfold signedLegAngle
  split
  · exact abs_of_nonneg h0
  · rw [abs_neg]; exact abs_of_nonneg h0

/-- the sign is `+` exactly in the azimuth window `(−π/2, π/2]` (or the angle is zero) -/
theorem signed_eq_polar_iff (here : Node ℝ) (other : P3 ℝ) (side : Option Bool) :
    (legAt tR here other side).signed = (legAt tR here other side).polar ↔
      (-(Real.pi / 2) < (legAt tR here other side).azimuth ∧ (legAt tR here other side).azimuth ≤ Real.pi / 2)
        ∨ (legAt tR here other side).polar = 0 := by
  rw [legAt_signed, signed_rule]
  by_cases h : -(Real.pi / 2) < (legAt tR here other side).azimuth ∧ (legAt tR here other side).azimuth ≤ Real.pi / 2
  · have h' : -(tR.pi / tR.two) < (legAt tR here other side).azimuth ∧ (legAt tR here other side).azimuth ≤ tR.pi / tR.two := h
    rw [if_pos h']
    simp [h]
  · have h' : ¬ (-(tR.pi / tR.two) < (legAt tR here other side).azimuth ∧ (legAt tR here other side).azimuth ≤ tR.pi / tR.two) := h
    rw [if_neg h']
    simp only [h, false_or]
    constructor
    · intro e; linarith
    · intro e; rw [e]; simp

/-- **Signed angle**: magnitude and sign, together -/
theorem signed_abs (here : Node ℝ) (other : P3 ℝ) (side : Option Bool) :
    |(legAt tR here other side).signed| = (legAt tR here other side).polar ∧
    ((legAt tR here other side).signed = (legAt tR here other side).polar ↔
      (-(Real.pi / 2) < (legAt tR here other side).azimuth ∧ (legAt tR here other side).azimuth ≤ Real.pi / 2)
        ∨ (legAt tR here other side).polar = 0) :=
  ⟨signed_abs_eq here other side, signed_eq_polar_iff here other side⟩

/-- the signed angle lies in `[−π, π]` -/
theorem signed_range (here : Node ℝ) (other : P3 ℝ) (side : Option Bool) :
    -Real.pi ≤ (legAt tR here other side).signed ∧ (legAt tR here other side).signed ≤ Real.pi := by
  have h := signed_abs_eq here other side
  have h1 := (unsigned_range here other side).2
  rw [← h] at h1
  exact abs_le.mp h1

/-- the sign is `−` exactly outside the azimuth window (or the angle is zero) -/
theorem signed_eq_neg_polar_iff (here : Node ℝ) (other : P3 ℝ) (side : Option Bool) :
    (legAt tR here other side).signed = -(legAt tR here other side).polar ↔
      ¬ (-(Real.pi / 2) < (legAt tR here other side).azimuth ∧ (legAt tR here other side).azimuth ≤ Real.pi / 2)
        ∨ (legAt tR here other side).polar = 0 := by
  rw [legAt_signed, signed_rule]
  by_cases h : -(Real.pi / 2) < (legAt tR here other side).azimuth ∧ (legAt tR here other side).azimuth ≤ Real.pi / 2
  · have h' : -(tR.pi / tR.two) < (legAt tR here other side).azimuth ∧ (legAt tR here other side).azimuth ≤ tR.pi / tR.two := h
    rw [if_pos h']
    have hn : ¬¬(-(Real.pi / 2) < (legAt tR here other side).azimuth ∧ (legAt tR here other side).azimuth ≤ Real.pi / 2) :=
      not_not_intro h
    constructor
    · intro e; right; linarith
    · rintro (e | e)
      · exact absurd e hn
      · rw [e]; simp
  · have h' : ¬ (-(tR.pi / tR.two) < (legAt tR here other side).azimuth ∧ (legAt tR here other side).azimuth ≤ tR.pi / tR.two) := h
    rw [if_neg h']
    simp [h]

/-- **Leg size = Euclidean distance** -/
theorem leg_size_eq_dist (here : Node ℝ) (other : P3 ℝ) (side : Option Bool) :
    (legAt tR here other side).size =
      Real.sqrt ((other.x - here.p.x) ^ 2 + (other.y - here.p.y) ^ 2 + (other.z - here.p.z) ^ 2) := by
  show Real.sqrt _ = _
  congr 1
  simp only [vsub]
  ring

/-- a leg has the same length seen from either of its two ends (outgoing leg at `k` = incoming leg at `k+1`) -/
theorem leg_size_symm (a b : Node ℝ) (s s' : Option Bool) :
    (legAt tR a b.p s).size = (legAt tR b a.p s').size := by
  rw [leg_size_eq_dist, leg_size_eq_dist]
  congr 1
  ring

theorem norm2_eq_sqrt_nsq (v : P3 ℝ) : norm2 tR v = Real.sqrt (Arim.C17.nsq v) := rfl

/-- **The leg length does not depend on the local frame** (columns orthonormal) -/
theorem radius_eq_size_of_cols (here : Node ℝ) (other : P3 ℝ) (side : Option Bool)
    (h' : Arim.C17.Orthonormal here.frame.transpose) :
    (legAt tR here other side).radius = (legAt tR here other side).size := by
  show norm2 tR (fromGcs other here.frame here.p) = norm2 tR (vsub other here.p)
  rw [norm2_eq_sqrt_nsq, norm2_eq_sqrt_nsq, fromGcs, Arim.C17.nsq_mulVec _ _ h']

theorem radius_eq_size (here : Node ℝ) (other : P3 ℝ) (side : Option Bool)
    (h : Arim.C17.Orthonormal here.frame) :
    (legAt tR here other side).radius = (legAt tR here other side).size :=
  radius_eq_size_of_cols here other side (Arim.C17.orthonormal_transpose _ h)


theorem arg_window_iff (x y : ℝ) :
    (-(Real.pi / 2) < Complex.arg ⟨x, y⟩ ∧ Complex.arg ⟨x, y⟩ ≤ Real.pi / 2) ↔ (0 < x ∨ (x = 0 ∧ 0 ≤ y)) := by
  rw [Complex.neg_pi_div_two_lt_arg_iff, Complex.arg_le_pi_div_two_iff]
  simp only
  constructor
  · rintro ⟨h1 | h1, h2 | h2⟩
    · exact Or.inl h1
    · exact Or.inl h1
    · rcases h2.lt_or_eq with h | h
      · exact Or.inl h
      · exact Or.inr ⟨h.symm, h1⟩
    · exact absurd h2 (not_lt.mpr h1)
  · rintro (h | ⟨h, h'⟩)
    · exact ⟨Or.inl h, Or.inl h.le⟩
    · exact ⟨Or.inr h', Or.inl h.ge⟩

/-- the documented reading of the azimuth window: the azimuth lies in `(−π/2, π/2]` exactly when the
    other end of the leg has local `x > 0`, or `x = 0` and `y ≥ 0` -/
theorem azimuth_window_iff (here : Node ℝ) (other : P3 ℝ) (side : Option Bool) :
    (-(Real.pi / 2) < (legAt tR here other side).azimuth ∧ (legAt tR here other side).azimuth ≤ Real.pi / 2) ↔
      (0 < (legAt tR here other side).cart.x ∨
        ((legAt tR here other side).cart.x = 0 ∧ 0 ≤ (legAt tR here other side).cart.y)) :=
  arg_window_iff _ _

/-! ### The angles do not depend on the unit of length

The same inspection drawn at another scale (every point multiplied by `s > 0`, frames unchanged): leg lengths are multiplied
by `s`; the unsigned, signed and conventional angles and the azimuth are unchanged (the check's scale-invariance oracle). -/

def scaleP (s : ℝ) (v : P3 ℝ) : P3 ℝ := ⟨s * v.x, s * v.y, s * v.z⟩

theorem fromGcs_scale (s : ℝ) (o p : P3 ℝ) (b : M3 ℝ) :
    fromGcs (scaleP s o) b (scaleP s p) = scaleP s (fromGcs o b p) := by
  simp only [fromGcs, mulVec, vsub, dot, scaleP, P3.mk.injEq]
  refine ⟨by ring, by ring, by ring⟩

theorem norm2_scale (s : ℝ) (hs : 0 ≤ s) (v : P3 ℝ) : norm2 tR (scaleP s v) = s * norm2 tR v := by
  simp only [norm2, tR, scaleP]
  have : s * v.x * (s * v.x) + s * v.y * (s * v.y) + s * v.z * (s * v.z) = (s * s) * (v.x * v.x + v.y * v.y + v.z * v.z) := by ring
  rw [this, Real.sqrt_mul (mul_self_nonneg s), Real.sqrt_mul_self hs]

theorem legAt_scale (s : ℝ) (hs : 0 < s) (here : Node ℝ) (other : P3 ℝ) (side : Option Bool) :
    (legAt tR { here with p := scaleP s here.p } (scaleP s other) side).polar = (legAt tR here other side).polar ∧
    (legAt tR { here with p := scaleP s here.p } (scaleP s other) side).azimuth = (legAt tR here other side).azimuth ∧
    (legAt tR { here with p := scaleP s here.p } (scaleP s other) side).signed = (legAt tR here other side).signed ∧
    (legAt tR { here with p := scaleP s here.p } (scaleP s other) side).conventional = (legAt tR here other side).conventional ∧
    (legAt tR { here with p := scaleP s here.p } (scaleP s other) side).size = s * (legAt tR here other side).size := by
  have hpol : (legAt tR { here with p := scaleP s here.p } (scaleP s other) side).polar = (legAt tR here other side).polar := by
    simp only [legAt, fromGcs_scale, norm2_scale s hs.le]
    show Real.arccos (s * _ / (s * _)) = Real.arccos _
    rw [mul_div_mul_left _ _ hs.ne']
  have haz : (legAt tR { here with p := scaleP s here.p } (scaleP s other) side).azimuth = (legAt tR here other side).azimuth := by
    simp only [legAt, fromGcs_scale]
    show Complex.arg ⟨s * _, s * _⟩ = Complex.arg ⟨_, _⟩
    have : (⟨s * (fromGcs other here.frame here.p).x, s * (fromGcs other here.frame here.p).y⟩ : ℂ)
        = (s : ℂ) * ⟨(fromGcs other here.frame here.p).x, (fromGcs other here.frame here.p).y⟩ := by
      apply Complex.ext <;> simp
    rw [this, Complex.arg_real_mul _ hs]
  refine ⟨hpol, haz, ?_, ?_, ?_⟩
  · rw [legAt_signed, legAt_signed, hpol, haz]
  · have h1 : (legAt tR { here with p := scaleP s here.p } (scaleP s other) side).conventional
        = side.map (fun b => if b then (legAt tR { here with p := scaleP s here.p } (scaleP s other) side).polar
                              else tR.pi - (legAt tR { here with p := scaleP s here.p } (scaleP s other) side).polar) := rfl
    have h2 : (legAt tR here other side).conventional
        = side.map (fun b => if b then (legAt tR here other side).polar else tR.pi - (legAt tR here other side).polar) := rfl
    rw [h1, h2, hpol]
  · have : vsub (scaleP s other) (scaleP s here.p) = scaleP s (vsub other here.p) := by
      simp only [vsub, scaleP, P3.mk.injEq]; refine ⟨by ring, by ring, by ring⟩
    show norm2 tR (vsub (scaleP s other) (scaleP s here.p)) = s * norm2 tR (vsub other here.p)
    rw [this, norm2_scale s hs.le]

end real

/-! ## non-vacuity -/
section examples

/-- dummy external routines over `ℚ` (structure theorems do not look inside them) -/
def tQ : Trig ℚ := { sqrt := id, acos := id, atan2 := fun y x => y - x, pi := 3, two := 2 }

def idFrame : M3 ℚ := ⟨⟨1, 0, 0⟩, ⟨0, 1, 0⟩, ⟨0, 0, 1⟩⟩
/-- a three-interface ray with all the kinds of flags -/
def ray3 : List (Node ℚ) :=
  [⟨⟨0, 0, 0⟩, idFrame, none, some true⟩, ⟨⟨1, 0, 0⟩, idFrame, some false, some true⟩,
   ⟨⟨1, 2, 0⟩, idFrame, some true, none⟩]

example : incLeg tQ ray3 1 = outLeg tQ (RayGeom.reverseRay ray3) 1 := inc_eq_out_reversed tQ ray3 1 (by decide)
example : incLeg tQ ray3 2 = outLeg tQ (RayGeom.reverseRay ray3) 0 := inc_eq_out_reversed tQ ray3 2 (by decide)
example : outLeg tQ ray3 0 = incLeg tQ (RayGeom.reverseRay ray3) 2 := out_eq_inc_reversed tQ ray3 0 (by decide)
example : (incLeg tQ ray3 1).isSome ∧ (incLeg tQ ray3 2).isSome ∧ (outLeg tQ ray3 0).isSome ∧ (outLeg tQ ray3 1).isSome :=
  ⟨(inc_isSome_iff _ _ _).2 (by decide), (inc_isSome_iff _ _ _).2 (by decide),
   (out_isSome_iff _ _ _).2 (by decide), (out_isSome_iff _ _ _).2 (by decide)⟩
/-- the incoming leg at interface 2: size `0+4+0 = 4` (dummy `sqrt = id`), conventional angle declared -/
example : (incLeg tQ ray3 2).map (·.size) = some 4 := by
  simp [incLeg, ray3, legAt, norm2, vsub, tQ]; norm_num
example : (incLeg tQ ray3 2).map (·.cart) = some ⟨0, -2, 0⟩ := by
  simp [incLeg, ray3, legAt, fromGcs, mulVec, dot, vsub, idFrame]
/-- undeclared side at the last interface's outgoing flag, seen as the incoming flag of the reversed ray -/
example : (incLeg tQ (RayGeom.reverseRay ray3) 0) = none := first_has_no_inc _ _
example : (outLeg tQ (RayGeom.reverseRay ray3) 1).map (·.conventional) = some (some (3 - (0 / 1))) := by
  simp [outLeg, RayGeom.reverseRay, ray3, legAt, fromGcs, mulVec, dot, vsub, idFrame, norm2, tQ]
/-- travel time of `ray3` with velocities `1, 2`: `1/1 + 4/2 = 3` (dummy `sqrt = id`) -/
example : travelTime tQ ray3 [1, 2] = some 3 := by
  rw [travelTime_eq_list_sum tQ ray3 [1, 2] (by decide) (by decide)]
  simp [legSizes, ray3, norm2, vsub, tQ]; norm_num
example : travelTime tQ ray3 [1] = none := by
  have := travelTime_isSome_iff tQ ray3 [1]
  simpa [ray3] using this

/-- a real 3-4-5 leg seen from the origin in a frame rotated by the 3-4-5 rotation about z -/
noncomputable def hereR : Node ℝ :=
  ⟨⟨0, 0, 0⟩, ⟨⟨3/5, -(4/5), 0⟩, ⟨4/5, 3/5, 0⟩, ⟨0, 0, 1⟩⟩, some true, some false⟩

theorem hereR_orthonormal : Arim.C17.Orthonormal hereR.frame := by
  constructor <;> simp only [hereR, dot] <;> norm_num

example : (legAt tR hereR ⟨3, 4, 0⟩ none).size = 5 := by
  rw [leg_size_eq_dist]
  have : ((3 : ℝ) - hereR.p.x) ^ 2 + (4 - hereR.p.y) ^ 2 + (0 - hereR.p.z) ^ 2 = 5 ^ 2 := by
    simp only [hereR]; norm_num
  rw [this, Real.sqrt_sq (by norm_num)]
example : (legAt tR hereR ⟨3, 4, 0⟩ none).radius = (legAt tR hereR ⟨3, 4, 0⟩ none).size :=
  radius_eq_size hereR _ _ hereR_orthonormal

end examples

/-! ## The signed-angle rule of the code as translated on this run

`Src.signed_leg_angle` (file `Generated/SrcC05.lean`) is the translation of `arim.ray._signed_leg_angle` made from
`/repo/src` on every run; `Tie.C05.tie_signed_leg_angle` identifies it with the model's `signedLegAngle`. -/
section OnSource
open Arim.Tie.C05

/-- the routines of the translated code at `K = ℝ` -/
noncomputable def srcOps : Src.Ops ℝ :=
  { sin := Real.sin, cos := Real.cos, asin := Real.arcsin, sqrt := Real.sqrt, exp := Real.exp, sinc := id,
    pi := Real.pi, ofNat := fun n => (n : ℝ), ofInt := fun z => (z : ℝ),
    floor := fun x => ⌊x⌋, round := fun x => round x, trunc := fun x => ⌊x⌋ }

/-- **documented rule, translated code**: `+θ` when the azimuth lies in `(−π/2, π/2]`, `−θ` otherwise -/
theorem src_signed_rule (polar az : ℝ) :
    Src.signed_leg_angle srcOps polar az = if (-(Real.pi / 2) < az ∧ az ≤ Real.pi / 2) then polar else -polar := by
  rw [tie_signed_leg_angle srcOps Real.arccos (fun y x => Complex.arg ⟨x, y⟩), signed_rule]
  have h2 : (trig srcOps Real.arccos (fun y x => Complex.arg ⟨x, y⟩)).two = 2 := by simp [trig, srcOps]
  have hp : (trig srcOps Real.arccos (fun y x => Complex.arg ⟨x, y⟩)).pi = Real.pi := rfl
  rw [h2, hp]

/-- the boundary azimuths: `+π/2` keeps the sign, `−π/2` flips it (translated code) -/
theorem src_signed_boundary (polar : ℝ) :
    Src.signed_leg_angle srcOps polar (Real.pi / 2) = polar ∧ Src.signed_leg_angle srcOps polar (-(Real.pi / 2)) = -polar := by
  have hpi := Real.pi_pos
  constructor
  · rw [src_signed_rule, if_pos]; constructor <;> linarith
  · rw [src_signed_rule, if_neg]; intro h; exact absurd h.1 (lt_irrefl _)

end OnSource

end Arim.C05
