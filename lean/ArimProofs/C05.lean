import ArimModel.RayGeom
/-! # C05 — ray geometry: leg lengths, travel time and angle conventions are as documented -/
namespace Arim.C05
open Arim Arim.Geo Arim.RayGeom

variable {α : Type} [Add α] [Sub α] [Mul α] [Div α] [Neg α] [LT α] [DecidableLT α] [LE α] [DecidableLE α]

/-- **Signed-angle rule.** `+θ` when the azimuth lies in `(−π/2, π/2]`, `−θ` otherwise. -/
theorem signed_rule (t : Trig α) (polar az : α) :
    signedLegAngle t polar az = if (-(t.pi / t.two) < az ∧ az ≤ t.pi / t.two) then polar else -polar := rfl

/-- **Conventional angle**: the polar angle or its supplement according to the declared side -/
theorem conventional_rule (t : Trig α) (here : Node α) (other : P3 α) (side : Bool) :
    (legAt t here other (some side)).conventional =
      some (if side then (legAt t here other (some side)).polar else t.pi - (legAt t here other (some side)).polar) := rfl

/-- an undeclared normal side makes the conventional angle an error, nothing else -/
theorem conventional_undeclared (t : Trig α) (here : Node α) (other : P3 α) :
    (legAt t here other none).conventional = none := rfl

/-- the reported leg size is the norm of the difference of the two ray points -/
theorem leg_size_eq (t : Trig α) (here : Node α) (other : P3 α) (side : Option Bool) :
    (legAt t here other side).size = norm2 t (vsub other here.p) := rfl

end Arim.C05
