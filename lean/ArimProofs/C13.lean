import ArimModel.Chunk
/-! # C13 — results do not depend on threads, block sizes or completion order

The decomposition logic: `chunk_array` partitions an axis for every block size ≥ 1; the
tasks' tiles therefore partition the output; and the final array is the same for every
interleaving of the element operations that keeps each task's own order. Core Lean only. -/
namespace Arim.C13
open Arim

theorem numChunks_mul_ge (L b : Nat) (hb : 0 < b) : L ≤ numChunks L b * b := by
  unfold numChunks ceilDiv
  have h := Nat.div_add_mod (L + b - 1) b
  have h2 := Nat.mod_lt (L + b - 1) hb
  rw [Nat.mul_comm] at h
  generalize (L + b - 1) / b * b = qb at *
  generalize (L + b - 1) % b = r at *
  omega

/-- the chunk that owns an in-range index exists (its number is below `numChunks`) -/
theorem owner_lt (L b x : Nat) (hb : 0 < b) (hx : x < L) : owner b x < numChunks L b := by
  unfold owner
  rw [Nat.div_lt_iff_lt_mul hb]
  have := numChunks_mul_ge L b hb
  omega

/-- **Partition.** For every block size `b ≥ 1` (also `b > L`), every index of `[0,L)` lies
in the chunk `owner b x` and in no other chunk: the slices are disjoint and cover the axis. -/
theorem chunk_partition (L b x i : Nat) (hb : 0 < b) (hx : x < L) :
    ((chunk L b i).1 ≤ x ∧ x < (chunk L b i).2) ↔ i = owner b x := by
  unfold chunk owner
  simp only
  have key : (i * b ≤ x ∧ x < (i+1) * b) ↔ i = x / b := by
    rw [← Nat.le_div_iff_mul_le hb, ← Nat.div_lt_iff_lt_mul hb]
    omega
  rw [← key]
  generalize i * b = lo
  generalize (i+1) * b = hi
  simp only [Nat.min_def]
  split <;> split <;> omega

/-- chunks are non-empty for `i < numChunks` (no task receives an empty view) -/
theorem chunk_nonempty (L b i : Nat) (hb : 0 < b) (hi : i < numChunks L b) :
    (chunk L b i).1 < (chunk L b i).2 := by
  unfold chunk numChunks ceilDiv at *
  simp only
  have hi' : i * b < L := by
    rw [Nat.lt_div_iff_mul_lt hb] at hi
    have : i * b + b = (i+1)*b := by rw [Nat.add_mul]; omega
    generalize i * b = ib at *
    omega
  have : i * b < (i+1) * b := by rw [Nat.add_mul]; omega
  generalize i * b = lo at *
  generalize (i+1) * b = hi at *
  simp only [Nat.min_def]
  split <;> split <;> omega

/-- an empty axis yields no task at all -/
theorem chunks_empty (b : Nat) (hb : 0 < b) : chunks 0 b = [] := by
  have : numChunks 0 b = 0 := by
    unfold numChunks ceilDiv
    apply Nat.div_eq_of_lt; omega
  simp [chunks, this]

/-- the adjusted block size `ceil(block / m)` is at least one for every positive block size,
so the partition theorem applies to `find_minimum_times` and `distance_pairwise`. -/
theorem block_adj_pos (block m : Nat) (hb : 0 < block) (hm : 0 < m) : 0 < ceilDiv block m := by
  unfold ceilDiv
  apply Nat.div_pos <;> omega

/-- membership in the `(a,b)`-th tile of a 2-D decomposition ⇔ `(a,b)` are the owners:
every output cell belongs to exactly one task. -/
theorem tiles_partition (n p b i j a c : Nat) (hb : 0 < b) (hi : i < n) (hj : j < p) :
    (({ r := chunk n b a, c := chunk p b c } : Tile).mem i j = true) ↔
      (a = owner b i ∧ c = owner b j) := by
  have h1 := chunk_partition n b i a hb hi
  have h2 := chunk_partition p b j c hb hj
  simp only [Tile.mem, Bool.and_eq_true, decide_eq_true_eq]
  rw [← h1, ← h2]
  constructor
  · rintro ⟨⟨⟨h1, h2⟩, h3⟩, h4⟩; exact ⟨⟨h1, h2⟩, h3, h4⟩
  · rintro ⟨⟨h1, h2⟩, h3, h4⟩; exact ⟨⟨⟨h1, h2⟩, h3⟩, h4⟩

variable {C P V : Type} [DecidableEq C]

/-- a cell's final value depends only on the operations addressed to it, in their order -/
theorem runOps_cell (step : C → P → V → V) (s : C → V) (ops : List (C × P)) (c : C) :
    runOps step s ops c = runCell step c (s c) ((ops.filter (fun op => op.1 = c)).map (·.2)) := by
  induction ops generalizing s with
  | nil => simp [runOps, runCell]
  | cons op rest ih =>
    have hstep : runOps step s (op :: rest)
        = runOps step (fun c => if c = op.1 then step op.1 op.2 (s c) else s c) rest := by
      simp [runOps]
    rw [hstep, ih]
    by_cases h : op.1 = c
    · subst h
      simp [runCell, List.filter_cons]
    · have h' : ¬ c = op.1 := fun e => h e.symm
      simp [List.filter_cons, h, h']

/-- **Schedule independence.** Let every cell be owned by one task (`own`), and let two
schedules each contain, for every task, exactly that task's operations in the task's own
order (`filter (own · = t) = prog t`) — i.e. both are interleavings of the same task
programs, of which the sequential execution is one. If tasks only touch cells they own,
both schedules produce the same output array. -/
theorem schedule_independent {T : Type} [DecidableEq T]
    (step : C → P → V → V) (s : C → V) (own : C → T) (prog : T → List (C × P))
    (l₁ l₂ : List (C × P))
    (h₁ : ∀ t, l₁.filter (fun op => own op.1 = t) = prog t)
    (h₂ : ∀ t, l₂.filter (fun op => own op.1 = t) = prog t) :
    runOps step s l₁ = runOps step s l₂ := by
  funext c
  rw [runOps_cell, runOps_cell]
  have key : ∀ l : List (C × P), l.filter (fun op => own op.1 = own c) = prog (own c) →
      l.filter (fun op => op.1 = c) = (prog (own c)).filter (fun op => op.1 = c) := by
    intro l hl
    rw [← hl, List.filter_filter]
    apply List.filter_congr
    intro op _
    by_cases h : op.1 = c <;> simp [h]
  rw [key l₁ (h₁ _), key l₂ (h₂ _)]

/-- cells that no operation addresses keep their value: a task cannot modify anything
outside the cells named by its operations (inputs are not cells of the output). -/
theorem untouched (step : C → P → V → V) (s : C → V) (ops : List (C × P)) (c : C)
    (h : ∀ op ∈ ops, op.1 ≠ c) : runOps step s ops c = s c := by
  rw [runOps_cell]
  have : ops.filter (fun op => op.1 = c) = [] := by
    rw [List.filter_eq_nil_iff]; intro op hop; simpa using h op hop
  simp [this, runCell]

/-- non-vacuity: 10 items in blocks of 3 → `[0,3) [3,6) [6,9) [9,10)` -/
example : chunks 10 3 = [(0,3),(3,6),(6,9),(9,10)] := by decide
example : (minTimesTiles 3 2 3 4).length = 4 := by decide

end Arim.C13
