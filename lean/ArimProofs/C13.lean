import ArimModel.Chunk
import ArimProofs.Tie.C02
import ArimProofs.Tie.C01
import ArimProofs.Tie.C13
import ArimProofs.Lemmas.Chunk
/-! # C13 — results do not depend on threads, block sizes or completion order

The decomposition logic: `chunk_array` partitions an axis for every block size ≥ 1; the
tasks' tiles therefore partition the output; and the final array is the same for every
interleaving of the element operations that keeps each task's own order. Core Lean only. -/
namespace Arim.C13
open Arim

theorem numChunks_mul_ge (L b : Nat) (hb : 0 < b) : L ≤ numChunks L b * b := by
  unfold numChunks ceilDiv
  have h := Nat.div_add_mod (L + b - 1) b
  have h2 := Nat.mod_lt (L + b - 1) hb
  rw [Nat.mul_comm] at h
  generalize (L + b - 1) / b * b = qb at *
  generalize (L + b - 1) % b = r at *
  omega

/-- the chunk that owns an in-range index exists (its number is below `numChunks`) -/
theorem owner_lt (L b x : Nat) (hb : 0 < b) (hx : x < L) : owner b x < numChunks L b := by
  unfold owner
  rw [Nat.div_lt_iff_lt_mul hb]
  have := numChunks_mul_ge L b hb
  omega

/-- **Partition.** For every block size `b ≥ 1` (also `b > L`), every index of `[0,L)` lies
in the chunk `owner b x` and in no other chunk: the slices are disjoint and cover the axis. -/
theorem chunk_partition (L b x i : Nat) (hb : 0 < b) (hx : x < L) :
    ((chunk L b i).1 ≤ x ∧ x < (chunk L b i).2) ↔ i = owner b x := by
  unfold chunk owner
  simp only
  have key : (i * b ≤ x ∧ x < (i+1) * b) ↔ i = x / b := by
    rw [← Nat.le_div_iff_mul_le hb, ← Nat.div_lt_iff_lt_mul hb]
    omega
  rw [← key]
  generalize i * b = lo
  generalize (i+1) * b = hi
  simp only [Nat.min_def]
  split <;> split <;> omega

/-- chunks are non-empty for `i < numChunks` (no task receives an empty view) -/
theorem chunk_nonempty (L b i : Nat) (hb : 0 < b) (hi : i < numChunks L b) :
    (chunk L b i).1 < (chunk L b i).2 := by
  unfold chunk numChunks ceilDiv at *
  simp only
  have hi' : i * b < L := by
    rw [Nat.lt_div_iff_mul_lt hb] at hi
    have : i * b + b = (i+1)*b := by rw [Nat.add_mul]; omega
    generalize i * b = ib at *
    omega
  have : i * b < (i+1) * b := by rw [Nat.add_mul]; omega
  generalize i * b = lo at *
  generalize (i+1) * b = hi at *
  simp only [Nat.min_def]
  split <;> split <;> omega

/-- an empty axis yields no task at all -/
theorem chunks_empty (b : Nat) (hb : 0 < b) : chunks 0 b = [] := by
  have : numChunks 0 b = 0 := by
    unfold numChunks ceilDiv
    apply Nat.div_eq_of_lt; omega
  simp [chunks, this]

/-- the adjusted block size `ceil(block / m)` is at least one for every positive block size,
so the partition theorem applies to `find_minimum_times` and `distance_pairwise`. -/
theorem block_adj_pos (block m : Nat) (hb : 0 < block) (hm : 0 < m) : 0 < ceilDiv block m := by
  unfold ceilDiv
  apply Nat.div_pos <;> omega

/-- membership in the `(a,b)`-th tile of a 2-D decomposition ⇔ `(a,b)` are the owners:
every output cell belongs to exactly one task. -/
theorem tiles_partition (n p b i j a c : Nat) (hb : 0 < b) (hi : i < n) (hj : j < p) :
    (({ r := chunk n b a, c := chunk p b c } : Tile).mem i j = true) ↔
      (a = owner b i ∧ c = owner b j) := by
  have h1 := chunk_partition n b i a hb hi
  have h2 := chunk_partition p b j c hb hj
  simp only [Tile.mem, Bool.and_eq_true, decide_eq_true_eq]
  rw [← h1, ← h2]
  constructor
  · rintro ⟨⟨⟨h1, h2⟩, h3⟩, h4⟩; exact ⟨⟨h1, h2⟩, h3, h4⟩
  · rintro ⟨⟨h1, h2⟩, h3, h4⟩; exact ⟨⟨⟨h1, h2⟩, h3⟩, h4⟩

variable {C P V : Type} [DecidableEq C]

/-- a cell's final value depends only on the operations addressed to it, in their order -/
theorem runOps_cell (step : C → P → V → V) (s : C → V) (ops : List (C × P)) (c : C) :
    runOps step s ops c = runCell step c (s c) ((ops.filter (fun op => op.1 = c)).map (·.2)) := by
  induction ops generalizing s with
  | nil => simp [runOps, runCell]
  | cons op rest ih =>
    have hstep : runOps step s (op :: rest)
        = runOps step (fun c => if c = op.1 then step op.1 op.2 (s c) else s c) rest := by
      simp [runOps]
    rw [hstep, ih]
    by_cases h : op.1 = c
    · subst h
      simp [runCell, List.filter_cons]
    · have h' : ¬ c = op.1 := fun e => h e.symm
      simp [List.filter_cons, h, h']

/-- **Schedule independence.** Let every cell be owned by one task (`own`), and let two
schedules each contain, for every task, exactly that task's operations in the task's own
order (`filter (own · = t) = prog t`) — i.e. both are interleavings of the same task
programs, of which the sequential execution is one. If tasks only touch cells they own,
both schedules produce the same output array. -/
theorem schedule_independent {T : Type} [DecidableEq T]
    (step : C → P → V → V) (s : C → V) (own : C → T) (prog : T → List (C × P))
    (l₁ l₂ : List (C × P))
    (h₁ : ∀ t, l₁.filter (fun op => own op.1 = t) = prog t)
    (h₂ : ∀ t, l₂.filter (fun op => own op.1 = t) = prog t) :
    runOps step s l₁ = runOps step s l₂ := by
  funext c
  rw [runOps_cell, runOps_cell]
  have key : ∀ l : List (C × P), l.filter (fun op => own op.1 = own c) = prog (own c) →
      l.filter (fun op => op.1 = c) = (prog (own c)).filter (fun op => op.1 = c) := by
    intro l hl
    rw [← hl, List.filter_filter]
    apply List.filter_congr
    intro op _
    by_cases h : op.1 = c <;> simp [h]
  rw [key l₁ (h₁ _), key l₂ (h₂ _)]

/-- cells that no operation addresses keep their value: a task cannot modify anything
outside the cells named by its operations (inputs are not cells of the output). -/
theorem untouched (step : C → P → V → V) (s : C → V) (ops : List (C × P)) (c : C)
    (h : ∀ op ∈ ops, op.1 ≠ c) : runOps step s ops c = s c := by
  rw [runOps_cell]
  have : ops.filter (fun op => op.1 = c) = [] := by
    rw [List.filter_eq_nil_iff]; intro op hop; simpa using h op hop
  simp [this, runCell]

/-- non-vacuity: 10 items in blocks of 3 → `[0,3) [3,6) [6,9) [9,10)` -/
example : chunks 10 3 = [(0,3),(3,6),(6,9),(9,10)] := by decide
example : (minTimesTiles 3 2 3 4).length = 4 := by decide


/-! ## A. List-level partition of the real task lists -/

/-- 1-D, list level: exactly one slice of `chunks L b` contains an in-range index -/
theorem chunks_cover_unique (L b x : Nat) (hb : 0 < b) (hx : x < L) :
    (chunks L b).countP (inSlice x) = 1 := by
  unfold chunks
  rw [List.countP_map]
  have hcomp : (inSlice x ∘ chunk L b) = fun i => decide (i = owner b x) := by
    funext i
    have := chunk_partition L b x i hb hx
    simp only [Function.comp, inSlice]
    rw [Bool.eq_iff_iff]
    simpa using this
  rw [hcomp, countP_range_eq, if_pos (owner_lt L b x hb hx)]

/-- 1-D: some slice of the list contains `x` iff `x` is in range -/
theorem chunks_any (L b x : Nat) (hb : 0 < b) :
    (chunks L b).any (inSlice x) = decide (x < L) := by
  rw [Bool.eq_iff_iff]
  simp only [List.any_eq_true, decide_eq_true_eq]
  constructor
  · rintro ⟨r, hr, hx⟩
    obtain ⟨a, _, rfl⟩ := mem_chunks.1 hr
    have h2 := chunk_snd_le L b a
    simp only [inSlice, Bool.and_eq_true, decide_eq_true_eq] at hx
    omega
  · intro hx
    refine ⟨chunk L b (owner b x), mem_chunks.2 ⟨_, owner_lt L b x hb hx, rfl⟩, ?_⟩
    have := (chunk_partition L b x (owner b x) hb hx).2 rfl
    simpa [inSlice] using this

/-- 1-D: the slices of the list are pairwise disjoint -/
theorem chunks_pairwise_disjoint (L b : Nat) (hb : 0 < b) :
    (chunks L b).Pairwise SliceDisjoint := by
  unfold chunks
  rw [List.pairwise_map]
  refine List.pairwise_lt_range.imp ?_
  intro a a' haa x hx
  simp only [inSlice, Bool.and_eq_true, decide_eq_true_eq] at hx
  obtain ⟨⟨h1, h2⟩, h3, h4⟩ := hx
  have hxL : x < L := Nat.lt_of_lt_of_le h2 (chunk_snd_le L b a)
  have e1 := (chunk_partition L b x a hb hxL).1 ⟨h1, h2⟩
  have e2 := (chunk_partition L b x a' hb hxL).1 ⟨h3, h4⟩
  omega

/-- every slice in the list is non-empty -/
theorem chunks_nonempty (L b : Nat) (hb : 0 < b) (r : Nat × Nat) (hr : r ∈ chunks L b) :
    r.1 < r.2 := by
  obtain ⟨a, ha, rfl⟩ := mem_chunks.1 hr
  exact chunk_nonempty L b a hb ha

/-! ### grids of chunks (common form of `minTimesTiles` and `distTiles`) -/

theorem gridChunks_cover_unique (n p b i j : Nat) (hb : 0 < b) (hi : i < n) (hj : j < p) :
    ((grid (chunks n b) (chunks p b)).filter (·.mem i j)).length = 1 := by
  rw [grid_filter_length, chunks_cover_unique n b i hb hi, chunks_cover_unique p b j hb hj]

theorem gridChunks_inside (n p b : Nat) (t : Tile) (ht : t ∈ grid (chunks n b) (chunks p b))
    (i j : Nat) (h : t.mem i j = true) : i < n ∧ j < p := by
  obtain ⟨hr, hc⟩ := mem_grid.1 ht
  obtain ⟨a, _, ha⟩ := mem_chunks.1 hr
  obtain ⟨c, _, hc⟩ := mem_chunks.1 hc
  have h1 := chunk_snd_le n b a
  have h2 := chunk_snd_le p b c
  rw [ha] at h1
  rw [hc] at h2
  simp only [Tile.mem, Bool.and_eq_true, decide_eq_true_eq] at h
  omega

theorem gridChunks_nonempty_tiles (n p b : Nat) (hb : 0 < b) (t : Tile)
    (ht : t ∈ grid (chunks n b) (chunks p b)) : t.r.1 < t.r.2 ∧ t.c.1 < t.c.2 := by
  obtain ⟨hr, hc⟩ := mem_grid.1 ht
  exact ⟨chunks_nonempty n b hb _ hr, chunks_nonempty p b hb _ hc⟩

theorem gridChunks_length (n p b : Nat) :
    (grid (chunks n b) (chunks p b)).length = numChunks n b * numChunks p b := by
  rw [length_grid, length_chunks, length_chunks]

theorem gridChunks_pairwise_disjoint (n p b : Nat) (hb : 0 < b) :
    (grid (chunks n b) (chunks p b)).Pairwise TileDisjoint :=
  grid_pairwise_disjoint _ _ (chunks_pairwise_disjoint n b hb) (chunks_pairwise_disjoint p b hb)

/-- some task of the grid owns `(i,j)` iff `(i,j)` is a cell of the output -/
theorem gridChunks_any_mem (n p b i j : Nat) (hb : 0 < b) :
    (grid (chunks n b) (chunks p b)).any (fun t => t.mem i j) = decide (i < n ∧ j < p) := by
  rw [grid_any_mem, chunks_any n b i hb, chunks_any p b j hb, Bool.decide_and]

/-! ### A.1 – A.4 for `find_minimum_times` -/

/-- **A.1** exactly one task of the submitted list owns output cell `(i,j)` -/
theorem minTimesTiles_cover_unique (n m p block i j : Nat) (hb : 0 < block) (hm : 0 < m)
    (hi : i < n) (hj : j < p) :
    ((minTimesTiles n m p block).filter (·.mem i j)).length = 1 :=
  gridChunks_cover_unique n p _ i j (block_adj_pos block m hb hm) hi hj

/-- **A.2** no task writes outside the output (no hypothesis on the block size needed) -/
theorem minTimesTiles_inside (n m p block : Nat) (t : Tile) (ht : t ∈ minTimesTiles n m p block)
    (i j : Nat) (h : t.mem i j = true) : i < n ∧ j < p :=
  gridChunks_inside n p _ t ht i j h

/-- **A.3** every submitted task has a non-empty tile. (The hypotheses `0 < n`, `0 < p` of the
request are not needed: for an empty axis the list is empty.) -/
theorem minTimesTiles_nonempty_tiles (n m p block : Nat) (hb : 0 < block) (hm : 0 < m)
    (t : Tile) (ht : t ∈ minTimesTiles n m p block) : t.r.1 < t.r.2 ∧ t.c.1 < t.c.2 :=
  gridChunks_nonempty_tiles n p _ (block_adj_pos block m hb hm) t ht

/-- **A.3** number of submitted tasks -/
theorem minTimesTiles_length (n m p block : Nat) :
    (minTimesTiles n m p block).length
      = numChunks n (ceilDiv block m) * numChunks p (ceilDiv block m) :=
  gridChunks_length n p _

/-- **A.4** two tasks at different positions of the list share no cell -/
theorem minTimesTiles_pairwise_disjoint (n m p block : Nat) (hb : 0 < block) (hm : 0 < m) :
    (minTimesTiles n m p block).Pairwise TileDisjoint :=
  gridChunks_pairwise_disjoint n p _ (block_adj_pos block m hb hm)

/-- **A.4**, index form -/
theorem minTimesTiles_disjoint_index (n m p block : Nat) (hb : 0 < block) (hm : 0 < m)
    (a c : Nat) (ha : a < (minTimesTiles n m p block).length)
    (hc : c < (minTimesTiles n m p block).length) (hac : a ≠ c) (i j : Nat) :
    ¬ (((minTimesTiles n m p block)[a]).mem i j = true ∧
       ((minTimesTiles n m p block)[c]).mem i j = true) := by
  have hp := List.pairwise_iff_getElem.1 (minTimesTiles_pairwise_disjoint n m p block hb hm)
  rcases Nat.lt_or_gt_of_ne hac with h | h
  · exact hp a c ha hc h i j
  · intro hh; exact hp c a hc ha h i j ⟨hh.2, hh.1⟩

/-! ### A.1 – A.4 for `distance_pairwise` -/

theorem distTiles_cover_unique (n1 n2 block i j : Nat) (hb : 0 < block)
    (hi : i < n1) (hj : j < n2) :
    ((distTiles n1 n2 block).filter (·.mem i j)).length = 1 :=
  gridChunks_cover_unique n1 n2 _ i j (block_adj_pos block 6 hb (by decide)) hi hj

theorem distTiles_inside (n1 n2 block : Nat) (t : Tile) (ht : t ∈ distTiles n1 n2 block)
    (i j : Nat) (h : t.mem i j = true) : i < n1 ∧ j < n2 :=
  gridChunks_inside n1 n2 _ t ht i j h

theorem distTiles_nonempty_tiles (n1 n2 block : Nat) (hb : 0 < block)
    (t : Tile) (ht : t ∈ distTiles n1 n2 block) : t.r.1 < t.r.2 ∧ t.c.1 < t.c.2 :=
  gridChunks_nonempty_tiles n1 n2 _ (block_adj_pos block 6 hb (by decide)) t ht

theorem distTiles_length (n1 n2 block : Nat) :
    (distTiles n1 n2 block).length
      = numChunks n1 (ceilDiv block 6) * numChunks n2 (ceilDiv block 6) :=
  gridChunks_length n1 n2 _

theorem distTiles_pairwise_disjoint (n1 n2 block : Nat) (hb : 0 < block) :
    (distTiles n1 n2 block).Pairwise TileDisjoint :=
  gridChunks_pairwise_disjoint n1 n2 _ (block_adj_pos block 6 hb (by decide))

/-! ## B. Block-size and order independence of the result

Task `t` runs `tileOps f t`: for each of its cells `(i,j)`, row-major, write `f i j`
(`overwrite`). A schedule is an `Interleaving` of the task programs (any number of workers, any
completion order, any element-level merge that keeps each task's own order), or — stronger —
any permutation of all element operations. -/

/-- **Extension of `schedule_independent` to interleavings**, for an arbitrary `step` (also
accumulating ones): if task `k` only addresses cells owned by `k`, all interleavings of the
task programs give the same array. -/
theorem interleaving_independent (step : C → P → V → V) (s : C → V) (own : C → Nat)
    (progs : List (List (C × P)))
    (hown : ∀ k prog, progs[k]? = some prog → ∀ op ∈ prog, own op.1 = k)
    (l₁ l₂ : List (C × P)) (h₁ : Interleaving progs l₁) (h₂ : Interleaving progs l₂) :
    runOps step s l₁ = runOps step s l₂ :=
  schedule_independent step s own (fun t => (progs[t]?).getD []) l₁ l₂
    (fun t => h₁.filter_eq (fun op => own op.1) hown t)
    (fun t => h₂.filter_eq (fun op => own op.1) hown t)

/-- result of a grid of chunk tiles under *any permutation of the element operations* -/
theorem gridChunks_result_ops_perm (f : Nat → Nat → V) (s : Nat × Nat → V) (n p b : Nat)
    (hb : 0 < b) (ops : List ((Nat × Nat) × V))
    (h : ops.Perm ((grid (chunks n b) (chunks p b)).flatMap (tileOps f))) (i j : Nat) :
    runOps overwrite s ops (i, j) = if i < n ∧ j < p then f i j else s (i, j) := by
  rw [runOps_tiles_perm f s _ ops h, gridChunks_any_mem n p b i j hb]
  simp only [decide_eq_true_eq]

/-- **B.5 (strongest form)** any permutation of all element operations of all tasks -/
theorem tiled_result_ops_perm (f : Nat → Nat → V) (s : Nat × Nat → V) (n m p block : Nat)
    (hb : 0 < block) (hm : 0 < m) (ops : List ((Nat × Nat) × V))
    (h : ops.Perm ((minTimesTiles n m p block).flatMap (tileOps f))) (i j : Nat) :
    runOps overwrite s ops (i, j) = if i < n ∧ j < p then f i j else s (i, j) :=
  gridChunks_result_ops_perm f s n p _ (block_adj_pos block m hb hm) ops h i j

/-- **B.5** any interleaving of the task programs: every output cell holds `f i j`, every
other cell keeps its value -/
theorem tiled_result (f : Nat → Nat → V) (s : Nat × Nat → V) (n m p block : Nat)
    (hb : 0 < block) (hm : 0 < m) (ops : List ((Nat × Nat) × V))
    (h : Interleaving ((minTimesTiles n m p block).map (tileOps f)) ops) (i j : Nat) :
    runOps overwrite s ops (i, j) = if i < n ∧ j < p then f i j else s (i, j) := by
  refine tiled_result_ops_perm f s n m p block hb hm ops ?_ i j
  rw [List.flatMap_def]
  exact h.perm

theorem tiled_result_inside (f : Nat → Nat → V) (s : Nat × Nat → V) (n m p block : Nat)
    (hb : 0 < block) (hm : 0 < m) (ops : List ((Nat × Nat) × V))
    (h : Interleaving ((minTimesTiles n m p block).map (tileOps f)) ops) (i j : Nat)
    (hi : i < n) (hj : j < p) : runOps overwrite s ops (i, j) = f i j := by
  rw [tiled_result f s n m p block hb hm ops h, if_pos ⟨hi, hj⟩]

theorem tiled_result_outside (f : Nat → Nat → V) (s : Nat × Nat → V) (n m p block : Nat)
    (hb : 0 < block) (hm : 0 < m) (ops : List ((Nat × Nat) × V))
    (h : Interleaving ((minTimesTiles n m p block).map (tileOps f)) ops) (i j : Nat)
    (hout : ¬ (i < n ∧ j < p)) : runOps overwrite s ops (i, j) = s (i, j) := by
  rw [tiled_result f s n m p block hb hm ops h, if_neg hout]

/-- **B.5** the output does not depend on block size, number of workers or completion order -/
theorem tiled_block_independent (f : Nat → Nat → V) (s : Nat × Nat → V)
    (n m p block block' : Nat) (hb : 0 < block) (hb' : 0 < block') (hm : 0 < m)
    (ops ops' : List ((Nat × Nat) × V))
    (h : Interleaving ((minTimesTiles n m p block).map (tileOps f)) ops)
    (h' : Interleaving ((minTimesTiles n m p block').map (tileOps f)) ops') :
    runOps overwrite s ops = runOps overwrite s ops' := by
  funext c
  obtain ⟨i, j⟩ := c
  rw [tiled_result f s n m p block hb hm ops h, tiled_result f s n m p block' hb' hm ops' h']

/-- **B.6** task-level permutations (tasks complete in any order, each runs atomically) -/
theorem tiled_perm_result (f : Nat → Nat → V) (s : Nat × Nat → V) (n m p block : Nat)
    (hb : 0 < block) (hm : 0 < m) (σtiles : List Tile)
    (hσ : σtiles.Perm (minTimesTiles n m p block)) (i j : Nat) :
    runOps overwrite s (σtiles.flatMap (tileOps f)) (i, j)
      = if i < n ∧ j < p then f i j else s (i, j) :=
  tiled_result_ops_perm f s n m p block hb hm _ (hσ.flatMap_right _) i j

theorem tiled_perm_block_independent (f : Nat → Nat → V) (s : Nat × Nat → V)
    (n m p block block' : Nat) (hb : 0 < block) (hb' : 0 < block') (hm : 0 < m)
    (σ σ' : List Tile) (hσ : σ.Perm (minTimesTiles n m p block))
    (hσ' : σ'.Perm (minTimesTiles n m p block')) :
    runOps overwrite s (σ.flatMap (tileOps f)) = runOps overwrite s (σ'.flatMap (tileOps f)) := by
  funext c
  obtain ⟨i, j⟩ := c
  rw [tiled_perm_result f s n m p block hb hm σ hσ, tiled_perm_result f s n m p block' hb' hm σ' hσ']

/-- instance: the tiled `find_minimum_times` computes the min-plus product with argmin in every
output cell, for every block size and schedule -/
theorem minTimes_tiled_result {α : Type} [LT α] [DecidableLT α] [Add α]
    (t1 t2 : Nat → Nat → α) (s : Nat × Nat → Option (α × Nat)) (n m p block : Nat)
    (hb : 0 < block) (hm : 0 < m) (ops : List ((Nat × Nat) × Option (α × Nat)))
    (h : Interleaving ((minTimesTiles n m p block).map (tileOps (minPlus m t1 t2))) ops)
    (i j : Nat) (hi : i < n) (hj : j < p) :
    runOps overwrite s ops (i, j) = minPlus m t1 t2 i j :=
  tiled_result_inside (minPlus m t1 t2) s n m p block hb hm ops h i j hi hj

/-! ### the same for `distance_pairwise` -/

theorem dist_tiled_result_ops_perm (f : Nat → Nat → V) (s : Nat × Nat → V) (n1 n2 block : Nat)
    (hb : 0 < block) (ops : List ((Nat × Nat) × V))
    (h : ops.Perm ((distTiles n1 n2 block).flatMap (tileOps f))) (i j : Nat) :
    runOps overwrite s ops (i, j) = if i < n1 ∧ j < n2 then f i j else s (i, j) :=
  gridChunks_result_ops_perm f s n1 n2 _ (block_adj_pos block 6 hb (by decide)) ops h i j

theorem dist_tiled_result (f : Nat → Nat → V) (s : Nat × Nat → V) (n1 n2 block : Nat)
    (hb : 0 < block) (ops : List ((Nat × Nat) × V))
    (h : Interleaving ((distTiles n1 n2 block).map (tileOps f)) ops) (i j : Nat) :
    runOps overwrite s ops (i, j) = if i < n1 ∧ j < n2 then f i j else s (i, j) := by
  refine dist_tiled_result_ops_perm f s n1 n2 block hb ops ?_ i j
  rw [List.flatMap_def]
  exact h.perm

theorem dist_tiled_block_independent (f : Nat → Nat → V) (s : Nat × Nat → V)
    (n1 n2 block block' : Nat) (hb : 0 < block) (hb' : 0 < block')
    (ops ops' : List ((Nat × Nat) × V))
    (h : Interleaving ((distTiles n1 n2 block).map (tileOps f)) ops)
    (h' : Interleaving ((distTiles n1 n2 block').map (tileOps f)) ops') :
    runOps overwrite s ops = runOps overwrite s ops' := by
  funext c
  obtain ⟨i, j⟩ := c
  rw [dist_tiled_result f s n1 n2 block hb ops h, dist_tiled_result f s n1 n2 block' hb' ops' h']

theorem dist_tiled_perm_result (f : Nat → Nat → V) (s : Nat × Nat → V) (n1 n2 block : Nat)
    (hb : 0 < block) (σtiles : List Tile) (hσ : σtiles.Perm (distTiles n1 n2 block)) (i j : Nat) :
    runOps overwrite s (σtiles.flatMap (tileOps f)) (i, j)
      = if i < n1 ∧ j < n2 then f i j else s (i, j) :=
  dist_tiled_result_ops_perm f s n1 n2 block hb _ (hσ.flatMap_right _) i j

/-! ## C. Inputs are not modified -/

section Inputs
variable {In Out : Type} [DecidableEq In] [DecidableEq Out]

/-- memory = inputs ⊕ outputs; operations write only output cells (`Sum.inr`): every input
cell keeps its value under any schedule and any step function -/
theorem inputs_untouched (step : Sum In Out → P → V → V) (mem : Sum In Out → V)
    (ops : List (Sum In Out × P)) (hw : ∀ op ∈ ops, ∃ o, op.1 = Sum.inr o) (a : In) :
    runOps step mem ops (Sum.inl a) = mem (Sum.inl a) := by
  apply untouched
  intro op hop e
  obtain ⟨o, ho⟩ := hw op hop
  rw [ho] at e
  cases e

/-- the same when each operation may additionally *read all current inputs* (`runMem`) -/
theorem runMem_inputs_untouched (step : (In → V) → Out → P → V → V) (mem : Sum In Out → V)
    (ops : List (Out × P)) (a : In) :
    runMem step mem ops (Sum.inl a) = mem (Sum.inl a) := by
  induction ops generalizing mem with
  | nil => rfl
  | cons op rest ih => rw [runMem_cons, ih]; simp

/-- and the outputs of `runMem` are those of `runOps` with the *initial* inputs closed over:
the `runOps` model (inputs are not cells) loses nothing -/
theorem runMem_outputs (step : (In → V) → Out → P → V → V) (mem : Sum In Out → V)
    (ops : List (Out × P)) (o : Out) :
    runMem step mem ops (Sum.inr o)
      = runOps (step (fun a => mem (Sum.inl a))) (fun o => mem (Sum.inr o)) ops o := by
  induction ops generalizing mem with
  | nil => rfl
  | cons op rest ih =>
    rw [runMem_cons, ih, runOps_cons]
    congr 1
    funext o'
    simp

end Inputs

/-! ## D. prange kernels -/

/-- iteration `k` writes `body k` (computed from the shared inputs) into output element `k` -/
def prangeOps (body : Nat → V) (σ : List Nat) : List (Nat × V) := σ.map (fun k => (k, body k))

theorem prange_ops_perm (body : Nat → V) (s : Nat → V) (N : Nat) (ops : List (Nat × V))
    (h : ops.Perm (prangeOps body (List.range N))) :
    runOps overwrite s ops = fun k => if k < N then body k else s k := by
  funext k
  have hval : ∀ op ∈ ops, op.2 = body op.1 := by
    intro op hop
    have := h.mem_iff.1 hop
    simp only [prangeOps, List.mem_map] at this
    obtain ⟨k, _, rfl⟩ := this
    rfl
  rw [runOps_overwrite body s ops hval]
  have hmem : k ∈ ops.map (·.1) ↔ k < N := by
    rw [(h.map _).mem_iff]
    simp [prangeOps]
  by_cases hk : k < N
  · rw [if_pos hk, if_pos (hmem.2 hk)]
  · rw [if_neg hk, if_neg (fun h' => hk (hmem.1 h'))]

/-- **D** running the `N` iterations in any order `σ` gives the same array -/
theorem prange_independent (body : Nat → V) (s : Nat → V) (N : Nat) (σ : List Nat)
    (h : σ.Perm (List.range N)) :
    runOps overwrite s (prangeOps body σ) = fun k => if k < N then body k else s k :=
  prange_ops_perm body s N _ (h.map _)

/-- **D, corollary** `T = parts.length` threads, thread `t` executes the iterations `parts[t]`
in that order, the threads' writes interleave arbitrarily: the result is the sequential one -/
theorem prange_threads (body : Nat → V) (s : Nat → V) (N : Nat) (parts : List (List Nat))
    (hparts : parts.flatten.Perm (List.range N)) (ops : List (Nat × V))
    (h : Interleaving (parts.map (prangeOps body)) ops) :
    runOps overwrite s ops = runOps overwrite s (prangeOps body (List.range N)) := by
  have h1 : ops.Perm (prangeOps body (List.range N)) := by
    refine h.perm.trans ?_
    have : (parts.map (prangeOps body)).flatten = prangeOps body parts.flatten := by
      unfold prangeOps; rw [List.map_flatten]
    rw [this]
    exact hparts.map _
  rw [prange_ops_perm body s N ops h1, prange_independent body s N _ (List.Perm.refl _)]

/-- generic step (e.g. `out[k] += …`): each iteration touches its own element once, so any
order of the iterations gives `step k (pay k) (s k)` -/
theorem prange_step_independent (step : Nat → P → V → V) (pay : Nat → P) (s : Nat → V)
    (N : Nat) (σ : List Nat) (h : σ.Perm (List.range N)) :
    runOps step s (σ.map (fun k => (k, pay k)))
      = fun k => if k < N then step k (pay k) (s k) else s k := by
  funext c
  rw [runOps_cell]
  have hnd : σ.Nodup := h.nodup_iff.2 List.nodup_range
  have key : ∀ l : List Nat, l.Nodup →
      ((l.map (fun k => (k, pay k))).filter (fun op => op.1 = c)).map (·.2)
        = if c ∈ l then [pay c] else [] := by
    intro l hl
    induction l with
    | nil => simp
    | cons a l ih =>
      have hl' := List.nodup_cons.1 hl
      rw [List.map_cons, List.filter_cons]
      by_cases hac : a = c
      · subst hac
        simp [ih hl'.2, hl'.1]
      · have : ¬ c = a := fun e => hac e.symm
        simp [hac, this, ih hl'.2]
  rw [key σ hnd]
  have hmem : c ∈ σ ↔ c < N := by rw [h.mem_iff]; simp
  by_cases hc : c < N
  · rw [if_pos (hmem.2 hc), if_pos hc]; rfl
  · rw [if_neg (fun h' => hc (hmem.1 h')), if_neg hc]; rfl

/-! ### per-cell determinism of the scan -/

section Scan
variable {α : Type} [LT α] [DecidableLT α]

theorem scanMin_zero (f : Nat → α) : scanMin f 0 = none := rfl

/-- the candidates are consumed in the fixed order `k = 0, 1, …, m-1` -/
theorem scanMin_succ (f : Nat → α) (m : Nat) :
    scanMin f (m + 1) = kstep (scanMin f m) m (f m) := by
  simp [scanMin, List.range_succ]

/-- the result depends only on `f` restricted to `[0, m)` -/
theorem scanMin_congr (f g : Nat → α) (m : Nat) (h : ∀ k, k < m → f k = g k) :
    scanMin f m = scanMin g m := by
  induction m with
  | zero => rfl
  | succ m ih =>
    rw [scanMin_succ, scanMin_succ, ih (fun k hk => h k (by omega)), h m (by omega)]

/-- `out[i,j]` depends only on row `i` of `t1` and column `j` of `t2`, indices `< m` -/
theorem minPlus_congr [Add α] (m : Nat) (t1 t2 u1 u2 : Nat → Nat → α) (i j : Nat)
    (h1 : ∀ k, k < m → t1 i k = u1 i k) (h2 : ∀ k, k < m → t2 k j = u2 k j) :
    minPlus m t1 t2 i j = minPlus m u1 u2 i j := by
  unfold minPlus
  apply scanMin_congr
  intro k hk
  rw [h1 k hk, h2 k hk]

end Scan

/-! ## E. Non-vacuity -/

-- A.1 with concrete numbers: n=3, m=2, p=3, block=4 (block_adj = 2, four tiles)
example : minTimesTiles 3 2 3 4
    = [⟨(0,2),(0,2)⟩, ⟨(0,2),(2,3)⟩, ⟨(2,3),(0,2)⟩, ⟨(2,3),(2,3)⟩] := by decide
example : ((minTimesTiles 3 2 3 4).filter (·.mem 1 2)).length = 1 := by decide
example : ((minTimesTiles 3 2 3 4).filter (·.mem 1 2)).length = 1 :=
  minTimesTiles_cover_unique 3 2 3 4 1 2 (by decide) (by decide) (by decide) (by decide)
example : ((distTiles 5 4 13).filter (·.mem 4 3)).length = 1 := by decide
-- an out-of-range cell is owned by no task
example : ((minTimesTiles 3 2 3 4).filter (·.mem 3 0)).length = 0 := by decide
-- different block sizes really give different task lists
example : (minTimesTiles 3 2 3 4).length = 4 ∧ (minTimesTiles 3 2 3 1).length = 9
    ∧ (minTimesTiles 3 2 3 100).length = 1 := by decide

-- the program of one tile, row-major
example : tileOps (fun i j => 10 * i + j) ⟨(0,2),(2,3)⟩ = [((0,2),2), ((1,2),12)] := by decide

-- B.5/B.6: reversed task order, concrete evaluation and via the theorem
example : runOps overwrite (fun _ => 0)
    ((minTimesTiles 3 2 3 4).reverse.flatMap (tileOps (fun i j => 10 * i + j))) (2, 1) = 21 := by
  decide
example : runOps overwrite (fun _ => 0)
    ((minTimesTiles 3 2 3 4).reverse.flatMap (tileOps (fun i j => 10 * i + j))) (3, 1) = 0 := by
  decide
example (f : Nat → Nat → Nat) (s : Nat × Nat → Nat) :
    runOps overwrite s ((minTimesTiles 3 2 3 4).reverse.flatMap (tileOps f)) (2, 1) = f 2 1 := by
  rw [tiled_perm_result f s 3 2 3 4 (by decide) (by decide) _ (List.reverse_perm _)]
  simp
-- block sizes 4 and 1, forward and reversed task orders: same array
example (f : Nat → Nat → Nat) (s : Nat × Nat → Nat) :
    runOps overwrite s ((minTimesTiles 3 2 3 4).reverse.flatMap (tileOps f))
      = runOps overwrite s ((minTimesTiles 3 2 3 1).flatMap (tileOps f)) :=
  tiled_perm_block_independent f s 3 2 3 4 1 (by decide) (by decide) (by decide) _ _
    (List.reverse_perm _) (List.Perm.refl _)

-- the hypothesis `Interleaving` is inhabited: sequential execution …
example (f : Nat → Nat → Nat) :
    Interleaving ((minTimesTiles 3 2 3 4).map (tileOps f))
      ((minTimesTiles 3 2 3 4).flatMap (tileOps f)) := by
  rw [List.flatMap_def]; exact Interleaving.flatten _
-- … and a genuine element-level merge of two tasks (task 1 starts first, then alternate)
example : Interleaving [[(0, 'a'), (1, 'b')], [(2, 'c'), (3, 'd')]]
    [(2, 'c'), (0, 'a'), (3, 'd'), (1, 'b')] :=
  .step (k := 1) rfl (.step (k := 0) rfl (.step (k := 1) rfl (.step (k := 0) rfl
    (.done (by decide)))))
-- an order-violating sequence is *not* an interleaving
example : ¬ Interleaving [[(0, 'a'), (1, 'b')]] [(1, 'b'), (0, 'a')] := by
  intro h
  have := h.filter_eq (fun _ => 0) (by
    intro k prog hk x _
    cases k with
    | zero => rfl
    | succ k => simp at hk) 0
  simp at this

-- D: 4 iterations in the order 2,0,3,1
example (body : Nat → Nat) (s : Nat → Nat) :
    runOps overwrite s (prangeOps body [2, 0, 3, 1]) = fun k => if k < 4 then body k else s k :=
  prange_independent body s 4 [2, 0, 3, 1] (by decide)
-- D: two threads, thread 0 takes {0,2}, thread 1 takes {3,1}
example (body : Nat → Nat) (s : Nat → Nat) (ops : List (Nat × Nat))
    (h : Interleaving ([[0, 2], [3, 1]].map (prangeOps body)) ops) :
    runOps overwrite s ops = runOps overwrite s (prangeOps body (List.range 4)) :=
  prange_threads body s 4 [[0, 2], [3, 1]] (by decide) ops h


/-! ## The kernels as translated from the source on this run

The translator (`harness/py2lean.py`, cell mode) accepts a numba kernel only if every iteration of its loop nest over
output cells reads inputs and its *own* output cell and writes that cell only (an access `out[i', j']` with other indices
is refused). So the per-cell definitions `Src.das_*`, `Src.find_minimum_times_cell`, `Src.distance_pairwise_cell`
(`Generated/SrcC02.lean`, `SrcC01.lean`, regenerated on every run) are bodies to which the schedule-independence theorems
above apply as they stand. -/
section OnSource
open Arim.Das Arim.Tie.C02

/-- **delay-and-sum, any split of the image points over numba threads, any interleaving of their writes**: the result
array holds, at every image point, the value of the translated per-point kernel -/
theorem src_das_prange_threads {α β : Type} [Add α] [Sub α] [Mul α] [Div α] [Neg α]
    (o : Src.Ops α) (d : Data α β) (wt : Nat → Nat → β) (tx rx : Nat → Nat) (ltx lrx : Nat → Nat → α)
    (invdt t0 : α) (fill : β) (N n numpoints : Nat) (result0 : Nat → β)
    (parts : List (List Nat)) (hparts : parts.flatten.Perm (List.range numpoints)) (ops : List (Nat × β))
    (h : Interleaving (parts.map (prangeOps (fun pt => Src.das_noamp_nearest o d wt tx rx ltx lrx invdt t0 fill N n pt))) ops) :
    runOps overwrite result0 ops =
      fun pt => if pt < numpoints then Src.das_noamp_nearest o d wt tx rx ltx lrx invdt t0 fill N n pt else result0 pt := by
  rw [prange_threads _ result0 numpoints parts hparts ops h, prange_independent _ result0 numpoints _ (List.Perm.refl _)]

/-- **min-plus product, any block size, any number of workers, any completion order**: every output cell holds the
value of the translated per-cell kernel (entered with the initial `(inf, -1)`), cells outside the output are untouched -/
theorem src_find_minimum_times_tiled {α : Type} [LinearOrder α] [Add α] [Sub α] [Mul α] [Div α] [Neg α]
    (o : Src.Ops α) (t1 t2 : Nat → Nat → α) (inf : α) (n m p block : Nat) (hb : 0 < block) (hm : 0 < m)
    (s : Nat × Nat → α × Int) (ops : List ((Nat × Nat) × (α × Int)))
    (h : Interleaving ((minTimesTiles n m p block).map
      (tileOps (fun i j => Src.find_minimum_times_cell o t1 t2 inf (-1) m i j))) ops) (i j : Nat) :
    runOps overwrite s ops (i, j) =
      if i < n ∧ j < p then Src.find_minimum_times_cell o t1 t2 inf (-1) m i j else s (i, j) :=
  tiled_result _ s n m p block hb hm ops h i j

end OnSource

/-! ## On the source: `chunk_array` as translated from `/repo/src/arim/helpers.py` on every run -/
section OnSourceChunks
open Arim.Tie.C13

variable {K : Type} [Add K] [Sub K] [Mul K] [Div K] [Neg K]

/-- **the slices `chunk_array` yields partition the axis**: for every block size `≥ 1`, every axis length (also `0`, also
shorter than one block) and every position of the axis, the yielded slices, clipped to the axis as NumPy does when the
index tuple is used, are non-empty, pairwise disjoint, and every index of the axis lies in exactly one of them; nothing
outside the axis is selected -/
theorem src_chunk_array_partition (o : Src.Ops K) (shape : Nat → Nat) (ndim b axis : Nat) (hb : 0 < b) :
    (∀ r ∈ (Src.chunk_array o shape ndim b axis).map (clip (shape axis)), r.1 < r.2) ∧
    ((Src.chunk_array o shape ndim b axis).map (clip (shape axis))).Pairwise SliceDisjoint ∧
    (∀ x, x < shape axis → ((Src.chunk_array o shape ndim b axis).map (clip (shape axis))).countP (inSlice x) = 1) ∧
    (∀ x, ((Src.chunk_array o shape ndim b axis).map (clip (shape axis))).any (inSlice x) = decide (x < shape axis)) := by
  rw [tie_chunk_array_clipped]
  exact ⟨fun r hr => chunks_nonempty _ b hb r hr, chunks_pairwise_disjoint _ b hb,
    fun x hx => chunks_cover_unique _ b x hb hx, fun x => chunks_any _ b x hb⟩

/-- the number of tasks is `ceil(L / b)` and the slice sits at the position of the split axis in every index tuple -/
theorem src_chunk_array_count (o : Src.Ops K) (shape : Nat → Nat) (ndim b axis : Nat) :
    (Src.chunk_array o shape ndim b axis).length = numChunks (shape axis) b ∧
    ∀ t ∈ Src.chunk_array o shape ndim b axis, t.1 = axis := by
  refine ⟨?_, tie_chunk_array_position o shape ndim b axis⟩
  rw [tie_chunk_array]; simp

/-- **block-size independence of what is covered**: two positive block sizes select, all slices together, the same set of
indices of the axis (all of them) -/
theorem src_chunk_array_block_independent (o : Src.Ops K) (shape : Nat → Nat) (ndim b b' axis : Nat) (hb : 0 < b) (hb' : 0 < b') (x : Nat) :
    ((Src.chunk_array o shape ndim b axis).map (clip (shape axis))).any (inSlice x) =
      ((Src.chunk_array o shape ndim b' axis).map (clip (shape axis))).any (inSlice x) := by
  rw [(src_chunk_array_partition o shape ndim b axis hb).2.2.2 x, (src_chunk_array_partition o shape ndim b' axis hb').2.2.2 x]

/-- non-vacuity: the docstring's example, `chunk_array((10,), 3)` -/
example : (Src.chunk_array (K := Int) ⟨id, id, id, id, id, id, 0, fun n => n, id, id, id, id⟩ (fun _ => 10) 1 3 0).map (clip 10)
    = [(0, 3), (3, 6), (6, 9), (9, 10)] := by decide

end OnSourceChunks

end Arim.C13
