import ArimModel.Weights
/-! # C07 — receive-side (reverse) terms equal transmit-side terms of the reversed path -/
namespace Arim.C07
open Arim.Weights Arim.Iface

variable {C : Type} [Add C] [Sub C] [Mul C] [Div C] [Neg C]

/-- the reverse product is the direct product over the interfaces seen from the other side:
modes and velocities swapped, the kind reversed for a transmission and kept for a reflection,
the incidence angle replaced by its Snell image -/
theorem revTransRefl_def (t : CTrig C) (m : Media C) (disp : Bool) (specs : List (IfaceSpec C)) :
    revTransRefl t m disp specs = transRefl t m disp (specs.map (revSpec t)) := rfl

/-- reversing an interface twice gives back its kind, modes and velocities -/
theorem revSpec_revSpec_shape (t : CTrig C) (s : IfaceSpec C) :
    (revSpec t (revSpec t s)).kind = s.kind ∧ (revSpec t (revSpec t s)).modeIn = s.modeIn ∧
    (revSpec t (revSpec t s)).modeOut = s.modeOut ∧ (revSpec t (revSpec t s)).vIn = s.vIn ∧
    (revSpec t (revSpec t s)).vOut = s.vOut := by
  obtain ⟨tr, k, mi, mo, th, vi, vo⟩ := s
  cases tr <;> cases k <;> simp [revSpec, Kind.rev]

end Arim.C07
