import ArimModel.Weights
import ArimProofs.Tie.C07
import ArimProofs.Lemmas.Weights
import ArimProofs.C06
import Mathlib.Analysis.SpecialFunctions.Trigonometric.Inverse
/-! # C07 — receive-side (reverse) terms equal transmit-side terms of the reversed path -/
namespace Arim.C07
open Arim.Weights Arim.Iface

section shape
variable {C : Type} [Add C] [Sub C] [Mul C] [Div C] [Neg C]

/-- the reverse product is the direct product over the interfaces seen from the other side:
modes and velocities swapped, the kind reversed for a transmission and kept for a reflection,
the incidence angle replaced by its Snell image -/
theorem revTransRefl_def (t : CTrig C) (m : Media C) (disp : Bool) (specs : List (IfaceSpec C)) :
    revTransRefl t m disp specs = transRefl t m disp (specs.map (revSpec t)) := rfl

omit [Add C] [Sub C] [Neg C] in
/-- reversing an interface twice gives back its kind, modes and velocities -/
theorem revSpec_revSpec_shape (t : CTrig C) (s : IfaceSpec C) :
    (revSpec t (revSpec t s)).kind = s.kind ∧ (revSpec t (revSpec t s)).modeIn = s.modeIn ∧
    (revSpec t (revSpec t s)).modeOut = s.modeOut ∧ (revSpec t (revSpec t s)).vIn = s.vIn ∧
    (revSpec t (revSpec t s)).vOut = s.vOut := by
  obtain ⟨tr, k, mi, mo, th, vi, vo⟩ := s
  cases tr <;> cases k <;> simp [revSpec, Kind.rev]

end shape

/-! ## attenuation -/
section atten
variable {K : Type} [CommRing K]

/-- `material_attenuation_for_path` is `exp(0 − Σ α_k r_k)` (`exp` arbitrary) -/
theorem attenuation_eq_sum (t : RTrig K) (alphas legs : List K) :
    attenuation t alphas legs =
      t.exp (t.zero - ((List.zip alphas legs).map (fun p => p.1 * p.2)).sum) := by
  unfold attenuation; rw [foldl_sub_eq]

/-- **Reverse attenuation**: the attenuation of the reversed path (legs and coefficients listed
from the far end) is the attenuation of the direct path -/
theorem attenuation_reverse (t : RTrig K) (alphas legs : List K) (h : alphas.length = legs.length) :
    attenuation t alphas.reverse legs.reverse = attenuation t alphas legs := by
  rw [attenuation_eq_sum, attenuation_eq_sum]
  have : List.zip alphas.reverse legs.reverse = (List.zip alphas legs).reverse := by
    unfold List.zip; rw [List.reverse_zipWith h]
  rw [this, List.map_reverse, List.sum_reverse]

end atten

/-! ## transmission/reflection product -/
section prod
variable {C : Type} [CommMonoid C] [Add C] [Sub C] [Div C] [Neg C]

/-- the only error `transRefl` can report is `physics` (a transverse wave in the fluid) -/
theorem coef_error_physics (t : CTrig C) (m : Media C) (disp : Bool) (s : IfaceSpec C) (e : IErr)
    (h : coef t m disp s = .error e) : e = .physics := coef_error h

/-- **Fold lemma**: when no coefficient is an error, `transRefl` is `some` of the product of the
coefficients (`none` for a path without interior interface). The coefficient functions are
arbitrary (any `CTrig`), so complex post-critical values are covered. -/
theorem transRefl_eq_prod (t : CTrig C) (m : Media C) (disp : Bool) (specs : List (IfaceSpec C))
    (cs : List C) (h : List.Forall₂ (fun s c => coef t m disp s = .ok c) specs cs) :
    transRefl t m disp specs = .ok (if specs = [] then none else some cs.prod) := by
  have key : (∀ s ∈ specs, coef t m disp s = .ok (coefVal t m disp s)) ∧
      specs.map (coefVal t m disp) = cs := by
    induction h with
    | nil => simp
    | @cons s₀ c₀ _ _ hc _ ih =>
      have hv : coefVal t m disp s₀ = c₀ := by unfold coefVal; rw [hc]
      refine ⟨?_, ?_⟩
      · intro s hs
        rcases List.mem_cons.1 hs with rfl | hs
        · rw [hv, hc]
        · exact ih.1 s hs
      · rw [List.map_cons, ih.2, hv]
  obtain ⟨hall, hcs⟩ := key
  rw [transRefl_ok t m disp specs hall, hcs]

/-- the product does not depend on the order in which the interfaces are listed
(commutative multiplication); unconditional: if a coefficient is an error both sides are
`error physics` -/
theorem transRefl_reverse_invariant (t : CTrig C) (m : Media C) (disp : Bool)
    (specs : List (IfaceSpec C)) :
    transRefl t m disp specs.reverse = transRefl t m disp specs :=
  transRefl_reverse t m disp specs

/-- **Reverse T/R product = direct T/R product on the physically reversed path**: the reversed
path meets the reversed interfaces in the opposite order -/
theorem revTransRefl_eq_reversed (t : CTrig C) (m : Media C) (disp : Bool)
    (specs : List (IfaceSpec C)) :
    transRefl t m disp ((specs.map (revSpec t)).reverse) = revTransRefl t m disp specs := by
  rw [revTransRefl, transRefl_reverse]

/-- same statement with the reversal done first -/
theorem revTransRefl_eq_reversed' (t : CTrig C) (m : Media C) (disp : Bool)
    (specs : List (IfaceSpec C)) :
    transRefl t m disp (specs.reverse.map (revSpec t)) = revTransRefl t m disp specs := by
  rw [List.map_reverse]; exact revTransRefl_eq_reversed t m disp specs

end prod

/-! ## reverse ray-tube factors -/
section gam
variable {K : Type} [Field K]

/-- **γ' = 1/γ** as an identity in `ν, s, c` (`ν' = 1/ν`): the reverse factor
`ν' c² / (1 − ν'² s²)` is the inverse of the direct factor `(ν² − s²)/(ν c²)`. No Snell, and no
side condition: where a denominator vanishes both sides are `0` (`x/0 = 0`). -/
theorem revGamma_eq_inv (ν s c : K) :
    ((1 / ν) * c * c) / (1 - (1 / ν) * (1 / ν) * s * s) = 1 / ((ν * ν - s * s) / (ν * c * c)) := by
  rw [one_div, one_div]; exact revGamma_inv_aux ν s c

/-- the factor the reverse routine computes at an interface (outgoing velocity first) is the
inverse of the direct factor at that interface -/
theorem revGammaF_eq_inv (t : RTrig K) (hone : t.one = 1) (vIn vOut θ : K) :
    revGammaF t vOut vIn θ = (gammaF t vIn vOut θ)⁻¹ := by
  simp only [revGammaF, gammaF, hone]
  rw [← inv_div vIn vOut]
  exact revGamma_inv_aux _ _ _

/-- **Reverse gammas**: the `k`-th reverse factor, computed from the direct incidence angle at
interface `n−k`, is the inverse of the direct factor of that interface -/
theorem revGammas_inv (t : RTrig K) (hone : t.one = 1) (vels thetas : List K)
    (hlen : thetas.length + 1 = vels.length) :
    revGammas t vels.reverse thetas.reverse = ((gammas t vels thetas).map (·⁻¹)).reverse := by
  rw [revGammas_eq_ifaceMap, ifaceMap_reverse _ _ _ hlen, gammas_eq_ifaceMap, ifaceMap_map]
  congr 2
  funext a b th
  exact revGammaF_eq_inv t hone a b th

/-- Snell's law at every interior interface: `thetas` are the incidence angles and `thetaOuts` the
refraction/reflection angles of the direct ray, `vIn sin θOut = vOut sin θIn` -/
def SnellLinked (t : RTrig K) (vels thetas thetaOuts : List K) : Prop :=
  IfaceAll (fun vIn vOut θ φ => vIn * t.sin φ = vOut * t.sin θ) vels thetas thetaOuts

/-- indexed form of `SnellLinked` -/
theorem snellLinked_of_index (t : RTrig K) (vels thetas thetaOuts : List K)
    (h : ∀ k (h1 : k + 1 < vels.length) (h2 : k < thetas.length) (h3 : k < thetaOuts.length),
      vels[k] * t.sin thetaOuts[k] = vels[k + 1] * t.sin thetas[k]) :
    SnellLinked t vels thetas thetaOuts :=
  IfaceAll_of_index vels thetas thetaOuts h

/-- under Snell, the reverse routine's factors are the DIRECT factors of the reversed ray, whose
incidence angles are the `θOut` of the direct ray in reverse order -/
theorem revGammas_eq_gammas_reversed (t : RTrig K) (hone : t.one = 1)
    (hpyth : ∀ x, t.cos x * t.cos x = 1 - t.sin x * t.sin x)
    (vels thetas thetaOuts : List K)
    (hlen : thetas.length + 1 = vels.length) (hlen' : thetaOuts.length = thetas.length)
    (hv : ∀ v ∈ vels, v ≠ 0) (hsnell : SnellLinked t vels thetas thetaOuts) :
    revGammas t vels.reverse thetas.reverse = gammas t vels.reverse thetaOuts.reverse := by
  rw [revGammas_eq_ifaceMap, ifaceMap_reverse _ _ _ hlen, gammas_eq_ifaceMap,
    ifaceMap_reverse _ _ _ (by omega)]
  congr 1
  apply ifaceMap_congr _ _ _ _ _ hlen'.symm
  refine IfaceAll_mono ?_ _ _ _ (IfaceAll_and_mem (Q := fun v => v ≠ 0) _ _ _ hv hsnell)
  intro vIn vOut θ φ ⟨hIn, _, hs⟩
  simp only [revGammaF, gammaF, hone]
  exact (gamma_reversed_aux vIn vOut (t.sin θ) (t.cos θ) (t.sin φ) (t.cos φ) hIn hs
    (hpyth θ) (hpyth φ)).symm

/-- **Reverse beamspread = direct beamspread of the reversed ray** (general field, abstract
`sin`/`cos` with `sin² + cos² = 1`) -/
theorem revBeamspread_eq_reversed (t : RTrig K) (hone : t.one = 1)
    (hpyth : ∀ x, t.cos x * t.cos x = 1 - t.sin x * t.sin x)
    (legs vels thetas thetaOuts : List K)
    (hlen : thetas.length + 1 = vels.length) (hlen' : thetaOuts.length = thetas.length)
    (hv : ∀ v ∈ vels, v ≠ 0) (hsnell : SnellLinked t vels thetas thetaOuts) :
    revBeamspread t legs vels thetas = beamspread t legs.reverse vels.reverse thetaOuts.reverse := by
  unfold revBeamspread beamspread
  rw [revGammas_eq_gammas_reversed t hone hpyth vels thetas thetaOuts hlen hlen' hv hsnell]

end gam

section real
open Arim.C06

/-- **Reverse beamspread = direct beamspread of the reversed ray**, real angles: only Snell's law
at every interface and non-zero velocities are assumed -/
theorem revBeamspread_eq_reversed_real (legs vels thetas thetaOuts : List ℝ)
    (hlen : thetas.length + 1 = vels.length) (hlen' : thetaOuts.length = thetas.length)
    (hv : ∀ v ∈ vels, v ≠ 0)
    (hsnell : ∀ k (h1 : k + 1 < vels.length) (h2 : k < thetas.length) (h3 : k < thetaOuts.length),
      vels[k] * Real.sin thetaOuts[k] = vels[k + 1] * Real.sin thetas[k]) :
    revBeamspread rT legs vels thetas = beamspread rT legs.reverse vels.reverse thetaOuts.reverse :=
  revBeamspread_eq_reversed rT rfl rT_pyth legs vels thetas thetaOuts hlen hlen' hv
    (snellLinked_of_index rT vels thetas thetaOuts hsnell)

end real

/-! ## double reversal of an interface -/
section invol
variable {C : Type} [Field C]

/-- **The angle comes back**: exact hypotheses on `asin`/`sin` — `sin (asin x) = x` at the Snell
argument `x = vOut/vIn · sin θ` and `asin (sin θ) = θ` at the incidence angle -/
theorem revSpec_involutive_angle (t : CTrig C) (s : IfaceSpec C) (hIn : s.vIn ≠ 0) (hOut : s.vOut ≠ 0)
    (hsin : t.sin (t.asin (s.vOut / s.vIn * t.sin s.theta)) = s.vOut / s.vIn * t.sin s.theta)
    (hasin : t.asin (t.sin s.theta) = s.theta) :
    (revSpec t (revSpec t s)).theta = s.theta := by
  simp only [revSpec, snell, hsin]
  rw [← mul_assoc, div_mul_div_comm, mul_comm s.vIn, div_self (mul_ne_zero hOut hIn), one_mul, hasin]

/-- under the same hypotheses `revSpec` is an involution on that interface -/
theorem revSpec_involutive (t : CTrig C) (s : IfaceSpec C) (hIn : s.vIn ≠ 0) (hOut : s.vOut ≠ 0)
    (hsin : t.sin (t.asin (s.vOut / s.vIn * t.sin s.theta)) = s.vOut / s.vIn * t.sin s.theta)
    (hasin : t.asin (t.sin s.theta) = s.theta) :
    revSpec t (revSpec t s) = s := by
  have hθ := revSpec_involutive_angle t s hIn hOut hsin hasin
  obtain ⟨tr, k, mi, mo, th, vi, vo⟩ := s
  cases tr <;> cases k <;> simp_all [revSpec, Kind.rev]

end invol

section invol_real

/-- real instance of the interface routines -/
noncomputable def tR : CTrig ℝ :=
  { sin := Real.sin, cos := Real.cos, asin := Real.arcsin, ofNat := fun n => (n : ℝ) }

/-- real angles: the angle comes back when the interface is pre-critical
(`|vOut/vIn · sin θ| ≤ 1`) and the incidence angle is in `[−π/2, π/2]` -/
theorem revSpec_involutive_angle_real (s : IfaceSpec ℝ) (hIn : s.vIn ≠ 0) (hOut : s.vOut ≠ 0)
    (hlo : -1 ≤ s.vOut / s.vIn * Real.sin s.theta) (hhi : s.vOut / s.vIn * Real.sin s.theta ≤ 1)
    (hθlo : -(Real.pi / 2) ≤ s.theta) (hθhi : s.theta ≤ Real.pi / 2) :
    (revSpec tR (revSpec tR s)).theta = s.theta :=
  revSpec_involutive_angle tR s hIn hOut (Real.sin_arcsin hlo hhi) (Real.arcsin_sin hθlo hθhi)

end invol_real

/-! ## non-vacuity -/
section examples
open Arim.C06

/-- `exp = id`: `0 − 1·3 − 2·4 = −11` both ways -/
example : attenuation tQ [1, 2] [3, 4] = -11 ∧ attenuation tQ [2, 1] [4, 3] = -11 := by
  norm_num [attenuation, tQ]

example : attenuation tQ ([1, 2] : List ℚ).reverse ([3, 4] : List ℚ).reverse = attenuation tQ [1, 2] [3, 4] :=
  attenuation_reverse tQ _ _ rfl

/-- the length hypothesis of `attenuation_reverse` is needed: `zip` truncates at the other end -/
example : attenuation tQ ([1] : List ℚ).reverse ([3, 4] : List ℚ).reverse ≠ attenuation tQ [1] [3, 4] := by
  norm_num [attenuation, tQ]

/-- `γ' = 1/γ` at `ν = 2, s = 1, c = 1`: `γ = 3/2`, `γ' = 2/3` -/
example : ((1 / 2 : ℚ) * 1 * 1) / (1 - (1 / 2) * (1 / 2) * 1 * 1) = 2 / 3 ∧
    1 / (((2 : ℚ) * 2 - 1 * 1) / (2 * 1 * 1)) = 2 / 3 := by norm_num

theorem tQ_pyth (x : ℚ) : tQ.cos x * tQ.cos x = 1 - tQ.sin x * tQ.sin x := by
  simp only [tQ]; split_ifs <;> norm_num

/-- the 3-4-5 interface of `C06`: incidence `0` (`sin = 3/5`) and refraction `1` (`sin = 4/5`) are
Snell-linked for `vIn = 3`, `vOut = 4` -/
example : SnellLinked tQ [3, 4] [0] [1] := by
  simp only [SnellLinked, IfaceAll, and_true]; norm_num [tQ]

example : revBeamspread tQ [1, 2] [3, 4] [0] = beamspread tQ [2, 1] [4, 3] [1] :=
  revBeamspread_eq_reversed tQ rfl tQ_pyth [1, 2] [3, 4] [0] [1] rfl rfl (by simp)
    (by simp only [SnellLinked, IfaceAll, and_true]; norm_num [tQ])

/-- both sides are `1/(2 + 1/(64/27)) = 64/155` (with `sqrt = id`) -/
example : revBeamspread tQ [1, 2] [3, 4] [0] = 64 / 155 ∧ beamspread tQ [2, 1] [4, 3] [1] = 64 / 155 := by
  norm_num [revBeamspread, beamspread, virtualDistance, revGammas, gammas, tQ, List.range, List.range.loop]

/-- Snell is needed: with the wrong angle for the reversed ray the two differ -/
example : revBeamspread tQ [1, 2] [3, 4] [0] ≠ beamspread tQ [2, 1] [4, 3] [0] := by
  norm_num [revBeamspread, beamspread, virtualDistance, revGammas, gammas, tQ, List.range, List.range.loop]

/-- real angles, normal incidence: Snell holds for any velocities -/
example : revBeamspread rT [1, 2] [1, 2] [0] = beamspread rT [2, 1] [2, 1] [0] := by
  refine revBeamspread_eq_reversed_real [1, 2] [1, 2] [0] [0] rfl rfl (by simp) ?_
  intro k h1 h2 h3
  have hk : k = 0 := by simpa using h2
  subst hk; simp

/-- a rational model of the coefficient routines (all angles evaluate as normal incidence) -/
def tq : CTrig ℚ := { sin := fun _ => 0, cos := fun _ => 1, asin := fun _ => 0, ofNat := fun n => n }
def mq : Media ℚ := { rhoF := 1, rhoS := 2, cF := 1, cL := 2, cT := 1 }
def s1 : IfaceSpec ℚ := ⟨true, .fluidSolid, .L, .L, 0, 1, 2⟩
def s2 : IfaceSpec ℚ := ⟨false, .solidFluid, .L, .L, 0, 2, 2⟩
def s3 : IfaceSpec ℚ := ⟨true, .solidFluid, .L, .L, 0, 2, 1⟩
def sBad : IfaceSpec ℚ := ⟨true, .fluidSolid, .T, .L, 0, 1, 2⟩

theorem coef_s1 : coef tq mq false s1 = .ok (8 / 5) := by
  norm_num [coef, s1, transmissionAt, fluidSolid, nfs, snell, tq, mq, velS]
theorem coef_s2 : coef tq mq false s2 = .ok (-3 / 5) := by
  norm_num [coef, s2, reflectionAt, solidLFluid, nfs, snell, tq, mq, velS]
theorem coef_s3 : coef tq mq false s3 = .ok (2 / 5) := by
  norm_num [coef, s3, transmissionAt, solidLFluid, nfs, snell, tq, mq, velS]

/-- the product of three coefficients -/
example : transRefl tq mq false [s1, s2, s3] = .ok (some (-48 / 125)) := by
  rw [transRefl_eq_prod tq mq false [s1, s2, s3] [8 / 5, -3 / 5, 2 / 5]
    (.cons coef_s1 (.cons coef_s2 (.cons coef_s3 .nil))), if_neg (by simp)]
  norm_num

example : transRefl tq mq false (([s1, s2, s3].map (revSpec tq)).reverse) =
    revTransRefl tq mq false [s1, s2, s3] :=
  revTransRefl_eq_reversed tq mq false _

/-- a transverse wave incident from the fluid: both orders report `physics` -/
example : transRefl tq mq false [s1, sBad, s3] = .error .physics ∧
    transRefl tq mq false [s1, sBad, s3].reverse = .error .physics := ⟨rfl, rfl⟩

/-- the statements apply to any field, in particular to `ℂ` (post-critical coefficients) -/
example {C : Type} [Field C] (t : CTrig C) (m : Media C) (disp : Bool) (specs : List (IfaceSpec C)) :
    transRefl t m disp ((specs.map (revSpec t)).reverse) = revTransRefl t m disp specs :=
  revTransRefl_eq_reversed t m disp specs

/-- `revSpec` is an involution on a normal-incidence real interface -/
example : (revSpec tR (revSpec tR ⟨true, .fluidSolid, .L, .L, 0, 1, 2⟩)).theta = 0 :=
  revSpec_involutive_angle_real _ (by norm_num) (by norm_num) (by norm_num) (by norm_num)
    (by have := Real.pi_pos; linarith) (by have := Real.pi_pos; linarith)

end examples


/-! ## The same statement about the code as translated on this run

`Src.reverse_beamspread_2d_for_path` and `Src.beamspread_2d_for_path` are the translations made from `/repo/src` on
every run; `Tie.C07.tie_reverse_beamspread` and `Tie.C06.tie_beamspread` identify them with the model. -/
section OnSource
open Arim.C06 Arim.Tie.C06 Arim.Tie.C07

/-- **reverse beamspread of a path = direct beamspread of the reversed path, for the translated functions**: `vel'`,
`ang'`, `leg'` are the ray-geometry queries of the reversed path (legs and velocities in reverse order, incidence
angles `ang'` linked to the direct incidence angles by Snell's law at every interior interface). -/
theorem src_reverse_beamspread_eq_reversed (ni : Nat) (vel ang leg vel' ang' leg' : Nat → ℝ) (hn : 2 ≤ ni)
    (hleg : legsOf leg' (ni - 1) = (legsOf leg (ni - 1)).reverse)
    (hvel : velsOf vel' (ni - 1) = (velsOf vel (ni - 1)).reverse)
    (hv : ∀ v ∈ velsOf vel (ni - 1), v ≠ 0)
    (hsnell : ∀ k (h1 : k + 1 < (velsOf vel (ni - 1)).length) (h2 : k < (angsOf ang (ni - 1)).length)
        (h3 : k < (angsOf ang' (ni - 1)).reverse.length),
      (velsOf vel (ni - 1))[k] * Real.sin ((angsOf ang' (ni - 1)).reverse[k])
        = (velsOf vel (ni - 1))[k + 1] * Real.sin ((angsOf ang (ni - 1))[k])) :
    Src.reverse_beamspread_2d_for_path srcOps ni vel ang leg = Src.beamspread_2d_for_path srcOps ni vel' ang' leg' := by
  rw [tie_reverse_beamspread srcOps ni vel ang leg hn, tie_beamspread srcOps ni vel' ang' leg' hn, rtrig_srcOps]
  rw [revBeamspread_eq_reversed_real _ _ _ (angsOf ang' (ni - 1)).reverse (by simp [velsOf, angsOf]; omega)
    (by simp [angsOf]) hv hsnell]
  rw [hleg, hvel, List.reverse_reverse]

end OnSource

end Arim.C07
