import ArimModel.ScatFn
import Mathlib.Tactic.FieldSimp
import Mathlib.Tactic.Ring
/-! # C09 — scattering functions satisfy reciprocity and their geometric symmetries -/
namespace Arim.C09
open Arim.ScatFn

/-- **Point source**: `S_LL`, `S_TT` are constants (hence symmetric and periodic) and
`v_T² S_LT = −v_L² S_TL` -/
theorem point_reciprocity {C : Type} [Field C] (vL vT : C) (hL : vL ≠ 0) (hT : vT ≠ 0) :
    vT * vT * pointLT vL vT = -(vL * vL * pointTL vL vT) := by
  unfold pointLT pointTL
  field_simp

/-- **Side-drilled hole**: the four functions depend on the two angles only through their
difference `out − inc` -/
theorem sdh_difference_only {C : Type} [Field C] (t : STrig C) (k : SdhCoef C) (inc out d : C) :
    sdhLL t k (inc + d) (out + d) = sdhLL t k inc out ∧ sdhTT t k (inc + d) (out + d) = sdhTT t k inc out ∧
    sdhLT t k (inc + d) (out + d) = sdhLT t k inc out ∧ sdhTL t k (inc + d) (out + d) = sdhTL t k inc out := by
  have h : out + d - (inc + d) = out - inc := by ring
  simp only [sdhLL, sdhTT, sdhLT, sdhTL, h, and_self]

end Arim.C09
