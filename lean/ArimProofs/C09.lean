import ArimModel.ScatFn
import ArimProofs.Lemmas.ScatFn
import Mathlib.Analysis.SpecialFunctions.Trigonometric.Basic
import Mathlib.Algebra.Ring.Periodic
import Mathlib.Tactic.FieldSimp
import Mathlib.Tactic.Ring
import Mathlib.Tactic.LinearCombination
import Mathlib.Tactic.NormNum
/-! # C09 — scattering functions satisfy reciprocity and their geometric symmetries

* point source: `v_T² S_LT = −v_L² S_TL`;
* side-drilled hole (`sdh_2d_scat`), for ALL modal coefficient sequences and all `maxn`:
  `S_LL`, `S_TT` symmetric under exchange of the two angles, `v_T² S_LT(a,b) = −v_L² S_TL(b,a)`,
  `2π`-periodicity in each angle, dependence on `out − inc` only;
* crack centre (`crack_2d_scat`), for every pair of symmetric bilinear forms `qx`, `qz`
  (`symm_inv_form`: the form of the inverse of a symmetric matrix is symmetric): closed forms of
  the four functions, `S_LL`, `S_TT` symmetric, the exact relation
  `kLL · a_T · S_LT(a,b) = −kTT · a_L · S_TL(b,a)`, which for the physical constants is
  `v_T² S_LT(a,b) = −v_L² S_TL(b,a)`, and `2π`-periodicity.

The model computes each of `LL`, `LT`, `TL`, `TT` by its own function with no `to_compute`
argument, so "a subset of keys gives the same values as the full set" holds by construction and
is not stated as a theorem. -/
namespace Arim.C09
open Arim.ScatFn Arim.ScatFnLemmas

/-- **Point source**: `S_LL`, `S_TT` are constants (hence symmetric and periodic) and
`v_T² S_LT = −v_L² S_TL` -/
theorem point_reciprocity {C : Type} [Field C] (vL vT : C) (hL : vL ≠ 0) (hT : vT ≠ 0) :
    vT * vT * pointLT vL vT = -(vL * vL * pointTL vL vT) := by
  unfold pointLT pointTL
  field_simp

/-- **Point source**: the four functions do not depend on the angles at all (they take none), so
exchange symmetry and periodicity are trivial; `S_LL = S_TT = 1`, `S_LT · S_TL = −1` -/
theorem point_symm {C : Type} [Field C] (vL vT : C) (hL : vL ≠ 0) (hT : vT ≠ 0) :
    pointLL (1 : C) = 1 ∧ pointTT (1 : C) = 1 ∧ pointLT vL vT * pointTL vL vT = -1 := by
  refine ⟨rfl, rfl, ?_⟩
  unfold pointLT pointTL
  field_simp

/-- **Side-drilled hole**: the four functions depend on the two angles only through their
difference `out − inc` -/
theorem sdh_difference_only {C : Type} [Field C] (t : STrig C) (k : SdhCoef C) (inc out d : C) :
    sdhLL t k (inc + d) (out + d) = sdhLL t k inc out ∧ sdhTT t k (inc + d) (out + d) = sdhTT t k inc out ∧
    sdhLT t k (inc + d) (out + d) = sdhLT t k inc out ∧ sdhTL t k (inc + d) (out + d) = sdhTL t k inc out := by
  have h : out + d - (inc + d) = out - inc := by ring
  simp only [sdhLL, sdhTT, sdhLT, sdhTL, h, and_self]

/-! ## The complex instance of the trigonometric record -/

/-- complex trigonometry; `s` stands for `np.sqrt(1j)` (its value is irrelevant below) -/
noncomputable def tC (s : ℂ) : STrig ℂ :=
  { sin := Complex.sin, cos := Complex.cos, ofNat := fun n => (n : ℂ), pi := (Real.pi : ℂ),
    sqrtI := s, zero := 0 }

@[simp] theorem tC_sin (s : ℂ) : (tC s).sin = Complex.sin := rfl
@[simp] theorem tC_cos (s : ℂ) : (tC s).cos = Complex.cos := rfl
@[simp] theorem tC_ofNat (s : ℂ) (n : ℕ) : (tC s).ofNat n = (n : ℂ) := rfl
@[simp] theorem tC_pi (s : ℂ) : (tC s).pi = (Real.pi : ℂ) := rfl
@[simp] theorem tC_sqrtI (s : ℂ) : (tC s).sqrtI = s := rfl
@[simp] theorem tC_zero (s : ℂ) : (tC s).zero = 0 := rfl

/-! ## Modal sums -/

/-- the model's `foldl` is `Σ_{n=0}^{maxn} trig(n φ) · coef n` -/
theorem modalSum_eq_sum {C : Type} [Field C] (t : STrig C) (h0 : t.zero = 0) (trig : C → C)
    (phi : C) (coef : ℕ → C) (maxn : ℕ) :
    modalSum t trig phi coef maxn
      = ∑ n ∈ Finset.range (maxn + 1), trig (t.ofNat n * phi) * coef n :=
  Arim.ScatFnLemmas.modalSum_eq_sum t h0 trig phi coef maxn

/-- over `ℂ`: `modalSum = Σ_{n=0}^{maxn} trig(n φ) · coef n` -/
theorem modalSum_tC (s : ℂ) (trig : ℂ → ℂ) (phi : ℂ) (coef : ℕ → ℂ) (maxn : ℕ) :
    modalSum (tC s) trig phi coef maxn
      = ∑ n ∈ Finset.range (maxn + 1), trig ((n : ℂ) * phi) * coef n :=
  modalSum_eq_sum (tC s) rfl trig phi coef maxn

/-- cosine modal sum: `θ ↦ −θ` (with `φ = θ + π`) leaves it unchanged -/
theorem modalSum_cos_flip (s θ : ℂ) (coef : ℕ → ℂ) (maxn : ℕ) :
    modalSum (tC s) Complex.cos (-θ + (Real.pi : ℂ)) coef maxn
      = modalSum (tC s) Complex.cos (θ + (Real.pi : ℂ)) coef maxn := by
  rw [modalSum_tC, modalSum_tC]
  exact Finset.sum_congr rfl fun n _ => by rw [cos_nat_flip]

/-- sine modal sum: `θ ↦ −θ` (with `φ = θ + π`) changes its sign -/
theorem modalSum_sin_flip (s θ : ℂ) (coef : ℕ → ℂ) (maxn : ℕ) :
    modalSum (tC s) Complex.sin (-θ + (Real.pi : ℂ)) coef maxn
      = -modalSum (tC s) Complex.sin (θ + (Real.pi : ℂ)) coef maxn := by
  rw [modalSum_tC, modalSum_tC, ← Finset.sum_neg_distrib]
  exact Finset.sum_congr rfl fun n _ => by rw [sin_nat_flip, neg_mul]

/-- a constant factor of the coefficients comes out of the modal sum -/
theorem modalSum_mul_coef (s φ c : ℂ) (trig : ℂ → ℂ) (coef : ℕ → ℂ) (maxn : ℕ) :
    modalSum (tC s) trig φ (fun n => c * coef n) maxn = c * modalSum (tC s) trig φ coef maxn := by
  rw [modalSum_tC, modalSum_tC, Finset.mul_sum]
  exact Finset.sum_congr rfl fun n _ => by ring

/-- cosine modal sum is `2π`-periodic in `φ` -/
theorem modalSum_cos_periodic (s φ : ℂ) (m : ℤ) (coef : ℕ → ℂ) (maxn : ℕ) :
    modalSum (tC s) Complex.cos (φ + 2 * (Real.pi : ℂ) * (m : ℂ)) coef maxn
      = modalSum (tC s) Complex.cos φ coef maxn := by
  rw [modalSum_tC, modalSum_tC]
  exact Finset.sum_congr rfl fun n _ => by rw [cos_nat_mul_add_int]

/-- sine modal sum is `2π`-periodic in `φ` -/
theorem modalSum_sin_periodic (s φ : ℂ) (m : ℤ) (coef : ℕ → ℂ) (maxn : ℕ) :
    modalSum (tC s) Complex.sin (φ + 2 * (Real.pi : ℂ) * (m : ℂ)) coef maxn
      = modalSum (tC s) Complex.sin φ coef maxn := by
  rw [modalSum_tC, modalSum_tC]
  exact Finset.sum_congr rfl fun n _ => by rw [sin_nat_mul_add_int]

/-! ## Side-drilled hole -/

/-- **SDH**: `S_LL(a, b) = S_LL(b, a)` for every coefficient sequence `aLL` and every `maxn` -/
theorem sdh_LL_symm (s : ℂ) (k : SdhCoef ℂ) (a b : ℂ) :
    sdhLL (tC s) k a b = sdhLL (tC s) k b a := by
  have h : a - b + (Real.pi : ℂ) = -(b - a) + (Real.pi : ℂ) := by ring
  simp only [sdhLL, tC_cos, tC_pi]
  rw [h, modalSum_cos_flip]

/-- **SDH**: `S_TT(a, b) = S_TT(b, a)` for every coefficient sequence `bTT` and every `maxn` -/
theorem sdh_TT_symm (s : ℂ) (k : SdhCoef ℂ) (a b : ℂ) :
    sdhTT (tC s) k a b = sdhTT (tC s) k b a := by
  have h : a - b + (Real.pi : ℂ) = -(b - a) + (Real.pi : ℂ) := by ring
  simp only [sdhTT, tC_cos, tC_pi]
  rw [h, modalSum_cos_flip]

/-- **SDH reciprocity**: `v_T² S_LT(a, b) = −v_L² S_TL(b, a)` for every shared coefficient
sequence `x` and every `maxn`, under `β v_T = α v_L` (`α = 2πf r / v_L`, `β = 2πf r / v_T`) -/
theorem sdh_LT_TL_reciprocity (s : ℂ) (k : SdhCoef ℂ) (vL vT a b : ℂ)
    (hv : k.beta * vT = k.alpha * vL) (hα : k.alpha ≠ 0) (hβ : k.beta ≠ 0) :
    vT ^ 2 * sdhLT (tC s) k a b = -(vL ^ 2 * sdhTL (tC s) k b a) := by
  have h : a - b + (Real.pi : ℂ) = -(b - a) + (Real.pi : ℂ) := by ring
  have hπ : (Real.pi : ℂ) ≠ 0 := by exact_mod_cast Real.pi_ne_zero
  simp only [sdhLT, sdhTL, tC_sin, tC_pi, tC_sqrtI]
  rw [h, modalSum_sin_flip]
  have e1 : (fun n => (tC s).ofNat 2 * (tC s).ofNat n / ((Real.pi : ℂ) * k.alpha) * k.x n)
      = fun n => (1 / ((Real.pi : ℂ) * k.alpha)) * ((tC s).ofNat 2 * (tC s).ofNat n * k.x n) := by
    funext n; ring
  have e2 : (fun n => (tC s).ofNat 2 * (tC s).ofNat n / ((Real.pi : ℂ) * k.beta) * k.x n)
      = fun n => (1 / ((Real.pi : ℂ) * k.beta)) * ((tC s).ofNat 2 * (tC s).ofNat n * k.x n) := by
    funext n; ring
  rw [e1, e2, modalSum_mul_coef, modalSum_mul_coef]
  generalize modalSum (tC s) Complex.sin _ _ _ = M
  field_simp
  linear_combination (M * s * (k.beta * vT + k.alpha * vL)) * hv

/-- **SDH**: each of the four functions is `2π`-periodic in each angle separately -/
theorem sdh_periodic (s : ℂ) (k : SdhCoef ℂ) (a b : ℂ) (k₁ k₂ : ℤ) :
    sdhLL (tC s) k (a + 2 * (Real.pi : ℂ) * k₁) (b + 2 * (Real.pi : ℂ) * k₂) = sdhLL (tC s) k a b ∧
    sdhTT (tC s) k (a + 2 * (Real.pi : ℂ) * k₁) (b + 2 * (Real.pi : ℂ) * k₂) = sdhTT (tC s) k a b ∧
    sdhLT (tC s) k (a + 2 * (Real.pi : ℂ) * k₁) (b + 2 * (Real.pi : ℂ) * k₂) = sdhLT (tC s) k a b ∧
    sdhTL (tC s) k (a + 2 * (Real.pi : ℂ) * k₁) (b + 2 * (Real.pi : ℂ) * k₂) = sdhTL (tC s) k a b := by
  have h : b + 2 * (Real.pi : ℂ) * k₂ - (a + 2 * (Real.pi : ℂ) * k₁) + (Real.pi : ℂ)
      = (b - a + (Real.pi : ℂ)) + 2 * (Real.pi : ℂ) * ((k₂ - k₁ : ℤ) : ℂ) := by
    push_cast; ring
  simp only [sdhLL, sdhTT, sdhLT, sdhTL, tC_sin, tC_cos, tC_pi]
  rw [h, modalSum_cos_periodic, modalSum_cos_periodic, modalSum_sin_periodic, modalSum_sin_periodic]
  exact ⟨rfl, rfl, rfl, rfl⟩

/-! ## Symmetric forms -/

/-- the bilinear form `u, v ↦ uᵀ A⁻¹ v` of a symmetric matrix is symmetric; this is why the
forms `qx`, `qz` of the crack kernel (`A_x`, `A_z` are symmetric Toeplitz matrices) are symmetric.
No invertibility hypothesis is needed (Mathlib's `A⁻¹` is `0` for a singular matrix). -/
theorem symm_inv_form {n K : Type} [Fintype n] [DecidableEq n] [Field K]
    (A : Matrix n n K) (hA : A.transpose = A) (u v : n → K) :
    u ⬝ᵥ (A⁻¹.mulVec v) = v ⬝ᵥ (A⁻¹.mulVec u) :=
  Arim.ScatFnLemmas.symm_inv_form A hA u v

/-- the same for the solution of a linear system: if `A x = v` and `A y = u` with `A` symmetric
and invertible then `u · x = v · y` (`np.dot(np.linalg.solve(A, v), u)` is symmetric in `u, v`) -/
theorem symm_solve_form {n K : Type} [Fintype n] [DecidableEq n] [Field K]
    (A : Matrix n n K) (hA : A.transpose = A) (hdet : IsUnit A.det) (u v x y : n → K)
    (hx : A.mulVec x = v) (hy : A.mulVec y = u) : u ⬝ᵥ x = v ⬝ᵥ y := by
  have ex : x = A⁻¹.mulVec v := by
    rw [← hx, Matrix.mulVec_mulVec, Matrix.nonsing_inv_mul A hdet, Matrix.one_mulVec]
  have ey : y = A⁻¹.mulVec u := by
    rw [← hy, Matrix.mulVec_mulVec, Matrix.nonsing_inv_mul A hdet, Matrix.one_mulVec]
  rw [ex, ey]
  exact symm_inv_form A hA u v

/-! ## Crack centre -/

variable {V : Type}

/-- The hypotheses on the crack data: symmetric forms, homogeneous in the first argument,
the constants `1`, `2`, and the elastic relation `λ = μ (1/ξ² − 2)`
(`λ = ρ (v_L² − 2 v_T²)`, `μ = ρ v_T²`, `ξ = v_T / v_L`). -/
structure CrackOK (d : CrackData ℂ V) : Prop where
  qx_symm : ∀ u v, d.qx u v = d.qx v u
  qz_symm : ∀ u v, d.qz u v = d.qz v u
  qx_smul : ∀ c u v, d.qx (d.smulV c u) v = c * d.qx u v
  qz_smul : ∀ c u v, d.qz (d.smulV c u) v = c * d.qz u v
  one_eq : d.one = 1
  two_eq : d.two = 2
  lam_eq : d.lam = d.mu * (1 / d.xi ^ 2 - 2)

open Complex in
/-- closed form of `S_LL` (uses `sin² + cos² = 1` and the elastic relation; the symmetry of the
forms is not used) -/
theorem crackLL_eq (s : ℂ) (d : CrackData ℂ V) (h : CrackOK d) (a b : ℂ) :
    crackLL (tC s) d a b = d.kLL * d.aL * d.mu *
      (-((1 / d.xi ^ 2 - 2 * sin a ^ 2) * (1 / d.xi ^ 2 - 2 * sin b ^ 2)) * d.qz (d.bL a) (d.bL b)
        - 4 * sin a * cos a * sin b * cos b * d.qx (d.bL a) (d.bL b)) := by
  simp only [crackLL, tC_sin, tC_cos, h.qx_smul, h.qz_smul, h.one_eq, h.two_eq, h.lam_eq]
  linear_combination (d.kLL * d.aL * (-(1 / d.xi ^ 2 - 2 * sin a ^ 2)) * d.qz (d.bL a) (d.bL b)
    * 2 * d.mu) * sin_sq_add_cos_sq b

open Complex in
/-- closed form of `S_LT` -/
theorem crackLT_eq (s : ℂ) (d : CrackData ℂ V) (h : CrackOK d) (a b : ℂ) :
    crackLT (tC s) d a b = d.kTT * d.mu * d.aL *
      (2 * (1 / d.xi ^ 2 - 2 * sin a ^ 2) * sin b * cos b * d.qz (d.bL a) (d.bT b)
        - 2 * sin a * cos a * (cos b ^ 2 - sin b ^ 2) * d.qx (d.bL a) (d.bT b)) := by
  simp only [crackLT, tC_sin, tC_cos, h.qx_smul, h.qz_smul, h.one_eq, h.two_eq]
  ring

open Complex in
/-- closed form of `S_TL` -/
theorem crackTL_eq (s : ℂ) (d : CrackData ℂ V) (h : CrackOK d) (a b : ℂ) :
    crackTL (tC s) d a b = -(d.kLL * d.mu * d.aT *
      (2 * (1 / d.xi ^ 2 - 2 * sin b ^ 2) * sin a * cos a * d.qz (d.bT a) (d.bL b)
        - 2 * sin b * cos b * (cos a ^ 2 - sin a ^ 2) * d.qx (d.bT a) (d.bL b))) := by
  simp only [crackTL, tC_sin, tC_cos, h.qx_smul, h.qz_smul, h.two_eq, h.lam_eq]
  linear_combination (-(d.kLL * d.aT * (2 * sin a * cos a) * d.qz (d.bT a) (d.bL b)
    * 2 * d.mu)) * sin_sq_add_cos_sq b

open Complex in
/-- closed form of `S_TT` -/
theorem crackTT_eq (s : ℂ) (d : CrackData ℂ V) (h : CrackOK d) (a b : ℂ) :
    crackTT (tC s) d a b = d.kTT * d.mu * d.aT *
      ((cos a ^ 2 - sin a ^ 2) * (cos b ^ 2 - sin b ^ 2) * d.qx (d.bT a) (d.bT b)
        + 4 * sin a * cos a * sin b * cos b * d.qz (d.bT a) (d.bT b)) := by
  simp only [crackTT, tC_sin, tC_cos, h.qx_smul, h.qz_smul, h.two_eq]
  ring

/-- **Crack**: `S_LL(a, b) = S_LL(b, a)` -/
theorem crack_LL_symm (s : ℂ) (d : CrackData ℂ V) (h : CrackOK d) (a b : ℂ) :
    crackLL (tC s) d a b = crackLL (tC s) d b a := by
  rw [crackLL_eq s d h, crackLL_eq s d h, h.qx_symm (d.bL b), h.qz_symm (d.bL b)]
  ring

/-- **Crack**: `S_TT(a, b) = S_TT(b, a)` -/
theorem crack_TT_symm (s : ℂ) (d : CrackData ℂ V) (h : CrackOK d) (a b : ℂ) :
    crackTT (tC s) d a b = crackTT (tC s) d b a := by
  rw [crackTT_eq s d h, crackTT_eq s d h, h.qx_symm (d.bT b), h.qz_symm (d.bT b)]
  ring

/-- **Crack reciprocity, structural form**: `kLL · a_T · S_LT(a, b) = −kTT · a_L · S_TL(b, a)`;
the constants `K₁ = kLL a_T`, `K₂ = −kTT a_L` involve neither `μ`, `λ` nor `ξ` -/
theorem crack_LT_TL_reciprocity (s : ℂ) (d : CrackData ℂ V) (h : CrackOK d) (a b : ℂ) :
    d.kLL * d.aT * crackLT (tC s) d a b = -(d.kTT * d.aL * crackTL (tC s) d b a) := by
  rw [crackLT_eq s d h, crackTL_eq s d h, h.qx_symm (d.bT b), h.qz_symm (d.bT b)]
  ring

/-- **Crack reciprocity with wave speeds**: if `kTT · a_L · v_T² = kLL · a_T · v_L²` then
`v_T² S_LT(a, b) = −v_L² S_TL(b, a)` (no non-vanishing hypothesis) -/
theorem crack_LT_TL_reciprocity_vel (s : ℂ) (d : CrackData ℂ V) (h : CrackOK d) (vL vT a b : ℂ)
    (hK : d.kTT * d.aL * vT ^ 2 = d.kLL * d.aT * vL ^ 2) :
    vT ^ 2 * crackLT (tC s) d a b = -(vL ^ 2 * crackTL (tC s) d b a) := by
  rw [crackLT_eq s d h, crackTL_eq s d h, h.qx_symm (d.bT b), h.qz_symm (d.bT b)]
  linear_combination (d.mu *
    (2 * (1 / d.xi ^ 2 - 2 * Complex.sin a ^ 2) * Complex.sin b * Complex.cos b
        * d.qz (d.bL a) (d.bT b)
      - 2 * Complex.sin a * Complex.cos a * (Complex.cos b ^ 2 - Complex.sin b ^ 2)
        * d.qx (d.bL a) (d.bT b))) * hK

/-- the physical constants of `crack_2d_scat` (`ξ₁ = 2πf/v_L`, `ξ₂ = 2πf/v_T`,
`a_L = −i ξ₁ π/ξ₂²`, `a_T = −i ξ₂ π/ξ₂²`, `kLL = g ξ₁^{5/2}/√λ_L`, `kTT = g ξ₂^{5/2}/√λ_T` with
`λ_L = v_L/f`, `λ_T = v_T/f` and the common factor `g = ¼ √(2/π) e^{−iπ/4}`) satisfy the
hypothesis of `crack_LT_TL_reciprocity_vel` -/
theorem crack_phys_constants (f vL vT : ℝ) (hf : 0 < f) (hL : 0 < vL) (hT : 0 < vT) (g : ℂ) :
    (g * (((2 * Real.pi * f / vT) ^ ((5 : ℝ) / 2) / Real.sqrt (vT / f) : ℝ) : ℂ))
        * (-Complex.I * ((2 * Real.pi * f / vL : ℝ) : ℂ) * (Real.pi : ℂ)
            / ((2 * Real.pi * f / vT : ℝ) : ℂ) ^ 2) * (vT : ℂ) ^ 2
      = (g * (((2 * Real.pi * f / vL) ^ ((5 : ℝ) / 2) / Real.sqrt (vL / f) : ℝ) : ℂ))
        * (-Complex.I * ((2 * Real.pi * f / vT : ℝ) : ℂ) * (Real.pi : ℂ)
            / ((2 * Real.pi * f / vT : ℝ) : ℂ) ^ 2) * (vL : ℂ) ^ 2 := by
  have hf' : (f : ℂ) ≠ 0 := by exact_mod_cast hf.ne'
  have hL' : (vL : ℂ) ≠ 0 := by exact_mod_cast hL.ne'
  have hT' : (vT : ℂ) ≠ 0 := by exact_mod_cast hT.ne'
  have hπ : (Real.pi : ℂ) ≠ 0 := by exact_mod_cast Real.pi_ne_zero
  rw [rpow_five_half_div_sqrt f vL hf hL, rpow_five_half_div_sqrt f vT hf hT]
  push_cast
  field_simp

/-- **Crack reciprocity, physical constants**: `v_T² S_LT(a, b) = −v_L² S_TL(b, a)` -/
theorem crack_LT_TL_reciprocity_phys (s : ℂ) (d : CrackData ℂ V) (h : CrackOK d)
    (f vL vT : ℝ) (hf : 0 < f) (hL : 0 < vL) (hT : 0 < vT) (g : ℂ)
    (haL : d.aL = -Complex.I * ((2 * Real.pi * f / vL : ℝ) : ℂ) * (Real.pi : ℂ)
      / ((2 * Real.pi * f / vT : ℝ) : ℂ) ^ 2)
    (haT : d.aT = -Complex.I * ((2 * Real.pi * f / vT : ℝ) : ℂ) * (Real.pi : ℂ)
      / ((2 * Real.pi * f / vT : ℝ) : ℂ) ^ 2)
    (hkLL : d.kLL = g * (((2 * Real.pi * f / vL) ^ ((5 : ℝ) / 2) / Real.sqrt (vL / f) : ℝ) : ℂ))
    (hkTT : d.kTT = g * (((2 * Real.pi * f / vT) ^ ((5 : ℝ) / 2) / Real.sqrt (vT / f) : ℝ) : ℂ))
    (a b : ℂ) :
    (vT : ℂ) ^ 2 * crackLT (tC s) d a b = -((vL : ℂ) ^ 2 * crackTL (tC s) d b a) := by
  apply crack_LT_TL_reciprocity_vel s d h
  rw [haL, haT, hkLL, hkTT]
  exact crack_phys_constants f vL vT hf hL hT g

/-- **Crack**: if the load vectors `bL`, `bT` are `2π`-periodic functions of the angle then the
four functions are `2π`-periodic in each angle separately (no hypothesis on the forms) -/
theorem crack_periodic (s : ℂ) (d : CrackData ℂ V)
    (hbL : Function.Periodic d.bL (2 * (Real.pi : ℂ)))
    (hbT : Function.Periodic d.bT (2 * (Real.pi : ℂ))) (a b : ℂ) (k₁ k₂ : ℤ) :
    crackLL (tC s) d (a + 2 * (Real.pi : ℂ) * k₁) (b + 2 * (Real.pi : ℂ) * k₂) = crackLL (tC s) d a b ∧
    crackLT (tC s) d (a + 2 * (Real.pi : ℂ) * k₁) (b + 2 * (Real.pi : ℂ) * k₂) = crackLT (tC s) d a b ∧
    crackTL (tC s) d (a + 2 * (Real.pi : ℂ) * k₁) (b + 2 * (Real.pi : ℂ) * k₂) = crackTL (tC s) d a b ∧
    crackTT (tC s) d (a + 2 * (Real.pi : ℂ) * k₁) (b + 2 * (Real.pi : ℂ) * k₂) = crackTT (tC s) d a b := by
  have ea : a + 2 * (Real.pi : ℂ) * k₁ = a + (k₁ : ℂ) * (2 * (Real.pi : ℂ)) := by ring
  have eb : b + 2 * (Real.pi : ℂ) * k₂ = b + (k₂ : ℂ) * (2 * (Real.pi : ℂ)) := by ring
  have hLa : d.bL (a + (k₁ : ℂ) * (2 * (Real.pi : ℂ))) = d.bL a := hbL.int_mul k₁ a
  have hLb : d.bL (b + (k₂ : ℂ) * (2 * (Real.pi : ℂ))) = d.bL b := hbL.int_mul k₂ b
  have hTa : d.bT (a + (k₁ : ℂ) * (2 * (Real.pi : ℂ))) = d.bT a := hbT.int_mul k₁ a
  have hTb : d.bT (b + (k₂ : ℂ) * (2 * (Real.pi : ℂ))) = d.bT b := hbT.int_mul k₂ b
  simp only [crackLL, crackLT, crackTL, crackTT, tC_sin, tC_cos, ea, eb, hLa, hLb, hTa, hTb,
    Complex.sin_add_int_mul_two_pi, Complex.cos_add_int_mul_two_pi, and_self]

/-- **Crack**: in particular when `bL`, `bT` depend on the angle through its sine only (as in
`crack_2d_scat`: `b(φ) = basis(−k h s₀) · exp(i k x s₀)`, `s₀ = −sin φ`) -/
theorem crack_periodic_of_sin (s : ℂ) (d : CrackData ℂ V) (gL gT : ℂ → V)
    (hbL : ∀ φ, d.bL φ = gL (Complex.sin φ)) (hbT : ∀ φ, d.bT φ = gT (Complex.sin φ))
    (a b : ℂ) (k₁ k₂ : ℤ) :
    crackLL (tC s) d (a + 2 * (Real.pi : ℂ) * k₁) (b + 2 * (Real.pi : ℂ) * k₂) = crackLL (tC s) d a b ∧
    crackLT (tC s) d (a + 2 * (Real.pi : ℂ) * k₁) (b + 2 * (Real.pi : ℂ) * k₂) = crackLT (tC s) d a b ∧
    crackTL (tC s) d (a + 2 * (Real.pi : ℂ) * k₁) (b + 2 * (Real.pi : ℂ) * k₂) = crackTL (tC s) d a b ∧
    crackTT (tC s) d (a + 2 * (Real.pi : ℂ) * k₁) (b + 2 * (Real.pi : ℂ) * k₂) = crackTT (tC s) d a b :=
  crack_periodic s d (fun φ => by rw [hbL, hbL, Complex.sin_periodic φ])
    (fun φ => by rw [hbT, hbT, Complex.sin_periodic φ]) a b k₁ k₂

/-! ## Non-vacuity -/

/-- `maxn = 1`: the modal sum is `cos 0 · c₀ + cos φ · c₁` -/
example (s φ c0 c1 : ℂ) :
    modalSum (tC s) Complex.cos φ (fun n => if n = 0 then c0 else c1) 1
      = c0 + Complex.cos φ * c1 := by
  simp [modalSum_tC, Finset.sum_range_succ]

/-- `maxn = 1`, `α = π`, `aLL = (1, 1)`: `S_LL(a, b) = s (1 + cos(b − a + π)) = s (1 − cos(b − a))`,
not identically zero (`S_LL(0, π) = 2 s`) -/
example (s a b : ℂ) :
    sdhLL (tC s) ⟨Real.pi, 1, 1, fun _ => 1, fun _ => 1, fun _ => 1⟩ a b
      = s * (1 - Complex.cos (b - a)) := by
  have hπ : (Real.pi : ℂ) ≠ 0 := by exact_mod_cast Real.pi_ne_zero
  simp only [sdhLL, tC_cos, tC_pi, tC_sqrtI, modalSum_tC, Finset.sum_range_succ,
    Finset.sum_range_zero, Nat.cast_zero, Nat.cast_one, zero_mul, one_mul, mul_one, zero_add,
    Complex.cos_zero, Complex.cos_add_pi]
  field_simp
  ring

/-- the hypotheses of `sdh_LT_TL_reciprocity` are satisfiable (`α = 1`, `β = 2`, `v_L = 2`,
`v_T = 1`) and `S_LT` is then not identically zero: with `maxn = 1`, `x = (1, 1)` and `s = π`,
`S_LT(0, −π/2) = 2 · sin(π/2) · 2/π = 4/π` -/
example : sdhLT (tC Real.pi) ⟨1, 2, 1, fun _ => 1, fun _ => 1, fun _ => 1⟩ 0 (-(Real.pi / 2 : ℂ))
    = 4 / Real.pi := by
  have hπ : (Real.pi : ℂ) ≠ 0 := by exact_mod_cast Real.pi_ne_zero
  have e : -(Real.pi / 2 : ℂ) - 0 + Real.pi = Real.pi / 2 := by ring
  simp only [sdhLT, tC_sin, tC_pi, tC_sqrtI, tC_ofNat, e, modalSum_tC, Finset.sum_range_succ,
    Finset.sum_range_zero]
  simp [Complex.sin_pi_div_two, hπ]
  field_simp
  norm_num

/-- a one-dimensional crack datum: `V = ℂ`, `qx u v = u v`, `qz u v = 2 u v`, `ξ = 1/2`, `μ = 1`,
`λ = 1/ξ² − 2 = 2`, `bL φ = 1 + sin φ`, `bT φ = 2 − sin φ` -/
noncomputable def crackEx : CrackData ℂ ℂ :=
  { qx := fun u v => u * v, qz := fun u v => 2 * u * v,
    bL := fun φ => 1 + Complex.sin φ, bT := fun φ => 2 - Complex.sin φ,
    smulV := fun c u => c * u, xi := 1 / 2, lam := 2, mu := 1, aL := 3, aT := 5, kLL := 7, kTT := 11,
    one := 1, two := 2 }

/-- the hypotheses `CrackOK` are satisfiable -/
theorem crackEx_ok : CrackOK crackEx where
  qx_symm u v := by simp only [crackEx]; ring
  qz_symm u v := by simp only [crackEx]; ring
  qx_smul c u v := by simp only [crackEx]; ring
  qz_smul c u v := by simp only [crackEx]; ring
  one_eq := rfl
  two_eq := rfl
  lam_eq := by simp only [crackEx]; norm_num

/-- … together with the periodicity hypotheses of `crack_periodic` -/
example : Function.Periodic crackEx.bL (2 * (Real.pi : ℂ)) ∧
    Function.Periodic crackEx.bT (2 * (Real.pi : ℂ)) :=
  ⟨fun φ => by simp only [crackEx, Complex.sin_periodic φ],
   fun φ => by simp only [crackEx, Complex.sin_periodic φ]⟩

/-- … and the crack functions of this datum are not identically zero:
`S_LL(π/2, π/2) = kLL a_L μ · (−(1/ξ² − 2)² · qz(2, 2)) = 7 · 3 · (−4 · 8) = −672` -/
example (s : ℂ) : crackLL (tC s) crackEx (Real.pi / 2) (Real.pi / 2) = -672 := by
  rw [crackLL_eq s crackEx crackEx_ok]
  simp only [crackEx, Complex.sin_pi_div_two, Complex.cos_pi_div_two]
  norm_num

end Arim.C09
