import ArimModel.Assembly
import ArimModel.Weights
import Mathlib.Tactic.Ring
import Mathlib.Tactic.LinearCombination
import Mathlib.Tactic.FieldSimp
/-! # C03 — the immersion forward model is reciprocal -/
namespace Arim.C03
open Arim.Assembly

variable {C : Type} [CommRing C]

/-- **Reciprocity from the two structural facts.** Let `A`, `B` be the transmit paths of a view
and of its reciprocal, with last modes `a`, `b`. If (i) along every path the transmit weight is
a geometry-independent multiple of the receive weight, the multiple `R` depending on the last
mode only (`Q_A = R_a · Q'_A`, `Q_B = R_b · Q'_B`), and (ii) the scatterer is reciprocal in the
sense `R_a · S_ab(x, y) = R_b · S_ba(y, x)` (for `R_L = K/c_L²`, `R_T = −K/c_T²` this is
`S_LL`, `S_TT` symmetric and `c_T² S_LT(x,y) = −c_L² S_TL(y,x)`), then the coefficient of view
`A–B` for transmitter `i`, receiver `j` equals the coefficient of the reciprocal view for
transmitter `j`, receiver `i`. -/
theorem reciprocity_of_ratio (QAi Q'Ai QBj Q'Bj Ra Rb Sab Sba : C)
    (hA : QAi = Ra * Q'Ai) (hB : QBj = Rb * Q'Bj) (hS : Ra * Sab = Rb * Sba) :
    Sab * QAi * Q'Bj = Sba * QBj * Q'Ai := by
  subst hA hB
  linear_combination (Q'Ai * Q'Bj) * hS

/-- the same statement on the model's amplitude formula (`modelAmp`), for one grid point -/
theorem reciprocity_modelAmp {K : Type} [Sub K] (Sab Sba : K → K → C) (thA thB : Nat → Nat → K)
    (QA Q'A QB Q'B : Nat → Nat → C) (Ra Rb : C) (a : K) (p i j : Nat)
    (hA : ∀ e, QA p e = Ra * Q'A p e) (hB : ∀ e, QB p e = Rb * Q'B p e)
    (hS : ∀ x y, Ra * Sab x y = Rb * Sba y x) :
    modelAmp Sab thA thB QA Q'B a (fun _ => i) (fun _ => j) p 0
      = modelAmp Sba thB thA QB Q'A a (fun _ => j) (fun _ => i) p 0 := by
  simp only [modelAmp]
  exact reciprocity_of_ratio _ _ _ _ Ra Rb _ _ (hA i) (hB j) (hS _ _)

/-- the mode constants `R_L = K/c_L²`, `R_T = −K/c_T²` turn hypothesis (ii) into the
scatterer relations of C09 -/
theorem scatterer_relation_LT {F : Type} [Field F] (K cL cT SLT STL : F) (hL : cL ≠ 0) (hT : cT ≠ 0)
    (h : cT ^ 2 * SLT = -(cL ^ 2 * STL)) :
    (K / cL ^ 2) * SLT = (-(K / cT ^ 2)) * STL := by
  field_simp
  linear_combination K * h

end Arim.C03
