import ArimModel.Assembly
import ArimModel.Weights
import ArimProofs.Lemmas.Reciprocity
import ArimProofs.Tie.C03
import Mathlib.Analysis.SpecialFunctions.Trigonometric.Complex
import Mathlib.Tactic.Ring
import Mathlib.Tactic.LinearCombination
import Mathlib.Tactic.FieldSimp
/-! # C03 — the immersion forward model is reciprocal

Contents.
* `reciprocity_of_ratio`, `reciprocity_modelAmp`, `scatterer_relation_LT`: reciprocity of the model
  coefficients from the structural fact (★) `Q = R_a · Q'` (`R_a` a function of the last mode only).
* (★) itself, proved from the model for every immersion path (front-wall transmission followed
  by any number of reflections against solid|fluid walls, arbitrary modes), pre-critical real ray:
  `coef_ratio` (per-interface ratio of the direct and reverse coefficients),
  `beamspread_ratio` (`B = √(∏γ) · B_rev`), `transRefl_beamspread_ratio` (telescoping),
  `Q_ratio_geometry_independent`, the three path shapes of the immersion model `Q_ratio_direct`,
  `Q_ratio_skip`, `Q_ratio_double_skip`, the constants `modeConst_L`, `modeConst_T`,
  `modeConst_L_T` (`R_L c_L² = − R_T c_T²`), and the end-to-end statement `reciprocity_immersion`.
* `goodFrom_of_precritical`, `exists_extendsArcsin`: the geometric hypotheses hold for every
  pre-critical real ray and an arcsine routine extending the real arcsine.
The supporting lemmas are in `Lemmas/Reciprocity.lean` (namespace `Arim.Recip`). -/
namespace Arim.C03
open Arim.Assembly

section structural
variable {C : Type} [CommRing C]

/-- **Reciprocity from the two structural facts.** Let `A`, `B` be the transmit paths of a view
and of its reciprocal, with last modes `a`, `b`. If (i) along every path the transmit weight is
a geometry-independent multiple of the receive weight, the multiple `R` depending on the last
mode only (`Q_A = R_a · Q'_A`, `Q_B = R_b · Q'_B`), and (ii) the scatterer is reciprocal in the
sense `R_a · S_ab(x, y) = R_b · S_ba(y, x)` (for `R_L = K/c_L²`, `R_T = −K/c_T²` this is
`S_LL`, `S_TT` symmetric and `c_T² S_LT(x,y) = −c_L² S_TL(y,x)`), then the coefficient of view
`A–B` for transmitter `i`, receiver `j` equals the coefficient of the reciprocal view for
transmitter `j`, receiver `i`. -/
theorem reciprocity_of_ratio (QAi Q'Ai QBj Q'Bj Ra Rb Sab Sba : C)
    (hA : QAi = Ra * Q'Ai) (hB : QBj = Rb * Q'Bj) (hS : Ra * Sab = Rb * Sba) :
    Sab * QAi * Q'Bj = Sba * QBj * Q'Ai := by
  subst hA hB
  linear_combination (Q'Ai * Q'Bj) * hS

/-- the same statement on the model's amplitude formula (`modelAmp`), for one grid point -/
theorem reciprocity_modelAmp {K : Type} [Sub K] (Sab Sba : K → K → C) (thA thB : Nat → Nat → K)
    (QA Q'A QB Q'B : Nat → Nat → C) (Ra Rb : C) (a : K) (p i j : Nat)
    (hA : ∀ e, QA p e = Ra * Q'A p e) (hB : ∀ e, QB p e = Rb * Q'B p e)
    (hS : ∀ x y, Ra * Sab x y = Rb * Sba y x) :
    modelAmp Sab thA thB QA Q'B a (fun _ => i) (fun _ => j) p 0
      = modelAmp Sba thB thA QB Q'A a (fun _ => j) (fun _ => i) p 0 := by
  simp only [modelAmp]
  exact reciprocity_of_ratio _ _ _ _ Ra Rb _ _ (hA i) (hB j) (hS _ _)

/-- the mode constants `R_L = K/c_L²`, `R_T = −K/c_T²` turn hypothesis (ii) into the
scatterer relations of C09 -/
theorem scatterer_relation_LT {F : Type} [Field F] (K cL cT SLT STL : F) (hL : cL ≠ 0) (hT : cT ≠ 0)
    (h : cT ^ 2 * SLT = -(cL ^ 2 * STL)) :
    (K / cL ^ 2) * SLT = (-(K / cT ^ 2)) * STL := by
  field_simp
  linear_combination K * h

end structural

/-! ## The structural fact (★) proved from the model -/
noncomputable section star
open Arim.Iface Arim.Weights Arim.Recip Arim.C04 Arim.C06

/-- **Beamspread ratio** (step 2): `B = √(γ_1 ⋯ γ_{n−1}) · B_rev`, `γ_k` the interface factors of
the direct routine; the underlying identity is `d_rev = (∏γ) · d` for the virtual distances
(`Recip.virtualDistance_reverse`, `Recip.rev_virtualDistance`). No Snell's law is used. -/
theorem beamspread_ratio (legs vels thetas : List ℝ)
    (hlen : thetas.length + 1 = vels.length) (hlegs : legs.length = vels.length)
    (hpos : ∀ γ ∈ gammas rT vels thetas, 0 < γ) :
    beamspread rT legs vels thetas
      = Real.sqrt (gammas rT vels thetas).prod * revBeamspread rT legs vels thetas :=
  beamspread_eq_sqrt_mul_rev legs vels thetas hlen hlegs hpos

/-- squared form of the beamspread ratio: `B_rev² · ∏γ = B²` -/
theorem beamspread_ratio_sq (legs vels thetas : List ℝ)
    (hlen : thetas.length + 1 = vels.length) (hlegs : legs.length = vels.length)
    (hpos : ∀ γ ∈ gammas rT vels thetas, 0 < γ) :
    revBeamspread rT legs vels thetas ^ 2 * (gammas rT vels thetas).prod
      = beamspread rT legs vels thetas ^ 2 :=
  beamspread_sq_eq legs vels thetas hlen hlegs hpos

/-- **Per-interface coefficient ratio** (step 1), displacement units; see `Recip.coef_ratio`:
`coef(direct) · ρ_out c_out cos θ_out = σ_in σ_out · coef(reverse) · ρ_in c_in cos θ_in` for the
front-wall transmission (`ℓ = none`, `L → b`) and for a reflection `a → b` against a solid|fluid
wall (`ℓ = some a`), `θ_out = snell θ_in` being the incidence angle of the reverse routine -/
theorem coef_ratio (asin : ℂ → ℂ) (m : Media ℂ) (hsin : ∀ x, Complex.sin (asin x) = x)
    (hρf : m.rhoF ≠ 0) (hρs : m.rhoS ≠ 0) (hcf : m.cF ≠ 0) (hcl : m.cL ≠ 0) (hct : m.cT ≠ 0)
    (ℓ : Leg) (b : Mode) (θ : ℂ) (hasin : asin (Complex.sin θ) = θ) (hcos : Complex.cos θ ≠ 0) :
    ∃ cd cr : ℂ,
      coef (cTrig asin) m true (specOf m ℓ b θ) = .ok cd ∧
      coef (cTrig asin) m true (revSpec (cTrig asin) (specOf m ℓ b θ)) = .ok cr ∧
      cd * (legRho m (some b) * legVel m (some b)
              * Complex.cos (snell (cTrig asin) θ (legVel m ℓ) (legVel m (some b))))
        = legSign ℓ * legSign (some b) * (cr * (legRho m ℓ * legVel m ℓ * Complex.cos θ)) :=
  Recip.coef_ratio asin m hsin hρf hρs hcf hcl hct ℓ b θ hasin hcos

theorem specsFrom_ne_nil (m : Media ℂ) (ℓ : Leg) (steps : List Step) (hne : steps ≠ []) :
    specsFrom m ℓ steps ≠ [] := by
  cases steps with
  | nil => exact absurd rfl hne
  | cons st sts => simp [specsFrom]

/-- the last leg of a non-empty path is in the solid, with the outgoing mode of the last interface -/
theorem lastLeg_eq_getLast (ℓ : Leg) (steps : List Step) (hne : steps ≠ []) :
    lastLeg ℓ steps = some (steps.getLast hne).mOut := by
  induction steps generalizing ℓ with
  | nil => exact absurd rfl hne
  | cons st sts ih =>
    cases sts with
    | nil => rfl
    | cons st' sts' =>
      rw [List.getLast_cons (by simp)]
      exact ih (some st.mOut) (by simp)

/-- **Telescoping** (step 3). For a path that starts along leg `ℓ` (`none` = fluid) and crosses the
interior interfaces `steps` (the front wall if it starts in the fluid, then reflections against
solid|fluid walls; arbitrary modes), with legs of arbitrary lengths `legs`:

`T · B · G(last leg) = σ(first leg) σ(last leg) · T_rev · B_rev · G(first leg)`, `G = ρ c^{3/2}`,

where `T`, `T_rev` are the values returned by `transRefl`, `revTransRefl` in displacement units
(neither is an error) and `B`, `B_rev` the values of `beamspread`, `revBeamspread`. No angle and
no leg length appears in the ratio. -/
theorem transRefl_beamspread_ratio (asin : ℂ → ℂ) (hsin : ∀ x, Complex.sin (asin x) = x)
    (m : Media ℝ) (h : MediaPos m) (ℓ : Leg) (steps : List Step) (hne : steps ≠ [])
    (legs : List ℝ) (hlegs : legs.length = steps.length + 1) (hg : GoodFrom asin m ℓ steps) :
    ∃ T Trev : ℂ,
      transRefl (cTrig asin) (toC m) true (specsFrom (toC m) ℓ steps) = .ok (some T) ∧
      revTransRefl (cTrig asin) (toC m) true (specsFrom (toC m) ℓ steps) = .ok (some Trev) ∧
      T * (beamspread rT legs (velsFrom m ℓ steps) (steps.map (·.θ)) : ℝ)
          * (legG m (lastLeg ℓ steps) : ℝ)
        = legSign ℓ * legSign (lastLeg ℓ steps)
          * (Trev * (revBeamspread rT legs (velsFrom m ℓ steps) (steps.map (·.θ)) : ℝ)
              * (legG m ℓ : ℝ)) := by
  obtain ⟨h1, h2, h3⟩ := coef_telescope hsin h ℓ steps hg
  have hnil := specsFrom_ne_nil (toC m) ℓ steps hne
  refine ⟨((specsFrom (toC m) ℓ steps).map (coefVal (cTrig asin) (toC m) true)).prod,
    (((specsFrom (toC m) ℓ steps).map (revSpec (cTrig asin))).map
      (coefVal (cTrig asin) (toC m) true)).prod, ?_, ?_, ?_⟩
  · rw [transRefl_ok _ _ _ _ h1, if_neg hnil]
  · rw [revTransRefl, transRefl_ok _ _ _ _ h2, if_neg (by simpa using hnil)]
  · have hγ := gammas_eq_gammaList hsin h ℓ steps hg
    have hB := beamspread_eq_sqrt_mul_rev legs (velsFrom m ℓ steps) (steps.map (·.θ))
      (by rw [velsFrom_length]; simp) (by rw [velsFrom_length]; exact hlegs)
      (by rw [hγ]; exact gammaList_pos h ℓ steps hg)
    rw [hγ] at hB
    have hC := sqrt_gamma_telescope h ℓ steps hg
    have hK : ((Kin m ℓ steps : ℝ) : ℂ) ≠ 0 := by exact_mod_cast (Kin_pos h ℓ steps hg).ne'
    have hB' : ((beamspread rT legs (velsFrom m ℓ steps) (steps.map (·.θ)) : ℝ) : ℂ)
        = (Real.sqrt (gammaList m ℓ steps).prod : ℝ)
          * (revBeamspread rT legs (velsFrom m ℓ steps) (steps.map (·.θ)) : ℝ) := by
      exact_mod_cast hB
    have hC' : ((Real.sqrt (gammaList m ℓ steps).prod : ℝ) : ℂ) * (Kin m ℓ steps : ℝ)
          * (legG m (lastLeg ℓ steps) : ℝ)
        = (Kout m steps : ℝ) * (legG m ℓ : ℝ) := by exact_mod_cast hC
    apply mul_right_cancel₀ hK
    linear_combination
      (((specsFrom (toC m) ℓ steps).map (coefVal (cTrig asin) (toC m) true)).prod
          * (legG m (lastLeg ℓ steps) : ℝ) * (Kin m ℓ steps : ℝ)) * hB'
      + (((specsFrom (toC m) ℓ steps).map (coefVal (cTrig asin) (toC m) true)).prod
          * (revBeamspread rT legs (velsFrom m ℓ steps) (steps.map (·.θ)) : ℝ)) * hC'
      + ((revBeamspread rT legs (velsFrom m ℓ steps) (steps.map (·.θ)) : ℝ) * (legG m ℓ : ℝ)) * h3

/-- the constant of (★): `R = σ(first) σ(last) · ρ₀ c₀^{3/2} / (ρ_n c_n^{3/2} · √(c_n / f))` -/
def ratioConst (m : Media ℝ) (f : ℝ) (ℓ₀ ℓ : Leg) : ℂ :=
  legSign ℓ₀ * legSign ℓ * ((legG m ℓ₀ / (legG m ℓ * Real.sqrt (legVel m ℓ / f)) : ℝ) : ℂ)

/-- the constant of (★) for an immersion path (first leg in the fluid) whose last leg has mode `a`:
`R_a = ± ρ_f c_f^{3/2} / (ρ_s c_a^{3/2} √(c_a/f))`, `+` for `L`, `−` for `T` -/
def modeConst (m : Media ℝ) (f : ℝ) (a : Mode) : ℂ := ratioConst m f none (some a)

/-- **(★) for every immersion-type path.** With the transmission/reflection and beamspread terms
switched on (directivity and attenuation on or off), the transmit weight of the path is the
receive weight times a constant that depends on the media, the frequency and the labels of the
first and last legs only: `Q = R · Q'`, whatever the angles and the leg lengths.
`dir` and `att` (the same in `Q` and `Q'`) are arbitrary. -/
theorem Q_ratio_general (asin : ℂ → ℂ) (hsin : ∀ x, Complex.sin (asin x) = x)
    (m : Media ℝ) (h : MediaPos m) (f : ℝ) (hf : 0 < f) (ℓ : Leg) (steps : List Step)
    (hne : steps ≠ []) (legs : List ℝ) (hlegs : legs.length = steps.length + 1)
    (hg : GoodFrom asin m ℓ steps)
    (sw : Switches) (hsw₁ : sw.transrefl = true) (hsw₂ : sw.beamspread = true) (dir att : ℂ) :
    ∃ T Trev : ℂ,
      transRefl (cTrig asin) (toC m) true (specsFrom (toC m) ℓ steps) = .ok (some T) ∧
      revTransRefl (cTrig asin) (toC m) true (specsFrom (toC m) ℓ steps) = .ok (some Trev) ∧
      txWeight sw 1 dir T (beamspread rT legs (velsFrom m ℓ steps) (steps.map (·.θ)) : ℝ) att
        = ratioConst m f ℓ (lastLeg ℓ steps)
          * rxWeight sw 1 dir Trev (revBeamspread rT legs (velsFrom m ℓ steps) (steps.map (·.θ)) : ℝ)
              att (Real.sqrt (legVel m (lastLeg ℓ steps) / f) : ℝ) := by
  obtain ⟨T, Trev, hT, hTr, key⟩ :=
    transRefl_beamspread_ratio asin hsin m h ℓ steps hne legs hlegs hg
  refine ⟨T, Trev, hT, hTr, ?_⟩
  have hG : ((legG m (lastLeg ℓ steps) : ℝ) : ℂ) ≠ 0 := by
    exact_mod_cast (legG_pos h _).ne'
  have hs : ((Real.sqrt (legVel m (lastLeg ℓ steps) / f) : ℝ) : ℂ) ≠ 0 := by
    exact_mod_cast (Real.sqrt_pos.2 (div_pos (legVel_pos h _) hf)).ne'
  simp only [txWeight, rxWeight, hsw₁, hsw₂, ratioConst]
  generalize pick sw.directivity dir (1 : ℂ) = D
  generalize pick sw.attenuation att (1 : ℂ) = A
  simp only [pick, if_true]
  push_cast
  field_simp
  linear_combination (D * A) * key

/-- **(★) for the immersion model: `Q = R_a · Q'`, `R_a` a function of the last mode `a` only.**
For every path of the block-in-immersion model — probe, fluid, front-wall transmission into mode
`m₁`, then any number of reflections `m₁ → m₂ → …` against solid|fluid walls — with arbitrary real
incidence angles `θ_k` and leg lengths:

* `transRefl` and `revTransRefl` (displacement units) return values `T`, `T_rev`, no error;
* `txWeight … T B … = modeConst(a) · rxWeight … T_rev B_rev … √(c_a/f)` where `a` is the mode of the
  last leg, `B`, `B_rev` are `beamspread`, `revBeamspread`, and `modeConst(a) = ± K / c_a²`
  (`modeConst_L`, `modeConst_T`) does not depend on the geometry.

Hypotheses: positive densities, velocities and frequency; the external arcsine is a right inverse
of the sine; at every interior interface (`GoodFrom`) it returns the real incidence angle at its
sine and the real exit angle `φ_k` at the Snell argument, and `cos θ_k > 0`, `cos φ_k > 0`
(pre-critical ray; see `goodFrom_of_precritical`); the transmission/reflection and beamspread
terms are both switched on. -/
theorem Q_ratio_geometry_independent (asin : ℂ → ℂ) (hsin : ∀ x, Complex.sin (asin x) = x)
    (m : Media ℝ) (h : MediaPos m) (f : ℝ) (hf : 0 < f) (steps : List Step)
    (hne : steps ≠ []) (legs : List ℝ) (hlegs : legs.length = steps.length + 1)
    (hg : GoodFrom asin m none steps)
    (sw : Switches) (hsw₁ : sw.transrefl = true) (hsw₂ : sw.beamspread = true) (dir att : ℂ) :
    ∃ T Trev : ℂ,
      transRefl (cTrig asin) (toC m) true (specsFrom (toC m) none steps) = .ok (some T) ∧
      revTransRefl (cTrig asin) (toC m) true (specsFrom (toC m) none steps) = .ok (some Trev) ∧
      txWeight sw 1 dir T (beamspread rT legs (velsFrom m none steps) (steps.map (·.θ)) : ℝ) att
        = modeConst m f (steps.getLast hne).mOut
          * rxWeight sw 1 dir Trev
              (revBeamspread rT legs (velsFrom m none steps) (steps.map (·.θ)) : ℝ)
              att (Real.sqrt (velS m (steps.getLast hne).mOut / f) : ℝ) := by
  have := Q_ratio_general asin hsin m h f hf none steps hne legs hlegs hg sw hsw₁ hsw₂ dir att
  rw [lastLeg_eq_getLast none steps hne] at this
  exact this

/-! ### The constant -/

/-- `K = ρ_f c_f^{3/2} √f / ρ_s` -/
def constK (m : Media ℝ) (f : ℝ) : ℝ := m.rhoF * m.cF * Real.sqrt m.cF * Real.sqrt f / m.rhoS

theorem legG_mul_sqrtLam (m : Media ℝ) (h : MediaPos m) (f : ℝ) (hf : 0 < f) (a : Mode) :
    legG m (some a) * Real.sqrt (velS m a / f) = m.rhoS * velS m a ^ 2 / Real.sqrt f := by
  have hv := velS_pos h a
  have hs : Real.sqrt f ≠ 0 := (Real.sqrt_pos.2 hf).ne'
  have e : Real.sqrt (velS m a) * Real.sqrt (velS m a) = velS m a := Real.mul_self_sqrt hv.le
  simp only [legG, legRho, legVel]
  rw [Real.sqrt_div hv.le]
  field_simp
  linear_combination m.rhoS * e

theorem ratioConst_fluid (m : Media ℝ) (h : MediaPos m) (f : ℝ) (hf : 0 < f) (a : Mode) :
    ((legG m none / (legG m (some a) * Real.sqrt (velS m a / f)) : ℝ)) = constK m f / velS m a ^ 2 := by
  have hv := velS_pos h a
  have hs : Real.sqrt f ≠ 0 := (Real.sqrt_pos.2 hf).ne'
  have hρ := h.rhoS.ne'
  rw [legG_mul_sqrtLam m h f hf a]
  simp only [legG, legRho, legVel, constK]
  field_simp

/-- `R_L = K / c_L²` -/
theorem modeConst_L (m : Media ℝ) (h : MediaPos m) (f : ℝ) (hf : 0 < f) :
    modeConst m f .L = ((constK m f : ℝ) : ℂ) / ((m.cL : ℝ) : ℂ) ^ 2 := by
  have := ratioConst_fluid m h f hf .L
  simp only [modeConst, ratioConst, legSign, legVel, velS] at this ⊢
  rw [this]; push_cast; ring

/-- `R_T = − K / c_T²` -/
theorem modeConst_T (m : Media ℝ) (h : MediaPos m) (f : ℝ) (hf : 0 < f) :
    modeConst m f .T = -(((constK m f : ℝ) : ℂ) / ((m.cT : ℝ) : ℂ) ^ 2) := by
  have := ratioConst_fluid m h f hf .T
  simp only [modeConst, ratioConst, legSign, legVel, velS] at this ⊢
  rw [this]; push_cast; ring

/-- **`R_L / R_T = − c_T² / c_L²`**, in multiplicative form -/
theorem modeConst_L_T (m : Media ℝ) (h : MediaPos m) (f : ℝ) (hf : 0 < f) :
    modeConst m f .L * ((m.cL : ℝ) : ℂ) ^ 2 = -(modeConst m f .T * ((m.cT : ℝ) : ℂ) ^ 2) := by
  have hl : ((m.cL : ℝ) : ℂ) ≠ 0 := by exact_mod_cast h.cL.ne'
  have ht : ((m.cT : ℝ) : ℂ) ≠ 0 := by exact_mod_cast h.cT.ne'
  rw [modeConst_L m h f hf, modeConst_T m h f hf]
  field_simp

/-- hypothesis (ii) of `reciprocity_of_ratio` for the model's constants is the scatterer relation
of C09: `c_T² S_LT(x,y) = − c_L² S_TL(y,x)` -/
theorem scatterer_relation_modeConst (m : Media ℝ) (h : MediaPos m) (f : ℝ) (hf : 0 < f) (SLT STL : ℂ)
    (hS : ((m.cT : ℝ) : ℂ) ^ 2 * SLT = -(((m.cL : ℝ) : ℂ) ^ 2 * STL)) :
    modeConst m f .L * SLT = modeConst m f .T * STL := by
  rw [modeConst_L m h f hf, modeConst_T m h f hf]
  exact scatterer_relation_LT _ _ _ _ _ (by exact_mod_cast h.cL.ne') (by exact_mod_cast h.cT.ne') hS

/-! ### The three path shapes of the immersion model, written out -/

/-- **direct path** (probe – front wall – scatterer, mode `b` in the solid) -/
theorem Q_ratio_direct (asin : ℂ → ℂ) (hsin : ∀ x, Complex.sin (asin x) = x)
    (m : Media ℝ) (h : MediaPos m) (f : ℝ) (hf : 0 < f) (b : Mode) (θ φ r₁ r₂ : ℝ)
    (hasin : asin (Complex.sin θ) = θ)
    (hφ : snell (cTrig asin) (θ : ℂ) (toC m).cF (velS (toC m) b) = φ)
    (hcθ : 0 < Real.cos θ) (hcφ : 0 < Real.cos φ)
    (sw : Switches) (hsw₁ : sw.transrefl = true) (hsw₂ : sw.beamspread = true) (dir att : ℂ) :
    ∃ T Trev : ℂ,
      transRefl (cTrig asin) (toC m) true
        [⟨true, .fluidSolid, .L, b, θ, (toC m).cF, velS (toC m) b⟩] = .ok (some T) ∧
      revTransRefl (cTrig asin) (toC m) true
        [⟨true, .fluidSolid, .L, b, θ, (toC m).cF, velS (toC m) b⟩] = .ok (some Trev) ∧
      txWeight sw 1 dir T (beamspread rT [r₁, r₂] [m.cF, velS m b] [θ] : ℝ) att
        = modeConst m f b
          * rxWeight sw 1 dir Trev (revBeamspread rT [r₁, r₂] [m.cF, velS m b] [θ] : ℝ) att
              (Real.sqrt (velS m b / f) : ℝ) :=
  Q_ratio_geometry_independent asin hsin m h f hf [⟨b, θ, φ⟩] (by simp) [r₁, r₂] rfl
    ⟨⟨hasin, hφ, hcθ, hcφ⟩, trivial⟩ sw hsw₁ hsw₂ dir att

/-- **skip path** (front wall into mode `a`, one reflection `a → b`) -/
theorem Q_ratio_skip (asin : ℂ → ℂ) (hsin : ∀ x, Complex.sin (asin x) = x)
    (m : Media ℝ) (h : MediaPos m) (f : ℝ) (hf : 0 < f) (a b : Mode)
    (θ₁ φ₁ θ₂ φ₂ r₁ r₂ r₃ : ℝ)
    (hasin₁ : asin (Complex.sin θ₁) = θ₁)
    (hφ₁ : snell (cTrig asin) (θ₁ : ℂ) (toC m).cF (velS (toC m) a) = φ₁)
    (hcθ₁ : 0 < Real.cos θ₁) (hcφ₁ : 0 < Real.cos φ₁)
    (hasin₂ : asin (Complex.sin θ₂) = θ₂)
    (hφ₂ : snell (cTrig asin) (θ₂ : ℂ) (velS (toC m) a) (velS (toC m) b) = φ₂)
    (hcθ₂ : 0 < Real.cos θ₂) (hcφ₂ : 0 < Real.cos φ₂)
    (sw : Switches) (hsw₁ : sw.transrefl = true) (hsw₂ : sw.beamspread = true) (dir att : ℂ) :
    ∃ T Trev : ℂ,
      transRefl (cTrig asin) (toC m) true
        [⟨true, .fluidSolid, .L, a, θ₁, (toC m).cF, velS (toC m) a⟩,
         ⟨false, .solidFluid, a, b, θ₂, velS (toC m) a, velS (toC m) b⟩] = .ok (some T) ∧
      revTransRefl (cTrig asin) (toC m) true
        [⟨true, .fluidSolid, .L, a, θ₁, (toC m).cF, velS (toC m) a⟩,
         ⟨false, .solidFluid, a, b, θ₂, velS (toC m) a, velS (toC m) b⟩] = .ok (some Trev) ∧
      txWeight sw 1 dir T
          (beamspread rT [r₁, r₂, r₃] [m.cF, velS m a, velS m b] [θ₁, θ₂] : ℝ) att
        = modeConst m f b
          * rxWeight sw 1 dir Trev
              (revBeamspread rT [r₁, r₂, r₃] [m.cF, velS m a, velS m b] [θ₁, θ₂] : ℝ) att
              (Real.sqrt (velS m b / f) : ℝ) :=
  Q_ratio_geometry_independent asin hsin m h f hf [⟨a, θ₁, φ₁⟩, ⟨b, θ₂, φ₂⟩] (by simp)
    [r₁, r₂, r₃] rfl ⟨⟨hasin₁, hφ₁, hcθ₁, hcφ₁⟩, ⟨hasin₂, hφ₂, hcθ₂, hcφ₂⟩, trivial⟩
    sw hsw₁ hsw₂ dir att

/-- **double-skip path** (front wall into mode `a`, reflections `a → b`, `b → c`) -/
theorem Q_ratio_double_skip (asin : ℂ → ℂ) (hsin : ∀ x, Complex.sin (asin x) = x)
    (m : Media ℝ) (h : MediaPos m) (f : ℝ) (hf : 0 < f) (a b c : Mode)
    (θ₁ φ₁ θ₂ φ₂ θ₃ φ₃ r₁ r₂ r₃ r₄ : ℝ)
    (hasin₁ : asin (Complex.sin θ₁) = θ₁)
    (hφ₁ : snell (cTrig asin) (θ₁ : ℂ) (toC m).cF (velS (toC m) a) = φ₁)
    (hcθ₁ : 0 < Real.cos θ₁) (hcφ₁ : 0 < Real.cos φ₁)
    (hasin₂ : asin (Complex.sin θ₂) = θ₂)
    (hφ₂ : snell (cTrig asin) (θ₂ : ℂ) (velS (toC m) a) (velS (toC m) b) = φ₂)
    (hcθ₂ : 0 < Real.cos θ₂) (hcφ₂ : 0 < Real.cos φ₂)
    (hasin₃ : asin (Complex.sin θ₃) = θ₃)
    (hφ₃ : snell (cTrig asin) (θ₃ : ℂ) (velS (toC m) b) (velS (toC m) c) = φ₃)
    (hcθ₃ : 0 < Real.cos θ₃) (hcφ₃ : 0 < Real.cos φ₃)
    (sw : Switches) (hsw₁ : sw.transrefl = true) (hsw₂ : sw.beamspread = true) (dir att : ℂ) :
    ∃ T Trev : ℂ,
      transRefl (cTrig asin) (toC m) true
        [⟨true, .fluidSolid, .L, a, θ₁, (toC m).cF, velS (toC m) a⟩,
         ⟨false, .solidFluid, a, b, θ₂, velS (toC m) a, velS (toC m) b⟩,
         ⟨false, .solidFluid, b, c, θ₃, velS (toC m) b, velS (toC m) c⟩] = .ok (some T) ∧
      revTransRefl (cTrig asin) (toC m) true
        [⟨true, .fluidSolid, .L, a, θ₁, (toC m).cF, velS (toC m) a⟩,
         ⟨false, .solidFluid, a, b, θ₂, velS (toC m) a, velS (toC m) b⟩,
         ⟨false, .solidFluid, b, c, θ₃, velS (toC m) b, velS (toC m) c⟩] = .ok (some Trev) ∧
      txWeight sw 1 dir T
          (beamspread rT [r₁, r₂, r₃, r₄] [m.cF, velS m a, velS m b, velS m c] [θ₁, θ₂, θ₃] : ℝ) att
        = modeConst m f c
          * rxWeight sw 1 dir Trev
              (revBeamspread rT [r₁, r₂, r₃, r₄] [m.cF, velS m a, velS m b, velS m c] [θ₁, θ₂, θ₃] : ℝ)
              att (Real.sqrt (velS m c / f) : ℝ) :=
  Q_ratio_geometry_independent asin hsin m h f hf [⟨a, θ₁, φ₁⟩, ⟨b, θ₂, φ₂⟩, ⟨c, θ₃, φ₃⟩] (by simp)
    [r₁, r₂, r₃, r₄] rfl
    ⟨⟨hasin₁, hφ₁, hcθ₁, hcφ₁⟩, ⟨hasin₂, hφ₂, hcθ₂, hcφ₂⟩, ⟨hasin₃, hφ₃, hcθ₃, hcφ₃⟩, trivial⟩
    sw hsw₁ hsw₂ dir att

/-! ### Reciprocity of the model coefficients, end to end -/

/-- **Reciprocity of the immersion model.** Let `A` (from element `i`) and `B` (from element `j`)
be two immersion paths to the same scatterer, with last modes `a`, `b`, and let the scattering
amplitudes satisfy `R_a · S_ab = R_b · S_ba` (hypothesis (ii) of `reciprocity_of_ratio`; for
`a = b` it says `S_aa` symmetric, for `a ≠ b` it is `scatterer_relation_modeConst`). Then the
coefficient `S_ab · Q_A · Q'_B` of view `A–B` (transmit `i`, receive `j`) equals the coefficient
`S_ba · Q_B · Q'_A` of the reciprocal view (transmit `j`, receive `i`), where `Q`, `Q'` are the
weights `txWeight`, `rxWeight` assembled from the values of `transRefl`, `revTransRefl`,
`beamspread`, `revBeamspread`; no structural hypothesis on the weights is left. -/
theorem reciprocity_immersion (asin : ℂ → ℂ) (hsin : ∀ x, Complex.sin (asin x) = x)
    (m : Media ℝ) (h : MediaPos m) (f : ℝ) (hf : 0 < f)
    (stepsA stepsB : List Step) (hneA : stepsA ≠ []) (hneB : stepsB ≠ [])
    (legsA legsB : List ℝ) (hlegsA : legsA.length = stepsA.length + 1)
    (hlegsB : legsB.length = stepsB.length + 1)
    (hgA : GoodFrom asin m none stepsA) (hgB : GoodFrom asin m none stepsB)
    (sw : Switches) (hsw₁ : sw.transrefl = true) (hsw₂ : sw.beamspread = true)
    (dirA attA dirB attB Sab Sba : ℂ)
    (hS : modeConst m f (stepsA.getLast hneA).mOut * Sab
        = modeConst m f (stepsB.getLast hneB).mOut * Sba) :
    ∃ TA TrevA TB TrevB : ℂ,
      transRefl (cTrig asin) (toC m) true (specsFrom (toC m) none stepsA) = .ok (some TA) ∧
      revTransRefl (cTrig asin) (toC m) true (specsFrom (toC m) none stepsA) = .ok (some TrevA) ∧
      transRefl (cTrig asin) (toC m) true (specsFrom (toC m) none stepsB) = .ok (some TB) ∧
      revTransRefl (cTrig asin) (toC m) true (specsFrom (toC m) none stepsB) = .ok (some TrevB) ∧
      Sab
        * txWeight sw 1 dirA TA
            (beamspread rT legsA (velsFrom m none stepsA) (stepsA.map (·.θ)) : ℝ) attA
        * rxWeight sw 1 dirB TrevB
            (revBeamspread rT legsB (velsFrom m none stepsB) (stepsB.map (·.θ)) : ℝ) attB
            (Real.sqrt (velS m (stepsB.getLast hneB).mOut / f) : ℝ)
      = Sba
        * txWeight sw 1 dirB TB
            (beamspread rT legsB (velsFrom m none stepsB) (stepsB.map (·.θ)) : ℝ) attB
        * rxWeight sw 1 dirA TrevA
            (revBeamspread rT legsA (velsFrom m none stepsA) (stepsA.map (·.θ)) : ℝ) attA
            (Real.sqrt (velS m (stepsA.getLast hneA).mOut / f) : ℝ) := by
  obtain ⟨TA, TrevA, hTA, hTrA, hA⟩ := Q_ratio_geometry_independent asin hsin m h f hf stepsA hneA
    legsA hlegsA hgA sw hsw₁ hsw₂ dirA attA
  obtain ⟨TB, TrevB, hTB, hTrB, hB⟩ := Q_ratio_geometry_independent asin hsin m h f hf stepsB hneB
    legsB hlegsB hgB sw hsw₁ hsw₂ dirB attB
  exact ⟨TA, TrevA, TB, TrevB, hTA, hTrA, hTB, hTrB,
    reciprocity_of_ratio _ _ _ _ _ _ _ _ hA hB hS⟩

/-! ### The hypotheses are satisfiable: pre-critical real rays -/

/-- an arcsine routine that is a right inverse of the complex sine and agrees with the real
arcsine on `[−1, 1]` (as the principal complex arcsine does) -/
def ExtendsArcsin (asin : ℂ → ℂ) : Prop :=
  (∀ x, Complex.sin (asin x) = x) ∧ ∀ r : ℝ, -1 ≤ r → r ≤ 1 → asin (r : ℂ) = (Real.arcsin r : ℝ)

/-- such a routine exists -/
theorem exists_extendsArcsin : ∃ asin : ℂ → ℂ, ExtendsArcsin asin := by
  classical
  refine ⟨fun x => if x.im = 0 ∧ -1 ≤ x.re ∧ x.re ≤ 1 then ((Real.arcsin x.re : ℝ) : ℂ)
    else Function.surjInv Complex.sin_surjective x, ?_, ?_⟩
  · intro x
    by_cases hx : x.im = 0 ∧ -1 ≤ x.re ∧ x.re ≤ 1
    · simp only [if_pos hx]
      rw [← Complex.ofReal_sin, Real.sin_arcsin hx.2.1 hx.2.2]
      exact Complex.ext rfl (by simp [hx.1])
    · simp only [if_neg hx]
      exact Function.surjInv_eq Complex.sin_surjective x
  · intro r h1 h2
    simp [h1, h2]

/-- pre-critical real geometry: incidence angles in `(−π/2, π/2)`, Snell arguments in `(−1, 1)`,
exit angles given by the real arcsine -/
def PrecriticalFrom (m : Media ℝ) : Leg → List Step → Prop
  | _, [] => True
  | ℓ, st :: sts =>
    (-(Real.pi / 2) < st.θ ∧ st.θ < Real.pi / 2 ∧
      -1 < legVel m (some st.mOut) / legVel m ℓ * Real.sin st.θ ∧
      legVel m (some st.mOut) / legVel m ℓ * Real.sin st.θ < 1 ∧
      st.φ = Real.arcsin (legVel m (some st.mOut) / legVel m ℓ * Real.sin st.θ)) ∧
    PrecriticalFrom m (some st.mOut) sts

/-- for an arcsine routine extending the real arcsine, every pre-critical real geometry satisfies
the hypotheses `GoodFrom` of the theorems above -/
theorem goodFrom_of_precritical (asin : ℂ → ℂ) (hext : ExtendsArcsin asin) (m : Media ℝ)
    (ℓ : Leg) (steps : List Step) (hp : PrecriticalFrom m ℓ steps) : GoodFrom asin m ℓ steps := by
  induction steps generalizing ℓ with
  | nil => trivial
  | cons st sts ih =>
    obtain ⟨⟨h1, h2, h3, h4, h5⟩, hrest⟩ := hp
    refine ⟨⟨?_, ?_, ?_, ?_⟩, ih _ hrest⟩
    · rw [← Complex.ofReal_sin, hext.2 _ (Real.neg_one_le_sin _) (Real.sin_le_one _),
        Real.arcsin_sin h1.le h2.le]
    · rw [snell_cTrig, legVel_toC, legVel_toC, ← Complex.ofReal_sin, ← Complex.ofReal_div,
        ← Complex.ofReal_mul, hext.2 _ h3.le h4.le, h5]
    · exact Real.cos_pos_of_mem_Ioo ⟨h1, h2⟩
    · rw [h5]
      exact Real.cos_pos_of_mem_Ioo
        ⟨Real.neg_pi_div_two_lt_arcsin.2 h3, Real.arcsin_lt_pi_div_two.2 h4⟩

/-- non-vacuity: a direct L path at normal incidence in water/aluminium-like media -/
example : ∃ asin : ℂ → ℂ, (∀ x, Complex.sin (asin x) = x) ∧
    GoodFrom asin ⟨1000, 2700, 1480, 6320, 3130⟩ none [⟨.L, 0, 0⟩] := by
  obtain ⟨asin, hext⟩ := exists_extendsArcsin
  refine ⟨asin, hext.1, goodFrom_of_precritical asin hext _ _ _ ?_⟩
  have := Real.pi_pos
  refine ⟨⟨by linarith, by linarith, by simp, by simp, by simp⟩, trivial⟩

end star


/-! ## On the source as translated on this run

`SrcC03.tx_ray_weights` / `SrcC03.rx_ray_weights` (file `Generated/SrcC03.lean`) are read from
`/repo/src/arim/models/block_in_immersion.py` on every run: which switch guards which factor, which model function supplies
it, the order of the product, the `sqrt(lambda)` normalisation.  `Tie.C03` identifies them with `txWeight` / `rxWeight`, so
`reciprocity_immersion` is a statement about the weights as the source assembles them. -/
noncomputable section OnSource
open Arim.Tie.C03 Arim.Iface Arim.Weights Arim.Recip Arim.C04 Arim.C06

/-- **reciprocity with the weights assembled by the translated source**: the factor record of view end `A` holds the values of
`transRefl` / `revTransRefl` (displacement units) and of the two beamspreads of path `A`, likewise `B`; then the coefficient of
view `A–B` (transmit `i`, receive `j`) equals that of the reciprocal view (transmit `j`, receive `i`) -/
theorem src_reciprocity_immersion (asin : ℂ → ℂ) (hsin : ∀ x, Complex.sin (asin x) = x)
    (m : Media ℝ) (h : MediaPos m) (f : ℝ) (hf : 0 < f)
    (stepsA stepsB : List Step) (hneA : stepsA ≠ []) (hneB : stepsB ≠ [])
    (legsA legsB : List ℝ) (hlegsA : legsA.length = stepsA.length + 1)
    (hlegsB : legsB.length = stepsB.length + 1)
    (hgA : GoodFrom asin m none stepsA) (hgB : GoodFrom asin m none stepsB)
    (ud ua : Bool) (FA FB : Arim.SrcC03.Factors ℂ) (Sab Sba : ℂ)
    (hFA₁ : transRefl (cTrig asin) (toC m) true (specsFrom (toC m) none stepsA) = .ok (some FA.transrefl_fwd_displacement))
    (hFA₂ : revTransRefl (cTrig asin) (toC m) true (specsFrom (toC m) none stepsA) = .ok (some FA.transrefl_rev_displacement))
    (hFB₁ : transRefl (cTrig asin) (toC m) true (specsFrom (toC m) none stepsB) = .ok (some FB.transrefl_fwd_displacement))
    (hFB₂ : revTransRefl (cTrig asin) (toC m) true (specsFrom (toC m) none stepsB) = .ok (some FB.transrefl_rev_displacement))
    (hbA₁ : FA.beamspread_fwd = (beamspread rT legsA (velsFrom m none stepsA) (stepsA.map (·.θ)) : ℝ))
    (hbA₂ : FA.beamspread_rev = (revBeamspread rT legsA (velsFrom m none stepsA) (stepsA.map (·.θ)) : ℝ))
    (hbB₁ : FB.beamspread_fwd = (beamspread rT legsB (velsFrom m none stepsB) (stepsB.map (·.θ)) : ℝ))
    (hbB₂ : FB.beamspread_rev = (revBeamspread rT legsB (velsFrom m none stepsB) (stepsB.map (·.θ)) : ℝ))
    (hlA : FA.sqrt_lambda_last_mode = (Real.sqrt (velS m (stepsA.getLast hneA).mOut / f) : ℝ))
    (hlB : FB.sqrt_lambda_last_mode = (Real.sqrt (velS m (stepsB.getLast hneB).mOut / f) : ℝ))
    (hS : modeConst m f (stepsA.getLast hneA).mOut * Sab = modeConst m f (stepsB.getLast hneB).mOut * Sba) :
    Sab * Arim.SrcC03.tx_ray_weights ud true true ua 1 FA * Arim.SrcC03.rx_ray_weights ud true true ua 1 FB
      = Sba * Arim.SrcC03.tx_ray_weights ud true true ua 1 FB * Arim.SrcC03.rx_ray_weights ud true true ua 1 FA := by
  obtain ⟨TA, TrevA, TB, TrevB, h1, h2, h3, h4, hrec⟩ := reciprocity_immersion asin hsin m h f hf stepsA stepsB hneA hneB
    legsA legsB hlegsA hlegsB hgA hgB ⟨ud, true, true, ua⟩ rfl rfl FA.directivity FA.attenuation FB.directivity FB.attenuation Sab Sba hS
  rw [hFA₁] at h1; rw [hFA₂] at h2; rw [hFB₁] at h3; rw [hFB₂] at h4
  injection h1 with h1; injection h1 with h1
  injection h2 with h2; injection h2 with h2
  injection h3 with h3; injection h3 with h3
  injection h4 with h4; injection h4 with h4
  rw [tie_tx_ray_weights, tie_rx_ray_weights, tie_tx_ray_weights, tie_rx_ray_weights, hbA₁, hbA₂, hbB₁, hbB₂, hlA, hlB, h1, h2, h3, h4]
  exact hrec

end OnSource

end Arim.C03
