import ArimProofs.Lemmas.Fermat
/-! # C01 — ray tracing returns the globally fastest discrete ray

Property theorems only; helper lemmas are in `ArimProofs/Lemmas/Fermat.lean`; the
definitions (`scanMin`, `solveR`, `costR`) are the ones the driver executes on `Float`. -/
namespace Arim.C01
open Arim
variable {α : Type} [LinearOrder α]

/-- `_find_minimum_times`: for `m > 0` candidates the scan returns the value of a candidate,
its index is in range, it is a lower bound of all candidates and it is the *first* minimiser. -/
theorem scanMin_spec (f : Nat → α) (m : Nat) (hm : 0 < m) :
    ∃ v k, scanMin f m = some (v, k) ∧ k < m ∧ v = f k ∧ (∀ k', k' < m → v ≤ f k') ∧
      (∀ k', k' < k → v < f k') := by
  induction m with
  | zero => omega
  | succ m ih =>
    rw [scanMin_succ]
    rcases Nat.eq_zero_or_pos m with h0 | hpos
    · subst h0
      refine ⟨f 0, 0, ?_, by omega, rfl, ?_, ?_⟩
      · simp [scanMin, kstep]
      · intro k' hk'; have : k' = 0 := by omega
        subst this; exact le_refl _
      · intro k' hk'; omega
    · obtain ⟨v, k, hs, hk, hv, hle, hlt⟩ := ih hpos
      rw [hs]
      by_cases hc : f m < v
      · refine ⟨f m, m, by simp [kstep, hc], by omega, rfl, ?_, ?_⟩
        · intro k' hk'
          rcases Nat.lt_succ_iff_lt_or_eq.mp hk' with h | h
          · exact le_of_lt (lt_of_lt_of_le hc (hle k' h))
          · subst h; exact le_refl _
        · intro k' hk'; exact lt_of_lt_of_le hc (hle k' hk')
      · refine ⟨v, k, by simp [kstep, hc], by omega, hv, ?_, hlt⟩
        intro k' hk'
        rcases Nat.lt_succ_iff_lt_or_eq.mp hk' with h | h
        · exact hle k' h
        · subst h; exact not_lt.mp hc

variable [Add α] [AddRightMono α]

/-- **Global optimality.** For every number of legs, every (non-empty) set sizes, every time
tables in any linearly ordered type whose `· + c` is monotone (ℝ, ℚ, and the non-NaN IEEE
doubles with the solver's own association order): the solver returns a valid index tuple,
the reported time is exactly the left-associated cost of that tuple, and no valid tuple is
faster. -/
theorem solve_optimal (first : Nat → Nat → α) (legs : List (Leg α)) (hpos : allPos legs)
    (i j : Nat) :
    ∃ v ks, solveR first legs i j = some (v, ks.reverse) ∧ validR legs ks ∧
      costR first legs i ks j = some v ∧
      (∀ ks' v', validR legs ks' → costR first legs i ks' j = some v' → v ≤ v') := by
  induction legs generalizing j with
  | nil =>
    refine ⟨first i j, [], by simp [solveR], by simp [validR], by simp [costR], ?_⟩
    intro ks' v' hv hc
    cases ks' with
    | nil => simp [costR] at hc; exact le_of_eq hc
    | cons a t => simp [validR] at hv
  | cons l prev ih =>
    obtain ⟨hm, hprev⟩ := hpos
    have hcand : ∀ k, k < l.m → ∃ v ks,
        (fun k => (solveR first prev i k).map (fun (v, ks) => (v + l.t k j, ks))) k = some (v, ks) := by
      intro k _
      obtain ⟨v, ks, hs, _⟩ := ih hprev k
      exact ⟨v + l.t k j, ks.reverse, by simp [hs]⟩
    obtain ⟨v, ks, k, hs, hk, hfk, hle⟩ := scanMinR_spec _ l.m hm hcand
    obtain ⟨vp, ksp, hsp, hvalp, hcostp, hminp⟩ := ih hprev k
    simp only [hsp, Option.map_some] at hfk
    injection hfk with hfk
    injection hfk with hv hks
    refine ⟨v, k :: ksp, ?_, ⟨hk, hvalp⟩, ?_, ?_⟩
    · simp only [solveR]; rw [hs, ← hks]; simp
    · simp [costR, hcostp, hv]
    · intro ks' v' hval hcost
      cases ks' with
      | nil => simp [validR] at hval
      | cons k' ks'' =>
        obtain ⟨hk', hval''⟩ := hval
        simp only [costR] at hcost
        cases hc'' : costR first prev i ks'' k' with
        | none => simp [hc''] at hcost
        | some c'' =>
          simp [hc''] at hcost
          obtain ⟨vq, ksq, hsq, _, _, hminq⟩ := ih hprev k'
          have h1 : vq ≤ c'' := hminq ks'' c'' hval'' hc''
          have h2 : v ≤ vq + l.t k' j := hle k' (vq + l.t k' j) ksq.reverse hk' (by simp [hsq])
          calc v ≤ vq + l.t k' j := h2
            _ ≤ c'' + l.t k' j := add_le_add_left h1 _
            _ = v' := hcost

/-- **Sandwich.** Any lower bound `L` of all discrete tuple costs (the continuous Fermat
time is one: sample tuples are particular crossing points) is a lower bound of the reported
time, and the reported time does not exceed the cost of any particular tuple `ks₀`
(e.g. the samples nearest to the continuous crossing points). -/
theorem solve_sandwich (first : Nat → Nat → α) (legs : List (Leg α)) (hpos : allPos legs)
    (i j : Nat) (L : α)
    (hL : ∀ ks' v', validR legs ks' → costR first legs i ks' j = some v' → L ≤ v')
    (ks₀ : List Nat) (v₀ : α) (h₀ : validR legs ks₀) (hc₀ : costR first legs i ks₀ j = some v₀) :
    ∃ v ks, solveR first legs i j = some (v, ks) ∧ L ≤ v ∧ v ≤ v₀ := by
  obtain ⟨v, ks, hs, hval, hcost, hmin⟩ := solve_optimal first legs hpos i j
  exact ⟨v, ks.reverse, hs, hL ks v hval hcost, hmin ks₀ v₀ h₀ hc₀⟩

/-- non-vacuity: a two-leg instance over ℕ (interface of 3 points) where the middle point wins -/
example : solveR (fun _ k => [5, 1, 4].getD k 0) [({ m := 3, t := fun k _ => [1, 2, 7].getD k 0 } : Leg Nat)] 0 0
    = some (3, [1]) := by decide

end Arim.C01
