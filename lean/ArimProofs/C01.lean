import ArimProofs.Lemmas.Fermat
import ArimProofs.Tie.C01
import Mathlib.Algebra.Order.Group.Nat
/-! # C01 — ray tracing returns the globally fastest discrete ray

Also: index array layout, transparency of the solver's result cache, reversal.

Property theorems only; helper lemmas are in `ArimProofs/Lemmas/Fermat.lean`; the
definitions (`scanMin`, `solveR`, `costR`) are the ones the driver executes on `Float`. -/
namespace Arim.C01
open Arim
variable {α : Type} [LinearOrder α]

/-- `_find_minimum_times`: for `m > 0` candidates the scan returns the value of a candidate,
its index is in range, it is a lower bound of all candidates and it is the *first* minimiser. -/
theorem scanMin_spec (f : Nat → α) (m : Nat) (hm : 0 < m) :
    ∃ v k, scanMin f m = some (v, k) ∧ k < m ∧ v = f k ∧ (∀ k', k' < m → v ≤ f k') ∧
      (∀ k', k' < k → v < f k') := by
  induction m with
  | zero => omega
  | succ m ih =>
    rw [scanMin_succ]
    rcases Nat.eq_zero_or_pos m with h0 | hpos
    · subst h0
      refine ⟨f 0, 0, ?_, by omega, rfl, ?_, ?_⟩
      · simp [scanMin, kstep]
      · intro k' hk'; have : k' = 0 := by omega
        subst this; exact le_refl _
      · intro k' hk'; omega
    · obtain ⟨v, k, hs, hk, hv, hle, hlt⟩ := ih hpos
      rw [hs]
      by_cases hc : f m < v
      · refine ⟨f m, m, by simp [kstep, hc], by omega, rfl, ?_, ?_⟩
        · intro k' hk'
          rcases Nat.lt_succ_iff_lt_or_eq.mp hk' with h | h
          · exact le_of_lt (lt_of_lt_of_le hc (hle k' h))
          · subst h; exact le_refl _
        · intro k' hk'; exact lt_of_lt_of_le hc (hle k' hk')
      · refine ⟨v, k, by simp [kstep, hc], by omega, hv, ?_, hlt⟩
        intro k' hk'
        rcases Nat.lt_succ_iff_lt_or_eq.mp hk' with h | h
        · exact hle k' h
        · subst h; exact not_lt.mp hc

variable [Add α] [AddRightMono α]

/-- **Global optimality.** For every number of legs, every (non-empty) set sizes, every time
tables in any linearly ordered type whose `· + c` is monotone (ℝ, ℚ, and the non-NaN IEEE
doubles with the solver's own association order): the solver returns a valid index tuple,
the reported time is exactly the left-associated cost of that tuple, and no valid tuple is
faster. -/
theorem solve_optimal (first : Nat → Nat → α) (legs : List (Leg α)) (hpos : allPos legs)
    (i j : Nat) :
    ∃ v ks, solveR first legs i j = some (v, ks.reverse) ∧ validR legs ks ∧
      costR first legs i ks j = some v ∧
      (∀ ks' v', validR legs ks' → costR first legs i ks' j = some v' → v ≤ v') := by
  induction legs generalizing j with
  | nil =>
    refine ⟨first i j, [], by simp [solveR], by simp [validR], by simp [costR], ?_⟩
    intro ks' v' hv hc
    cases ks' with
    | nil => simp [costR] at hc; exact le_of_eq hc
    | cons a t => simp [validR] at hv
  | cons l prev ih =>
    obtain ⟨hm, hprev⟩ := hpos
    have hcand : ∀ k, k < l.m → ∃ v ks,
        (fun k => (solveR first prev i k).map (fun (v, ks) => (v + l.t k j, ks))) k = some (v, ks) := by
      intro k _
      obtain ⟨v, ks, hs, _⟩ := ih hprev k
      exact ⟨v + l.t k j, ks.reverse, by simp [hs]⟩
    obtain ⟨v, ks, k, hs, hk, hfk, hle⟩ := scanMinR_spec _ l.m hm hcand
    obtain ⟨vp, ksp, hsp, hvalp, hcostp, hminp⟩ := ih hprev k
    simp only [hsp, Option.map_some] at hfk
    injection hfk with hfk
    injection hfk with hv hks
    refine ⟨v, k :: ksp, ?_, ⟨hk, hvalp⟩, ?_, ?_⟩
    · simp only [solveR]; rw [hs, ← hks]; simp
    · simp [costR, hcostp, hv]
    · intro ks' v' hval hcost
      cases ks' with
      | nil => simp [validR] at hval
      | cons k' ks'' =>
        obtain ⟨hk', hval''⟩ := hval
        simp only [costR] at hcost
        cases hc'' : costR first prev i ks'' k' with
        | none => simp [hc''] at hcost
        | some c'' =>
          simp [hc''] at hcost
          obtain ⟨vq, ksq, hsq, _, _, hminq⟩ := ih hprev k'
          have h1 : vq ≤ c'' := hminq ks'' c'' hval'' hc''
          have h2 : v ≤ vq + l.t k' j := hle k' (vq + l.t k' j) ksq.reverse hk' (by simp [hsq])
          calc v ≤ vq + l.t k' j := h2
            _ ≤ c'' + l.t k' j := add_le_add_left h1 _
            _ = v' := hcost

/-- **Sandwich.** Any lower bound `L` of all discrete tuple costs (the continuous Fermat
time is one: sample tuples are particular crossing points) is a lower bound of the reported
time, and the reported time does not exceed the cost of any particular tuple `ks₀`
(e.g. the samples nearest to the continuous crossing points). -/
theorem solve_sandwich (first : Nat → Nat → α) (legs : List (Leg α)) (hpos : allPos legs)
    (i j : Nat) (L : α)
    (hL : ∀ ks' v', validR legs ks' → costR first legs i ks' j = some v' → L ≤ v')
    (ks₀ : List Nat) (v₀ : α) (h₀ : validR legs ks₀) (hc₀ : costR first legs i ks₀ j = some v₀) :
    ∃ v ks, solveR first legs i j = some (v, ks) ∧ L ≤ v ∧ v ≤ v₀ := by
  obtain ⟨v, ks, hs, hval, hcost, hmin⟩ := solve_optimal first legs hpos i j
  exact ⟨v, ks.reverse, hs, hL ks v hval hcost, hmin ks₀ v₀ h₀ hc₀⟩

/-- non-vacuity: a two-leg instance over ℕ (interface of 3 points) where the middle point wins -/
example : solveR (fun _ k => [5, 1, 4].getD k 0) [({ m := 3, t := fun k _ => [1, 2, 7].getD k 0 } : Leg Nat)] 0 0
    = some (3, [1]) := by decide

/-! ## Index array layout (`Rays.make_indices`, `Rays.expand_rays`) -/
section Layout
variable {β : Type} [LT β] [DecidableLT β] [Add β]

/-- **`Rays.make_indices` layout.** Row 0 is the start index, row `d+1` the end index, rows
`1..d` the interior indices in path order. -/
theorem fullIndices_layout (i j : Nat) (ks : List Nat) :
    (fullIndices i j ks)[0]? = some i ∧ (fullIndices i j ks)[ks.length + 1]? = some j ∧
      ∀ d, d < ks.length → (fullIndices i j ks)[d+1]? = ks[d]? := by
  refine ⟨by simp [fullIndices], ?_, ?_⟩
  · simp [fullIndices]
  · intro d hd
    simp [fullIndices, List.getElem?_append_left hd]

/-- A ray of a path with `d` legs after the first (`d` interior interfaces) has exactly `d`
interior indices. No order laws and no non-emptiness needed. -/
theorem solveR_length (first : Nat → Nat → β) (legs : List (Leg β)) (i j : Nat) (v : β)
    (ks : List Nat) (h : solveR first legs i j = some (v, ks)) : ks.length = legs.length := by
  induction legs generalizing j v ks with
  | nil => simp [solveR] at h; simp [← h.2]
  | cons l prev ih =>
    obtain ⟨k, ks', v', _, hr, hp, _⟩ := solveR_cons_some first l prev i j v ks h
    rw [hr]; simp [ih k v' ks' hp]

/-- **`Rays.expand_rays`.** If the solver returns `ks ++ [k]` then `k` is a point of the last
interior interface, `ks` is exactly the interior-index tuple the solver returns for the head
path from `i` to `k` (this is the block `expand_rays` copies), and the time is the head time
plus the last leg. -/
theorem expand_layout (first : Nat → Nat → β) (l : Leg β) (prev : List (Leg β)) (i j : Nat)
    (v : β) (ks : List Nat) (k : Nat)
    (h : solveR first (l :: prev) i j = some (v, ks ++ [k])) :
    k < l.m ∧ ∃ v', solveR first prev i k = some (v', ks) ∧ v = v' + l.t k j := by
  obtain ⟨k', ks', v', hk, hr, hp, hv⟩ := solveR_cons_some first l prev i j v _ h
  obtain ⟨h1, h2⟩ := List.append_inj' hr rfl
  simp only [List.cons.injEq, and_true] at h2
  subst h1 h2
  exact ⟨hk, v', hp, hv⟩
end Layout

/-! ## The result cache of `FermatSolver._solve` is transparent -/
section CacheT
variable {β : Type} [LT β] [DecidableLT β] [Add β]

/-- **Cache transparency.** If every table stored in the dict is the table of its key solved
alone (`CacheInv`), then `_solve` returns the table of `key` solved alone (equality of
functions) and the new dict satisfies the invariant again. Holds for every scalar type with a
decidable `<` and a `+`, floats included. -/
theorem solveC_transparent (legOf : Nat → Leg β) (cache : Cache β) (key : PKey)
    (hc : CacheInv legOf cache) :
    (solveC legOf cache key).1 = solvePure legOf key ∧
      CacheInv legOf (solveC legOf cache key).2 := by
  have h := solveCR_spec legOf key.reverse cache hc
  rw [List.reverse_reverse] at h
  exact h

/-- the empty dict satisfies the invariant -/
theorem cacheInv_nil (legOf : Nat → Leg β) : CacheInv legOf ([] : Cache β) := by
  intro k tbl h; cases h

/-- `FermatSolver.solve` from any dict satisfying the invariant. -/
theorem solveAll_transparent (legOf : Nat → Leg β) (cache : Cache β) (keys : List PKey)
    (hc : CacheInv legOf cache) :
    (solveAll legOf cache keys).1 = keys.map (solvePure legOf) ∧
      CacheInv legOf (solveAll legOf cache keys).2 := by
  induction keys generalizing cache with
  | nil => exact ⟨rfl, hc⟩
  | cons k ks ih =>
    obtain ⟨h1, h2⟩ := solveC_transparent legOf cache k hc
    obtain ⟨h3, h4⟩ := ih _ h2
    simp only [solveAll, List.map_cons]
    exact ⟨by rw [h1, h3], h4⟩

/-- **Grouping paths does not change results.** Solving any list of paths one after the other
from the empty dict (sharing cached sub-paths, in whatever order, with repetitions) returns for
each path exactly the table of that path solved alone. -/
theorem solve_group_eq_alone (legOf : Nat → Leg β) (keys : List PKey) :
    (solveAll legOf [] keys).1 = keys.map (solvePure legOf) :=
  (solveAll_transparent legOf [] keys (cacheInv_nil legOf)).1

/-- the same, per position, against the memoising solver run alone on a fresh dict -/
theorem solve_group_eq_alone_get (legOf : Nat → Leg β) (keys : List PKey) (n : Nat)
    (key : PKey) (h : keys[n]? = some key) :
    (solveAll legOf [] keys).1[n]? = some ((solveC legOf [] key).1) := by
  rw [solve_group_eq_alone, (solveC_transparent legOf [] key (cacheInv_nil legOf)).1]
  simp [h]

/-- the table obtained for a path does not depend on which group it was solved in, nor on its
position in the group -/
theorem solve_group_order_irrelevant (legOf : Nat → Leg β) (keys keys' : List PKey) (n n' : Nat)
    (key : PKey) (h : keys[n]? = some key) (h' : keys'[n']? = some key) :
    (solveAll legOf [] keys).1[n]? = (solveAll legOf [] keys').1[n']? := by
  rw [solve_group_eq_alone_get legOf keys n key h, solve_group_eq_alone_get legOf keys' n' key h']

/-- **Keys stored by one `_solve` call, for an arbitrary dict.** The new dict is the old one
with new entries in front; a key is new iff it is a prefix of `key` of length ≥ 2 (one-leg
paths are never stored) such that no prefix of `key` extending it (itself and `key` included)
was already stored — the recursion stops at the first hit. -/
theorem solveC_cache_keys (legOf : Nat → Leg β) (cache : Cache β) (key : PKey) :
    ∃ added, (solveC legOf cache key).2 = added ++ cache ∧
      ∀ p, p ∈ keysOf added ↔
        (p <+: key ∧ 2 ≤ p.length ∧ ∀ q, p <+: q → q <+: key → q ∉ keysOf cache) := by
  obtain ⟨added, h1, h2⟩ := solveCR_keys legOf key.reverse cache
  refine ⟨added, h1, ?_⟩
  intro p
  rw [h2, mem_newKeysR, List.reverse_reverse]

/-- **Keys stored by one `_solve` call** when the dict is prefix-closed (always the case for a
dict produced by the solver from the empty one): the new keys are exactly the prefixes of `key`
of length ≥ 2 that were not stored before; and the new dict is prefix-closed again. -/
theorem solveC_cache_keys_closed (legOf : Nat → Leg β) (cache : Cache β) (key : PKey)
    (hcl : PrefixClosed (keysOf cache)) :
    (∃ added, (solveC legOf cache key).2 = added ++ cache ∧
      ∀ p, p ∈ keysOf added ↔ (p <+: key ∧ 2 ≤ p.length ∧ p ∉ keysOf cache)) ∧
    PrefixClosed (keysOf (solveC legOf cache key).2) := by
  obtain ⟨added, h1, h2⟩ := solveC_cache_keys legOf cache key
  have h3 : ∀ p, p ∈ keysOf added ↔ (p <+: key ∧ 2 ≤ p.length ∧ p ∉ keysOf cache) := by
    intro p
    rw [h2]
    constructor
    · rintro ⟨a, b, c⟩; exact ⟨a, b, c p (List.prefix_refl _) a⟩
    · rintro ⟨a, b, c⟩
      exact ⟨a, b, fun q hq1 _ hq => c (hcl q hq p hq1 b)⟩
  refine ⟨⟨added, h1, h3⟩, ?_⟩
  rw [h1]
  intro q hq p hpq hp
  simp only [keysOf, List.map_append, List.mem_append] at hq ⊢
  by_cases hpc : p ∈ keysOf cache
  · exact Or.inr hpc
  · rcases hq with hq | hq
    · exact Or.inl ((h3 p).mpr ⟨hpq.trans ((h3 q).mp hq).1, hp, hpc⟩)
    · exact absurd (hcl q hq p hpq hp) hpc

/-- keys of the dict after `FermatSolver.solve`, from a prefix-closed dict -/
theorem solveAll_cache_keys (legOf : Nat → Leg β) (cache : Cache β) (keys : List PKey)
    (hcl : PrefixClosed (keysOf cache)) :
    (∀ p, p ∈ keysOf (solveAll legOf cache keys).2 ↔
      (p ∈ keysOf cache ∨ ∃ k, k ∈ keys ∧ p <+: k ∧ 2 ≤ p.length)) ∧
    PrefixClosed (keysOf (solveAll legOf cache keys).2) := by
  induction keys generalizing cache with
  | nil => exact ⟨fun p => by simp [solveAll], hcl⟩
  | cons k ks ih =>
    obtain ⟨⟨added, h1, h2⟩, h3⟩ := solveC_cache_keys_closed legOf cache k hcl
    obtain ⟨h4, h5⟩ := ih _ h3
    simp only [solveAll]
    refine ⟨?_, h5⟩
    intro p
    rw [h4, h1]
    simp only [keysOf, List.map_append, List.mem_append, List.mem_cons] at h2 ⊢
    constructor
    · rintro ((h | h) | ⟨k', hk', hp⟩)
      · exact Or.inr ⟨k, Or.inl rfl, ((h2 p).mp h).1, ((h2 p).mp h).2.1⟩
      · exact Or.inl h
      · exact Or.inr ⟨k', Or.inr hk', hp⟩
    · rintro (h | ⟨k', hk' | hk', hp⟩)
      · exact Or.inl (Or.inr h)
      · subst hk'
        by_cases hpc : p ∈ List.map (fun x => x.1) cache
        · exact Or.inl (Or.inr hpc)
        · exact Or.inl (Or.inl ((h2 p).mpr ⟨hp.1, hp.2, hpc⟩))
      · exact Or.inr ⟨k', hk', hp⟩

/-- **`cached_result.keys()` after solving `keys` from scratch**: exactly the prefixes of
length ≥ 2 of the solved paths. -/
theorem solve_group_cache_keys (legOf : Nat → Leg β) (keys : List PKey) (p : PKey) :
    p ∈ keysOf (solveAll legOf [] keys).2 ↔ ∃ k, k ∈ keys ∧ p <+: k ∧ 2 ≤ p.length := by
  have h := (solveAll_cache_keys legOf [] keys (by intro q hq; cases hq)).1 p
  simpa [keysOf] using h

/-- the association list stays a dict: no key is stored twice -/
theorem solveC_cache_nodup (legOf : Nat → Leg β) (cache : Cache β) (key : PKey)
    (hn : (keysOf cache).Nodup) : (keysOf (solveC legOf cache key).2).Nodup :=
  solveCR_nodup legOf key.reverse cache hn
end CacheT

/-! ## Reversal (`Rays.reverse`): transposed times, reversed interior indices -/
section Reverse
variable {γ : Type} [LinearOrder γ] [AddCommSemigroup γ] [AddRightMono γ]

/-- core of the reversal theorems, on the `solveR` form -/
theorem reverse_core (t0 : Nat → Nat → γ) (rest : List (Nat → Nat → γ)) (ms : List Nat)
    (h : rest.length = ms.length) (hpos : ∀ m, m ∈ ms → 0 < m) (i j : Nat) :
    ∃ v ks ks', solveR t0 (legsP rest ms).reverse i j = some (v, ks) ∧
      solveR (bfirst t0 rest) (blegs t0 rest ms) j i = some (v, ks') ∧
      validR (blegs t0 rest ms) ks ∧
      costR (bfirst t0 rest) (blegs t0 rest ms) j ks i = some v ∧
      (∀ q v', validR (blegs t0 rest ms) q →
        costR (bfirst t0 rest) (blegs t0 rest ms) j q i = some v' → v ≤ v') := by
  obtain ⟨v, kF, hsF, hvF, hcF, hmF⟩ :=
    solve_optimal t0 (legsP rest ms).reverse (allPos_legsP rest ms h hpos) i j
  obtain ⟨w, kB, hsB, hvB, hcB, hmB⟩ :=
    solve_optimal (bfirst t0 rest) (blegs t0 rest ms) (allPos_blegs t0 rest ms h hpos) j i
  have hlenF : kF.reverse.length = ms.length := by
    have := validR_length _ _ hvF
    have h2 := congrArg List.length (sizes_legsP rest ms h)
    simp at this h2 ⊢; omega
  have hlenB : kB.length = ms.length := by
    have := validR_length _ _ hvB
    have h2 := congrArg List.length (sizes_blegs t0 rest ms h)
    simp at this h2 ⊢; omega
  have hrev := fun ks hk => costR_rev add_assoc add_comm t0 rest ms i j ks h hk
  -- the forward optimum, read backwards, is a valid tuple of the reversed path
  have hvF' : validR (blegs t0 rest ms) kF.reverse := by
    rw [validR_rev t0 rest ms _ h, List.reverse_reverse]; exact hvF
  have hcF' : costR (bfirst t0 rest) (blegs t0 rest ms) j kF.reverse i = some v := by
    rw [hrev _ hlenF, List.reverse_reverse]; exact hcF
  have hvB' : validR (legsP rest ms).reverse kB.reverse := (validR_rev t0 rest ms _ h).mp hvB
  have hcB' : costR t0 (legsP rest ms).reverse i kB.reverse j = some w := by
    rw [← hrev _ hlenB]; exact hcB
  have hvw : v = w := le_antisymm (hmF _ _ hvB' hcB') (hmB _ _ hvF' hcF')
  refine ⟨v, kF.reverse, kB.reverse, hsF, by rw [hvw]; exact hsB, hvF', hcF', ?_⟩
  intro q v' hq hc
  rw [hvw]; exact hmB q v' hq hc


/-- **`Rays.reverse` preserves the cost of every ray**, optimal or not: the cost of the reversed
tuple along the reversed path (transposed tables, opposite order) is the cost of the tuple
along the path. Needs only commutativity and associativity of `+` (float `+` is not associative, so for floats this
holds only up to rounding once there are three or more legs). -/
theorem costP_reverse {δ : Type} [AddCommSemigroup δ] (ts : List (Nat → Nat → δ)) (ms : List Nat)
    (hlen : ts.length = ms.length + 1) (i j : Nat) (ks : List Nat) (hk : ks.length = ms.length) :
    costP (revPath ts ms).1 (revPath ts ms).2 j ks.reverse i = costP ts ms i ks j := by
  cases ts with
  | nil => simp at hlen
  | cons t0 rest =>
    have h : rest.length = ms.length := by simpa using hlen
    simp only [costP, toR?_revPath t0 rest ms h, List.reverse_reverse]
    simp only [toR?]
    exact costR_rev add_assoc add_comm t0 rest ms i j ks h hk

/-- **Reversal gives the transposed times.** In a linearly ordered commutative additive
semigroup with monotone `· + c` (in particular every `[AddCommMonoid α] [LinearOrder α]
[IsOrderedAddMonoid α]`: ℕ, ℤ, ℚ, ℝ), for a path with non-empty interior interfaces the best
time from `i` to `j` equals the best time of the reversed path from `j` to `i`. -/
theorem solve_reverse (ts : List (Nat → Nat → γ)) (ms : List Nat)
    (hlen : ts.length = ms.length + 1) (hpos : ∀ m, m ∈ ms → 0 < m) (i j : Nat) :
    (solveP ts ms i j).map (·.1) =
      (solveP (revPath ts ms).1 (revPath ts ms).2 j i).map (·.1) := by
  cases ts with
  | nil => simp at hlen
  | cons t0 rest =>
    have h : rest.length = ms.length := by simpa using hlen
    obtain ⟨v, ks, ks', h1, h2, _⟩ := reverse_core t0 rest ms h hpos i j
    simp only [solveP, toR?_revPath t0 rest ms h, h2]
    simp only [toR?, h1, Option.map_some]

/-- **The reversed index tuple of an optimal ray is an optimal ray of the reversed path**: it is
valid for the reversed sizes, its cost along the reversed path is the reported time `v`, and no
valid tuple of the reversed path is faster. (The solver run on the reversed path may return a
different tuple when minimisers are not unique; its time is the same by `solve_reverse`.) -/
theorem solve_reverse_indices (ts : List (Nat → Nat → γ)) (ms : List Nat)
    (hlen : ts.length = ms.length + 1) (hpos : ∀ m, m ∈ ms → 0 < m) (i j : Nat)
    (v : γ) (ks : List Nat) (hs : solveP ts ms i j = some (v, ks)) :
    validP ms.reverse ks.reverse ∧
    costP (revPath ts ms).1 (revPath ts ms).2 j ks.reverse i = some v ∧
    (∀ q v', validP ms.reverse q →
      costP (revPath ts ms).1 (revPath ts ms).2 j q i = some v' → v ≤ v') := by
  cases ts with
  | nil => simp at hlen
  | cons t0 rest =>
    have h : rest.length = ms.length := by simpa using hlen
    obtain ⟨v0, ks0, ks', h1, _, h3, h4, h5⟩ := reverse_core t0 rest ms h hpos i j
    simp only [solveP, toR?, h1, Option.some.injEq, Prod.mk.injEq] at hs
    obtain ⟨hv, hk⟩ := hs
    subst hv hk
    have hval : ∀ q, validP ms.reverse q ↔ validR (blegs t0 rest ms) q.reverse := by
      intro q
      rw [validR_iff, sizes_blegs t0 rest ms h, validP, ← List.forall₂_reverse_iff,
        List.reverse_reverse]
    refine ⟨(hval _).mpr (by rw [List.reverse_reverse]; exact h3), ?_, ?_⟩
    · simp only [costP, toR?_revPath t0 rest ms h, List.reverse_reverse]; exact h4
    · intro q v' hq hc
      simp only [costP, toR?_revPath t0 rest ms h] at hc
      exact h5 _ v' ((hval q).mp hq) hc

end Reverse

/-! ## Non-vacuity on small ℕ-valued instances -/
section Examples

/-- table from a list of rows -/
def exTab (rows : List (List Nat)) : Nat → Nat → Nat := fun a b => (rows.getD a []).getD b 0

/-- a three-leg path: 2 × 2, 2 × 3, 3 × 2 tables, interior interfaces of 2 and 3 points -/
def exTs : List (Nat → Nat → Nat) :=
  [exTab [[5, 1], [2, 2]], exTab [[4, 9, 1], [1, 6, 3]], exTab [[3, 8], [2, 2], [7, 1]]]
def exMs : List Nat := [2, 3]

/-- leg identifiers 0, 1, 2 are the legs of `exTs`; 3 is an alternative last leg -/
def exLeg : Nat → Leg Nat
  | 0 => { m := 0, t := exTab [[5, 1], [2, 2]] }
  | 1 => { m := 2, t := exTab [[4, 9, 1], [1, 6, 3]] }
  | 2 => { m := 3, t := exTab [[3, 8], [2, 2], [7, 1]] }
  | _ => { m := 3, t := exTab [[1, 1], [9, 0], [2, 5]] }

/-- forward: best ray from 0 to 1 goes through interior points 1 then 2, time 5 -/
example : solveP exTs exMs 0 1 = some (5, [1, 2]) := by decide
/-- reversed path from 1 to 0: same time, reversed interior indices -/
example : solveP (revPath exTs exMs).1 (revPath exTs exMs).2 1 0 = some (5, [2, 1]) := by decide
example : costP (revPath exTs exMs).1 (revPath exTs exMs).2 1 [2, 1] 0 = some 5 := by decide
example : solveP exTs exMs 1 0 = some (6, [1, 0]) ∧
    solveP (revPath exTs exMs).1 (revPath exTs exMs).2 0 1 = some (6, [0, 1]) := by decide

/-- the hypotheses of the reversal theorems are satisfiable (ℕ is an instance) -/
example (i j : Nat) : (solveP exTs exMs i j).map (·.1) =
    (solveP (revPath exTs exMs).1 (revPath exTs exMs).2 j i).map (·.1) :=
  solve_reverse exTs exMs (by decide) (by decide) i j

/-- solving `[0,1,2]` from the empty dict stores `[0,1]` then `[0,1,2]`, not `[0]` -/
example : keysOf (solveC exLeg [] [0, 1, 2]).2 = [[0, 1, 2], [0, 1]] := by decide
/-- three paths sharing the head `[0,1]`: it is stored once -/
example : keysOf (solveAll exLeg [] [[0, 1, 2], [0, 1], [0, 1, 3]]).2 =
    [[0, 1, 3], [0, 1, 2], [0, 1]] := by decide
example : (solveAll exLeg [] [[0, 1, 2], [0, 1], [0, 1, 3]]).1.map (fun t => t 0 1) =
    [some (5, [1, 2]), some (7, [1]), some (3, [1, 0])] := by decide
example : [[0, 1, 2], [0, 1], [0, 1, 3]].map (fun k => solvePure exLeg k 0 1) =
    [some (5, [1, 2]), some (7, [1]), some (3, [1, 0])] := by decide
/-- a second solve of a cached key is a pure hit: nothing is added -/
example : keysOf (solveC exLeg (solveC exLeg [] [0, 1, 2]).2 [0, 1, 2]).2 =
    [[0, 1, 2], [0, 1]] := by decide

example : fullIndices 4 7 [1, 2] = [4, 1, 2, 7] := by decide
/-- `expand_layout` on the instance: the head `[1]` of the ray `[1, 2]` is the ray of the
    two-leg head path to the chosen point 2 -/
example : solveR (exLeg 0).t [exLeg 1] 0 2 = some (4, [1]) := by decide

end Examples


/-! ## The kernel as translated from the source on this run

`Src.find_minimum_times_cell` (file `Generated/SrcC01.lean`) is the translation, for one output cell `(i, j)`, of
`arim.ray._find_minimum_times` made from `/repo/src` on every run; `Tie.C01.tie_find_minimum_times` identifies it
with `minPlus`/`scanMin`. -/
section OnSource
open Arim.Tie.C01
variable [Sub α] [Mul α] [Div α] [Neg α]

/-- **the translated min-plus kernel returns the minimum and a point that realises it**: entered with `(inf, -1)`,
`inf` above every candidate (as the call site does), the cell `(i, j)` ends with the least `t1[i,k] + t2[k,j]` and the
first index `k` at which it is attained. -/
theorem src_find_minimum_times_spec (o : Src.Ops α) (t1 t2 : Nat → Nat → α) (inf : α) (m i j : Nat) (hm : 0 < m)
    (hinf : ∀ k, k < m → t1 i k + t2 k j < inf) :
    ∃ (v : α) (k : Nat), Src.find_minimum_times_cell o t1 t2 inf (-1) m i j = (v, (k : Int)) ∧ k < m ∧ v = t1 i k + t2 k j ∧
      (∀ k', k' < m → v ≤ t1 i k' + t2 k' j) ∧ (∀ k', k' < k → v < t1 i k' + t2 k' j) := by
  obtain ⟨v, k, hs, hcell⟩ := tie_find_minimum_times_inf o t1 t2 inf m i j hm hinf
  obtain ⟨v', k', hs', hk, hv, hle, hfirst⟩ := scanMin_spec (fun k => t1 i k + t2 k j) m hm
  have : some (v, k) = some (v', k') := by rw [← hs, ← hs']; rfl
  obtain ⟨rfl, rfl⟩ := Prod.mk.inj (Option.some.inj this)
  exact ⟨v, k, hcell, hk, hv, hle, hfirst⟩

/-- with no candidate (`m = 0`) the cell keeps its entry values -/
theorem src_find_minimum_times_empty (o : Src.Ops α) (t1 t2 : Nat → Nat → α) (t0 : α) (i0 : Int) (i j : Nat) :
    Src.find_minimum_times_cell o t1 t2 t0 i0 0 i j = (t0, i0) := by
  rw [tie_find_minimum_times]; rfl

/-- **the points reported for a ray are those of the winning sub-ray followed by the winning point** (translated
`_expand_rays`, one ray): if every column of `interior` already lists, for the ray from `i` to the point `k` of the last
interior interface, valid point numbers of the interfaces before it (`0 ≤ · < size`), and `new[i, j]` is a valid point number
of that interface, then the expanded column lists valid point numbers of all interior interfaces, the last one being the
point at which `find_minimum_times` found the minimum -/
theorem src_expand_rays_valid (o : Src.Ops α) (interior : Nat → Nat → Nat → Int) (new : Nat → Nat → Int) (sizes : Nat → Nat)
    (d i j : Nat) (hnew : 0 ≤ new i j ∧ new i j < sizes d)
    (hint : ∀ k, k < d → 0 ≤ interior k i (new i j).toNat ∧ interior k i (new i j).toNat < sizes k) :
    (Src.expand_rays_cell o interior new d i j).length = d + 1 ∧
    ∀ k (hk : k < (Src.expand_rays_cell o interior new d i j).length),
      0 ≤ (Src.expand_rays_cell o interior new d i j)[k] ∧ (Src.expand_rays_cell o interior new d i j)[k] < sizes k := by
  have hlen := (tie_expand_rays_shape o interior new d i j).1
  refine ⟨hlen, fun k hk => ?_⟩
  have hk' : k < d + 1 := hlen ▸ hk
  simp only [tie_expand_rays]
  by_cases hkd : k < d
  · rw [List.getElem_append_left (by simpa using hkd)]
    simpa using hint k hkd
  · have : k = d := by omega
    subst this
    rw [List.getElem_append_right (by simp)]
    simpa using hnew

end OnSource

end Arim.C01
