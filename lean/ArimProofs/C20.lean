import ArimModel.Config
import ArimProofs.Lemmas.Config
/-! # C20 — configuration merging and file loading are deterministic and lossless -/
namespace Arim.C20
open Arim.Config

/-- BRAIN's 1-based indices are converted to 0-based ones, one for one -/
theorem brain_index (k : Nat) : brainIndex (k + 1) = some k := by
  simp [brainIndex]

/-- merging in enumeration order is *not* order independent: two fragments that set the same
key give different results in the two enumeration orders (the defect of an unsorted glob). -/
theorem load_listing_order_counter :
    loadConfListingOrder (.node []) [("10_a", .node [("a", .leaf "1")]), ("05_z", .node [("a", .leaf "2")])]
      ≠ loadConfListingOrder (.node []) [("05_z", .node [("a", .leaf "2")]), ("10_a", .node [("a", .leaf "1")])] := by
  have h1 : loadConfListingOrder (.node []) [("10_a", .node [("a", .leaf "1")]), ("05_z", .node [("a", .leaf "2")])]
      = .node [("a", .leaf "2")] := by
    simp [loadConfListingOrder, merge, combine, mergeKVs, upsert]
  have h2 : loadConfListingOrder (.node []) [("05_z", .node [("a", .leaf "2")]), ("10_a", .node [("a", .leaf "1")])]
      = .node [("a", .leaf "1")] := by
    simp [loadConfListingOrder, merge, combine, mergeKVs, upsert]
  rw [h1, h2]
  simp

/-! ## Loading is independent of the enumeration order of the file system -/

/-- `load_conf` gives the same configuration whatever the order in which the file system lists
the fragments, provided file names are distinct (they are: one directory). -/
theorem load_order_independent (base : Cfg) (l₁ l₂ : List (String × Cfg)) (hp : l₁.Perm l₂)
    (hnd : (l₁.map (·.1)).Nodup) : loadConf base l₁ = loadConf base l₂ := by
  unfold loadConf
  rw [sortByName_eq_of_perm hp hnd]

/-- the sorted listing is a permutation of the listing, ordered by file name: no fragment is
dropped or duplicated by `load_conf` -/
theorem sort_is_sorted_perm (l : List (String × Cfg)) :
    (sortByName l).Perm l ∧ (sortByName l).Pairwise (fun a b => a.1 ≤ b.1) :=
  ⟨sortByName_perm l, sortByName_sorted l⟩

/-! ## Key-by-key laws of `recursive_dict_merge` -/

/-- a key set by `top` ends up holding `top`'s value, recursively combined with the old value
if there was one (the keys of `top` are distinct; nothing is assumed about `b`) -/
theorem merge_later_wins (b t : KVs) (ht : (t.map (·.1)).Nodup) (k : String) (v : Cfg)
    (h : get? (.node t) k = some v) :
    get? (merge (.node b) (.node t)) k
      = some (match get? (.node b) k with | some old => combine old v | none => v) := by
  simp only [merge, combine_node_node, get?_node] at h ⊢
  exact lookup_mergeKVs_of_some ht h b

/-- a scalar set by `top` replaces whatever `base` had under that key -/
theorem merge_leaf_wins (b t : KVs) (ht : (t.map (·.1)).Nodup) (k s : String)
    (h : get? (.node t) k = some (.leaf s)) :
    get? (merge (.node b) (.node t)) k = some (.leaf s) := by
  rw [merge_later_wins b t ht k _ h]
  cases get? (.node b) k <;> simp

/-- keys not mentioned by `top` keep their value (no hypothesis on key distinctness) -/
theorem merge_keeps_untouched (b t : KVs) (k : String) (h : get? (.node t) k = none) :
    get? (merge (.node b) (.node t)) k = get? (.node b) k := by
  simp only [merge, combine_node_node, get?_node] at h ⊢
  exact lookup_mergeKVs_of_none h b

/-- mappings present on both sides are merged, not replaced -/
theorem merge_nested (b t : KVs) (ht : (t.map (·.1)).Nodup) (k : String) (bb tt : KVs)
    (hb : get? (.node b) k = some (.node bb)) (h : get? (.node t) k = some (.node tt)) :
    get? (merge (.node b) (.node t)) k = some (.node (mergeKVs bb tt)) := by
  rw [merge_later_wins b t ht k _ h, hb]
  simp

/-- the merged mapping has exactly the keys of both sides (no hypothesis on distinctness) -/
theorem merge_keys (b t : KVs) (k : String) :
    k ∈ keys (merge (.node b) (.node t)) ↔ k ∈ keys (.node b) ∨ k ∈ keys (.node t) := by
  simp only [merge, combine_node_node, keys_node]
  exact mem_keys_mergeKVs b t k

/-- the keys of `base` keep their positions and the new keys of `top` are appended in order:
merging never reorders `base` -/
theorem merge_keys_prefix (b t : KVs) :
    ∃ extra, keys (merge (.node b) (.node t)) = keys (.node b) ++ extra := by
  simp only [merge, combine_node_node, keys_node]
  induction t generalizing b with
  | nil => exact ⟨[], by simp [mergeKVs_nil]⟩
  | cons p rest ih =>
    obtain ⟨k, v⟩ := p
    rw [mergeKVs_cons]
    obtain ⟨e, he⟩ := ih (upsert k (fun old => combine old v) v b)
    rw [he, keys_upsert]
    split
    · exact ⟨e, rfl⟩
    · exact ⟨k :: e, by simp⟩

/-! ## Well-formedness and idempotence -/

/-- merging two well-formed trees (distinct keys at every level) gives a well-formed tree -/
theorem merge_wf (b t : Cfg) (hb : WF b) (ht : WF t) : WF (merge b t) :=
  combine_mergeKVs_wf.1 t ht b hb

/-- applying the same well-formed fragment twice is the same as applying it once; `b` is
arbitrary (it need not be well formed, nor a mapping) -/
theorem merge_idempotent (b t : Cfg) (ht : WF t) : merge (merge b t) t = merge b t :=
  combine_idem_aux.1 t ht b

/-- a well-formed tree merged into itself is unchanged -/
theorem merge_self (t : Cfg) (ht : WF t) : merge t t = t := by
  have := merge_idempotent (.leaf "") t ht
  simpa [merge] using this

/-- `load_conf` of well-formed fragments over a well-formed base is well formed -/
theorem load_wf (base : Cfg) (l : List (String × Cfg)) (hb : WF base)
    (hl : ∀ f ∈ l, WF f.2) : WF (loadConf base l) := by
  unfold loadConf
  have hl' : ∀ f ∈ sortByName l, WF f.2 := fun f hf => hl f ((sortByName_perm l).subset hf)
  generalize sortByName l = s at hl'
  induction s generalizing base with
  | nil => exact hb
  | cons f fs ih =>
    simp only [List.foldl_cons]
    exact ih _ (merge_wf _ _ hb (hl' f List.mem_cons_self))
      (fun g hg => hl' g (List.mem_cons_of_mem _ hg))

/-! ## The alphabetically last fragment is merged last -/

theorem insertByName_last (x : String × Cfg) (l : List (String × Cfg)) (h : ∀ y ∈ l, ¬ x.1 ≤ y.1) :
    insertByName x l = l ++ [x] := by
  induction l with
  | nil => rfl
  | cons y ys ih =>
    simp only [insertByName, h y List.mem_cons_self, if_false, List.cons_append]
    rw [ih (fun z hz => h z (List.mem_cons_of_mem _ hz))]

/-- **later fragments win**: a fragment whose name comes strictly after every other name is merged after all the others,
wherever the file system lists it — `load_conf` of the whole directory is `load_conf` of the other fragments, updated by it -/
theorem load_last_fragment (base : Cfg) (x : String × Cfg) (l : List (String × Cfg))
    (h : ∀ y ∈ l, ¬ x.1 ≤ y.1) : loadConf base (x :: l) = merge (loadConf base l) x.2 := by
  unfold loadConf
  have hs : sortByName (x :: l) = sortByName l ++ [x] := by
    show insertByName x (sortByName l) = _
    exact insertByName_last x _ (fun y hy => h y ((sortByName_perm l).subset hy))
  rw [hs, List.foldl_append]; rfl

/-- the same, for any position of that fragment in the listing (distinct file names) -/
theorem load_last_fragment_anywhere (base : Cfg) (x : String × Cfg) (l listing : List (String × Cfg))
    (hp : listing.Perm (x :: l)) (hnd : (listing.map (·.1)).Nodup) (h : ∀ y ∈ l, ¬ x.1 ≤ y.1) :
    loadConf base listing = merge (loadConf base l) x.2 := by
  rw [load_order_independent base listing (x :: l) hp hnd, load_last_fragment base x l h]

/-- a configuration made of mappings stays a mapping -/
theorem load_is_node (b : KVs) (l : List (String × Cfg)) (hl : ∀ f ∈ l, ∃ t, f.2 = .node t) :
    ∃ b', loadConf (.node b) l = .node b' := by
  unfold loadConf
  have hl' : ∀ f ∈ sortByName l, ∃ t, f.2 = .node t := fun f hf => hl f ((sortByName_perm l).subset hf)
  generalize sortByName l = s at hl'
  induction s generalizing b with
  | nil => exact ⟨b, rfl⟩
  | cons f fs ih =>
    obtain ⟨t, ht⟩ := hl' f List.mem_cons_self
    simp only [List.foldl_cons, ht, merge, combine_node_node]
    exact ih _ (fun g hg => hl' g (List.mem_cons_of_mem _ hg))

/-- **key by key**: a scalar (a string, a number, `null`) set by the alphabetically last fragment is the value of that key in
the loaded configuration, whatever the base file and the earlier fragments hold under it (a mapping included) -/
theorem load_last_fragment_leaf_wins (b : KVs) (name : String) (t : KVs) (l : List (String × Cfg))
    (hl : ∀ f ∈ l, ∃ t', f.2 = .node t') (h : ∀ y ∈ l, ¬ name ≤ y.1) (ht : (t.map (·.1)).Nodup) (k s : String)
    (hk : get? (.node t) k = some (.leaf s)) :
    get? (loadConf (.node b) ((name, .node t) :: l)) k = some (.leaf s) := by
  rw [load_last_fragment (.node b) (name, .node t) l h]
  obtain ⟨b', hb'⟩ := load_is_node b l hl
  rw [hb']
  exact merge_leaf_wins b' t ht k s hk

/-- keys the last fragment does not mention keep the value the earlier files gave them -/
theorem load_last_fragment_keeps_untouched (b : KVs) (name : String) (t : KVs) (l : List (String × Cfg))
    (hl : ∀ f ∈ l, ∃ t', f.2 = .node t') (h : ∀ y ∈ l, ¬ name ≤ y.1) (k : String) (hk : get? (.node t) k = none) :
    get? (loadConf (.node b) ((name, .node t) :: l)) k = get? (loadConf (.node b) l) k := by
  rw [load_last_fragment (.node b) (name, .node t) l h]
  obtain ⟨b', hb'⟩ := load_is_node b l hl
  rw [hb']
  exact merge_keeps_untouched b' t k hk

/-- no fragments: the base file alone -/
theorem load_no_fragment (base : Cfg) : loadConf base [] = base := rfl

/-- **the merge is not associative**: updating by `b` then by `c` differs from updating by (`b` updated by `c`) when a scalar
sits between two mappings — which is why `load_conf` must fold the fragments from the left, in order, as the model does -/
theorem merge_not_associative :
    ∃ a b c : Cfg, WF a ∧ WF b ∧ WF c ∧ merge (merge a b) c ≠ merge a (merge b c) := by
  refine ⟨.node [("k", .node [("x", .leaf "1")])], .node [("k", .leaf "s")], .node [("k", .node [("y", .leaf "2")])], ?_, ?_, ?_, ?_⟩
  · simp [wf_node_iff]
  · simp [wf_node_iff]
  · simp [wf_node_iff]
  · simp [merge, combine, mergeKVs, upsert]

/-! ## Non-vacuity: the hypotheses are satisfiable and the laws say something on real trees -/

/-- `null` in a later fragment over a mapping of the base file (the leaf `~` is YAML's null) -/
example :
    get? (loadConf (.node [("backwall", .node [("z", .leaf "0.03")])])
      [("30_no_backwall", .node [("backwall", .leaf "~")]), ("10_a", .node [("a", .leaf "1")])]) "backwall" = some (.leaf "~") :=
  load_last_fragment_leaf_wins _ _ _ _ (by simp) (by decide) (by simp) _ _ (by simp [get?, lookup])

example :
    merge (.node [("a", .leaf "1"), ("sub", .node [("x", .leaf "p"), ("y", .leaf "q")])])
          (.node [("sub", .node [("y", .leaf "r"), ("z", .leaf "s")]), ("b", .leaf "2")])
      = .node [("a", .leaf "1"),
               ("sub", .node [("x", .leaf "p"), ("y", .leaf "r"), ("z", .leaf "s")]),
               ("b", .leaf "2")] := by
  simp [merge, combine, mergeKVs, upsert]

example : WF (.node [("sub", .node [("y", .leaf "r"), ("z", .leaf "s")]), ("b", .leaf "2")]) := by
  simp [wf_node_iff]

/-- `WF` is needed for idempotence: a fragment holding a "mapping" with a repeated key (not a
Python dict) that replaces a scalar is not absorbed by a second application -/
example :
    let b : Cfg := .node [("k", .leaf "0")]
    let t : Cfg := .node [("k", .node [("j", .leaf "1"), ("j", .leaf "2")])]
    merge (merge b t) t ≠ merge b t := by
  simp [merge, combine, mergeKVs, upsert]

/-- two listings of the same two fragments load to the same configuration -/
example :
    loadConf (.node []) [("10_a", .node [("a", .leaf "1")]), ("05_z", .node [("a", .leaf "2")])]
      = loadConf (.node []) [("05_z", .node [("a", .leaf "2")]), ("10_a", .node [("a", .leaf "1")])] :=
  load_order_independent _ _ _ (List.Perm.swap _ _ _) (by simp)


/-- an empty fragment file (`{}`) changes nothing: merging the empty mapping into a configuration is the identity -/
theorem merge_empty_fragment (b : KVs) : merge (.node b) (.node []) = .node b := by
  simp [merge, combine, mergeKVs]

/-- hence any number of empty fragments, whatever their names, leave the base configuration as it is -/
theorem load_empty_fragments (b : KVs) (l : List (String × Cfg)) (hl : ∀ f ∈ l, f.2 = .node []) :
    loadConf (.node b) l = .node b := by
  unfold loadConf
  have hs : ∀ f ∈ sortByName l, f.2 = .node [] := by
    intro f hf
    exact hl f ((sort_is_sorted_perm l).1.mem_iff.mp hf)
  generalize sortByName l = sl at hs
  induction sl with
  | nil => rfl
  | cons x xs ih =>
    simp only [List.foldl_cons]
    rw [hs x (List.mem_cons_self), merge_empty_fragment]
    exact ih (fun f hf => hs f (List.mem_cons_of_mem _ hf))

end Arim.C20
