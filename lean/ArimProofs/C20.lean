import ArimModel.Config
/-! # C20 — configuration merging and file loading are deterministic and lossless -/
namespace Arim.C20
open Arim.Config

/-- BRAIN's 1-based indices are converted to 0-based ones, one for one -/
theorem brain_index (k : Nat) : brainIndex (k + 1) = some k := by
  simp [brainIndex]

/-- merging in enumeration order is *not* order independent: two fragments that set the same
key give different results in the two enumeration orders (the defect of an unsorted glob). -/
theorem load_listing_order_counter :
    loadConfListingOrder (.node []) [("10_a", .node [("a", .leaf "1")]), ("05_z", .node [("a", .leaf "2")])]
      ≠ loadConfListingOrder (.node []) [("05_z", .node [("a", .leaf "2")]), ("10_a", .node [("a", .leaf "1")])] := by
  have h1 : loadConfListingOrder (.node []) [("10_a", .node [("a", .leaf "1")]), ("05_z", .node [("a", .leaf "2")])]
      = .node [("a", .leaf "2")] := by
    simp [loadConfListingOrder, merge, combine, mergeKVs, upsert]
  have h2 : loadConfListingOrder (.node []) [("05_z", .node [("a", .leaf "2")]), ("10_a", .node [("a", .leaf "1")])]
      = .node [("a", .leaf "1")] := by
    simp [loadConfListingOrder, merge, combine, mergeKVs, upsert]
  rw [h1, h2]
  simp

end Arim.C20
