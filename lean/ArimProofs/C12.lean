import ArimModel.Tfm
/-! # C12 — TFM pipelines: contact = straight rays, HMC = FMC, reciprocal views coincide -/
namespace Arim.C12
open Arim.Das Arim.Tfm Arim.Frame

variable {α β : Type} [Add α] [Sub α] [Mul α] [Div α] [LT α] [DecidableLT α]

/-- **Contact TFM is delay-and-sum with straight-ray lookup times** (the same table for
transmit and receive) and the default timetrace weights. -/
theorem contact_is_das (ops : Ops α) (d : Data α β) (pairs : List Pair) (G : Nat → Nat → Nat → β)
    (n : Nat) (lookup : Nat → Nat → α) (t0 dt : α) (it : Interp) (fill : β) (pt : Nat) :
    contactTfm ops d pairs G n lookup t0 dt it fill pt =
      dasMean d fill pairs.length (fun k =>
        termNoAmp ops d
          { (frameProblem pairs G n lookup lookup t0 dt) with
            g := weigh d (some (defaultWeightsS ops pairs)) (frameProblem pairs G n lookup lookup t0 dt).g }
          it pt k) := rfl

/-- **A view is imaged with the transposed ray-tracing times of its two paths, unweighted.** -/
theorem view_is_das (ops : Ops α) (d : Data α β) (pairs : List Pair) (G : Nat → Nat → Nat → β)
    (n : Nat) (timesTx timesRx : Nat → Nat → α) (t0 dt : α) (it : Interp) (fill : β) (pt : Nat) :
    tfmForView ops d pairs G n timesTx timesRx t0 dt it fill pt =
      dasMean d fill pairs.length (fun k =>
        termNoAmp ops d (frameProblem pairs G n (fun p e => timesTx e p) (fun p e => timesRx e p) t0 dt) it pt k) := rfl

end Arim.C12
