import ArimModel.Tfm
import ArimProofs.Tie.C02
import ArimProofs.Tie.C01
import ArimProofs.Lemmas.Tfm
import Mathlib.Data.Rat.Floor
import Mathlib.Tactic.NormNum
/-! # C12 — TFM pipelines: contact = straight rays, HMC = FMC, reciprocal views coincide -/
namespace Arim.C12
open Arim.Das Arim.Tfm Arim.Frame

variable {α β : Type} [Add α] [Sub α] [Mul α] [Div α] [LT α] [DecidableLT α]

/-- **Contact TFM is delay-and-sum with straight-ray lookup times** (the same table for
transmit and receive) and the default timetrace weights. -/
theorem contact_is_das (ops : Ops α) (d : Data α β) (pairs : List Pair) (G : Nat → Nat → Nat → β)
    (n : Nat) (lookup : Nat → Nat → α) (t0 dt : α) (it : Interp) (fill : β) (pt : Nat) :
    contactTfm ops d pairs G n lookup t0 dt it fill pt =
      dasMean d fill pairs.length (fun k =>
        termNoAmp ops d
          { (frameProblem pairs G n lookup lookup t0 dt) with
            g := weigh d (some (defaultWeightsS ops pairs)) (frameProblem pairs G n lookup lookup t0 dt).g }
          it pt k) := rfl

/-- **A view is imaged with the transposed ray-tracing times of its two paths, unweighted.** -/
theorem view_is_das (ops : Ops α) (d : Data α β) (pairs : List Pair) (G : Nat → Nat → Nat → β)
    (n : Nat) (timesTx timesRx : Nat → Nat → α) (t0 dt : α) (it : Interp) (fill : β) (pt : Nat) :
    tfmForView ops d pairs G n timesTx timesRx t0 dt it fill pt =
      dasMean d fill pairs.length (fun k =>
        termNoAmp ops d (frameProblem pairs G n (fun p e => timesTx e p) (fun p e => timesRx e p) t0 dt) it pt k) := rfl

/-! ## The pipelines on the kernels as translated from the source on this run

`contact_tfm` and `tfm_for_view` hand the weighted timetraces and the lookup tables to the delay-and-sum kernels; with
the kernels translated from `/repo/src/arim/im/das.py` on this run (`Tie/C02.lean`) and the straight-ray table built from
the translated `_distance_pairwise` (`Tie/C01.lean`), the image value at a point is the model's `contactTfm` /
`tfmForView`, the constants the identities below are about. -/
section OnSource
open Arim.Tie.C02
variable [Neg α]

/-- contact TFM, nearest interpolation: translated kernel on the default-weighted timetraces and one lookup table -/
theorem src_contact_tfm_nearest (ops : Ops α) (d : Data α β) (pairs : List Pair) (G : Nat → Nat → Nat → β)
    (n : Nat) (lookup : Nat → Nat → α) (t0 dt : α) (fill : β) (pt : Nat) :
    Src.das_noamp_nearest (srcOps ops) d
        (weigh d (some (defaultWeightsS ops pairs)) (fun k => G (pairs.getD k (0, 0)).1 (pairs.getD k (0, 0)).2))
        (fun k => (pairs.getD k (0, 0)).1) (fun k => (pairs.getD k (0, 0)).2) lookup lookup
        (ops.ofInt 1 / dt) t0 fill pairs.length n pt
      = contactTfm ops d pairs G n lookup t0 dt .nearest fill pt := by
  rw [tie_noamp_nearest]; rfl

/-- contact TFM, linear interpolation -/
theorem src_contact_tfm_linear (ops : Ops α) (d : Data α β) (pairs : List Pair) (G : Nat → Nat → Nat → β)
    (n : Nat) (lookup : Nat → Nat → α) (t0 dt : α) (fill : β) (pt : Nat) :
    Src.das_noamp_linear (srcOps ops) d
        (weigh d (some (defaultWeightsS ops pairs)) (fun k => G (pairs.getD k (0, 0)).1 (pairs.getD k (0, 0)).2))
        (fun k => (pairs.getD k (0, 0)).1) (fun k => (pairs.getD k (0, 0)).2) lookup lookup
        (ops.ofInt 1 / dt) t0 fill pairs.length n pt
      = contactTfm ops d pairs G n lookup t0 dt .linear fill pt := by
  rw [tie_noamp_linear]; rfl

/-- a view, nearest interpolation: translated kernel on the unweighted timetraces and the transposed ray times -/
theorem src_tfm_for_view_nearest (ops : Ops α) (d : Data α β) (pairs : List Pair) (G : Nat → Nat → Nat → β)
    (n : Nat) (timesTx timesRx : Nat → Nat → α) (t0 dt : α) (fill : β) (pt : Nat) :
    Src.das_noamp_nearest (srcOps ops) d (fun k => G (pairs.getD k (0, 0)).1 (pairs.getD k (0, 0)).2)
        (fun k => (pairs.getD k (0, 0)).1) (fun k => (pairs.getD k (0, 0)).2)
        (fun p e => timesTx e p) (fun p e => timesRx e p) (ops.ofInt 1 / dt) t0 fill pairs.length n pt
      = tfmForView ops d pairs G n timesTx timesRx t0 dt .nearest fill pt := by
  rw [tie_noamp_nearest]; rfl

/-- the straight-ray lookup table of `contact_tfm`: translated distance kernel divided by the velocity -/
theorem src_contact_lookup {γ : Type} [Add γ] [Sub γ] [Mul γ] [Div γ] [Neg γ] (o : Src.Ops γ)
    (grid probe : Array (P3 γ)) (v : γ) (dflt : P3 γ) (p e : Nat) :
    Src.distance_pairwise_cell o (fun i => (grid.getD i dflt).x) (fun i => (grid.getD i dflt).y) (fun i => (grid.getD i dflt).z)
        (fun j => (probe.getD j dflt).x) (fun j => (probe.getD j dflt).y) (fun j => (probe.getD j dflt).z) p e / v
      = contactLookup o.sqrt grid probe v dflt p e := by
  rw [Arim.Tie.C01.tie_distance_pairwise]; rfl

end OnSource

/-! ## Images over an ordered field

From here on the time scalar and the samples live in the same linearly ordered field `K`, the
sample operations are the field operations (`stdData`). The numerical primitives `ops` stay
arbitrary unless stated (`stdOps sinc` = floor / round-half-even of a `FloorRing`), and the
interpolation `it` is arbitrary (nearest, linear and Lanczos). -/
section Field
variable {K : Type} [Field K] [LinearOrder K]

omit [LinearOrder K] in
/-- **The mean aggregation is a finite sum**: the left fold of the kernel over the timetraces
is the `Finset` sum of the delayed samples (fill value where the lookup is out of window). -/
theorem dasMean_sum (fill : K) (N : Nat) (term : Nat → Option K) :
    dasMean stdData fill N term = (∑ k ∈ Finset.range N, (term k).getD fill) / (N : K) :=
  dasMean_eq_sum fill N term

/-! ### 1. The term of a timetrace depends only on its pair; contact terms are reciprocal -/

/-- the `k`-th delayed sample of a frame is a function (`pairTerm`) of the pair `(tx, rx)` of
the `k`-th timetrace only -/
theorem term_of_pair {β : Type} (ops : Ops K) (d : Data K β) (L : List Pair)
    (G : Nat → Nat → Nat → β) (ns : Nat) (ltTx ltRx : Nat → Nat → K) (t0 dt : K) (it : Interp)
    (pt k : Nat) :
    termNoAmp ops d (frameProblem L G ns ltTx ltRx t0 dt) it pt k =
      pairTerm ops d G ns ltTx ltRx t0 dt it pt (L.getD k (0, 0)) :=
  term_frameProblem ops d L G ns ltTx ltRx t0 dt it pt k

/-- **Reciprocity of the contact terms**: same lookup table for transmit and receive and
reciprocal data: two timetraces of (possibly different) frames whose pairs are mirror of each
other have the same delayed sample, at every grid point and for every interpolation. -/
theorem term_swap {β : Type} (ops : Ops K) (d : Data K β) (L L' : List Pair)
    (G : Nat → Nat → Nat → β) (hG : ∀ i j s, G i j s = G j i s) (ns : Nat)
    (lk : Nat → Nat → K) (t0 dt : K) (it : Interp) (pt k k' : Nat)
    (hkk : L.getD k (0, 0) = swap (L'.getD k' (0, 0))) :
    termNoAmp ops d (frameProblem L G ns lk lk t0 dt) it pt k =
      termNoAmp ops d (frameProblem L' G ns lk lk t0 dt) it pt k' := by
  rw [term_of_pair, term_of_pair, hkk, pairTerm_swap ops d G hG]

/-- the same on pairs: the term of `(i, j)` is the term of `(j, i)` -/
theorem pairTerm_comm {β : Type} (ops : Ops K) (d : Data K β)
    (G : Nat → Nat → Nat → β) (hG : ∀ i j s, G i j s = G j i s) (ns : Nat)
    (lk : Nat → Nat → K) (t0 dt : K) (it : Interp) (pt i j : Nat) :
    pairTerm ops d G ns lk lk t0 dt it pt (i, j) = pairTerm ops d G ns lk lk t0 dt it pt (j, i) :=
  pairTerm_swap ops d G hG ns lk lk t0 dt it pt (j, i)

/-! ### 3. Reciprocal views coincide -/

/-- **Reciprocal views coincide**: on a duplicate-free frame closed under `tx ↔ rx` with
reciprocal data, exchanging the transmit and receive ray-tracing tables (the view `AB` against
the view `BA`) gives the same image, for every interpolation and every fill value. -/
theorem reciprocal_views_coincide (ops : Ops K) (L : List Pair) (hnd : L.Nodup)
    (hcl : ∀ p ∈ L, swap p ∈ L) (G : Nat → Nat → Nat → K) (hG : ∀ i j s, G i j s = G j i s)
    (ns : Nat) (A B : Nat → Nat → K) (t0 dt : K) (it : Interp) (fill : K) (pt : Nat) :
    tfmForView ops stdData L G ns A B t0 dt it fill pt =
      tfmForView ops stdData L G ns B A t0 dt it fill pt := by
  unfold tfmForView
  rw [das_frame_eq_sum, das_frame_eq_sum]
  congr 1
  have h := ((map_swap_perm L hnd hcl).map (fun p =>
    (pairTerm ops stdData G ns (fun p e => A e p) (fun p e => B e p) t0 dt it pt p).getD fill)).sum_eq
  rw [← h, List.map_map]
  congr 1
  refine List.map_congr_left (fun p _ => ?_)
  simp only [Function.comp]
  rw [pairTerm_swap ops stdData G hG]

/-- the unweighted image depends on the data only through the recorded pairs -/
theorem das_frame_congr (ops : Ops K) (L : List Pair) (G G' : Nat → Nat → Nat → K)
    (h : ∀ p ∈ L, G p.1 p.2 = G' p.1 p.2) (ns : Nat)
    (ltTx ltRx : Nat → Nat → K) (t0 dt : K) (it : Interp) (fill : K) (pt : Nat) :
    dasNoAmp ops stdData (frameProblem L G ns ltTx ltRx t0 dt) it fill pt =
      dasNoAmp ops stdData (frameProblem L G' ns ltTx ltRx t0 dt) it fill pt := by
  rw [das_frame_eq_sum, das_frame_eq_sum]
  congr 2
  refine List.map_congr_left (fun p hp => ?_)
  simp only [pairTerm, h p hp]

/-- the contact image depends on the data only through the recorded pairs -/
theorem contact_congr (ops : Ops K) (L : List Pair) (G G' : Nat → Nat → Nat → K)
    (h : ∀ p ∈ L, G p.1 p.2 = G' p.1 p.2) (ns : Nat)
    (lk : Nat → Nat → K) (t0 dt : K) (it : Interp) (fill : K) (pt : Nat) :
    contactTfm ops stdData L G ns lk t0 dt it fill pt =
      contactTfm ops stdData L G' ns lk t0 dt it fill pt := by
  rw [contact_eq_sum_fill, contact_eq_sum_fill]
  congr 2
  refine List.map_congr_left (fun p hp => ?_)
  simp only [pairTerm, h p hp]

/-- on a frame closed under `tx ↔ rx` (e.g. FMC) all default weights are `1`: the contact image
is the unweighted delay-and-sum, for every fill value -/
theorem contact_complete_unweighted (ops : Ops K) (h1 : ops.ofInt 1 = 1) (L : List Pair)
    (hcl : ∀ p ∈ L, swap p ∈ L) (G : Nat → Nat → Nat → K) (ns : Nat)
    (lk : Nat → Nat → K) (t0 dt : K) (it : Interp) (fill : K) (pt : Nat) :
    contactTfm ops stdData L G ns lk t0 dt it fill pt =
      dasNoAmp ops stdData (frameProblem L G ns lk lk t0 dt) it fill pt := by
  rw [contact_eq_sum_fill, das_frame_eq_sum]
  congr 2
  refine List.map_congr_left (fun p hp => ?_)
  rw [weightOf_of_closed L hcl p hp]
  cases pairTerm ops stdData G ns lk lk t0 dt it pt p <;> simp [h1]

end Field

/-! ### 2. Default weights = expansion by reciprocity; HMC = FMC -/
section Ordered
variable {K : Type} [Field K] [LinearOrder K] [IsStrictOrderedRing K]

omit [LinearOrder K] [IsStrictOrderedRing K] in
/-- **Weighted sum = sum over the frame expanded by reciprocity.** For any list `L` of pairs
(duplicates allowed) and any swap-invariant `T`, the sum over the timetraces of
`default weight × T(pair)` is the sum of `T` over `L` and the mirrors missing from `L`. -/
theorem weighted_sum_reciprocity (L : List Pair) (T : Pair → K) (hT : ∀ p, T (swap p) = T p) :
    ∑ k ∈ Finset.range L.length, ((defaultWeights L).getD k 1 : K) * T (L.getD k (0, 0)) =
      ((expandPairs L).map T).sum := by
  rw [← weighted_sum_expand L T hT, ← sum_range_getD L _ (0, 0)]
  refine Finset.sum_congr rfl (fun k hk => ?_)
  rw [defaultWeights_getD L k (Finset.mem_range.1 hk)]

omit [IsStrictOrderedRing K] in
/-- the contact image with default weights is the sum of the per-pair terms over the expanded
pair list, divided by the number of recorded timetraces -/
theorem contact_eq_expanded_sum (ops : Ops K) (h1 : ops.ofInt 1 = 1) (h2 : ops.ofInt 2 = 2)
    (L : List Pair) (G : Nat → Nat → Nat → K) (hG : ∀ i j s, G i j s = G j i s) (ns : Nat)
    (lk : Nat → Nat → K) (t0 dt : K) (it : Interp) (pt : Nat) :
    contactTfm ops stdData L G ns lk t0 dt it 0 pt =
      ((expandPairs L).map (fun p => (pairTerm ops stdData G ns lk lk t0 dt it pt p).getD 0)).sum /
        (L.length : K) := by
  rw [contact_eq_sum, ← weighted_sum_expand L _
    (fun p => by rw [pairTerm_swap ops stdData G hG])]
  simp only [ofInt_weightOf ops h1 h2]

/-- **Expand, then image.** Imaging (unit weights) the pair list completed by reciprocity gives
`N / N'` times the default-weighted image of the recorded frame (`N` recorded timetraces, `N'`
after expansion). No hypothesis on `L`. -/
theorem expand_then_image (ops : Ops K) (h1 : ops.ofInt 1 = 1) (h2 : ops.ofInt 2 = 2)
    (L : List Pair) (G : Nat → Nat → Nat → K) (hG : ∀ i j s, G i j s = G j i s) (ns : Nat)
    (lk : Nat → Nat → K) (t0 dt : K) (it : Interp) (pt : Nat) :
    ((expandPairs L).length : K) *
        dasNoAmp ops stdData (frameProblem (expandPairs L) G ns lk lk t0 dt) it 0 pt =
      (L.length : K) * contactTfm ops stdData L G ns lk t0 dt it 0 pt := by
  rw [das_frame_eq_sum, length_mul_mean, contact_eq_expanded_sum ops h1 h2 L G hG,
    length_mul_div]
  rintro rfl; rfl

/-- the same for any duplicate-free enumeration `L'` of the recorded pairs and their mirrors
(here `L` must be duplicate-free as well) -/
theorem expand_then_image_of_mem (ops : Ops K) (h1 : ops.ofInt 1 = 1) (h2 : ops.ofInt 2 = 2)
    (L L' : List Pair) (hL : L.Nodup) (hL' : L'.Nodup)
    (hmem : ∀ p, p ∈ L' ↔ (p ∈ L ∨ swap p ∈ L))
    (G : Nat → Nat → Nat → K) (hG : ∀ i j s, G i j s = G j i s) (ns : Nat)
    (lk : Nat → Nat → K) (t0 dt : K) (it : Interp) (pt : Nat) :
    (L'.length : K) * dasNoAmp ops stdData (frameProblem L' G ns lk lk t0 dt) it 0 pt =
      (L.length : K) * contactTfm ops stdData L G ns lk t0 dt it 0 pt := by
  rw [← expand_then_image ops h1 h2 L G hG, das_frame_eq_sum, length_mul_mean,
    das_frame_eq_sum, length_mul_mean]
  exact ((perm_expandPairs L L' hL hL' hmem).map _).sum_eq

/-- **HMC = FMC.** With reciprocal data and the contact lookup table, the half-matrix image with
the default weights (1 on the diagonal, 2 off it) is the full-matrix image, up to the ratio of
the numbers of timetraces (`n (n+1) / 2` against `n²`). Every `n`, every interpolation. -/
theorem hmc_eq_fmc (ops : Ops K) (h1 : ops.ofInt 1 = 1) (h2 : ops.ofInt 2 = 2) (n : Nat)
    (G : Nat → Nat → Nat → K) (hG : ∀ i j s, G i j s = G j i s) (ns : Nat)
    (lookup : Nat → Nat → K) (t0 dt : K) (it : Interp) (pt : Nat) :
    ((hmc n).length : K) * contactTfm ops stdData (hmc n) G ns lookup t0 dt it 0 pt =
      ((fmc n).length : K) * contactTfm ops stdData (fmc n) G ns lookup t0 dt it 0 pt := by
  rw [← expand_then_image_of_mem ops h1 h2 (hmc n) (fmc n) (C15.hmc_nodup n) (C15.fmc_nodup n)
      (fun p => by simp only [C15.mem_fmc', C15.mem_hmc', swap]; omega) G hG,
    ← expand_then_image_of_mem ops h1 h2 (fmc n) (fmc n) (C15.fmc_nodup n) (C15.fmc_nodup n)
      (fun p => by simp only [C15.mem_fmc', swap]; omega) G hG]

omit [Field K] [LinearOrder K] [IsStrictOrderedRing K] in
/-- FMC: every default weight is `1` -/
theorem weights_fmc (n k : Nat) (hk : k < (fmc n).length) : (defaultWeights (fmc n)).getD k 1 = 1 := by
  rw [defaultWeights_getD _ k hk]
  have hm : (fmc n).getD k (0, 0) ∈ fmc n := by
    rw [← List.getElem_eq_getD (h := hk)]; exact List.getElem_mem hk
  exact weightOf_of_closed (fmc n) (fun p hp => by
    rw [C15.mem_fmc'] at hp ⊢; exact ⟨hp.2, hp.1⟩) _ hm

omit [Field K] [LinearOrder K] [IsStrictOrderedRing K] in
/-- HMC: the default weight is `1` on the diagonal (`tx = rx`), `2` off it -/
theorem weights_hmc (n k : Nat) (hk : k < (hmc n).length) :
    (defaultWeights (hmc n)).getD k 1 =
      if ((hmc n).getD k (0, 0)).1 = ((hmc n).getD k (0, 0)).2 then 1 else 2 := by
  rw [defaultWeights_getD _ k hk]
  have hm : (hmc n).getD k (0, 0) ∈ hmc n := by
    rw [← List.getElem_eq_getD (h := hk)]; exact List.getElem_mem hk
  generalize (hmc n).getD k (0, 0) = p at hm
  rw [C15.mem_hmc'] at hm
  have hsw : swap p ∈ hmc n ↔ p.1 = p.2 := by
    rw [C15.mem_hmc']; simp only [swap]; omega
  simp only [weightOf, hsw]

/-- the timetrace recorded for the pair `(i, j)` in a frame with payloads (zero if none) -/
def frameData (f : List (TT (Nat → K))) : Nat → Nat → Nat → K :=
  fun i j => (lookup f (i, j)).getD (fun _ => 0)

/-- **`Frame.expand`, then image.** For a frame `f` with timetraces as payloads, without
duplicate pair, and reciprocal wherever both a pair and its mirror are recorded: the unweighted
image of the frame expanded by `expand_frame_assuming_reciprocity` (model `Frame.expand`), times
its number of timetraces, is the default-weighted contact image of `f` times its number of
timetraces. -/
theorem expand_frame_then_image (ops : Ops K) (h1 : ops.ofInt 1 = 1) (h2 : ops.ofInt 2 = 2)
    (f : List (TT (Nat → K))) (hnd : (pairsOf f).Nodup)
    (hrec : ∀ p, p ∈ pairsOf f → swap p ∈ pairsOf f → lookup f p = lookup f (swap p))
    (ns : Nat) (lk : Nat → Nat → K) (t0 dt : K) (it : Interp) (pt : Nat) :
    ((expand f).length : K) *
        dasNoAmp ops stdData
          (frameProblem (pairsOf (expand f)) (frameData (expand f)) ns lk lk t0 dt) it 0 pt =
      (f.length : K) * contactTfm ops stdData (pairsOf f) (frameData f) ns lk t0 dt it 0 pt := by
  let Gs : Nat → Nat → Nat → K := fun i j =>
    (lookup f (i, j)).getD ((lookup f (j, i)).getD (fun _ => 0))
  have hGs : ∀ i j s, Gs i j s = Gs j i s := by
    intro i j s
    show (lookup f (i, j)).getD ((lookup f (j, i)).getD (fun _ => 0)) s =
      (lookup f (j, i)).getD ((lookup f (i, j)).getD (fun _ => 0)) s
    cases hij : lookup f (i, j) with
    | none => cases hji : lookup f (j, i) <;> rfl
    | some a =>
      cases hji : lookup f (j, i) with
      | none => rfl
      | some b =>
        have e := hrec (i, j) ((lookup_isSome f _).1 (by rw [hij]; rfl))
          ((lookup_isSome f _).1 (by show (lookup f (j, i)).isSome; rw [hji]; rfl))
        rw [hij] at e
        have e' : lookup f (j, i) = some a := e.symm
        rw [hji] at e'
        cases e'; rfl
  have hf : ∀ p ∈ pairsOf f, frameData f p.1 p.2 = Gs p.1 p.2 := by
    intro p hp
    obtain ⟨d, hd⟩ := Option.isSome_iff_exists.1 ((lookup_isSome f p).2 hp)
    show (lookup f (p.1, p.2)).getD _ = (lookup f (p.1, p.2)).getD _
    rw [show ((p.1, p.2) : Pair) = p from rfl, hd]; rfl
  have hE : ∀ p ∈ pairsOf (expand f), frameData (expand f) p.1 p.2 = Gs p.1 p.2 := by
    intro p hp
    obtain ⟨t, ht, h1', h2'⟩ := (mem_pairsOf _ _).1 hp
    have hl := lookup_of_mem (expand f) (C15.expand_pairs_nodup f hnd) t ht
    rw [h1', h2'] at hl
    show (lookup (expand f) (p.1, p.2)).getD _ =
      (lookup f (p.1, p.2)).getD ((lookup f (p.2, p.1)).getD (fun _ => 0))
    rw [hl]
    rcases C15.expand_payload f hnd t ht with h | ⟨h, h'⟩
    · rw [h1', h2'] at h; rw [h]; rfl
    · rw [h1', h2'] at h h'; rw [h, h']; rfl
  rw [das_frame_congr ops _ _ Gs hE, contact_congr ops _ _ Gs hf]
  have := expand_then_image_of_mem ops h1 h2 (pairsOf f) (pairsOf (expand f)) hnd
    (C15.expand_pairs_nodup f hnd) (C15.expand_pairs_mem f) Gs hGs ns lk t0 dt it pt
  simpa [pairsOf] using this

/-- `hmc_eq_fmc` for the standard primitives (floor, round-half-even, integer cast) -/
theorem hmc_eq_fmc_std [FloorRing K] (sinc : K → K) (n : Nat)
    (G : Nat → Nat → Nat → K) (hG : ∀ i j s, G i j s = G j i s) (ns : Nat)
    (lookup : Nat → Nat → K) (t0 dt : K) (it : Interp) (pt : Nat) :
    ((hmc n).length : K) * contactTfm (stdOps sinc) stdData (hmc n) G ns lookup t0 dt it 0 pt =
      ((fmc n).length : K) * contactTfm (stdOps sinc) stdData (fmc n) G ns lookup t0 dt it 0 pt :=
  hmc_eq_fmc (stdOps sinc) (by simp) (by simp) n G hG ns lookup t0 dt it pt

/-! ### 4. Spike data focus where they should -/

omit [IsStrictOrderedRing K] in
/-- on spike data (a unit spike at the nearest-sample index of the arrival time of `pstar`, in
the window for every timetrace) the image at `pt` is the proportion of timetraces whose
nearest-sample index at `pt` is the one at `pstar` -/
theorem spike_image_eq_count (ops : Ops K) (q : Problem K K) (pstar : Nat)
    (hwin : ∀ k < q.N, 0 ≤ ops.round (locB ops q pstar k) ∧
      ops.round (locB ops q pstar k) < (q.n : Int)) (pt : Nat) :
    dasNoAmp ops stdData (spikeProblem ops q pstar) .nearest 0 pt =
      (((Finset.range q.N).filter (fun k =>
        ops.round (locB ops q pt k) = ops.round (locB ops q pstar k))).card : K) / (q.N : K) := by
  unfold dasNoAmp
  rw [dasMean_eq_sum]
  show (∑ k ∈ Finset.range q.N, _) / (q.N : K) = _
  rw [Finset.sum_congr rfl (fun k hk => spike_term ops q pstar pt k (hwin k (Finset.mem_range.1 hk))),
    Finset.sum_boole]

/-- **Spike focus.** Nearest interpolation, unit weights, fill `0`, at least one timetrace,
arbitrary lookup tables: if the `k`-th timetrace is a unit spike at the (in-window)
nearest-sample index of the arrival time of `pstar`, the image is `1` at `pstar` and lies in
`[0, 1]` everywhere. -/
theorem spike_focus (ops : Ops K) (q : Problem K K) (pstar : Nat) (hN : 1 ≤ q.N)
    (hwin : ∀ k < q.N, 0 ≤ ops.round (locB ops q pstar k) ∧
      ops.round (locB ops q pstar k) < (q.n : Int)) :
    dasNoAmp ops stdData (spikeProblem ops q pstar) .nearest 0 pstar = 1 ∧
      ∀ pt, 0 ≤ dasNoAmp ops stdData (spikeProblem ops q pstar) .nearest 0 pt ∧
        dasNoAmp ops stdData (spikeProblem ops q pstar) .nearest 0 pt ≤ 1 := by
  have hNpos : (0 : K) < (q.N : K) := by exact_mod_cast hN
  refine ⟨?_, fun pt => ?_⟩
  · rw [spike_image_eq_count ops q pstar hwin]
    simp only [Finset.filter_true_of_mem, implies_true, Finset.card_range]
    exact div_self hNpos.ne'
  · rw [spike_image_eq_count ops q pstar hwin]
    refine ⟨div_nonneg (Nat.cast_nonneg _) hNpos.le, ?_⟩
    rw [div_le_one hNpos]
    have := Finset.card_filter_le (Finset.range q.N)
      (fun k => ops.round (locB ops q pt k) = ops.round (locB ops q pstar k))
    rw [Finset.card_range] at this
    exact_mod_cast this

/-- the same with the hypotheses on an arbitrary problem `p` rather than on a constructed one:
`p.g k` is the spike at the nearest-sample index of `pstar` for every timetrace `k < p.N` -/
theorem spike_focus_of (ops : Ops K) (p : Problem K K) (pstar : Nat) (hN : 1 ≤ p.N)
    (hwin : ∀ k < p.N, 0 ≤ ops.round (locB ops p pstar k) ∧
      ops.round (locB ops p pstar k) < (p.n : Int))
    (hg : ∀ k < p.N, ∀ s, p.g k s = if s = (ops.round (locB ops p pstar k)).toNat then 1 else 0) :
    dasNoAmp ops stdData p .nearest 0 pstar = 1 ∧
      ∀ pt, 0 ≤ dasNoAmp ops stdData p .nearest 0 pt ∧ dasNoAmp ops stdData p .nearest 0 pt ≤ 1 := by
  have key : ∀ pt, dasNoAmp ops stdData p .nearest 0 pt =
      dasNoAmp ops stdData (spikeProblem ops p pstar) .nearest 0 pt := by
    intro pt
    unfold dasNoAmp
    rw [dasMean_eq_sum, dasMean_eq_sum]
    show (∑ k ∈ Finset.range p.N, _) / (p.N : K) = (∑ k ∈ Finset.range p.N, _) / (p.N : K)
    congr 1
    refine Finset.sum_congr rfl (fun k hk => ?_)
    have : p.g k = (spikeProblem ops p pstar).g k := funext (hg k (Finset.mem_range.1 hk))
    show (interpNearest ops p.n (p.g k) (locB ops p pt k)).getD 0 =
      (interpNearest ops p.n ((spikeProblem ops p pstar).g k) (locB ops p pt k)).getD 0
    rw [this]
  simp only [key]
  exact spike_focus ops p pstar hN hwin

end Ordered

/-! ### 5. Non-vacuity: concrete rational data, 2 elements, 3 samples -/
section Examples

/-- reciprocal data on 2 elements, 3 samples: `G i j s = i + j + s/2` -/
def exG : Nat → Nat → Nat → ℚ := fun i j s => ((i + j : Nat) : ℚ) + (s : ℚ) / 2
/-- contact lookup table `[point, element]` -/
def exLk : Nat → Nat → ℚ := fun p e => ((p + e : Nat) : ℚ) / 4
/-- two different ray-tracing tables `[element, point]` -/
def exA : Nat → Nat → ℚ := fun e p => ((e + p : Nat) : ℚ) / 4
def exB : Nat → Nat → ℚ := fun e p => ((2 * e + p : Nat) : ℚ) / 2

theorem exG_symm : ∀ i j s, exG i j s = exG j i s := by
  intro i j s; simp [exG, add_comm]

theorem hmc2 : hmc 2 = [(0, 0), (0, 1), (1, 1)] := by decide
theorem fmc2 : fmc 2 = [(0, 0), (0, 1), (1, 0), (1, 1)] := by decide

/-- HMC = FMC on the example, linear interpolation: `3 · 3/2 = 4 · 9/8` -/
example : contactTfm (stdOps id) stdData (hmc 2) exG 3 exLk 0 1 .linear 0 0 = 3 / 2 ∧
    contactTfm (stdOps id) stdData (fmc 2) exG 3 exLk 0 1 .linear 0 0 = 9 / 8 := by
  constructor
  · rw [contact_eq_sum, hmc2]
    simp [weightOf, swap, pairTerm, pairLoc, interpOf, interpLinearB, exG, exLk, stdData]
    norm_num
  · rw [contact_eq_sum, fmc2]
    simp [weightOf, swap, pairTerm, pairLoc, interpOf, interpLinearB, exG, exLk, stdData]
    norm_num

/-- nearest interpolation with two of the three HMC lookups out of the window (fill `0`):
`3 · 1/3 = 4 · 1/4` -/
example : contactTfm (stdOps id) stdData (hmc 2) exG 3 exLk 0 (1 / 4) .nearest 0 1 = 1 / 3 ∧
    contactTfm (stdOps id) stdData (fmc 2) exG 3 exLk 0 (1 / 4) .nearest 0 1 = 1 / 4 := by
  constructor
  · rw [contact_eq_sum, hmc2]
    simp [weightOf, swap, pairTerm, pairLoc, interpOf, interpNearest, roundHalfEven, exG, exLk]
    norm_num
    simp
  · rw [contact_eq_sum, fmc2]
    simp [weightOf, swap, pairTerm, pairLoc, interpOf, interpNearest, roundHalfEven, exG, exLk]
    norm_num
    simp

/-- **`hmc_eq_fmc` is false for a non-zero fill value**: the fill of an out-of-window lookup is
not weighted, so an off-diagonal out-of-window pair counts once in HMC and twice in FMC. Same
data as above with fill `1`: both images are `1`, and `3 · 1 ≠ 4 · 1`. -/
example : contactTfm (stdOps id) stdData (hmc 2) exG 3 exLk 0 (1 / 4) .nearest 1 1 = 1 ∧
    contactTfm (stdOps id) stdData (fmc 2) exG 3 exLk 0 (1 / 4) .nearest 1 1 = 1 := by
  constructor
  · rw [contact_eq_sum_fill, hmc2]
    simp [weightOf, swap, pairTerm, pairLoc, interpOf, interpNearest, roundHalfEven, exG, exLk]
    norm_num
    simp
    norm_num
  · rw [contact_eq_sum_fill, fmc2]
    simp [weightOf, swap, pairTerm, pairLoc, interpOf, interpNearest, roundHalfEven, exG, exLk]
    norm_num
    simp
    norm_num

/-- reciprocal views on the FMC frame: both orders of the tables give `21/16` -/
example : tfmForView (stdOps id) stdData (fmc 2) exG 3 exA exB 0 1 .linear 0 0 = 21 / 16 ∧
    tfmForView (stdOps id) stdData (fmc 2) exG 3 exB exA 0 1 .linear 0 0 = 21 / 16 := by
  constructor <;>
  · unfold tfmForView
    rw [das_frame_eq_sum, fmc2]
    simp [pairTerm, pairLoc, interpOf, interpLinearB, exG, exA, exB, stdData]
    norm_num
    simp
    norm_num

/-- **closure under `tx ↔ rx` is needed** in `reciprocal_views_coincide`: on the HMC frame the
two orders give `11/8` and `5/4` -/
example : tfmForView (stdOps id) stdData (hmc 2) exG 3 exA exB 0 1 .linear 0 0 = 11 / 8 ∧
    tfmForView (stdOps id) stdData (hmc 2) exG 3 exB exA 0 1 .linear 0 0 = 5 / 4 := by
  constructor <;>
  · unfold tfmForView
    rw [das_frame_eq_sum, hmc2]
    simp [pairTerm, pairLoc, interpOf, interpLinearB, exG, exA, exB, stdData]
    norm_num
    simp
    norm_num

/-- **so is the absence of duplicate pairs**: `[(0,1), (0,1), (1,0)]` is closed under
`tx ↔ rx`, the two orders give `11/8` and `5/4` -/
example :
    tfmForView (stdOps id) stdData [(0, 1), (0, 1), (1, 0)] exG 3 exA exB 0 1 .linear 0 0 = 11 / 8 ∧
    tfmForView (stdOps id) stdData [(0, 1), (0, 1), (1, 0)] exG 3 exB exA 0 1 .linear 0 0 = 5 / 4 := by
  constructor <;>
  · unfold tfmForView
    rw [das_frame_eq_sum]
    simp [pairTerm, pairLoc, interpOf, interpLinearB, exG, exA, exB, stdData]
    norm_num

/-- a problem for the spike test: HMC frame on 2 elements, 3 samples, `dt = 1/4` -/
def exQ : Problem ℚ ℚ := frameProblem (hmc 2) (fun _ _ _ => 0) 3 exLk exLk 0 (1 / 4)

/-- the arrival times of point `0` fall on the samples `0, 1, 2`: all in the window -/
theorem exQ_win : ∀ k < exQ.N, 0 ≤ (stdOps id).round (locB (stdOps id) exQ 0 k) ∧
    (stdOps id).round (locB (stdOps id) exQ 0 k) < (exQ.n : Int) := by
  intro k hk
  have hk' : k < 3 := hk
  obtain rfl | rfl | rfl : k = 0 ∨ k = 1 ∨ k = 2 := by omega
  all_goals
    simp [exQ, locB, frameProblem, hmc2, exLk, roundHalfEven]
    try norm_num

example : dasNoAmp (stdOps id) stdData (spikeProblem (stdOps id) exQ 0) .nearest 0 0 = 1 :=
  (spike_focus _ exQ 0 (by decide) exQ_win).1

end Examples

end Arim.C12
