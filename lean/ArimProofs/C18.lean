import ArimModel.Views
import ArimProofs.Generated.C18Table
import ArimProofs.Lemmas.Views
import Mathlib.Data.List.Perm.Basic
/-! # C18 — views and paths mean what their names say; unique views are reciprocity classes -/
namespace Arim.C18
open Arim.Views

/-- **Wiring, re-checked on every run.** Every view that `make_views` returns in /repo (all
immersion and contact set-ups, 0–2 reflections, unique on/off — the table is regenerated from
the implementation's output before each build) transmits along the path named `X`, receives
along the path stored under `reverse Y`, crosses the declared walls with the declared kinds,
flags and materials, and has scattering key `last X ++ first Y`. -/
theorem wired_ok : ∀ e ∈ Arim.C18Gen.table, wellWired e = true := by
  have h := Arim.C18Gen.table_ok
  rw [List.all_eq_true] at h
  exact h

/-- what `wellWired` means for the modes: an immersion path named `w` carries `L :: w`
(the couplant leg is longitudinal), a contact path carries exactly `w` -/
theorem expected_modes (s : Setup) (w : Word) (p : PathSpec) (h : expectedPath s w = some p) :
    p.name = w ∧ p.modes = (match s with | .immersion => 'L' :: w | .contact _ _ _ => w) := by
  unfold expectedPath at h
  split at h
  · simp at h
  · split at h
    all_goals first
      | (cases h; simp)
      | (split at h <;> first | (cases h; simp) | (simp at h))
      | (simp at h)

/-- the reciprocal of the reciprocal view is the view itself -/
theorem recip_involutive (v : VName) : recip (recip v) = v := by
  simp [recip]

/-- reversing an interface twice gives it back (whenever it can be reversed at all) -/
theorem iface_reverse_reverse (i j : Iface) (h : i.reverse = some j) : j.reverse = some i := by
  obtain ⟨pts, kind, tr, ag, inc, out⟩ := i
  cases kind with
  | none => simp [Iface.reverse] at h; subst h; simp [Iface.reverse]
  | some k =>
    cases tr with
    | none => simp [Iface.reverse] at h
    | some t =>
      cases t <;> cases k <;> simp [Iface.reverse, Kind.reverse] at h <;> subst h <;>
        simp [Iface.reverse, Kind.reverse]

theorem mapM_reverse_reverse (is js : List Iface) (h : is.mapM Iface.reverse = some js) :
    js.mapM Iface.reverse = some is := by
  induction is generalizing js with
  | nil => simp at h; subst h; simp
  | cons i is ih =>
    simp only [List.mapM_cons, Option.bind_eq_bind, Option.pure_def] at h
    cases hi : i.reverse with
    | none => simp [hi] at h
    | some j =>
      cases hr : is.mapM Iface.reverse with
      | none => simp [hi, hr] at h
      | some js' =>
        simp [hi, hr] at h
        subst h
        simp [List.mapM_cons, iface_reverse_reverse i j hi, ih js' hr]

theorem mapM_reverse_list (is js : List Iface) (h : is.mapM Iface.reverse = some js) :
    is.reverse.mapM Iface.reverse = some js.reverse := by
  induction is generalizing js with
  | nil => simp at h; subst h; simp
  | cons i is ih =>
    simp only [List.mapM_cons, Option.bind_eq_bind, Option.pure_def] at h
    cases hi : i.reverse with
    | none => simp [hi] at h
    | some j =>
      cases hr : is.mapM Iface.reverse with
      | none => simp [hi, hr] at h
      | some js' =>
        simp [hi, hr] at h
        subst h
        simp [List.mapM_append, ih js' hr, hi]

/-- **Reversing a path twice gives back the same modes, materials and interfaces.** -/
theorem path_reverse_reverse (p q : PathSpec) (h : p.reverse = some q) : q.reverse = some p := by
  unfold PathSpec.reverse at h
  cases hm : p.ifaces.mapM Iface.reverse with
  | none => simp [hm] at h
  | some js =>
    simp [hm] at h
    subst h
    have h1 := mapM_reverse_list p.ifaces js hm
    have h2 := mapM_reverse_reverse _ _ h1
    simp [PathSpec.reverse, h2]

theorem mapM_reverse_pts (is js : List Iface) (h : is.mapM Iface.reverse = some js) :
    js.map (·.pts) = is.map (·.pts) := by
  induction is generalizing js with
  | nil => simp at h; subst h; rfl
  | cons i is ih =>
    simp only [List.mapM_cons, Option.bind_eq_bind, Option.pure_def] at h
    cases hi : i.reverse with
    | none => simp [hi] at h
    | some j =>
      cases hr : is.mapM Iface.reverse with
      | none => simp [hi, hr] at h
      | some js' =>
        simp [hi, hr] at h
        subst h
        have : j.pts = i.pts := by
          unfold Iface.reverse at hi
          split at hi <;> simp at hi <;> subst hi <;> rfl
        simp [this, ih js' hr]

/-- the reversed path carries the modes, materials and walls in the opposite order -/
theorem path_reverse_spec (p q : PathSpec) (h : p.reverse = some q) :
    q.modes = p.modes.reverse ∧ q.mats = p.mats.reverse ∧ q.name = p.name ∧
      q.ifaces.map (·.pts) = (p.ifaces.map (·.pts)).reverse := by
  unfold PathSpec.reverse at h
  cases hm : p.ifaces.mapM Iface.reverse with
  | none => simp [hm] at h
  | some js =>
    simp [hm] at h
    subst h
    refine ⟨rfl, rfl, rfl, ?_⟩
    simp only [List.map_reverse]
    rw [mapM_reverse_pts _ _ hm]

example : wellWired ⟨.immersion, ['L','T'], ['T'],
    ⟨['L','T'], [probeI, immFrontTrans, immBackRefl, gridI], [.couplant, .block, .block], ['L','L','T']⟩,
    ⟨['T'], [probeI, immFrontTrans, gridI], [.couplant, .block], ['L','T']⟩, ['T','T']⟩ = true := by decide
example : makeViewnames [['L'], ['T']] true = [(['L'],['L']), (['L'],['T']), (['T'],['T'])] := by decide

/-! ## View names: all ordered pairs, in the documented order -/

/-- **`make_viewnames(names, unique_only=False)` returns every ordered pair (tx, rx) exactly as
often as `itertools.product(names, names)` produces it** (equality of multisets). -/
theorem viewnames_all_pairs (names : List Word) :
    (makeViewnames names false).Perm (allPairs names) := by
  simpa [makeViewnames] using ViewsLemmas.sortViews_perm (allPairs names)

/-- a view name is produced iff both its path names are in `names` -/
theorem mem_allPairs {names : List Word} {v : VName} :
    v ∈ allPairs names ↔ v.1 ∈ names ∧ v.2 ∈ names := ViewsLemmas.mem_allPairs

theorem mem_viewnames {names : List Word} {v : VName} :
    v ∈ makeViewnames names false ↔ v.1 ∈ names ∧ v.2 ∈ names :=
  (viewnames_all_pairs names).mem_iff.trans mem_allPairs

/-- with distinct path names every one of the n² view names appears exactly once -/
theorem viewnames_nodup (names : List Word) (h : names.Nodup) :
    (makeViewnames names false).Nodup :=
  (viewnames_all_pairs names).nodup_iff.mpr (ViewsLemmas.allPairs_nodup h)

theorem viewnames_length (names : List Word) :
    (makeViewnames names false).length = names.length * names.length := by
  have hsum : ∀ (l : List Word) (n : Nat), (List.map (fun _ => n) l).sum = l.length * n := by
    intro l n
    induction l with
    | nil => simp
    | cons a as ih => simp [ih, Nat.succ_mul, Nat.add_comm]
  rw [(viewnames_all_pairs names).length_eq]
  simp [allPairs, List.length_flatMap, hsum]

example : makeViewnames [['L'], ['T']] false
    = [(['L'],['L']), (['L'],['T']), (['T'],['L']), (['T'],['T'])] := by decide
example : ([['L'], ['T'], ['L','T']] : List Word).Nodup := by decide

/-- the key order is irreflexive -/
theorem keyLt_irrefl (a : VName) : keyLt a a = false := ViewsLemmas.keyLt_irrefl a

/-- the key order is transitive -/
theorem keyLt_trans {a b c : VName} (h1 : keyLt a b = true) (h2 : keyLt b c = true) :
    keyLt a c = true := ViewsLemmas.keyLt_trans h1 h2

/-- the key order is total: two different view names are always strictly ordered (the key
contains both path names, so there are no ties between different views) -/
theorem keyLt_total {a b : VName} (h : a ≠ b) : keyLt a b = true ∨ keyLt b a = true :=
  ViewsLemmas.keyLt_total h

theorem keyLt_asymm {a b : VName} (h : keyLt a b = true) : keyLt b a = false :=
  ViewsLemmas.keyLt_asymm h

example : keyLt (['T'],['T']) (['L','T'],['L']) = true
    ∧ keyLt (['L','T'],['L']) (['L'],['L','T']) = true
    ∧ keyLt (['L'],['L','T']) (['L','T'],['L']) = false := by decide

/-- **The result is in non-decreasing key order** (`default_viewname_order`: total length, then
longest path, then rx length, tx length, tx name, rx name). -/
theorem viewnames_sorted (names : List Word) :
    (makeViewnames names false).Pairwise (fun a b => keyLt b a = false) := by
  simpa [makeViewnames] using ViewsLemmas.sortViews_sorted (allPairs names)

/-- with distinct path names the order is strict -/
theorem viewnames_strict_sorted (names : List Word) (h : names.Nodup) :
    (makeViewnames names false).Pairwise (fun a b => keyLt a b = true) := by
  refine List.Pairwise.imp₂ ?_ (viewnames_sorted names) (viewnames_nodup names h)
  intro a b hle hne
  rcases keyLt_total hne with h' | h'
  · exact h'
  · rw [h'] at hle; cases hle

/-- **The order of the result is completely determined by the key**: any strictly increasing
arrangement of the n² pairs is the list that `make_viewnames` returns. (The hypothesis that the
names are distinct is not used — it is implied by the existence of a strictly increasing
arrangement — see `viewnames_unique_order'`.) -/
theorem viewnames_unique_order' (names : List Word) (l : List VName)
    (hp : l.Perm (allPairs names)) (hs : l.Pairwise (fun a b => keyLt a b = true)) :
    l = makeViewnames names false := by
  refine List.Perm.eq_of_pairwise (le := fun a b => keyLt b a = false) ?_ ?_
    (viewnames_sorted names) (hp.trans (viewnames_all_pairs names).symm)
  · intro a b _ _ h1 h2
    exact ViewsLemmas.keyLe_antisymm h1 h2
  · exact hs.imp keyLt_asymm

theorem viewnames_unique_order (names : List Word) (_h : names.Nodup) (l : List VName)
    (hp : l.Perm (allPairs names)) (hs : l.Pairwise (fun a b => keyLt a b = true)) :
    l = makeViewnames names false :=
  viewnames_unique_order' names l hp hs

example : ([(['L'],['L']), (['L'],['T']), (['T'],['L']), (['T'],['T'])] : List VName).Perm
      (allPairs [['L'], ['T']])
    ∧ ([(['L'],['L']), (['L'],['T']), (['T'],['L']), (['T'],['T'])] : List VName).Pairwise
      (fun a b => keyLt a b = true) := by decide

/-! ## Reciprocal views -/

/-- a set of path names closed under reversal gives a set of view names closed under
reciprocity -/
theorem mem_allPairs_recip {names : List Word} (hc : ∀ w ∈ names, w.reverse ∈ names)
    {v : VName} (hv : v ∈ allPairs names) : recip v ∈ allPairs names := by
  rw [mem_allPairs] at hv ⊢
  exact ⟨hc _ hv.2, hc _ hv.1⟩

theorem mem_viewnames_recip {names : List Word} (hc : ∀ w ∈ names, w.reverse ∈ names)
    {v : VName} (hv : v ∈ makeViewnames names false) : recip v ∈ makeViewnames names false :=
  (viewnames_all_pairs names).mem_iff.mpr
    (mem_allPairs_recip hc ((viewnames_all_pairs names).mem_iff.mp hv))

example : (∀ w ∈ [['L'], ['T'], ['L','T'], ['T','L']],
      w.reverse ∈ ([['L'], ['T'], ['L','T'], ['T','L']] : List Word))
    ∧ recip (['L','T'], ['T']) = (['T'], ['T','L']) := by decide

/-! ## Unique views are reciprocity classes

The three facts (a), (b) hold for every list of views; (c) needs only that the list has no
duplicates. None needs the list to be closed under `recip`. -/

/-- `filter_unique_views` keeps a sub-list: the order is unchanged and nothing is invented -/
theorem filterUnique_sublist (views : List VName) : (filterUnique views).Sublist views := by
  rw [ViewsLemmas.filterUnique_eq]
  exact ViewsLemmas.uniqAux_sublist [] views

/-- (a) **every reciprocity class is represented**: of `v` and `recip v` at least one is kept -/
theorem unique_covers (views : List VName) :
    ∀ v ∈ views, v ∈ filterUnique views ∨ recip v ∈ filterUnique views := by
  intro v hv
  rw [ViewsLemmas.filterUnique_eq]
  rcases ViewsLemmas.uniqAux_covers (seen := []) hv with h | h | h
  · exact Or.inl h
  · exact Or.inr h
  · cases h

/-- (b) **at most one member of each class is kept** -/
theorem unique_one_per_class (views : List VName) :
    ∀ v ∈ filterUnique views, recip v ≠ v → recip v ∉ filterUnique views := by
  intro v hv hne
  rw [ViewsLemmas.filterUnique_eq] at hv ⊢
  exact ViewsLemmas.uniqAux_one_per_class hv hne

/-- (c) **the member that is kept is the one that comes first** -/
theorem unique_is_first (views : List VName) (hnd : views.Nodup) :
    ∀ v ∈ filterUnique views, ∀ i j : Nat, views[i]? = some v → views[j]? = some (recip v) → i ≤ j := by
  intro v hv i j hi hj
  rw [ViewsLemmas.filterUnique_eq] at hv
  exact ViewsLemmas.uniqAux_is_first hnd (by simp) hv hi hj

/-- **characterisation**: in a duplicate-free list, a view is kept iff its reciprocal does not
come before it -/
theorem filterUnique_keeps_first (views : List VName) (hnd : views.Nodup) (v : VName) :
    v ∈ filterUnique views ↔
      v ∈ views ∧ ∀ i j : Nat, views[i]? = some v → views[j]? = some (recip v) → i ≤ j := by
  constructor
  · intro hv
    exact ⟨(filterUnique_sublist views).subset hv, unique_is_first views hnd v hv⟩
  · rintro ⟨hv, hfirst⟩
    rcases unique_covers views v hv with h | h
    · exact h
    · obtain ⟨i, hi⟩ := List.mem_iff_getElem?.mp hv
      obtain ⟨j, hj⟩ := List.mem_iff_getElem?.mp ((filterUnique_sublist views).subset h)
      have h1 : i ≤ j := hfirst i j hi hj
      have h2 : j ≤ i := unique_is_first views hnd (recip v) h j i hj
        (by rw [recip_involutive]; exact hi)
      have hij : i = j := Nat.le_antisymm h1 h2
      subst hij
      rw [hi] at hj
      have : v = recip v := Option.some.inj hj
      rw [← this] at h
      exact h

example : filterUnique [(['L'],['T']), (['T'],['L']), (['L','T'],['T']), (['T'],['T','L'])]
    = [(['L'],['T']), (['L','T'],['T'])] := by decide
example : (makeViewnames [['L'], ['T'], ['L','T'], ['T','L']] false).Nodup
    ∧ (∀ v ∈ makeViewnames [['L'], ['T'], ['L','T'], ['T','L']] false,
        recip v ∈ makeViewnames [['L'], ['T'], ['L','T'], ['T','L']] false)
    ∧ (makeViewnames [['L'], ['T'], ['L','T'], ['T','L']] false).length = 16
    ∧ (makeViewnames [['L'], ['T'], ['L','T'], ['T','L']] true).length = 10 := by decide

/-! ### … applied to `make_viewnames(names, unique_only=True)` -/

theorem viewnames_unique_sublist (names : List Word) :
    (makeViewnames names true).Sublist (makeViewnames names false) := by
  simpa [makeViewnames] using filterUnique_sublist (sortViews (allPairs names))

/-- **The unique views are exactly the key-smallest members of the reciprocity classes**: for
distinct path names closed under reversal, `v` is a unique view iff it is a view and
`key v ≤ key (recip v)`. -/
theorem viewnames_unique_iff (names : List Word) (hn : names.Nodup)
    (hc : ∀ w ∈ names, w.reverse ∈ names) (v : VName) :
    v ∈ makeViewnames names true ↔ v ∈ allPairs names ∧ keyLt (recip v) v = false := by
  have hS : makeViewnames names true = filterUnique (makeViewnames names false) := by
    simp [makeViewnames]
  have hnd := viewnames_nodup names hn
  have key : ∀ u ∈ filterUnique (makeViewnames names false), keyLt (recip u) u = false := by
    intro u hu
    have hu' := (filterUnique_sublist _).subset hu
    obtain ⟨i, hi⟩ := List.mem_iff_getElem?.mp hu'
    obtain ⟨j, hj⟩ := List.mem_iff_getElem?.mp (mem_viewnames_recip hc hu')
    have hij := unique_is_first _ hnd u hu i j hi hj
    obtain ⟨hi', hie⟩ := List.getElem?_eq_some_iff.mp hi
    obtain ⟨hj', hje⟩ := List.getElem?_eq_some_iff.mp hj
    rcases Nat.lt_or_eq_of_le hij with hlt | heq
    · have := List.pairwise_iff_getElem.mp (viewnames_sorted names) i j hi' hj' hlt
      rw [hie, hje] at this
      exact this
    · subst heq
      rw [hie] at hje
      rw [← hje]
      exact keyLt_irrefl u
  rw [hS]
  constructor
  · intro hv
    exact ⟨(viewnames_all_pairs names).mem_iff.mp ((filterUnique_sublist _).subset hv), key v hv⟩
  · rintro ⟨hv, hle⟩
    have hv' := (viewnames_all_pairs names).mem_iff.mpr hv
    rcases unique_covers _ v hv' with h | h
    · exact h
    · have h2 := key (recip v) h
      rw [recip_involutive] at h2
      have : v = recip v := ViewsLemmas.keyLe_antisymm hle h2
      rw [← this] at h
      exact h

/-- hence the list of unique views is the sorted list of all views filtered by
`key v ≤ key (recip v)` -/
theorem viewnames_unique_eq_filter (names : List Word) (hn : names.Nodup)
    (hc : ∀ w ∈ names, w.reverse ∈ names) :
    makeViewnames names true
      = (makeViewnames names false).filter (fun v => !keyLt (recip v) v) := by
  have hstrict := viewnames_strict_sorted names hn
  have hnd := viewnames_nodup names hn
  have hs1 := viewnames_unique_sublist names
  have hs2 : ((makeViewnames names false).filter (fun v => !keyLt (recip v) v)).Sublist
      (makeViewnames names false) := List.filter_sublist
  refine List.Perm.eq_of_pairwise (le := fun a b => keyLt b a = false) ?_
    ((hstrict.sublist hs1).imp keyLt_asymm) ((hstrict.sublist hs2).imp keyLt_asymm) ?_
  · intro a b _ _ h1 h2
    exact ViewsLemmas.keyLe_antisymm h1 h2
  · rw [List.perm_ext_iff_of_nodup (hs1.nodup hnd) (hs2.nodup hnd)]
    intro v
    rw [viewnames_unique_iff names hn hc v, List.mem_filter, (viewnames_all_pairs names).mem_iff]
    simp

example : makeViewnames [['L'], ['T'], ['L','T'], ['T','L']] true
    = (makeViewnames [['L'], ['T'], ['L','T'], ['T','L']] false).filter
        (fun v => !keyLt (recip v) v) := by decide


/-! ### The views do not depend on the order in which the path names are given

`make_viewnames` receives the keys of a dictionary: the same set of paths listed in any order gives the same views in the
same order, with and without the reciprocity filter. -/

theorem allPairs_perm {a b : List Word} (h : a.Perm b) : (allPairs a).Perm (allPairs b) := by
  unfold allPairs
  exact (List.Perm.flatMap_left a (fun tx _ => h.map (fun rx => (tx, rx)))).trans
    (List.Perm.flatMap_right (fun tx => b.map (fun rx => (tx, rx))) h)

/-- **order independence**: for distinct path names, `make_viewnames` of any rearrangement of the names is the same list -/
theorem viewnames_perm_invariant (names names' : List Word) (hp : names.Perm names') (hn : names.Nodup) (u : Bool) :
    makeViewnames names' u = makeViewnames names u := by
  have hn' : names'.Nodup := hp.nodup_iff.mp hn
  have h0 : makeViewnames names' false = makeViewnames names false :=
    viewnames_unique_order' names (makeViewnames names' false)
      ((viewnames_all_pairs names').trans (allPairs_perm hp.symm)) (viewnames_strict_sorted names' hn')
  cases u with
  | false => exact h0
  | true =>
    have e1 : makeViewnames names' true = filterUnique (makeViewnames names' false) := by simp [makeViewnames]
    have e2 : makeViewnames names true = filterUnique (makeViewnames names false) := by simp [makeViewnames]
    rw [e1, e2, h0]

example : makeViewnames [['T'], ['L','T'], ['L'], ['T','L']] true = makeViewnames [['L'], ['T'], ['L','T'], ['T','L']] true := by decide


/-- an empty selection of paths has no views, with and without the reciprocity filter (the clean code returns `[]`; a version
that unzips its argument first raised on it: seeded change C18-k) -/
theorem viewnames_empty (u : Bool) : makeViewnames [] u = [] := by cases u <;> rfl

/-- a single path gives its single view `X-X`, kept by the filter iff … it is there: one view in both cases -/
theorem viewnames_single (w : Word) (u : Bool) : (makeViewnames [w] u).length = 1 := by
  cases u
  · simp [makeViewnames, allPairs, sortViews, insertView]
  · have h := viewnames_unique_sublist [w]
    have h1 : (makeViewnames [w] false).length = 1 := by simp [makeViewnames, allPairs, sortViews, insertView]
    have hle := h.length_le
    have hpos : 0 < (makeViewnames [w] true).length := by
      have hv : (w, w) ∈ makeViewnames [w] false := by simp [makeViewnames, allPairs, sortViews, insertView]
      rcases unique_covers (makeViewnames [w] false) (w, w) hv with h' | h'
      · have : makeViewnames [w] true = filterUnique (makeViewnames [w] false) := by simp [makeViewnames]
        rw [this]; exact List.length_pos_of_mem h'
      · have : makeViewnames [w] true = filterUnique (makeViewnames [w] false) := by simp [makeViewnames]
        rw [this]; exact List.length_pos_of_mem h'
    omega

end Arim.C18
