import ArimModel.Views
import ArimProofs.Generated.C18Table
/-! # C18 — views and paths mean what their names say; unique views are reciprocity classes -/
namespace Arim.C18
open Arim.Views

/-- **Wiring, re-checked on every run.** Every view that `make_views` returns in /repo (all
immersion and contact set-ups, 0–2 reflections, unique on/off — the table is regenerated from
the implementation's output before each build) transmits along the path named `X`, receives
along the path stored under `reverse Y`, crosses the declared walls with the declared kinds,
flags and materials, and has scattering key `last X ++ first Y`. -/
theorem wired_ok : ∀ e ∈ Arim.C18Gen.table, wellWired e = true := by
  have h := Arim.C18Gen.table_ok
  rw [List.all_eq_true] at h
  exact h

/-- what `wellWired` means for the modes: an immersion path named `w` carries `L :: w`
(the couplant leg is longitudinal), a contact path carries exactly `w` -/
theorem expected_modes (s : Setup) (w : Word) (p : PathSpec) (h : expectedPath s w = some p) :
    p.name = w ∧ p.modes = (match s with | .immersion => 'L' :: w | .contact _ _ _ => w) := by
  unfold expectedPath at h
  split at h
  · simp at h
  · split at h
    all_goals first
      | (cases h; simp)
      | (split at h <;> first | (cases h; simp) | (simp at h))
      | (simp at h)

/-- the reciprocal of the reciprocal view is the view itself -/
theorem recip_involutive (v : VName) : recip (recip v) = v := by
  simp [recip]

/-- reversing an interface twice gives it back (whenever it can be reversed at all) -/
theorem iface_reverse_reverse (i j : Iface) (h : i.reverse = some j) : j.reverse = some i := by
  obtain ⟨pts, kind, tr, ag, inc, out⟩ := i
  cases kind with
  | none => simp [Iface.reverse] at h; subst h; simp [Iface.reverse]
  | some k =>
    cases tr with
    | none => simp [Iface.reverse] at h
    | some t =>
      cases t <;> cases k <;> simp [Iface.reverse, Kind.reverse] at h <;> subst h <;>
        simp [Iface.reverse, Kind.reverse]

theorem mapM_reverse_reverse (is js : List Iface) (h : is.mapM Iface.reverse = some js) :
    js.mapM Iface.reverse = some is := by
  induction is generalizing js with
  | nil => simp at h; subst h; simp
  | cons i is ih =>
    simp only [List.mapM_cons, Option.bind_eq_bind, Option.pure_def] at h
    cases hi : i.reverse with
    | none => simp [hi] at h
    | some j =>
      cases hr : is.mapM Iface.reverse with
      | none => simp [hi, hr] at h
      | some js' =>
        simp [hi, hr] at h
        subst h
        simp [List.mapM_cons, iface_reverse_reverse i j hi, ih js' hr]

theorem mapM_reverse_list (is js : List Iface) (h : is.mapM Iface.reverse = some js) :
    is.reverse.mapM Iface.reverse = some js.reverse := by
  induction is generalizing js with
  | nil => simp at h; subst h; simp
  | cons i is ih =>
    simp only [List.mapM_cons, Option.bind_eq_bind, Option.pure_def] at h
    cases hi : i.reverse with
    | none => simp [hi] at h
    | some j =>
      cases hr : is.mapM Iface.reverse with
      | none => simp [hi, hr] at h
      | some js' =>
        simp [hi, hr] at h
        subst h
        simp [List.mapM_append, ih js' hr, hi]

/-- **Reversing a path twice gives back the same modes, materials and interfaces.** -/
theorem path_reverse_reverse (p q : PathSpec) (h : p.reverse = some q) : q.reverse = some p := by
  unfold PathSpec.reverse at h
  cases hm : p.ifaces.mapM Iface.reverse with
  | none => simp [hm] at h
  | some js =>
    simp [hm] at h
    subst h
    have h1 := mapM_reverse_list p.ifaces js hm
    have h2 := mapM_reverse_reverse _ _ h1
    simp [PathSpec.reverse, h2]

theorem mapM_reverse_pts (is js : List Iface) (h : is.mapM Iface.reverse = some js) :
    js.map (·.pts) = is.map (·.pts) := by
  induction is generalizing js with
  | nil => simp at h; subst h; rfl
  | cons i is ih =>
    simp only [List.mapM_cons, Option.bind_eq_bind, Option.pure_def] at h
    cases hi : i.reverse with
    | none => simp [hi] at h
    | some j =>
      cases hr : is.mapM Iface.reverse with
      | none => simp [hi, hr] at h
      | some js' =>
        simp [hi, hr] at h
        subst h
        have : j.pts = i.pts := by
          unfold Iface.reverse at hi
          split at hi <;> simp at hi <;> subst hi <;> rfl
        simp [this, ih js' hr]

/-- the reversed path carries the modes, materials and walls in the opposite order -/
theorem path_reverse_spec (p q : PathSpec) (h : p.reverse = some q) :
    q.modes = p.modes.reverse ∧ q.mats = p.mats.reverse ∧ q.name = p.name ∧
      q.ifaces.map (·.pts) = (p.ifaces.map (·.pts)).reverse := by
  unfold PathSpec.reverse at h
  cases hm : p.ifaces.mapM Iface.reverse with
  | none => simp [hm] at h
  | some js =>
    simp [hm] at h
    subst h
    refine ⟨rfl, rfl, rfl, ?_⟩
    simp only [List.map_reverse]
    rw [mapM_reverse_pts _ _ hm]

example : wellWired ⟨.immersion, ['L','T'], ['T'],
    ⟨['L','T'], [probeI, immFrontTrans, immBackRefl, gridI], [.couplant, .block, .block], ['L','L','T']⟩,
    ⟨['T'], [probeI, immFrontTrans, gridI], [.couplant, .block], ['L','T']⟩, ['T','T']⟩ = true := by decide
example : makeViewnames [['L'], ['T']] true = [(['L'],['L']), (['L'],['T']), (['T'],['T'])] := by decide

end Arim.C18
