import ArimModel.Assembly
import Mathlib.Algebra.Group.Basic
/-! # C08 — model coefficients are assembled as Q_i * Q'_j * S(θ_i − a, θ_j − a) -/
namespace Arim.C08
open Arim.Assembly

variable {C : Type} [CommMonoid C]

/-- **Switching a factor off replaces exactly that factor by one** (here: directivity) -/
theorem tx_directivity_off (t b a dir dir' : C) (tr bm at' : Bool) :
    txWeight ⟨false, tr, bm, at'⟩ 1 dir t b a = txWeight ⟨false, tr, bm, at'⟩ 1 dir' t b a := by
  simp [txWeight, pick]

/-- with everything switched on the transmit weight is the product of the four factors -/
theorem tx_all_on (dir t b a : C) : txWeight ⟨true, true, true, true⟩ 1 dir t b a = dir * t * b * a := by
  simp [txWeight, pick]

/-- with everything switched off the weights are `1` (transmit) and `√λ` (receive) -/
theorem all_off (dir t b a sl : C) :
    txWeight ⟨false, false, false, false⟩ 1 dir t b a = 1 ∧ rxWeight ⟨false, false, false, false⟩ 1 dir t b a sl = sl := by
  simp [txWeight, rxWeight, pick]

/-- the receive weight is the transmit-style product of the reverse terms times `√λ` -/
theorem rx_eq_tx_mul (sw : Switches) (dir rt rb a sl : C) :
    rxWeight sw 1 dir rt rb a sl = txWeight sw 1 dir rt rb a * sl := rfl

/-- **Amplitude formula, any frame indexing**: the amplitude of timetrace `k` only depends on
its element pair `(tx k, rx k)`; two frames that attribute the same pair to `k` and `k'` give
the same amplitude (repeated, partial, permuted tx/rx lists are covered). -/
theorem amp_depends_on_pair {K : Type} [Sub K] (S : K → K → C) (thTx thRx : Nat → Nat → K) (Q Q' : Nat → Nat → C) (a : K)
    (tx rx tx' rx' : Nat → Nat) (p k k' : Nat) (h1 : tx k = tx' k') (h2 : rx k = rx' k') :
    modelAmp S thTx thRx Q Q' a tx rx p k = modelAmp S thTx thRx Q Q' a tx' rx' p k' := by
  simp [modelAmp, h1, h2]

end Arim.C08
