import ArimModel.Assembly
import ArimProofs.Tie.C08
import ArimProofs.Tie.C03
import ArimProofs.C13
import Mathlib.Algebra.Group.Basic
import Mathlib.Algebra.BigOperators.Group.Finset.Basic
import Mathlib.Algebra.Field.Basic
import Mathlib.Analysis.SpecialFunctions.Trigonometric.Sinc
import Mathlib.Tactic.NormNum
/-! # C08 — model coefficients are assembled as Q_i * Q'_j * S(θ_i − a, θ_j − a)

1. ray weights: product of four switchable factors; one switch = one factor;
2. amplitude formula; re-indexing the frame; rotating the scatterer;
3. sensitivity: mean of the weighted amplitudes; independent of the chunk size;
4. directivity law;
5. non-vacuity examples. -/
namespace Arim.C08
open Arim.Assembly

section seed
variable {C : Type} [CommMonoid C]

/-- **Switching a factor off replaces exactly that factor by one** (here: directivity) -/
theorem tx_directivity_off (t b a dir dir' : C) (tr bm at' : Bool) :
    txWeight ⟨false, tr, bm, at'⟩ 1 dir t b a = txWeight ⟨false, tr, bm, at'⟩ 1 dir' t b a := by
  simp [txWeight, pick]

/-- with everything switched on the transmit weight is the product of the four factors -/
theorem tx_all_on (dir t b a : C) : txWeight ⟨true, true, true, true⟩ 1 dir t b a = dir * t * b * a := by
  simp [txWeight, pick]

/-- with everything switched off the weights are `1` (transmit) and `√λ` (receive) -/
theorem all_off (dir t b a sl : C) :
    txWeight ⟨false, false, false, false⟩ 1 dir t b a = 1 ∧ rxWeight ⟨false, false, false, false⟩ 1 dir t b a sl = sl := by
  simp [txWeight, rxWeight, pick]

/-- the receive weight is the transmit-style product of the reverse terms times `√λ` -/
theorem rx_eq_tx_mul (sw : Switches) (dir rt rb a sl : C) :
    rxWeight sw 1 dir rt rb a sl = txWeight sw 1 dir rt rb a * sl := rfl

/-- **Amplitude formula, any frame indexing**: the amplitude of timetrace `k` only depends on
its element pair `(tx k, rx k)`; two frames that attribute the same pair to `k` and `k'` give
the same amplitude (repeated, partial, permuted tx/rx lists are covered). -/
theorem amp_depends_on_pair {K : Type} [Sub K] (S : K → K → C) (thTx thRx : Nat → Nat → K) (Q Q' : Nat → Nat → C) (a : K)
    (tx rx tx' rx' : Nat → Nat) (p k k' : Nat) (h1 : tx k = tx' k') (h2 : rx k = rx' k') :
    modelAmp S thTx thRx Q Q' a tx rx p k = modelAmp S thTx thRx Q Q' a tx' rx' p k' := by
  simp [modelAmp, h1, h2]

end seed


section weights
variable {C : Type} [CommMonoid C]

/-- **Weights are the product of the four switchable factors** -/
theorem weights_product (sw : Switches) (d t b a : C) :
    txWeight sw 1 d t b a =
      (if sw.directivity then d else 1) * (if sw.transrefl then t else 1) *
      (if sw.beamspread then b else 1) * (if sw.attenuation then a else 1) := rfl

theorem rx_weights_product (sw : Switches) (d t b a sl : C) :
    rxWeight sw 1 d t b a sl =
      (if sw.directivity then d else 1) * (if sw.transrefl then t else 1) *
      (if sw.beamspread then b else 1) * (if sw.attenuation then a else 1) * sl := rfl

/-! switching ONE factor off: the weight no longer depends on that factor … -/
theorem tx_directivity_off' (sw : Switches) (d d' t b a : C) :
    txWeight {sw with directivity := false} 1 d t b a = txWeight {sw with directivity := false} 1 d' t b a := rfl
theorem tx_transrefl_off (sw : Switches) (d t t' b a : C) :
    txWeight {sw with transrefl := false} 1 d t b a = txWeight {sw with transrefl := false} 1 d t' b a := rfl
theorem tx_beamspread_off (sw : Switches) (d t b b' a : C) :
    txWeight {sw with beamspread := false} 1 d t b a = txWeight {sw with beamspread := false} 1 d t b' a := rfl
theorem tx_attenuation_off (sw : Switches) (d t b a a' : C) :
    txWeight {sw with attenuation := false} 1 d t b a = txWeight {sw with attenuation := false} 1 d t b a' := rfl

/-! … and switching it on multiplies by exactly that factor -/
theorem tx_directivity_on (sw : Switches) (d t b a : C) :
    txWeight {sw with directivity := true} 1 d t b a = txWeight {sw with directivity := false} 1 d t b a * d := by
  simp only [txWeight, pick, if_true, Bool.false_eq_true, if_false, one_mul]
  simp only [mul_comm, mul_left_comm]
theorem tx_transrefl_on (sw : Switches) (d t b a : C) :
    txWeight {sw with transrefl := true} 1 d t b a = txWeight {sw with transrefl := false} 1 d t b a * t := by
  simp only [txWeight, pick, if_true, Bool.false_eq_true, if_false, mul_one]
  simp only [mul_comm, mul_left_comm]
theorem tx_beamspread_on (sw : Switches) (d t b a : C) :
    txWeight {sw with beamspread := true} 1 d t b a = txWeight {sw with beamspread := false} 1 d t b a * b := by
  simp only [txWeight, pick, if_true, Bool.false_eq_true, if_false, mul_one]
  simp only [mul_comm, mul_left_comm]
theorem tx_attenuation_on (sw : Switches) (d t b a : C) :
    txWeight {sw with attenuation := true} 1 d t b a = txWeight {sw with attenuation := false} 1 d t b a * a := by
  simp only [txWeight, pick, if_true, Bool.false_eq_true, if_false, mul_one]


/-- uniform statement: every factor enters the weight as `1` (off) or itself (on), e.g. for the beam spread
    the weight is the weight without it times `pick`; the four of them at once -/
theorem tx_factor_split (sw : Switches) (d t b a : C) :
    txWeight sw 1 d t b a = txWeight {sw with directivity := false} 1 d t b a * pick sw.directivity d 1 ∧
    txWeight sw 1 d t b a = txWeight {sw with transrefl := false} 1 d t b a * pick sw.transrefl t 1 ∧
    txWeight sw 1 d t b a = txWeight {sw with beamspread := false} 1 d t b a * pick sw.beamspread b 1 ∧
    txWeight sw 1 d t b a = txWeight {sw with attenuation := false} 1 d t b a * pick sw.attenuation a 1 := by
  refine ⟨?_, ?_, ?_, ?_⟩ <;>
    simp only [txWeight, pick, Bool.false_eq_true, if_false, one_mul, mul_one] <;>
    simp only [mul_comm, mul_left_comm]

/-! the same for the receive weight (with its trailing `√λ`) -/
theorem rx_directivity_off (sw : Switches) (d d' t b a sl : C) :
    rxWeight {sw with directivity := false} 1 d t b a sl = rxWeight {sw with directivity := false} 1 d' t b a sl := rfl
theorem rx_transrefl_off (sw : Switches) (d t t' b a sl : C) :
    rxWeight {sw with transrefl := false} 1 d t b a sl = rxWeight {sw with transrefl := false} 1 d t' b a sl := rfl
theorem rx_beamspread_off (sw : Switches) (d t b b' a sl : C) :
    rxWeight {sw with beamspread := false} 1 d t b a sl = rxWeight {sw with beamspread := false} 1 d t b' a sl := rfl
theorem rx_attenuation_off (sw : Switches) (d t b a a' sl : C) :
    rxWeight {sw with attenuation := false} 1 d t b a sl = rxWeight {sw with attenuation := false} 1 d t b a' sl := rfl

theorem rx_directivity_on (sw : Switches) (d t b a sl : C) :
    rxWeight {sw with directivity := true} 1 d t b a sl = rxWeight {sw with directivity := false} 1 d t b a sl * d := by
  rw [rx_eq_tx_mul, rx_eq_tx_mul, tx_directivity_on, mul_right_comm]
theorem rx_transrefl_on (sw : Switches) (d t b a sl : C) :
    rxWeight {sw with transrefl := true} 1 d t b a sl = rxWeight {sw with transrefl := false} 1 d t b a sl * t := by
  rw [rx_eq_tx_mul, rx_eq_tx_mul, tx_transrefl_on, mul_right_comm]
theorem rx_beamspread_on (sw : Switches) (d t b a sl : C) :
    rxWeight {sw with beamspread := true} 1 d t b a sl = rxWeight {sw with beamspread := false} 1 d t b a sl * b := by
  rw [rx_eq_tx_mul, rx_eq_tx_mul, tx_beamspread_on, mul_right_comm]
theorem rx_attenuation_on (sw : Switches) (d t b a sl : C) :
    rxWeight {sw with attenuation := true} 1 d t b a sl = rxWeight {sw with attenuation := false} 1 d t b a sl * a := by
  rw [rx_eq_tx_mul, rx_eq_tx_mul, tx_attenuation_on, mul_right_comm]

end weights

section amp
variable {C : Type} [Mul C]

/-- **Amplitude formula** `P_ij = S(θ_i − a, θ_j − a) · Q_i · Q'_j` -/
theorem amp_formula {K : Type} [Sub K] (S : K → K → C) (thTx thRx : Nat → Nat → K) (Q Q' : Nat → Nat → C) (a : K)
    (tx rx : Nat → Nat) (p k : Nat) :
    modelAmp S thTx thRx Q Q' a tx rx p k =
      S (thTx p (tx k) - a) (thRx p (rx k) - a) * Q p (tx k) * Q' p (rx k) := rfl

/-- **Permuting (or in any way re-indexing) the frame re-indexes the amplitudes the same way** -/
theorem amp_perm {K : Type} [Sub K] (S : K → K → C) (thTx thRx : Nat → Nat → K) (Q Q' : Nat → Nat → C) (a : K)
    (tx rx : Nat → Nat) (σ : Nat → Nat) (p k : Nat) :
    modelAmp S thTx thRx Q Q' a (tx ∘ σ) (rx ∘ σ) p k = modelAmp S thTx thRx Q Q' a tx rx p (σ k) := rfl

/-- **Rotating the scatterer by `a`** is evaluating the scattering function at shifted angles -/
theorem amp_rotation {K : Type} [SubtractionMonoid K] (S : K → K → C) (thTx thRx : Nat → Nat → K) (Q Q' : Nat → Nat → C)
    (a : K) (tx rx : Nat → Nat) (p k : Nat) :
    modelAmp S thTx thRx Q Q' a tx rx p k =
      modelAmp (fun x y => S (x - a) (y - a)) thTx thRx Q Q' 0 tx rx p k := by
  simp only [modelAmp, sub_zero]

/-- two successive rotations compose additively -/
theorem amp_rotation_add {K : Type} [AddCommGroup K] (S : K → K → C) (thTx thRx : Nat → Nat → K) (Q Q' : Nat → Nat → C)
    (a b : K) (tx rx : Nat → Nat) (p k : Nat) :
    modelAmp (fun x y => S (x - a) (y - a)) thTx thRx Q Q' b tx rx p k =
      modelAmp S thTx thRx Q Q' (a + b) tx rx p k := by
  simp only [modelAmp, sub_sub, add_comm a b]

end amp

section sens
variable {C : Type}

theorem foldl_range_eq_sum [AddCommMonoid C] (f : Nat → C) (N : Nat) :
    (List.range N).foldl (fun acc k => acc + f k) 0 = ∑ k ∈ Finset.range N, f k := by
  induction N with
  | zero => simp
  | succ n ih => rw [List.range_succ, List.foldl_append, ih, Finset.sum_range_succ]; rfl

/-- **Sensitivity = mean of the weighted amplitudes** -/
theorem sensitivity_eq_sum [Field C] (w : Nat → C) (P : Nat → Nat → C) (N p : Nat) :
    sensitivityUniform 0 (fun x (n : Nat) => x / (n : C)) w P N p = (∑ k ∈ Finset.range N, w k * P p k) / (N : C) := by
  unfold sensitivityUniform
  rw [foldl_range_eq_sum (fun k => w k * P p k)]

/-- the same for any division-by-count routine over a semiring -/
theorem sensitivity_eq_sum' [NonUnitalNonAssocSemiring C] (divN : C → Nat → C) (w : Nat → C) (P : Nat → Nat → C) (N p : Nat) :
    sensitivityUniform 0 divN w P N p = divN (∑ k ∈ Finset.range N, w k * P p k) N := by
  unfold sensitivityUniform
  rw [foldl_range_eq_sum (fun k => w k * P p k)]

theorem filter_range_eq (n a : Nat) :
    (List.range n).filter (fun c => decide (c = a)) = if a < n then [a] else [] := by
  induction n with
  | zero => simp
  | succ n ih =>
    rw [List.range_succ, List.filter_append, ih]
    by_cases h1 : a < n
    · have : n ≠ a := by omega
      simp [h1, this]; omega
    · by_cases h2 : a = n
      · subst h2; simp
      · have h3 : ¬ a < n + 1 := by omega
        have : n ≠ a := by omega
        simp [h1, h3, this]

/-- the chunk test of the model is membership in the `c`-th slice of `chunk_array` -/
theorem chunk_test_iff (block numpoints p c : Nat) (hb : 0 < block) (hp : p < numpoints) :
    (decide (c * block ≤ p) && decide (p < min ((c + 1) * block) numpoints)) = decide (c = p / block) := by
  have h := Arim.C13.chunk_partition numpoints block p c hb hp
  unfold Arim.chunk Arim.owner at h
  simp only at h
  rw [Bool.eq_iff_iff]
  simp only [Bool.and_eq_true, decide_eq_true_eq]
  rw [← h]
  have : min (c * block) numpoints ≤ p ↔ c * block ≤ p := by omega
  rw [this]

/-- **Exactly one chunk owns the point**: the list of chunks passing the test is `[p / block]` -/
theorem owning_chunks (block numpoints p : Nat) (hb : 0 < block) (hp : p < numpoints) :
    (List.range ((numpoints + block - 1) / block)).filter
      (fun c => decide (c * block ≤ p) && decide (p < min ((c + 1) * block) numpoints)) = [p / block] := by
  have : (fun c => decide (c * block ≤ p) && decide (p < min ((c + 1) * block) numpoints))
      = (fun c => decide (c = p / block)) := by
    funext c; exact chunk_test_iff block numpoints p c hb hp
  rw [this, filter_range_eq]
  have := Arim.C13.owner_lt numpoints block p hb hp
  unfold Arim.owner Arim.numChunks Arim.ceilDiv at this
  rw [if_pos this]

variable [Mul C] [Add C]

/-- **Chunk-size independence of the sensitivity** -/
theorem sensitivity_chunk_indep (zero : C) (divN : C → Nat → C) (w : Nat → C) (P : Nat → Nat → C) (N : Nat)
    (block numpoints p : Nat) (hb : 1 ≤ block) (hp : p < numpoints) :
    sensitivityChunked zero divN w P N block numpoints p = some (sensitivityUniform zero divN w P N p) := by
  unfold sensitivityChunked
  simp only
  rw [owning_chunks block numpoints p hb hp]
  rfl

/-- a point outside the grid is computed by no chunk -/
theorem sensitivity_chunk_none (zero : C) (divN : C → Nat → C) (w : Nat → C) (P : Nat → Nat → C) (N : Nat)
    (block numpoints p : Nat) (hp : numpoints ≤ p) :
    sensitivityChunked zero divN w P N block numpoints p = none := by
  unfold sensitivityChunked
  simp only
  have : (List.range ((numpoints + block - 1) / block)).filter
      (fun c => decide (c * block ≤ p) && decide (p < min ((c + 1) * block) numpoints)) = [] := by
    rw [List.filter_eq_nil_iff]
    intro c _
    simp only [Bool.and_eq_true, decide_eq_true_eq, not_and]
    intro _
    omega
  rw [this]
  rfl

/-- two block sizes give the same sensitivity image -/
theorem sensitivity_chunk_indep' (zero : C) (divN : C → Nat → C) (w : Nat → C) (P : Nat → Nat → C) (N : Nat)
    (block block' numpoints p : Nat) (hb : 1 ≤ block) (hb' : 1 ≤ block') :
    sensitivityChunked zero divN w P N block numpoints p = sensitivityChunked zero divN w P N block' numpoints p := by
  by_cases hp : p < numpoints
  · rw [sensitivity_chunk_indep _ _ _ _ _ _ _ _ hb hp, sensitivity_chunk_indep _ _ _ _ _ _ _ _ hb' hp]
  · rw [sensitivity_chunk_none _ _ _ _ _ _ _ _ (by omega), sensitivity_chunk_none _ _ _ _ _ _ _ _ (by omega)]

end sens

section dir
/-- **Directivity law** `sinc(a sinθ / λ)` -/
theorem directivity_law {K : Type} [Mul K] [Div K] (sinc sin : K → K) (w θ lam : K) :
    directivity sinc sin w θ lam = sinc ((w / lam) * sin θ) := rfl

/-- at normal exit the directivity is one -/
theorem directivity_normal {K : Type} [MulZeroClass K] [Div K] [One K] (sinc sin : K → K) (h0 : sin 0 = 0) (h1 : sinc 0 = 1)
    (w lam : K) : directivity sinc sin w 0 lam = 1 := by
  rw [directivity_law, h0, mul_zero, h1]

theorem directivity_normal_real (sinc : ℝ → ℝ) (h1 : sinc 0 = 1) (w lam : ℝ) :
    directivity sinc Real.sin w 0 lam = 1 :=
  directivity_normal sinc Real.sin Real.sin_zero h1 w lam

/-- with NumPy's normalised `sinc(x) = sin(πx)/(πx)` -/
theorem directivity_normal_npsinc (w lam : ℝ) :
    directivity (fun x => Real.sinc (Real.pi * x)) Real.sin w 0 lam = 1 :=
  directivity_normal_real _ (by simp) w lam

/-! ### the directivity of the code as translated on this run (`Generated/SrcC08.lean`, `Tie/C08.lean`) -/
open Arim.Tie.C08 in
/-- the routines of the translated code at `K = ℝ`, with NumPy's normalised `sinc` -/
noncomputable def srcOps : Src.Ops ℝ :=
  { sin := Real.sin, cos := Real.cos, asin := Real.arcsin, sqrt := Real.sqrt, exp := Real.exp,
    sinc := fun x => Real.sinc (Real.pi * x),
    pi := Real.pi, ofNat := fun n => (n : ℝ), ofInt := fun z => (z : ℝ),
    floor := fun x => ⌊x⌋, round := fun x => round x, trunc := fun x => ⌊x⌋ }

open Arim.Tie.C08 in
/-- **directivity law, translated code**: for a non-negative width and wavelength the function returns
`sinc(π · (a/λ) sin θ)`; it raises otherwise -/
theorem src_directivity_law (θ w lam : ℝ) (hw : 0 ≤ w) (hl : 0 ≤ lam) :
    Src.directivity_2d_rectangular_in_fluid srcOps θ w lam = some (Real.sinc (Real.pi * ((w / lam) * Real.sin θ))) := by
  rw [tie_directivity_ok srcOps θ w lam (by simpa [srcOps] using hw) (by simpa [srcOps] using hl)]
  rfl

open Arim.Tie.C08 in
/-- a negative element width or wavelength is rejected (translated code) -/
theorem src_directivity_rejects (θ w lam : ℝ) (h : w < 0 ∨ lam < 0) :
    Src.directivity_2d_rectangular_in_fluid srcOps θ w lam = none := by
  rw [tie_directivity]
  rcases h with h | h
  · rw [if_pos (by simpa [srcOps] using h)]
  · by_cases hw : w < srcOps.ofNat 0
    · rw [if_pos hw]
    · rw [if_neg hw, if_pos (by simpa [srcOps] using h)]

open Arim.Tie.C08 in
/-- at normal exit the translated directivity is one -/
theorem src_directivity_normal (w lam : ℝ) (hw : 0 ≤ w) (hl : 0 ≤ lam) :
    Src.directivity_2d_rectangular_in_fluid srcOps 0 w lam = some 1 := by
  rw [src_directivity_law 0 w lam hw hl]; simp
end dir


/-! ## non-vacuity -/
section examples

example : txWeight (C := ℚ) ⟨true, false, true, true⟩ 1 2 3 5 7 = 2 * 5 * 7 := by
  rw [weights_product]; norm_num
example : rxWeight (C := ℚ) ⟨true, true, false, true⟩ 1 2 3 5 7 11 = 2 * 3 * 7 * 11 := by
  rw [rx_weights_product]; norm_num
example : txWeight (C := ℚ) ⟨true, true, true, true⟩ 1 2 3 5 7 = txWeight ⟨true, true, false, true⟩ 1 2 3 5 7 * 5 :=
  tx_beamspread_on ⟨true, true, true, true⟩ 2 3 5 7

/-- an HMC-like frame of 3 timetraces on 2 elements, reversed by `σ k = 2 - k` -/
def exS : ℚ → ℚ → ℚ := fun x y => x + 2 * y
def exThTx : Nat → Nat → ℚ := fun p i => p + i
def exThRx : Nat → Nat → ℚ := fun p j => p * j
def exQ : Nat → Nat → ℚ := fun _ i => i + 1
def exQ' : Nat → Nat → ℚ := fun _ j => j + 2
def exTx : Nat → Nat := fun k => [0, 0, 1].getD k 0
def exRx : Nat → Nat := fun k => [0, 1, 1].getD k 0

example : modelAmp exS exThTx exThRx exQ exQ' 1 (exTx ∘ (fun k => 2 - k)) (exRx ∘ (fun k => 2 - k)) 3 0 =
    modelAmp exS exThTx exThRx exQ exQ' 1 exTx exRx 3 2 := amp_perm _ _ _ _ _ _ _ _ _ _ _
/-- timetrace 2 is the pair (1,1): `S(3+1−1, 3·1−1) · Q[3,1] · Q'[3,1] = (3 + 2·2) · 2 · 3 = 42` -/
example : modelAmp exS exThTx exThRx exQ exQ' 1 exTx exRx 3 2 = 42 := by
  rw [amp_formula]; norm_num [exS, exThTx, exThRx, exQ, exQ', exTx, exRx]
example : modelAmp exS exThTx exThRx exQ exQ' 1 exTx exRx 3 2 =
    modelAmp (fun x y => exS (x - 1) (y - 1)) exThTx exThRx exQ exQ' 0 exTx exRx 3 2 := amp_rotation _ _ _ _ _ _ _ _ _ _

example : sensitivityUniform (C := ℚ) 0 (fun x (n : Nat) => x / (n : ℚ)) (fun _ => 2) (fun p k => p + k) 3 1 = 4 := by
  rw [sensitivity_eq_sum]; simp [Finset.sum_range_succ]; norm_num

/-- 7 points in blocks of 3 (chunks `[0,3) [3,6) [6,7)`): point 6 is computed, by the last, partial chunk -/
example : sensitivityChunked (C := ℚ) 0 (fun x (n : Nat) => x / (n : ℚ)) (fun _ => 2) (fun p k => p + k) 3 3 7 6 =
    some (sensitivityUniform 0 (fun x (n : Nat) => x / (n : ℚ)) (fun _ => 2) (fun p k => p + k) 3 6) :=
  sensitivity_chunk_indep _ _ _ _ _ _ _ _ (by decide) (by decide)
example : (List.range ((7 + 3 - 1) / 3)).filter
      (fun c => decide (c * 3 ≤ 6) && decide (6 < min ((c + 1) * 3) 7)) = [2] := by decide
example : sensitivityChunked (C := ℚ) 0 (fun x (n : Nat) => x / (n : ℚ)) (fun _ => 2) (fun p k => p + k) 3 3 7 7 = none :=
  sensitivity_chunk_none _ _ _ _ _ _ _ _ (by decide)

example : directivity (fun x => Real.sinc (Real.pi * x)) Real.sin 0.5 0 1.2 = 1 := directivity_normal_npsinc _ _

end examples

/-! ## The ray weights as the source assembles them on this run (`Generated/SrcC03.lean`, `Tie/C03.lean`) -/
section OnSourceWeights
open Arim.Tie.C03
variable {C : Type} [CommMonoid C]

/-- **every subset of switches, transmit side**: the weight is the product of exactly the enabled factors — directivity,
forward transmission-reflection in displacement units, forward beamspread, attenuation — whatever the other fields hold -/
theorem src_tx_weights_product (d b t a : Bool) (f : Arim.SrcC03.Factors C) :
    Arim.SrcC03.tx_ray_weights d b t a 1 f =
      (if d then f.directivity else 1) * (if t then f.transrefl_fwd_displacement else 1) *
      (if b then f.beamspread_fwd else 1) * (if a then f.attenuation else 1) := rfl

/-- **every subset of switches, receive side**: the reverse terms, times `sqrt(lambda)` of the last mode in every case -/
theorem src_rx_weights_product (d b t a : Bool) (f : Arim.SrcC03.Factors C) :
    Arim.SrcC03.rx_ray_weights d b t a 1 f =
      (if d then f.directivity else 1) * (if t then f.transrefl_rev_displacement else 1) *
      (if b then f.beamspread_rev else 1) * (if a then f.attenuation else 1) * f.sqrt_lambda_last_mode := rfl

/-- a switched-off factor does not influence the weight (here attenuation, the slip of a copied guard) -/
theorem src_attenuation_off (d b t : Bool) (f g : Arim.SrcC03.Factors C)
    (h1 : f.directivity = g.directivity) (h2 : f.transrefl_fwd_displacement = g.transrefl_fwd_displacement)
    (h3 : f.beamspread_fwd = g.beamspread_fwd) :
    Arim.SrcC03.tx_ray_weights d b t false 1 f = Arim.SrcC03.tx_ray_weights d b t false 1 g := by
  simp [src_tx_weights_product, h1, h2, h3]

/-- ... and a switched-on one does: with attenuation on, the weight carries the attenuation factor -/
theorem src_attenuation_on (d b t : Bool) (f : Arim.SrcC03.Factors C) :
    Arim.SrcC03.tx_ray_weights d b t true 1 f = Arim.SrcC03.tx_ray_weights d b t false 1 f * f.attenuation := by
  simp [src_tx_weights_product]

end OnSourceWeights

end Arim.C08
