import ArimModel.ScatMat
import ArimProofs.Tie.C10
import ArimProofs.Lemmas.ScatMat
import Mathlib.Analysis.SpecialFunctions.Trigonometric.Basic
import Mathlib.Analysis.SpecialFunctions.Complex.Log
import Mathlib.Algebra.BigOperators.Group.Finset.Basic
import Mathlib.Algebra.Order.Floor.Ring
import Mathlib.Data.Rat.Floor
import Mathlib.Tactic.FieldSimp
import Mathlib.Tactic.Ring
import Mathlib.Tactic.Positivity
import Mathlib.Tactic.Linarith
import Mathlib.Tactic.LinearCombination
import Mathlib.Tactic.NormNum
/-! # C10 — scattering matrices faithfully represent, interpolate and rotate the functions -/
namespace Arim.C10
open Arim.ScatMat Arim.ScatMatLemmas
open Complex Finset
open scoped Real

/-- the matrix holds at `[j][i]` the function value for incident angle `θ_i` and scattered
angle `θ_j` -/
theorem asMatrix_entry {K : Type} [Add K] [Sub K] [Mul K] [Div K] [Neg K]
    (o : FOps K) (pi : K) (n : Nat) (f : K → K → K) (j i : Nat) :
    asMatrix o pi n f j i = f (angle o pi n i) (angle o pi n j) := rfl

noncomputable section
/-- inverse DFT evaluated at an integer (periodically extended) sample index -/
def idft (X : ℕ → ℂ) (n : ℕ) (j : ℤ) : ℂ :=
  (n : ℂ)⁻¹ * ∑ k ∈ range n, X k * exp (2 * π * I * (j * k / n))

/-- **DFT shift theorem**: multiplying bin `k` by `e^{-2πi k m/n}` delays the signal by `m`
samples (this is what `rotate_matrix` does along each axis for `φ = 2πm/n`) -/
theorem idft_shift (X : ℕ → ℂ) (n : ℕ) (j m : ℤ) :
    idft (fun k => X k * exp (-(2 * π * I * (m * k / n)))) n j = idft X n (j - m) := by
  unfold idft
  congr 1
  apply sum_congr rfl
  intro k _
  rw [mul_assoc, ← exp_add]
  congr 2
  push_cast
  ring

/-- the back-transform is `n`-periodic, so the delay is a circular shift of the indices -/
theorem idft_periodic (X : ℕ → ℂ) (n : ℕ) (hn : n ≠ 0) (j : ℤ) :
    idft X n (j + n) = idft X n j := by
  unfold idft
  congr 1
  apply sum_congr rfl
  intro k _
  congr 1
  have hn' : (n : ℂ) ≠ 0 := by exact_mod_cast hn
  have : 2 * π * I * (((j + n : ℤ) : ℂ) * k / n) = 2 * π * I * (j * k / n) + (k : ℤ) * (2 * π * I) := by
    push_cast
    field_simp
  rw [this, exp_add, exp_int_mul_two_pi_mul_I, mul_one]

/-- periodicity over any number of periods -/
theorem idft_add_mul (X : ℕ → ℂ) (n : ℕ) (hn : n ≠ 0) (j q : ℤ) :
    idft X n (j + n * q) = idft X n j := by
  unfold idft
  congr 1
  apply sum_congr rfl
  intro k _
  congr 1
  have hn' : (n : ℂ) ≠ 0 := by exact_mod_cast hn
  have : 2 * π * I * (((j + n * q : ℤ) : ℂ) * k / n) = 2 * π * I * (j * k / n) + ((q * k : ℤ)) * (2 * π * I) := by
    push_cast
    field_simp
  rw [this, exp_add, exp_int_mul_two_pi_mul_I, mul_one]

/-- the sample index only matters modulo `n` -/
theorem idft_emod (X : ℕ → ℂ) (n : ℕ) (hn : n ≠ 0) (j : ℤ) :
    idft X n (j % n) = idft X n j := by
  conv_rhs => rw [← Int.emod_add_mul_ediv j n]
  rw [idft_add_mul X n hn]

/-- linearity of the back-transform -/
theorem idft_const_mul (c : ℂ) (X : ℕ → ℂ) (n : ℕ) (j : ℤ) :
    idft (fun k => c * X k) n j = c * idft X n j := by
  unfold idft
  simp only [mul_sum]
  apply sum_congr rfl
  intro k _
  ring

/-- 2-D inverse DFT: `idft` along the second index, then along the first -/
def idft2 (X : ℕ → ℕ → ℂ) (n : ℕ) (a b : ℤ) : ℂ :=
  idft (fun k₁ => idft (fun k₂ => X k₁ k₂) n b) n a

/-- **2-D shift theorem**: multiplying bin `(k₁, k₂)` by `e^{-2πi (k₁ + k₂) m/n}` (the
`freqshift` of `rotate_matrix` for `φ = 2πm/n`, see `freqshift_eq`) shifts both indices of the
back-transformed matrix by `m` -/
theorem idft2_shift (X : ℕ → ℕ → ℂ) (n : ℕ) (a b m : ℤ) :
    idft2 (fun k₁ k₂ => X k₁ k₂ * exp (-(2 * π * I * (m * k₁ / n))) * exp (-(2 * π * I * (m * k₂ / n))))
      n a b = idft2 X n (a - m) (b - m) := by
  unfold idft2
  rw [← idft_shift]
  congr 1
  funext k₁
  rw [← idft_shift, mul_comm (idft _ n b), ← idft_const_mul]
  congr 1
  funext k₂
  ring

/-- the 2-D back-transform is `n`-periodic in both indices -/
theorem idft2_periodic (X : ℕ → ℕ → ℂ) (n : ℕ) (hn : n ≠ 0) (a b : ℤ) :
    idft2 X n (a + n) b = idft2 X n a b ∧ idft2 X n a (b + n) = idft2 X n a b := by
  unfold idft2
  refine ⟨idft_periodic _ n hn a, ?_⟩
  congr 1
  funext k₁
  exact idft_periodic _ n hn b

/-- both indices of the 2-D back-transform only matter modulo `n` -/
theorem idft2_emod (X : ℕ → ℕ → ℂ) (n : ℕ) (hn : n ≠ 0) (a b : ℤ) :
    idft2 X n (a % n) (b % n) = idft2 X n a b := by
  unfold idft2
  rw [idft_emod _ n hn a]
  congr 1
  funext k₁
  exact idft_emod _ n hn b

/-- **DFT inversion** (`ifft (fft x) = x`), by orthogonality of the `n`-th roots of unity -/
theorem idft_dft (x : ℕ → ℂ) (n : ℕ) (j : ℕ) (hj : j < n) :
    idft (fun k => ∑ l ∈ range n, x l * exp (-(2 * π * I * (l * k / n)))) n j = x j := by
  have hn : n ≠ 0 := by omega
  have hn' : (n : ℂ) ≠ 0 := by exact_mod_cast hn
  unfold idft
  simp_rw [sum_mul]
  rw [sum_comm]
  have : ∀ l ∈ range n, ∑ k ∈ range n, x l * exp (-(2 * π * I * (l * k / n))) * exp (2 * π * I * ((j : ℤ) * k / n))
      = if l = j then x j * n else 0 := by
    intro l hl
    have hl' : l < n := mem_range.1 hl
    have e : ∀ k : ℕ, x l * exp (-(2 * π * I * (l * k / n))) * exp (2 * π * I * ((j : ℤ) * k / n))
        = x l * exp (2 * π * I * (((j - l : ℤ) : ℂ) * k / n)) := by
      intro k
      rw [mul_assoc, ← exp_add]
      congr 2
      push_cast
      ring
    simp_rw [e, ← mul_sum]
    split_ifs with h
    · subst h
      simp
    · rw [sum_exp_eq_zero n _ _ hn, mul_zero]
      intro hdvd
      have := Int.eq_zero_of_abs_lt_dvd hdvd (by rw [abs_lt]; omega)
      omega
  rw [sum_congr rfl this, sum_ite_eq' (range n) j, if_pos (mem_range.2 hj)]
  field_simp

/-- linearity of the back-transform (constant on the right) -/
theorem idft_mul_const (c : ℂ) (X : ℕ → ℂ) (n : ℕ) (j : ℤ) :
    idft (fun k => X k * c) n j = idft X n j * c := by
  rw [mul_comm, ← idft_const_mul]
  congr 1
  funext k
  ring

/-- linearity of the back-transform (finite sums) -/
theorem idft_sum {ι : Type} (s : Finset ι) (Y : ι → ℕ → ℂ) (n : ℕ) (j : ℤ) :
    idft (fun k => ∑ a ∈ s, Y a k) n j = ∑ a ∈ s, idft (Y a) n j := by
  unfold idft
  simp_rw [sum_mul]
  rw [sum_comm, mul_sum]

/-- forward DFT (`numpy.fft.fft`) -/
def dft (x : ℕ → ℂ) (n : ℕ) (k : ℕ) : ℂ :=
  ∑ l ∈ range n, x l * exp (-(2 * π * I * (l * k / n)))

/-- 2-D forward DFT (`numpy.fft.fft2`): along the second index, then along the first -/
def dft2 (M : ℕ → ℕ → ℂ) (n : ℕ) (k₁ k₂ : ℕ) : ℂ :=
  dft (fun a => dft (fun b => M a b) n k₂) n k₁

/-- DFT inversion, stated with `dft` -/
theorem idft_comp_dft (x : ℕ → ℂ) (n : ℕ) (j : ℕ) (hj : j < n) : idft (dft x n) n j = x j :=
  idft_dft x n j hj

/-- **2-D DFT inversion** (`ifft2 (fft2 M) = M`) -/
theorem idft2_dft2 (M : ℕ → ℕ → ℂ) (n : ℕ) (a b : ℕ) (ha : a < n) (hb : b < n) :
    idft2 (dft2 M n) n a b = M a b := by
  unfold idft2
  have : ∀ k₁ : ℕ, idft (fun k₂ => dft2 M n k₁ k₂) n b = dft (fun a => M a b) n k₁ := by
    intro k₁
    unfold dft2
    conv_lhs => unfold dft
    rw [idft_sum]
    conv_rhs => unfold dft
    apply sum_congr rfl
    intro l _
    rw [idft_mul_const]
    congr 1
    exact idft_dft _ n b hb
  simp_rw [this]
  exact idft_dft _ n a ha

/-- **rotation by `m` grid steps through the DFT** (`rotate_matrix(M, 2πm/n)`): transforming,
multiplying bin `(k₁, k₂)` by `e^{-2πi (k₁+k₂) m/n}` and transforming back shifts both indices
circularly by `m` -/
theorem rotate_shift (M : ℕ → ℕ → ℂ) (n : ℕ) (m : ℤ) (j i : ℕ) (hj : j < n) (hi : i < n) :
    idft2 (fun k₁ k₂ => dft2 M n k₁ k₂ * exp (-(2 * π * I * (m * k₁ / n)))
        * exp (-(2 * π * I * (m * k₂ / n)))) n j i = rotateShift n M m j i := by
  have hn : n ≠ 0 := by omega
  have hnz : (0:ℤ) < n := by exact_mod_cast Nat.pos_of_ne_zero hn
  rw [idft2_shift, ← idft2_emod _ n hn]
  have h1 := Int.emod_nonneg ((j:ℤ) - m) hnz.ne'
  have h2 := Int.emod_nonneg ((i:ℤ) - m) hnz.ne'
  have h1' := Int.emod_lt_of_pos ((j:ℤ) - m) hnz
  have h2' := Int.emod_lt_of_pos ((i:ℤ) - m) hnz
  rw [← Int.toNat_of_nonneg h1, ← Int.toNat_of_nonneg h2]
  rw [idft2_dft2 M n _ _ (by omega) (by omega)]
  rfl

/-- index of bin `k` in `numpy.fft.fftfreq(n, d)·(n d)`: bins in the upper half are aliased
to negative frequencies -/
def fftfreqIdx (n k : ℕ) : ℤ := if 2 * k < n then k else (k : ℤ) - n

/-- the phase factor `freqshift[k₁,k₂] = exp(-2πi (freq[k₁] + freq[k₂]) φ)` of `rotate_matrix`,
with `freq = fftfreq(n, 2π/n)` (so `freq[k] = fftfreqIdx n k / 2π`) and `φ = 2π m / n`, is the
product of the two factors of `idft2_shift` / `rotate_shift`: the aliasing is invisible -/
theorem freqshift_eq (n : ℕ) (hn : n ≠ 0) (m : ℤ) (k₁ k₂ : ℕ) :
    exp (-(2 * π * I * (((fftfreqIdx n k₁ : ℂ) / (2 * π) + (fftfreqIdx n k₂ : ℂ) / (2 * π))
        * (2 * π * m / n)))) =
      exp (-(2 * π * I * (m * k₁ / n))) * exp (-(2 * π * I * (m * k₂ / n))) := by
  have hn' : (n : ℂ) ≠ 0 := by exact_mod_cast hn
  have hpi : (π : ℂ) ≠ 0 := by exact_mod_cast Real.pi_ne_zero
  have key : ∀ k : ℕ, ∃ q : ℤ, (fftfreqIdx n k : ℂ) = k + q * n := by
    intro k
    unfold fftfreqIdx
    split_ifs
    · exact ⟨0, by simp⟩
    · exact ⟨-1, by push_cast; ring⟩
  obtain ⟨q₁, h₁⟩ := key k₁
  obtain ⟨q₂, h₂⟩ := key k₂
  rw [← exp_add, h₁, h₂]
  have : -(2 * π * I * ((((k₁ : ℂ) + q₁ * n) / (2 * π) + ((k₂ : ℂ) + q₂ * n) / (2 * π)) * (2 * π * m / n)))
      = -(2 * π * I * (m * k₁ / n)) + -(2 * π * I * (m * k₂ / n)) + ((-(q₁ + q₂) * m : ℤ) : ℂ) * (2 * π * I) := by
    push_cast
    field_simp
    ring
  rw [this, exp_add (_ + _), exp_int_mul_two_pi_mul_I, mul_one]
end

/-! ## The angle grid and the bilinear interpolation kernel -/

section grid
variable {K : Type} [Field K] [LinearOrder K] [IsStrictOrderedRing K] [FloorRing K]

/-- exact floor and integer embedding of a floor ring -/
def stdF : FOps K := { floor := Int.floor, ofInt := fun z => (z : K) }

/-- with exact arithmetic the grid index is `⌊x⌋ mod n` and the fraction is the fractional
part of `x = (θ + π)/dθ` -/
theorem cell_eq_floor_fract (pi : K) (hpi : 0 < pi) (n : ℕ) (hn : 1 ≤ n) (θ : K) :
    cell stdF pi n θ = ((⌊(θ + pi) / (2 * pi / n)⌋ % (n : ℤ)).toNat, Int.fract ((θ + pi) / (2 * pi / n))) := by
  have hn' : (0:K) < n := by exact_mod_cast hn
  have hd : (2 * pi / (n:K)) ≠ 0 := by positivity
  simp only [cell, fdiv, fmod, stdF, Int.cast_ofNat, Int.cast_natCast]
  congr 1
  rw [Int.fract]
  field_simp

omit [IsStrictOrderedRing K] in
/-- `θ_i = -π + i·dθ` -/
theorem angle_std (pi : K) (n i : ℕ) : angle stdF pi n i = -pi + i * (2 * pi / n) := by
  simp only [angle, stdF, Int.cast_natCast]
  ring

/-- **the cell of an arbitrary angle** (`interp_idx_range`): the index is always in range, the
fraction is in `[0, 1)`, and `θ = θ_i + f·dθ + 2πq` for an integer `q` — also for negative
angles and angles several periods away -/
theorem cell_spec (pi : K) (hpi : 0 < pi) (n : ℕ) (hn : 1 ≤ n) (θ : K) :
    (cell stdF pi n θ).1 < n ∧ 0 ≤ (cell stdF pi n θ).2 ∧ (cell stdF pi n θ).2 < 1 ∧
    ∃ q : ℤ, θ + pi = 2 * pi / n * (q * n + (cell stdF pi n θ).1 + (cell stdF pi n θ).2) := by
  have hn' : (0:K) < n := by exact_mod_cast hn
  have hnz : (0:ℤ) < n := by exact_mod_cast hn
  have hd : (2 * pi / (n:K)) ≠ 0 := by positivity
  rw [cell_eq_floor_fract pi hpi n hn θ]
  set x := (θ + pi) / (2 * pi / n) with hx
  have h0 : 0 ≤ ⌊x⌋ % (n:ℤ) := Int.emod_nonneg _ hnz.ne'
  have h1 : ⌊x⌋ % (n:ℤ) < n := Int.emod_lt_of_pos _ hnz
  have ht : ((⌊x⌋ % (n:ℤ)).toNat : ℤ) = ⌊x⌋ % (n:ℤ) := Int.toNat_of_nonneg h0
  refine ⟨?_, Int.fract_nonneg _, Int.fract_lt_one _, ⌊x⌋ / (n:ℤ), ?_⟩
  · have : ((⌊x⌋ % (n:ℤ)).toNat : ℤ) < n := by rw [ht]; exact h1
    exact_mod_cast this
  · have hθ : θ + pi = 2 * pi / n * x := by rw [hx]; field_simp
    have hfl : (⌊x⌋ : K) = ((⌊x⌋ / (n:ℤ) : ℤ) : K) * n + ((⌊x⌋ % (n:ℤ)).toNat : K) := by
      have : ⌊x⌋ = (⌊x⌋ / (n:ℤ)) * n + ((⌊x⌋ % (n:ℤ)).toNat : ℤ) := by
        rw [ht, mul_comm]; exact (Int.mul_ediv_add_emod _ _).symm
      exact_mod_cast congrArg (Int.cast : ℤ → K) this
    rw [hθ, ← hfl, Int.floor_add_fract]

/-- the same, as a decomposition of the angle -/
theorem cell_spec' (pi : K) (hpi : 0 < pi) (n : ℕ) (hn : 1 ≤ n) (θ : K) :
    ∃ q : ℤ, θ = angle stdF pi n (cell stdF pi n θ).1 + (cell stdF pi n θ).2 * (2 * pi / n)
      + 2 * pi * q := by
  have hn' : (0:K) < n := by exact_mod_cast hn
  obtain ⟨_, _, _, q, hq⟩ := cell_spec pi hpi n hn θ
  refine ⟨q, ?_⟩
  rw [angle_std]
  have e : 2 * pi / n * ((q : K) * n) = 2 * pi * q := by field_simp
  linear_combination hq + e

/-- general form: in the cell of node `i` at fraction `a`, any period -/
theorem cell_eq (pi : K) (hpi : 0 < pi) (n : ℕ) (i : ℕ) (hi : i < n) (a : K) (ha0 : 0 ≤ a)
    (ha1 : a < 1) (k : ℤ) :
    cell stdF pi n (angle stdF pi n i + a * (2 * pi / n) + 2 * pi * k) = (i, a) := by
  have hn : 1 ≤ n := by omega
  have hn' : (0:K) < n := by exact_mod_cast hn
  have hd : (2 * pi / (n:K)) ≠ 0 := by positivity
  rw [cell_eq_floor_fract pi hpi n hn, angle_std]
  have hx : (-pi + i * (2 * pi / n) + a * (2 * pi / n) + 2 * pi * k + pi) / (2 * pi / n)
      = a + ((i + n * k : ℤ) : K) := by
    push_cast
    field_simp
    ring
  rw [hx, Int.floor_add_intCast, Int.fract_add_intCast]
  have hfl : ⌊a⌋ = 0 := by
    rw [Int.floor_eq_iff]; constructor <;> simp [ha0, ha1]
  have hfr : Int.fract a = a := by rw [Int.fract, hfl]; simp
  rw [hfl, hfr, zero_add, Int.add_mul_emod_self_left, Int.emod_eq_of_lt (by omega) (by omega)]
  simp

/-- exactly on a grid node, in any period, the cell is `(i, 0)`; in particular the seam
`θ = -π + 2πk` (and so `θ = π`) gives index `0` -/
theorem cell_node (pi : K) (hpi : 0 < pi) (n : ℕ) (i : ℕ) (hi : i < n) (k : ℤ) :
    cell stdF pi n (angle stdF pi n i + 2 * pi * k) = (i, 0) := by
  have := cell_eq pi hpi n i hi 0 le_rfl zero_lt_one k
  simpa using this

/-- index and fraction are `2π`-periodic in the angle -/
theorem cell_periodic (pi : K) (hpi : 0 < pi) (n : ℕ) (hn : 1 ≤ n) (θ : K) (k : ℤ) :
    cell stdF pi n (θ + 2 * pi * k) = cell stdF pi n θ := by
  have hn' : (0:K) < n := by exact_mod_cast hn
  have hd : (2 * pi / (n:K)) ≠ 0 := by positivity
  rw [cell_eq_floor_fract pi hpi n hn, cell_eq_floor_fract pi hpi n hn]
  have hx : (θ + 2 * pi * k + pi) / (2 * pi / n) = (θ + pi) / (2 * pi / n) + ((n * k : ℤ) : K) := by
    push_cast
    field_simp
    ring
  rw [hx, Int.floor_add_intCast, Int.fract_add_intCast, Int.add_mul_emod_self_left]

/-- **bilinear in the cell**, with the neighbours of the last node wrapping round to index `0`
(the `±π` seam); the angles may be given in any period -/
theorem interp_bilinear_period (pi : K) (hpi : 0 < pi) (n : ℕ) (m : ℕ → ℕ → K) (i j : ℕ)
    (hi : i < n) (hj : j < n) (a b : K) (ha0 : 0 ≤ a) (ha1 : a < 1) (hb0 : 0 ≤ b) (hb1 : b < 1)
    (k k' : ℤ) :
    interp stdF pi n m (angle stdF pi n i + a * (2 * pi / n) + 2 * pi * k)
        (angle stdF pi n j + b * (2 * pi / n) + 2 * pi * k') =
      (1 - a) * (1 - b) * m j i + a * (1 - b) * m j (if i = n - 1 then 0 else i + 1)
      + (1 - a) * b * m (if j = n - 1 then 0 else j + 1) i
      + a * b * m (if j = n - 1 then 0 else j + 1) (if i = n - 1 then 0 else i + 1) := by
  rw [interp_eq_cells, cell_eq pi hpi n i hi a ha0 ha1 k, cell_eq pi hpi n j hj b hb0 hb1 k']

/-- **bilinear in the cell** (`interp_bilinear_period` in the base period) -/
theorem interp_bilinear (pi : K) (hpi : 0 < pi) (n : ℕ) (m : ℕ → ℕ → K) (i j : ℕ)
    (hi : i < n) (hj : j < n) (a b : K) (ha0 : 0 ≤ a) (ha1 : a < 1) (hb0 : 0 ≤ b) (hb1 : b < 1) :
    interp stdF pi n m (angle stdF pi n i + a * (2 * pi / n))
        (angle stdF pi n j + b * (2 * pi / n)) =
      (1 - a) * (1 - b) * m j i + a * (1 - b) * m j (if i = n - 1 then 0 else i + 1)
      + (1 - a) * b * m (if j = n - 1 then 0 else j + 1) i
      + a * b * m (if j = n - 1 then 0 else j + 1) (if i = n - 1 then 0 else i + 1) := by
  have := interp_bilinear_period pi hpi n m i j hi hj a b ha0 ha1 hb0 hb1 0 0
  simpa using this

/-- **the interpolant reproduces the matrix entries at the nodes** (index order:
`m out_index inc_index`), in any period -/
theorem interp_node (pi : K) (hpi : 0 < pi) (n : ℕ) (m : ℕ → ℕ → K) (i j : ℕ)
    (hi : i < n) (hj : j < n) (k k' : ℤ) :
    interp stdF pi n m (angle stdF pi n i + 2 * pi * k) (angle stdF pi n j + 2 * pi * k') = m j i := by
  have := interp_bilinear_period pi hpi n m i j hi hj 0 0 le_rfl zero_lt_one le_rfl zero_lt_one k k'
  simpa using this

/-- **the interpolant is `2π`-periodic in both angles** -/
theorem interp_periodic (pi : K) (hpi : 0 < pi) (n : ℕ) (hn : 1 ≤ n) (m : ℕ → ℕ → K)
    (inc out : K) (k : ℤ) :
    interp stdF pi n m (inc + 2 * pi * k) out = interp stdF pi n m inc out ∧
    interp stdF pi n m inc (out + 2 * pi * k) = interp stdF pi n m inc out := by
  simp only [interp_eq_cells, cell_periodic pi hpi n hn, and_self]

/-- all four matrix indices used by `interp` are in range, for any angle (negative, several
periods away, ...) -/
theorem interp_idx_range (pi : K) (hpi : 0 < pi) (n : ℕ) (hn : 1 ≤ n) (θ : K) :
    (cell stdF pi n θ).1 < n ∧
      (if (cell stdF pi n θ).1 = n - 1 then 0 else (cell stdF pi n θ).1 + 1) < n := by
  have h := (cell_spec pi hpi n hn θ).1
  refine ⟨h, ?_⟩
  split_ifs <;> omega

/-- at the grid nodes the interpolated matrix of a function returns the function -/
theorem interp_asMatrix_node (pi : K) (hpi : 0 < pi) (n : ℕ) (f : K → K → K) (i j : ℕ)
    (hi : i < n) (hj : j < n) (k k' : ℤ) :
    interp stdF pi n (asMatrix stdF pi n f) (angle stdF pi n i + 2 * pi * k)
      (angle stdF pi n j + 2 * pi * k') = f (angle stdF pi n i) (angle stdF pi n j) := by
  rw [interp_node pi hpi n _ i j hi hj]
  rfl

omit [Field K] [LinearOrder K] [IsStrictOrderedRing K] [FloorRing K] in
/-- rotation by `k` grid steps is the circular shift of both indices by `k` -/
theorem rotateShift_spec (n : ℕ) (m : ℕ → ℕ → K) (k : ℤ) (j i : ℕ) :
    rotateShift n m k j i = m (((j : ℤ) - k) % n).toNat (((i : ℤ) - k) % n).toNat := rfl

omit [IsStrictOrderedRing K] in
/-- the grid angle with circularly shifted index is the rotated angle, up to a period -/
theorem angle_shift (pi : K) (n : ℕ) (hn : 1 ≤ n) (i : ℕ) (k : ℤ) :
    angle stdF pi n (((i : ℤ) - k) % n).toNat
      = angle stdF pi n i - k * (2 * pi / n) + 2 * pi * (-(((i : ℤ) - k) / n) : ℤ) := by
  have hn' : (n:K) ≠ 0 := by exact_mod_cast (by omega : n ≠ 0)
  have hnz : (n:ℤ) ≠ 0 := by exact_mod_cast (by omega : n ≠ 0)
  have h0 := Int.emod_nonneg ((i:ℤ) - k) hnz
  have e : (((((i : ℤ) - k) % n).toNat : ℤ)) = (i : ℤ) - k - n * (((i : ℤ) - k) / n) := by
    rw [Int.toNat_of_nonneg h0, Int.emod_def]
  have e' : (((((i : ℤ) - k) % n).toNat : ℕ) : K) = (i : K) - k - n * ((((i : ℤ) - k) / n : ℤ) : K) := by
    exact_mod_cast congrArg (Int.cast : ℤ → K) e
  rw [angle_std, angle_std, e']
  push_cast
  field_simp
  ring

omit [IsStrictOrderedRing K] in
/-- **rotation of the scatterer**: for a scattering function that is `2π`-periodic in both
angles, shifting both indices by `k` gives the matrix of `S'(θ₁, θ₂) = S(θ₁ − φ, θ₂ − φ)`,
`φ = k·dθ` -/
theorem rotateShift_asMatrix (pi : K) (n : ℕ) (hn : 1 ≤ n) (f : K → K → K)
    (hper₁ : ∀ x y (q : ℤ), f (x + 2 * pi * q) y = f x y)
    (hper₂ : ∀ x y (q : ℤ), f x (y + 2 * pi * q) = f x y) (k : ℤ) (j i : ℕ) :
    rotateShift n (asMatrix stdF pi n f) k j i
      = asMatrix stdF pi n (fun x y => f (x - k * (2 * pi / n)) (y - k * (2 * pi / n))) j i := by
  simp only [rotateShift, asMatrix]
  rw [angle_shift pi n hn i k, angle_shift pi n hn j k, hper₁, hper₂]
/-! ### The interpolation kernel as translated from the source on this run

`Src.interpolate_scattering_matrix_kernel` (file `Generated/SrcC10.lean`) is the translation of
`arim._scat._interpolate_scattering_matrix_kernel`; for lawful numerical routines (`Tie.C10.Lawful`; the standard
routines of any floor field are lawful) `Tie.C10.tie_interp` identifies it with `interp`. -/
open Arim.Tie.C10

/-- the routines of the translated code in a floor field: `floor`, `int()` (truncation), integer embeddings; `pi` a parameter -/
def srcOpsF (pi : K) : Src.Ops K :=
  { sin := id, cos := id, asin := id, sqrt := id, exp := id, sinc := id, pi := pi,
    ofNat := fun n => (n : K), ofInt := fun z => (z : K), floor := Int.floor, round := Int.floor,
    trunc := fun x => if 0 ≤ x then ⌊x⌋ else ⌈x⌉ }

theorem fops_srcOpsF (pi : K) : fops (srcOpsF pi) = stdF := rfl

/-- the standard routines are lawful -/
theorem lawful_srcOpsF (pi : K) : Lawful (srcOpsF pi) where
  ofNat_eq n := by simp [srcOpsF]
  trunc_ofInt z := by
    simp only [srcOpsF]
    split <;> simp
  floor_ofInt_div a n hn := by
    simp only [srcOpsF, Int.cast_natCast]
    rw [Int.floor_div_natCast, Int.floor_intCast]
  ofInt_sub_mul a b c := by simp [srcOpsF]

/-- **the translated kernel reproduces the matrix at its nodes** (any period `k`) -/
theorem src_interp_node (pi : K) (hpi : 0 < pi) (n : ℕ) (m : ℕ → ℕ → K) (i j : ℕ)
    (hi : i < n) (hj : j < n) (k l : ℤ) :
    Src.interpolate_scattering_matrix_kernel (srcOpsF pi) m n
      (angle stdF pi n i + 2 * pi * k) (angle stdF pi n j + 2 * pi * l) = m j i := by
  rw [tie_interp _ (lawful_srcOpsF pi) m n (by omega), fops_srcOpsF]
  show interp stdF pi n m _ _ = _
  exact interp_node pi hpi n m i j hi hj k l

/-- **the translated kernel wraps around**: it is `2π`-periodic in each angle, for any real angles -/
theorem src_interp_periodic (pi : K) (hpi : 0 < pi) (n : ℕ) (hn : 1 ≤ n) (m : ℕ → ℕ → K)
    (inc out : K) (k l : ℤ) :
    Src.interpolate_scattering_matrix_kernel (srcOpsF pi) m n (inc + 2 * pi * k) (out + 2 * pi * l) =
      Src.interpolate_scattering_matrix_kernel (srcOpsF pi) m n inc out := by
  rw [tie_interp _ (lawful_srcOpsF pi) m n (by omega), tie_interp _ (lawful_srcOpsF pi) m n (by omega), fops_srcOpsF]
  show interp stdF pi n m (inc + 2 * pi * k) (out + 2 * pi * l) = interp stdF pi n m inc out
  rw [(interp_periodic pi hpi n hn m inc (out + 2 * pi * l) k).1, (interp_periodic pi hpi n hn m inc out l).2]

end grid

/-! ## Interpolation in frequency -/

section freq
variable {K : Type} [Field K] [LinearOrder K]

/-- a single frequency sample is used at every frequency -/
theorem freq_single (f0 v f : K) : freqInterp [f0] [v] f = some v := rfl

/-- **the segment used by `freqInterp`**: for strictly increasing `freqs`, the chord of segment
`k` is returned whenever `f` lies in `[freqs[k], freqs[k+1]]`, where the first segment is
extended to `-∞` and the last one to `+∞` -/
theorem freq_segment (freqs vals : List K) (hlen : freqs.length = vals.length)
    (hs : freqs.Pairwise (· < ·)) (k : ℕ) (hk : k + 1 < freqs.length) (f : K)
    (hlo : k = 0 ∨ freqs[k] ≤ f) (hhi : k + 2 = freqs.length ∨ f ≤ freqs[k+1]) :
    freqInterp freqs vals f =
      some (vals[k] + (vals[k+1] - vals[k]) * (f - freqs[k]) / (freqs[k+1] - freqs[k])) := by
  match freqs, vals, hlen, hs, hk, hlo, hhi with
  | f0 :: f1 :: fr, v0 :: v1 :: vr, hlen, hs, hk, hlo, hhi =>
    rw [freqInterp_cons2, freqInterp_go_spec f fr vr f0 f1 v0 v1 (by simpa using hlen) hs k hk hlo hhi]
  | [_], _, _, _, hk, _, _ => simp at hk
  | [], _, _, _, hk, _, _ => simp at hk
  | _ :: _ :: _, [_], hlen, _, _, _, _ => simp at hlen
  | _ :: _ :: _, [], hlen, _, _, _, _ => simp at hlen

/-- **linear between neighbouring samples** -/
theorem freq_linear (freqs vals : List K) (hlen : freqs.length = vals.length)
    (hs : freqs.Pairwise (· < ·)) (k : ℕ) (hk : k + 1 < freqs.length) (f : K)
    (hlo : freqs[k] ≤ f) (hhi : f ≤ freqs[k+1]) :
    freqInterp freqs vals f =
      some (vals[k] + (vals[k+1] - vals[k]) * (f - freqs[k]) / (freqs[k+1] - freqs[k])) :=
  freq_segment freqs vals hlen hs k hk f (Or.inr hlo) (Or.inr hhi)

/-- below the first sample the first segment is extrapolated -/
theorem freq_extrapolate_below (freqs vals : List K) (hlen : freqs.length = vals.length)
    (hs : freqs.Pairwise (· < ·)) (h2 : 2 ≤ freqs.length) (f : K) (hf : f ≤ freqs[0]) :
    freqInterp freqs vals f =
      some (vals[0] + (vals[1] - vals[0]) * (f - freqs[0]) / (freqs[1] - freqs[0])) := by
  have h01 : freqs[0] < freqs[1] := List.pairwise_iff_getElem.1 hs 0 1 _ _ Nat.zero_lt_one
  exact freq_segment freqs vals hlen hs 0 (by omega) f (Or.inl rfl) (Or.inr (hf.trans h01.le))

/-- above the last sample the last segment is extrapolated -/
theorem freq_extrapolate_above (freqs vals : List K) (hlen : freqs.length = vals.length)
    (hs : freqs.Pairwise (· < ·)) (h2 : 2 ≤ freqs.length) (f : K)
    (hf : freqs[freqs.length - 1] ≤ f) :
    freqInterp freqs vals f =
      some (vals[freqs.length - 2] + (vals[freqs.length - 2 + 1] - vals[freqs.length - 2])
        * (f - freqs[freqs.length - 2]) / (freqs[freqs.length - 2 + 1] - freqs[freqs.length - 2])) := by
  have h01 : freqs[freqs.length - 2] < freqs[freqs.length - 1] :=
    List.pairwise_iff_getElem.1 hs _ _ _ _ (by omega)
  exact freq_segment freqs vals hlen hs (freqs.length - 2) (by omega) f
    (Or.inr (h01.le.trans hf)) (Or.inl (by omega))

/-- **the data are reproduced at the sampled frequencies** -/
theorem freq_node (freqs vals : List K) (hlen : freqs.length = vals.length)
    (hs : freqs.Pairwise (· < ·)) (h2 : 2 ≤ freqs.length) (k : ℕ) (hk : k < freqs.length) :
    freqInterp freqs vals freqs[k] = some vals[k] := by
  by_cases hk1 : k + 1 < freqs.length
  · have h01 : freqs[k] < freqs[k+1] := List.pairwise_iff_getElem.1 hs _ _ _ _ (Nat.lt_succ_self k)
    rw [freq_segment freqs vals hlen hs k hk1 freqs[k] (Or.inr le_rfl) (Or.inr h01.le)]
    simp
  · obtain ⟨k', rfl⟩ : ∃ k', k = k' + 1 := ⟨k - 1, by omega⟩
    have h01 : freqs[k'] < freqs[k'+1] := List.pairwise_iff_getElem.1 hs _ _ _ _ (Nat.lt_succ_self k')
    rw [freq_segment freqs vals hlen hs k' hk freqs[k'+1] (Or.inr h01.le) (Or.inl (by omega))]
    have e : freqs[k'+1] - freqs[k'] ≠ 0 := sub_ne_zero.2 h01.ne'
    congr 1
    field_simp
    ring
end freq

/-! ## Non-vacuity: the model evaluated on rational data -/

section examples
private theorem t2 : Int.toNat 2 = 2 := rfl
/-- a 3×3 test matrix, `M[j][i] = 10 j + i` -/
def M3 : ℕ → ℕ → ℚ := fun j i => 10 * j + i

example : cell stdF (22/7 : ℚ) 3 (-22/7) = (0, 0) := by
  norm_num [cell, fdiv, fmod, stdF]
example : cell stdF (22/7 : ℚ) 3 (22/7) = (0, 0) := by
  norm_num [cell, fdiv, fmod, stdF]
example : cell stdF (22/7 : ℚ) 3 (-100) = (1, 17/22) := by
  norm_num [cell, fdiv, fmod, stdF]
example : angle stdF (22/7 : ℚ) 3 2 = 22/21 := by norm_num [angle, stdF]
-- node values, also several periods away
example : interp stdF (22/7 : ℚ) 3 M3 (22/21) (-22/21) = M3 1 2 := by
  norm_num [interp, cell, fdiv, fmod, stdF, M3, t2]
example : interp stdF (22/7 : ℚ) 3 M3 (22/21 + 5 * (44/7)) (-22/21 - 3 * (44/7)) = 12 := by
  norm_num [interp, cell, fdiv, fmod, stdF, M3, t2]
-- the middle of the last cell in both directions wraps round to index 0
example : interp stdF (22/7 : ℚ) 3 M3 (22/21 + 22/21) (22/21 + 22/21)
    = (M3 2 2 + M3 2 0 + M3 0 2 + M3 0 0) / 4 := by
  norm_num [interp, cell, fdiv, fmod, stdF, M3, t2]
example : rotateShift 3 M3 1 0 0 = M3 2 2 := by norm_num [rotateShift, M3, t2]
example : rotateShift 3 M3 (-4) 2 1 = M3 0 2 := by norm_num [rotateShift, M3, t2]
example : freqInterp [(1:ℚ), 2, 4] [10, 20, 0] 3 = some 10 := by norm_num [freqInterp, freqInterp.go]
example : freqInterp [(1:ℚ), 2, 4] [10, 20, 0] 5 = some (-10) := by norm_num [freqInterp, freqInterp.go]
example : freqInterp [(1:ℚ), 2, 4] [10, 20, 0] 0 = some 0 := by norm_num [freqInterp, freqInterp.go]
example : freqInterp [(1:ℚ), 2, 4] [10, 20, 0] 2 = some 20 := by norm_num [freqInterp, freqInterp.go]
example : freqInterp ([] : List ℚ) [] 2 = none := rfl

-- the general theorems instantiated on the same data (their hypotheses are satisfiable)
example : (cell stdF (22/7 : ℚ) 3 (-100)).1 < 3 :=
  (cell_spec (22/7) (by norm_num) 3 (by norm_num) (-100)).1
example : interp stdF (22/7 : ℚ) 3 M3 (angle stdF (22/7) 3 2 + 2 * (22/7) * ((5 : ℤ) : ℚ))
    (angle stdF (22/7) 3 1 + 2 * (22/7) * ((-3 : ℤ) : ℚ)) = M3 1 2 :=
  interp_node (22/7) (by norm_num) 3 M3 2 1 (by norm_num) (by norm_num) 5 (-3)
example : freqInterp [(1:ℚ), 2, 4] [10, 20, 0] ([(1:ℚ), 2, 4][1]) = some ([(10:ℚ), 20, 0][1]) :=
  freq_node [1, 2, 4] [10, 20, 0] rfl (by norm_num) (by simp) 1 (by simp)
end examples
end Arim.C10
