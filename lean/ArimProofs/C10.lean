import ArimModel.ScatMat
import Mathlib.Analysis.SpecialFunctions.Trigonometric.Basic
import Mathlib.Analysis.SpecialFunctions.Complex.Log
import Mathlib.Algebra.BigOperators.Group.Finset.Basic
/-! # C10 — scattering matrices faithfully represent, interpolate and rotate the functions -/
namespace Arim.C10
open Arim.ScatMat
open Complex Finset
open scoped Real

/-- the matrix holds at `[j][i]` the function value for incident angle `θ_i` and scattered
angle `θ_j` -/
theorem asMatrix_entry {K : Type} [Add K] [Sub K] [Mul K] [Div K] [Neg K]
    (o : FOps K) (pi : K) (n : Nat) (f : K → K → K) (j i : Nat) :
    asMatrix o pi n f j i = f (angle o pi n i) (angle o pi n j) := rfl

noncomputable section
/-- inverse DFT evaluated at an integer (periodically extended) sample index -/
def idft (X : ℕ → ℂ) (n : ℕ) (j : ℤ) : ℂ :=
  (n : ℂ)⁻¹ * ∑ k ∈ range n, X k * exp (2 * π * I * (j * k / n))

/-- **DFT shift theorem**: multiplying bin `k` by `e^{-2πi k m/n}` delays the signal by `m`
samples (this is what `rotate_matrix` does along each axis for `φ = 2πm/n`) -/
theorem idft_shift (X : ℕ → ℂ) (n : ℕ) (j m : ℤ) :
    idft (fun k => X k * exp (-(2 * π * I * (m * k / n)))) n j = idft X n (j - m) := by
  unfold idft
  congr 1
  apply sum_congr rfl
  intro k _
  rw [mul_assoc, ← exp_add]
  congr 2
  push_cast
  ring

/-- the back-transform is `n`-periodic, so the delay is a circular shift of the indices -/
theorem idft_periodic (X : ℕ → ℂ) (n : ℕ) (hn : n ≠ 0) (j : ℤ) :
    idft X n (j + n) = idft X n j := by
  unfold idft
  congr 1
  apply sum_congr rfl
  intro k _
  congr 1
  have hn' : (n : ℂ) ≠ 0 := by exact_mod_cast hn
  have : 2 * π * I * (((j + n : ℤ) : ℂ) * k / n) = 2 * π * I * (j * k / n) + (k : ℤ) * (2 * π * I) := by
    push_cast
    field_simp
  rw [this, exp_add, exp_int_mul_two_pi_mul_I, mul_one]
end

end Arim.C10
