import ArimModel.TimeDomain
import ArimProofs.Lemmas.TimeDomain
import ArimProofs.Tie.C11
import ArimProofs.C10
import Mathlib.Tactic.Ring
import Mathlib.Tactic.Positivity
import Mathlib.Tactic.NormNum
import Mathlib.Algebra.Order.Floor.Ring
import Mathlib.Data.Rat.Floor
import Mathlib.Data.List.Rotate
/-! # C11 — time-domain synthesis places each echo at its delay with the right waveform -/
namespace Arim.C11
open Arim.TD Arim.TDLemmas
open scoped Real

/-! ## Splitting a delay -/

/-- **The split of a delay is exact for every integer quotient**: `q·dt + (delay − q·dt) = delay`
(in particular for `q = ⌊delay/dt⌋`, the number of whole samples) -/
theorem split_exact {K : Type} [CommRing K] (delay dt : K) (q : Int) :
    (q : K) * dt + (delay - (q : K) * dt) = delay := by ring

/-- with `q = ⌊delay/dt⌋` the remainder lies in `[0, dt)` -/
theorem split_remainder_range {K : Type} [Field K] [LinearOrder K] [IsStrictOrderedRing K] [FloorRing K]
    (delay dt : K) (hdt : 0 < dt) :
    0 ≤ delay - ((⌊delay / dt⌋ : Int) : K) * dt ∧ delay - ((⌊delay / dt⌋ : Int) : K) * dt < dt := by
  have h1 := Int.floor_le (delay / dt)
  have h2 := Int.lt_floor_add_one (delay / dt)
  constructor
  · have : ((⌊delay / dt⌋ : Int) : K) * dt ≤ delay := by
      calc ((⌊delay / dt⌋ : Int) : K) * dt ≤ delay / dt * dt := mul_le_mul_of_nonneg_right h1 hdt.le
        _ = delay := by field_simp
    linarith
  · have : delay < (((⌊delay / dt⌋ : Int) : K) + 1) * dt := by
      calc delay = delay / dt * dt := by field_simp
        _ < (((⌊delay / dt⌋ : Int) : K) + 1) * dt := mul_lt_mul_of_pos_right h2 hdt
    linarith

/-- **Counter-witness for the pre-fix code (finding F4).** On the exact rational value `d` of the
double `0.1`, eight time units contain 79 whole steps and a remainder `8 − 79 d`; pairing that
remainder (what `delay % dt` returns) with the quotient `80` (what `floor(fl(8.0/0.1))` returns
in double arithmetic) does not decompose the delay: `80 d + (8 − 79 d) ≠ 8`. -/
theorem split_mod_counter :
    let d : Rat := 3602879701896397 / 36028797018963968   -- the double 0.1
    Rat.floor (8 / d) = 79 ∧ (80 : Rat) * d + (8 - 79 * d) ≠ 8 := by
  refine ⟨by decide +kernel, by norm_num⟩

/-- in double arithmetic `8.0 / 0.1` is exactly `80.0` -/
theorem float_quotient_is_80 : ((8.0 : Float) / 0.1).toBits = (80.0 : Float).toBits := by decide +kernel


/-! ## 1. Toneburst shape -/

section shape
variable {K : Type}

/-- **the pulse length is odd** (so the pulse has a centre sample), for any scalar model -/
theorem lenPulse_odd [Div K] (t : RT K) (cycles : ℕ) (f dt : K) :
    lenPulse t cycles f dt % 2 = 1 := by
  unfold lenPulse
  simp only [beq_iff_eq]
  split_ifs with h <;> omega

/-- the pulse covers at least `⌈cycles / f / dt⌉` samples -/
theorem lenPulse_ge [Div K] (t : RT K) (cycles : ℕ) (f dt : K) :
    (t.ceil (t.ofNat cycles / f / dt)).toNat ≤ lenPulse t cycles f dt := by
  unfold lenPulse
  simp only [beq_iff_eq]
  split_ifs with h <;> omega

/-- … and at most one more -/
theorem lenPulse_le [Div K] (t : RT K) (cycles : ℕ) (f dt : K) :
    lenPulse t cycles f dt ≤ (t.ceil (t.ofNat cycles / f / dt)).toNat + 1 := by
  unfold lenPulse
  simp only [beq_iff_eq]
  split_ifs with h <;> omega

/-- the pulse is never empty -/
theorem lenPulse_pos [Div K] (t : RT K) (cycles : ℕ) (f dt : K) :
    1 ≤ lenPulse t cycles f dt := by
  have := lenPulse_odd t cycles f dt
  omega
end shape

/-- `np.hanning(1) = [1]` (and the model's convention for `m = 0`) -/
theorem hann_one (m k : ℕ) (hm : m ≤ 1) : hann tR m k = 1 := by
  simp [hann, hm]

/-- the Hann window over the reals -/
theorem hann_eq (m k : ℕ) (hm : 2 ≤ m) :
    hann tR m k = 1 / 2 - 1 / 2 * Real.cos (2 * π * k / ((m - 1 : ℕ) : ℝ)) := by
  have : ¬ m ≤ 1 := by omega
  simp [hann, this]

/-- **the window is symmetric** -/
theorem hann_symm (m k : ℕ) (hk : k < m) : hann tR m k = hann tR m (m - 1 - k) := by
  rcases Nat.lt_or_ge m 2 with hm | hm
  · rw [hann_one m _ (by omega), hann_one m _ (by omega)]
  · rw [hann_eq m _ hm, hann_eq m _ hm]
    have hne : (((m - 1 : ℕ)) : ℝ) ≠ 0 := by
      have : m - 1 ≠ 0 := by omega
      exact_mod_cast this
    have hc : (((m - 1 - k : ℕ)) : ℝ) = ((m - 1 : ℕ) : ℝ) - k := by
      rw [Nat.cast_sub (by omega)]
    have : 2 * π * ((m - 1 - k : ℕ) : ℝ) / ((m - 1 : ℕ) : ℝ) = 2 * π - 2 * π * k / ((m - 1 : ℕ) : ℝ) := by
      rw [hc]; field_simp
    rw [this, Real.cos_two_pi_sub]

/-- the window vanishes at both ends (for `m ≥ 2`; `np.hanning(1) = [1]`) -/
theorem hann_ends (m : ℕ) (hm : 2 ≤ m) : hann tR m 0 = 0 ∧ hann tR m (m - 1) = 0 := by
  have h0 : hann tR m 0 = 0 := by
    rw [hann_eq m _ hm]; simp
  refine ⟨h0, ?_⟩
  have := hann_symm m 0 (by omega)
  rw [Nat.sub_zero] at this
  rw [← this, h0]

/-- an odd-length window is `1` at its centre sample: `m − 1 = 2 (m/2)`, `cos π = −1` -/
theorem hann_centre (m : ℕ) (hodd : m % 2 = 1) : hann tR m (m / 2) = 1 := by
  rcases Nat.lt_or_ge m 2 with hm | hm
  · exact hann_one m _ (by omega)
  · rw [hann_eq m _ hm]
    have e : m - 1 = 2 * (m / 2) := by omega
    have hne : ((m / 2 : ℕ) : ℝ) ≠ 0 := by
      have : m / 2 ≠ 0 := by omega
      exact_mod_cast this
    have : 2 * π * ((m / 2 : ℕ) : ℝ) / ((m - 1 : ℕ) : ℝ) = π := by
      rw [e]; push_cast; field_simp
    rw [this, Real.cos_pi]; norm_num

/-- the window takes values in `[0, 1]` (for every index, also outside `k < m`) -/
theorem hann_range (m k : ℕ) : 0 ≤ hann tR m k ∧ hann tR m k ≤ 1 := by
  rcases Nat.lt_or_ge m 2 with hm | hm
  · rw [hann_one m _ (by omega)]; norm_num
  · rw [hann_eq m _ hm]
    have h1 := Real.cos_le_one (2 * π * k / ((m - 1 : ℕ) : ℝ))
    have h2 := Real.neg_one_le_cos (2 * π * k / ((m - 1 : ℕ) : ℝ))
    constructor <;> linarith

/-- the pulse over the reals: window times `e^{2πi dt f (k − half)}` -/
theorem pulse_eq (cycles : ℕ) (f dt : ℝ) (k : ℕ) :
    pulse tR cycles f dt k =
      (hann tR (lenPulse tR cycles f dt) k
          * Real.cos (2 * π * dt * f * ((k : ℝ) - ((lenPulse tR cycles f dt / 2 : ℕ) : ℝ))),
       hann tR (lenPulse tR cycles f dt) k
          * Real.sin (2 * π * dt * f * ((k : ℝ) - ((lenPulse tR cycles f dt / 2 : ℕ) : ℝ)))) := by
  simp only [pulse, csmul, cis, tR_cos, tR_sin, tR_pi, tR_ofNat, tR_ofInt, Int.cast_sub,
    Int.cast_natCast, Nat.cast_ofNat]

/-- the analytic pulse as a complex number -/
theorem toC_pulse (cycles : ℕ) (f dt : ℝ) (k : ℕ) :
    toC (pulse tR cycles f dt k) =
      ((hann tR (lenPulse tR cycles f dt) k : ℝ) : ℂ)
        * Complex.exp (2 * π * Complex.I * (dt * f * ((k : ℂ) - ((lenPulse tR cycles f dt / 2 : ℕ) : ℂ)))) := by
  unfold pulse
  simp only [toC_csmul, toC_cis]
  congr 2
  simp only [tR_pi, tR_ofNat, tR_ofInt, Int.cast_sub, Int.cast_natCast, Nat.cast_ofNat,
    Complex.ofReal_mul, Complex.ofReal_sub, Complex.ofReal_natCast, Complex.ofReal_ofNat]
  ring

/-- **the toneburst is symmetric about its centre sample**: the real part (the real toneburst)
is even, the imaginary part is odd -/
theorem pulse_symm (cycles : ℕ) (f dt : ℝ) (k : ℕ) (hk : k < lenPulse tR cycles f dt) :
    (pulse tR cycles f dt (lenPulse tR cycles f dt - 1 - k)).1 = (pulse tR cycles f dt k).1 ∧
    (pulse tR cycles f dt (lenPulse tR cycles f dt - 1 - k)).2 = -(pulse tR cycles f dt k).2 := by
  have hodd := lenPulse_odd tR cycles f dt
  rw [pulse_eq, pulse_eq]
  set l := lenPulse tR cycles f dt with hl
  have e : ((l - 1 - k : ℕ) : ℝ) - ((l / 2 : ℕ) : ℝ) = -((k : ℝ) - ((l / 2 : ℕ) : ℝ)) := by
    have : ((l - 1 - k : ℕ) : ℤ) - ((l / 2 : ℕ) : ℤ) = -((k : ℤ) - ((l / 2 : ℕ) : ℤ)) := by omega
    exact_mod_cast congrArg (Int.cast : ℤ → ℝ) this
  simp only
  rw [e, ← hann_symm l k hk, mul_neg, Real.cos_neg, Real.sin_neg, mul_neg]
  exact ⟨rfl, rfl⟩

/-- **the centre sample is exactly one** (`cos 0 = 1`, `sin 0 = 0`, window `= 1`): the pulse is
centred on its time zero with unit peak -/
theorem pulse_peak (cycles : ℕ) (f dt : ℝ) :
    pulse tR cycles f dt (lenPulse tR cycles f dt / 2) = (1, 0) := by
  rw [pulse_eq, hann_centre _ (lenPulse_odd tR cycles f dt)]
  simp

/-- … and nowhere larger: real and imaginary parts are bounded by one -/
theorem pulse_re_le_one (cycles : ℕ) (f dt : ℝ) (k : ℕ) :
    |(pulse tR cycles f dt k).1| ≤ 1 ∧ |(pulse tR cycles f dt k).2| ≤ 1 := by
  rw [pulse_eq]
  obtain ⟨h0, h1⟩ := hann_range (lenPulse tR cycles f dt) k
  simp only [abs_mul, abs_of_nonneg h0]
  constructor
  · exact mul_le_one₀ h1 (abs_nonneg _) (Real.abs_cos_le_one _)
  · exact mul_le_one₀ h1 (abs_nonneg _) (Real.abs_sin_le_one _)

/-- modulus of the analytic pulse is the window -/
theorem pulse_abs (cycles : ℕ) (f dt : ℝ) (k : ℕ) :
    ‖toC (pulse tR cycles f dt k)‖ = hann tR (lenPulse tR cycles f dt) k := by
  rw [toC_pulse]
  have : (2 * (π:ℂ) * Complex.I * (dt * f * ((k : ℂ) - ((lenPulse tR cycles f dt / 2 : ℕ) : ℂ))))
      = ((2 * π * (dt * f * ((k : ℝ) - ((lenPulse tR cycles f dt / 2 : ℕ) : ℝ))) : ℝ) : ℂ) * Complex.I := by
    push_cast; ring
  rw [norm_mul, this, Complex.norm_exp_ofReal_mul_I, mul_one, Complex.norm_real,
    Real.norm_of_nonneg (hann_range _ k).1]

section tb
variable {K : Type} [Sub K] [Mul K] [Div K]

/-- the padded toneburst has the requested number of samples, wrapped or not -/
theorem toneburst_length (t : RT K) (zero : K) (cycles : ℕ) (f dt : K) (N : ℕ) (wrap : Bool) :
    (toneburst t zero cycles f dt N wrap).length = N := by
  unfold toneburst
  cases wrap <;> simp
  omega

/-- **support**: without wrapping, the first `l = lenPulse` samples are the pulse and everything
after is zero -/
theorem toneburst_support (t : RT K) (zero : K) (cycles : ℕ) (f dt : K) (N k : ℕ) (hk : k < N) :
    (toneburst t zero cycles f dt N false)[k]'(by rw [toneburst_length]; exact hk)
      = if k < lenPulse t cycles f dt then pulse t cycles f dt k else (zero, zero) := by
  simp [toneburst]

/-- wrapping is the left rotation by `half` -/
theorem toneburst_wrap_eq (t : RT K) (zero : K) (cycles : ℕ) (f dt : K) (N : ℕ)
    (hl : lenPulse t cycles f dt / 2 ≤ N) :
    toneburst t zero cycles f dt N true
      = (toneburst t zero cycles f dt N false).rotate (lenPulse t cycles f dt / 2) := by
  rw [List.rotate_eq_drop_append_take (by rw [toneburst_length]; exact hl)]
  simp [toneburst]

/-- wrapped: entry `k` is entry `(k + half) mod N` of the unwrapped toneburst -/
theorem toneburst_wrap_entry (t : RT K) (zero : K) (cycles : ℕ) (f dt : K) (N k : ℕ) (hk : k < N)
    (hl : lenPulse t cycles f dt / 2 ≤ N) :
    (toneburst t zero cycles f dt N true)[k]'(by rw [toneburst_length]; exact hk)
      = (toneburst t zero cycles f dt N false)[(k + lenPulse t cycles f dt / 2) % N]'(by
          rw [toneburst_length]; exact Nat.mod_lt _ (by omega)) := by
  simp only [toneburst_wrap_eq t zero cycles f dt N hl, List.getElem_rotate, toneburst_length]

/-- **with `wrap = true` time zero is at index 0**: entry `0` is the centre sample of the pulse -/
theorem toneburst_wrap_zero (t : RT K) (zero : K) (cycles : ℕ) (f dt : K) (N : ℕ)
    (hl : lenPulse t cycles f dt ≤ N) :
    (toneburst t zero cycles f dt N true)[0]'(by
        rw [toneburst_length]; have := lenPulse_odd t cycles f dt; omega)
      = pulse t cycles f dt (lenPulse t cycles f dt / 2) := by
  have hodd := lenPulse_odd t cycles f dt
  rw [toneburst_wrap_entry t zero cycles f dt N 0 (by omega) (by omega)]
  simp only [Nat.zero_add]
  have hlt : lenPulse t cycles f dt / 2 < N := by omega
  rw [toneburst_support t zero cycles f dt N _ (Nat.mod_lt _ (by omega))]
  rw [Nat.mod_eq_of_lt hlt, if_pos (by omega)]

omit [Sub K] [Mul K] in
/-- **`make_toneburst2` layout**: `nb·l` zeros, the pulse, `na·l` zeros; the time-zero index is
the centre of the pulse -/
theorem toneburst2_layout (t : RT K) (cycles : ℕ) (f dt : K) (nb na : ℕ) :
    toneburst2Layout t cycles f dt nb na
      = (nb * lenPulse t cycles f dt + lenPulse t cycles f dt + na * lenPulse t cycles f dt,
         nb * lenPulse t cycles f dt + lenPulse t cycles f dt / 2) := rfl
end tb

/-- `pulse_symm` under its property name -/
theorem toneburst_symmetric (cycles : ℕ) (f dt : ℝ) (k : ℕ) (hk : k < lenPulse tR cycles f dt) :
    (pulse tR cycles f dt (lenPulse tR cycles f dt - 1 - k)).1 = (pulse tR cycles f dt k).1 ∧
    (pulse tR cycles f dt (lenPulse tR cycles f dt - 1 - k)).2 = -(pulse tR cycles f dt k).2 :=
  pulse_symm cycles f dt k hk

/-- `pulse_peak` with the bound, under its property name -/
theorem toneburst_peak (cycles : ℕ) (f dt : ℝ) :
    pulse tR cycles f dt (lenPulse tR cycles f dt / 2) = (1, 0) ∧
    ∀ k, |(pulse tR cycles f dt k).1| ≤ 1 :=
  ⟨pulse_peak cycles f dt, fun k => (pulse_re_le_one cycles f dt k).1⟩

/-- the time-zero index of `make_toneburst2` is the centre of the pulse placed after `nb·l` zeros:
it lies strictly inside the pulse, with `l/2` pulse samples on either side -/
theorem t0_idx_centre {K : Type} [Div K] (t : RT K) (cycles : ℕ) (f dt : K) (nb na : ℕ) :
    (toneburst2Layout t cycles f dt nb na).2 = nb * lenPulse t cycles f dt + lenPulse t cycles f dt / 2 ∧
    (toneburst2Layout t cycles f dt nb na).2 - nb * lenPulse t cycles f dt
      = nb * lenPulse t cycles f dt + lenPulse t cycles f dt - 1 - (toneburst2Layout t cycles f dt nb na).2 ∧
    (toneburst2Layout t cycles f dt nb na).2 < (toneburst2Layout t cycles f dt nb na).1 := by
  have hodd := lenPulse_odd t cycles f dt
  rw [toneburst2_layout]
  refine ⟨rfl, ?_, ?_⟩
  · simp only; omega
  · simp only
    have : 0 ≤ na * lenPulse t cycles f dt := Nat.zero_le _
    omega

/-! ## 2. Hilbert weights and the analytic signal -/

open Complex Finset
open scoped ComplexConjugate

/-- **the analytic-signal weights**: `1` at DC, `2` on the positive-frequency bins, `1` at the
Nyquist bin of an even length, `0` on the negative-frequency bins -/
theorem hilbertWeight_spec (n : ℕ) (hn : 1 ≤ n) :
    hilbertWeight n 0 = 1 ∧
    (∀ k, 0 < k → 2 * k < n → hilbertWeight n k = 2) ∧
    (∀ k, 2 * k = n → hilbertWeight n k = 1) ∧
    (∀ k, n < 2 * k → hilbertWeight n k = 0) := by
  refine ⟨?_, ?_, ?_, ?_⟩
  · unfold hilbertWeight; simp
  · intro k h0 hk
    unfold hilbertWeight
    simp only [beq_iff_eq, Bool.or_eq_true]
    split_ifs <;> omega
  · intro k hk
    unfold hilbertWeight
    simp only [beq_iff_eq, Bool.or_eq_true]
    split_ifs <;> omega
  · intro k hk
    unfold hilbertWeight
    simp only [beq_iff_eq, Bool.or_eq_true]
    split_ifs <;> omega

/-- the "sign" sequence: `+1` on the positive-frequency bins, `−1` on the negative-frequency
bins, `0` at DC and Nyquist -/
def sgnSeq (n k : ℕ) : ℤ := if k = 0 ∨ 2 * k = n then 0 else if 2 * k < n then 1 else -1

/-- decomposition of the weights: `h = 1 + s` -/
theorem hilbertWeight_eq_one_add_sgn (n k : ℕ) :
    (hilbertWeight n k : ℤ) = 1 + sgnSeq n k := by
  unfold hilbertWeight sgnSeq
  simp only [beq_iff_eq, Bool.or_eq_true]
  split_ifs <;> omega

/-- the sign sequence is odd under `k ↦ n − k` -/
theorem sgnSeq_reflect (n k : ℕ) (h0 : 0 < k) (hk : k < n) : sgnSeq n (n - k) = -sgnSeq n k := by
  unfold sgnSeq
  split_ifs <;> omega

/-- no sign at DC -/
theorem sgnSeq_zero (n : ℕ) : sgnSeq n 0 = 0 := by simp [sgnSeq]

/-- **Hermitian symmetry of the spectrum of a real signal**: `X (n − k) = conj (X k)` -/
theorem dft_real_conj (x : ℕ → ℝ) (n k : ℕ) (hk : k ≤ n) :
    conj (C10.dft (fun l => (x l : ℂ)) n k) = C10.dft (fun l => (x l : ℂ)) n (n - k) := by
  unfold C10.dft
  rw [map_sum]
  apply sum_congr rfl
  intro l hl
  have hn : (n : ℂ) ≠ 0 := by
    have : n ≠ 0 := by have := mem_range.1 hl; omega
    exact_mod_cast this
  rw [map_mul, conj_ofReal, ← exp_conj]
  congr 1
  have e1 : conj (-(2 * (π : ℂ) * I * ((l : ℂ) * k / n))) = 2 * π * I * (l * k / n) := by
    simp only [map_neg, map_mul, map_div₀, conj_I, conj_ofReal, map_natCast, map_ofNat]
    ring
  have e2 : -(2 * (π : ℂ) * I * ((l : ℂ) * ((n - k : ℕ) : ℂ) / n))
      = 2 * π * I * (l * k / n) + ((-(l : ℤ) : ℤ) : ℂ) * (2 * π * I) := by
    rw [Nat.cast_sub hk]
    push_cast
    field_simp
    ring
  rw [e1, e2, exp_add, exp_int_mul_two_pi_mul_I, mul_one]

/-- term `k` of the back-transform of the sign-weighted spectrum -/
noncomputable def sgnTerm (x : ℕ → ℝ) (n : ℕ) (j : ℤ) (k : ℕ) : ℂ :=
  (sgnSeq n k : ℂ) * C10.dft (fun l => (x l : ℂ)) n k * exp (2 * π * I * (j * k / n))

/-- **pairing lemma**: the conjugate of term `k` is minus term `n − k` -/
theorem sgnTerm_conj (x : ℕ → ℝ) (n : ℕ) (j : ℤ) (k : ℕ) (h0 : 0 < k) (hk : k < n) :
    conj (sgnTerm x n j k) = -sgnTerm x n j (n - k) := by
  unfold sgnTerm
  have hn : (n : ℂ) ≠ 0 := by
    have : n ≠ 0 := by omega
    exact_mod_cast this
  rw [map_mul, map_mul, dft_real_conj x n k hk.le, sgnSeq_reflect n k h0 hk, ← exp_conj]
  have e1 : conj (2 * (π : ℂ) * I * ((j : ℂ) * k / n)) = -(2 * π * I * (j * k / n)) := by
    simp only [map_mul, map_div₀, conj_I, conj_ofReal, map_natCast, map_ofNat, map_intCast]
    ring
  have e2 : 2 * (π : ℂ) * I * ((j : ℂ) * ((n - k : ℕ) : ℂ) / n)
      = -(2 * π * I * (j * k / n)) + ((j : ℤ) : ℂ) * (2 * π * I) := by
    rw [Nat.cast_sub hk.le]
    field_simp
    ring
  rw [e1, e2, exp_add, exp_int_mul_two_pi_mul_I, mul_one]
  simp only [map_intCast, Int.cast_neg]
  ring

/-- the sign-weighted part of the analytic signal is purely imaginary -/
theorem sgn_sum_conj (x : ℕ → ℝ) (n : ℕ) (j : ℤ) :
    conj (∑ k ∈ range n, sgnTerm x n j k) = -∑ k ∈ range n, sgnTerm x n j k := by
  rcases n with _ | m
  · simp
  have h0 : sgnTerm x (m + 1) j 0 = 0 := by simp [sgnTerm, sgnSeq_zero]
  rw [sum_range_succ', h0, add_zero, map_sum]
  rw [← sum_range_reflect (fun i => sgnTerm x (m + 1) j (i + 1)) m, ← sum_neg_distrib]
  apply sum_congr rfl
  intro k hk
  have hk' := mem_range.1 hk
  rw [sgnTerm_conj x (m + 1) j (k + 1) (by omega) (by omega)]
  congr 2
  omega

/-- … so its real part vanishes -/
theorem sgn_sum_re (x : ℕ → ℝ) (n : ℕ) (j : ℤ) :
    (∑ k ∈ range n, sgnTerm x n j k).re = 0 := by
  have := congrArg Complex.re (sgn_sum_conj x n j)
  rw [conj_re, neg_re] at this
  linarith

/-- **the analytic signal reproduces the signal in its real part**: for a real signal `x` of
length `n` with DFT `X k = Σ_{l<n} x l e^{−2πi lk/n}`, the sequence
`y j = (1/n) Σ_{k<n} h k · X k · e^{2πi jk/n}` with `h = hilbertWeight n` has `Re (y j) = x j`.
(`h = 1 + s`; the `1` part is `x` by DFT inversion, the `s` part is purely imaginary by
`sgn_sum_conj`.) -/
theorem hilbert_real_part (x : ℕ → ℝ) (n j : ℕ) (hj : j < n) :
    (C10.idft (fun k => (hilbertWeight n k : ℂ) * C10.dft (fun l => (x l : ℂ)) n k) n j).re = x j := by
  have split : C10.idft (fun k => (hilbertWeight n k : ℂ) * C10.dft (fun l => (x l : ℂ)) n k) n j
      = C10.idft (C10.dft (fun l => (x l : ℂ)) n) n j
        + (n : ℂ)⁻¹ * ∑ k ∈ range n, sgnTerm x n j k := by
    unfold C10.idft
    rw [← mul_add, ← sum_add_distrib]
    congr 1
    apply sum_congr rfl
    intro k hk
    have h := hilbertWeight_eq_one_add_sgn n k
    have h' : (hilbertWeight n k : ℂ) = 1 + (sgnSeq n k : ℂ) := by exact_mod_cast congrArg (Int.cast : ℤ → ℂ) h
    dsimp only
    rw [h']
    unfold sgnTerm
    push_cast
    ring
  rw [split, C10.idft_comp_dft _ n j hj, add_re, ofReal_re]
  have : ((n : ℂ)⁻¹ * ∑ k ∈ range n, sgnTerm x n j k).re = 0 := by
    have e : (n : ℂ)⁻¹ = (((n : ℝ)⁻¹ : ℝ) : ℂ) := by push_cast; rfl
    rw [e, re_ofReal_mul, sgn_sum_re, mul_zero]
  rw [this, add_zero]

/-! ### The model's `idft` and `rfftToHilbert` over the reals -/

/-- the model reduces `j·k` modulo `n` before forming the phase; by periodicity of `cis` that is
the same phase factor -/
theorem cis_mod (n j k : ℕ) (hn : n ≠ 0) :
    toC (cis tR (tR.ofNat 2 * tR.pi * tR.ofNat (j * k % n) / tR.ofNat n))
      = exp (2 * π * I * (((j : ℤ) : ℂ) * k / n)) := by
  have hn' : (n : ℂ) ≠ 0 := by exact_mod_cast hn
  rw [toC_cis]
  simp only [tR_ofNat, tR_pi]
  obtain ⟨r, d, hdm⟩ : ∃ r d : ℕ, j * k % n = r ∧ (r : ℂ) = (j : ℂ) * k - n * (d : ℂ) := by
    refine ⟨_, j * k / n, rfl, ?_⟩
    have h2 : ((j * k % n : ℕ) : ℂ) + n * ((j * k / n : ℕ) : ℂ) = (j : ℂ) * k := by
      exact_mod_cast congrArg (Nat.cast : ℕ → ℂ) (Nat.mod_add_div (j * k) n)
    linear_combination h2
  rw [hdm.1]
  have : (((2 : ℕ) : ℝ) * π * (r : ℝ) / (n : ℝ) : ℝ) * I
      = 2 * π * I * (((j : ℤ) : ℂ) * k / n) + ((-(d : ℤ) : ℤ) : ℂ) * (2 * π * I) := by
    push_cast
    rw [hdm.2]
    field_simp
    ring
  rw [this, exp_add, exp_int_mul_two_pi_mul_I, mul_one]

/-- **the model's inverse DFT is the mathematical one** (input zero-padded or truncated to `n`) -/
theorem toC_idft (y : List (Cx ℝ)) (n j : ℕ) :
    toC (idft tR 0 y n j) = C10.idft (fun k => toC (y.getD k (0, 0))) n j := by
  rcases Nat.eq_zero_or_pos n with rfl | hn
  · simp [idft, C10.idft, csmul, toC]
    rfl
  have hn0 : n ≠ 0 := by omega
  unfold idft C10.idft
  simp only
  rw [toC_csmul, toC_foldl_cadd, toC_zero, zero_add]
  congr 1
  · simp
  · rw [sum_subset (s₁ := range (min y.length n)) (s₂ := range n)]
    · apply sum_congr rfl
      intro k _
      rw [toC_cmul, cis_mod n j k hn0]
    · intro k hk
      simp only [mem_range] at hk ⊢
      omega
    · intro k hk hk'
      simp only [mem_range] at hk hk'
      have : y.length ≤ k := by omega
      rw [toC_cmul, List.getD_eq_getElem?_getD, List.getElem?_eq_none this, Option.getD_none, toC_zero, zero_mul]

/-- the back-transform only reads bins `k < n` -/
theorem idft_congr (X Y : ℕ → ℂ) (n : ℕ) (j : ℤ) (h : ∀ k, k < n → X k = Y k) :
    C10.idft X n j = C10.idft Y n j := by
  unfold C10.idft
  congr 1
  apply sum_congr rfl
  intro k hk
  rw [h k (mem_range.1 hk)]

/-- reading beyond the end of a list gives the padding value -/
theorem getD_zero_of_le (y : List (Cx ℝ)) (k : ℕ) (h : y.length ≤ k) : y.getD k (0, 0) = (0, 0) := by
  rw [List.getD_eq_getElem?_getD, List.getElem?_eq_none h, Option.getD_none]

/-- reading inside a list -/
theorem getD_of_lt (y : List (Cx ℝ)) (k : ℕ) (h : k < y.length) : y.getD k (0, 0) = y[k] := by
  rw [List.getD_eq_getElem?_getD, List.getElem?_eq_getElem h, Option.getD_some]

section generic
variable {K : Type} [Add K] [Sub K] [Mul K] [Div K]
/-- the analytic signal has `n` samples -/
theorem rfftToHilbert_length (t : RT K) (zero : K) (xf : List (Cx K)) (n : ℕ) :
    (rfftToHilbert t zero xf n).length = n := by
  simp [rfftToHilbert]
end generic

/-- **`rfft_to_hilbert` over the reals**: sample `j` is the back-transform of the half spectrum
weighted by `hilbertWeight` (bins beyond the given half spectrum count as zero) -/
theorem toC_rfftToHilbert (xf : List (Cx ℝ)) (n j : ℕ) (hj : j < n) :
    toC ((rfftToHilbert tR 0 xf n)[j]'(by rw [rfftToHilbert_length]; exact hj))
      = C10.idft (fun k => (hilbertWeight n k : ℂ) * toC (xf.getD k (0, 0))) n j := by
  simp only [rfftToHilbert, List.getElem_map, List.getElem_range]
  rw [toC_idft]
  apply idft_congr
  intro k _
  rcases Nat.lt_or_ge k xf.length with h | h
  · rw [getD_of_lt _ k (by simpa using h)]
    simp only [List.getElem_map, List.getElem_range, toC_csmul, tR_ofNat, ofReal_natCast]
  · rw [getD_zero_of_le _ k (by simpa using h), getD_zero_of_le _ k h, toC_zero, mul_zero]

/-- **the analytic signal computed by the model reproduces the signal in its real part**: if
`xf` holds the bins `0 … ⌊n/2⌋` of the DFT of a real signal `x` of length `n` (what `rfft`
returns), the real part of sample `j` of `rfftToHilbert` is `x j` -/
theorem rfftToHilbert_real_part (x : ℕ → ℝ) (xf : List (Cx ℝ)) (n j : ℕ) (hj : j < n)
    (hxf : ∀ k, 2 * k ≤ n → toC (xf.getD k (0, 0)) = C10.dft (fun l => (x l : ℂ)) n k) :
    ((rfftToHilbert tR 0 xf n)[j]'(by rw [rfftToHilbert_length]; exact hj)).1 = x j := by
  rw [← toC_re, toC_rfftToHilbert xf n j hj, ← hilbert_real_part x n j hj]
  congr 1
  apply idft_congr
  intro k _
  rcases Nat.lt_or_ge n (2 * k) with h | h
  · rw [(hilbertWeight_spec n (by omega)).2.2.2 k h]; simp
  · rw [hxf k h]

/-! ## 3. Time shift of a spectrum -/

section generic
variable {K : Type} [Add K] [Sub K] [Mul K] [Neg K]

/-- `zip` truncates to the shorter of spectrum and frequency list -/
theorem timeshift_length (t : RT K) (x : List (Cx K)) (freqs : List K) (tau : K) :
    (timeshift t x freqs tau).length = min x.length freqs.length := by
  simp [timeshift]

/-- **`timeshift_spectra`**: bin `k` is multiplied by `e^{−2πi f_k τ}` -/
theorem timeshift_spec (t : RT K) (x : List (Cx K)) (freqs : List K) (tau : K) (k : ℕ)
    (hx : k < x.length) (hf : k < freqs.length) :
    (timeshift t x freqs tau)[k]'(by rw [timeshift_length]; omega)
      = cmul x[k] (cis t (-(t.ofNat 2 * t.pi * freqs[k] * tau))) := by
  simp [timeshift]
end generic

/-- over the reals: bin `k` is multiplied by the complex number `e^{−2πi f_k τ}` -/
theorem toC_timeshift (x : List (Cx ℝ)) (freqs : List ℝ) (tau : ℝ) (k : ℕ)
    (hx : k < x.length) (hf : k < freqs.length) :
    toC ((timeshift tR x freqs tau)[k]'(by rw [timeshift_length]; omega))
      = toC x[k] * exp (-(2 * π * I * (freqs[k] * tau))) := by
  rw [timeshift_spec tR x freqs tau k hx hf, toC_cmul, toC_cis]
  congr 2
  simp only [tR_ofNat, tR_pi]
  push_cast
  ring

/-- on the DFT frequency grid `f_k = k/(n dt)` a delay of `m` samples, `τ = m dt`, multiplies
bin `k` by `e^{−2πi k m/n}` -/
theorem toC_timeshift_grid (x : List (Cx ℝ)) (freqs : List ℝ) (n : ℕ) (dt : ℝ) (hdt : dt ≠ 0)
    (m : ℤ) (hlen : x.length ≤ freqs.length)
    (hfreq : ∀ k (h : k < freqs.length), freqs[k] = (k : ℝ) / (n * dt)) (k : ℕ) :
    toC ((timeshift tR x freqs (m * dt)).getD k (0, 0))
      = toC (x.getD k (0, 0)) * exp (-(2 * π * I * (m * k / n))) := by
  rcases Nat.lt_or_ge k x.length with h | h
  · have hf : k < freqs.length := by omega
    rw [getD_of_lt _ k (by rw [timeshift_length]; omega), getD_of_lt _ k h,
      toC_timeshift x freqs _ k h hf, hfreq k hf]
    congr 3
    push_cast
    have : (dt : ℂ) ≠ 0 := by exact_mod_cast hdt
    rcases Nat.eq_zero_or_pos n with rfl | hn
    · simp
    · have : (n : ℂ) ≠ 0 := by exact_mod_cast hn.ne'
      field_simp
  · rw [getD_zero_of_le _ k (by rw [timeshift_length]; omega), getD_zero_of_le _ k h, toC_zero,
      zero_mul]

/-- **shift theorem for the model**: with `f_k = k/(n dt)` and `τ = m dt`, the back-transform of
the time-shifted spectrum at sample `j` is the back-transform of the original spectrum at
sample `(j − m) mod n`: a circular shift by `m` samples -/
theorem shift_theorem (X : List (Cx ℝ)) (freqs : List ℝ) (n : ℕ) (hn : n ≠ 0) (dt : ℝ) (hdt : dt ≠ 0)
    (m : ℤ) (hlen : X.length ≤ freqs.length)
    (hfreq : ∀ k (h : k < freqs.length), freqs[k] = (k : ℝ) / (n * dt)) (j : ℕ) :
    idft tR 0 (timeshift tR X freqs (m * dt)) n j
      = idft tR 0 X n ((((j : ℤ) - m) % n).toNat) := by
  apply toC_injective
  rw [toC_idft, toC_idft]
  have hnz : (n : ℤ) ≠ 0 := by exact_mod_cast hn
  rw [Int.toNat_of_nonneg (Int.emod_nonneg _ hnz), C10.idft_emod _ n hn, ← C10.idft_shift]
  apply idft_congr
  intro k _
  exact toC_timeshift_grid X freqs n dt hdt m hlen hfreq k

/-- the same for the mathematical back-transform: a delay, not yet reduced modulo `n` -/
theorem shift_theorem_idft (X : List (Cx ℝ)) (freqs : List ℝ) (n : ℕ) (dt : ℝ) (hdt : dt ≠ 0)
    (m : ℤ) (hlen : X.length ≤ freqs.length)
    (hfreq : ∀ k (h : k < freqs.length), freqs[k] = (k : ℝ) / (n * dt)) (j : ℕ) :
    toC (idft tR 0 (timeshift tR X freqs (m * dt)) n j)
      = C10.idft (fun k => toC (X.getD k (0, 0))) n ((j : ℤ) - m) := by
  rw [toC_idft, ← C10.idft_shift]
  apply idft_congr
  intro k _
  exact toC_timeshift_grid X freqs n dt hdt m hlen hfreq k

/-- if the spectrum is the DFT of a signal `x` of length `n`, the shifted spectrum transforms
back to `x` circularly shifted by `m` samples -/
theorem shift_theorem_signal (x : ℕ → ℂ) (X : List (Cx ℝ)) (freqs : List ℝ) (n : ℕ) (dt : ℝ)
    (hdt : dt ≠ 0) (m : ℤ) (hlen : X.length ≤ freqs.length)
    (hfreq : ∀ k (h : k < freqs.length), freqs[k] = (k : ℝ) / (n * dt))
    (hX : ∀ k, k < n → toC (X.getD k (0, 0)) = C10.dft x n k) (j : ℕ) (hj : j < n) :
    toC (idft tR 0 (timeshift tR X freqs (m * dt)) n j) = x ((((j : ℤ) - m) % n).toNat) := by
  have hn : n ≠ 0 := by omega
  have hnz : (0 : ℤ) < n := by exact_mod_cast Nat.pos_of_ne_zero hn
  rw [shift_theorem X freqs n hn dt hdt m hlen hfreq j, toC_idft, idft_congr _ _ n _ hX]
  apply C10.idft_comp_dft
  have := Int.emod_lt_of_pos ((j : ℤ) - m) hnz
  have := Int.emod_nonneg ((j : ℤ) - m) hnz.ne'
  omega

/-- **the delayed analytic signal**: `rfftToHilbert` of the time-shifted half spectrum is the
analytic signal of the unshifted one, circularly shifted by `m` samples -/
theorem hilbert_shift (xf : List (Cx ℝ)) (freqs : List ℝ) (n : ℕ) (dt : ℝ) (hdt : dt ≠ 0)
    (m : ℤ) (hlen : xf.length ≤ freqs.length)
    (hfreq : ∀ k (h : k < freqs.length), freqs[k] = (k : ℝ) / (n * dt)) (j : ℕ) (hj : j < n) :
    (rfftToHilbert tR 0 (timeshift tR xf freqs (m * dt)) n)[j]'(by
        rw [rfftToHilbert_length]; exact hj)
      = (rfftToHilbert tR 0 xf n)[(((j : ℤ) - m) % n).toNat]'(by
        rw [rfftToHilbert_length]
        have hnz : (0 : ℤ) < n := by omega
        have := Int.emod_lt_of_pos ((j : ℤ) - m) hnz
        have := Int.emod_nonneg ((j : ℤ) - m) hnz.ne'
        omega) := by
  have hn : n ≠ 0 := by omega
  have hnz : (0 : ℤ) < n := by exact_mod_cast Nat.pos_of_ne_zero hn
  have h1 := Int.emod_lt_of_pos ((j : ℤ) - m) hnz
  have h2 := Int.emod_nonneg ((j : ℤ) - m) hnz.ne'
  apply toC_injective
  rw [toC_rfftToHilbert _ n j hj, toC_rfftToHilbert _ n _ (by omega)]
  rw [Int.toNat_of_nonneg h2, C10.idft_emod _ n hn, ← C10.idft_shift]
  apply idft_congr
  intro k _
  rw [toC_timeshift_grid xf freqs n dt hdt m hlen hfreq k]
  ring

/-! ## 4. Placement in the output window -/

section placement
variable {K : Type} [Add K]

/-- NumPy's normalisation of a slice bound for an array of length `nOut` -/
def normIdx (nOut : ℤ) (i : ℤ) : ℤ := if i < 0 then max (i + nOut) 0 else min i nOut

/-- `place`, with the slice bounds named -/
theorem place_eq (out resp : List (Cx K)) (start : ℤ) :
    place out resp start =
      if normIdx out.length (start + resp.length) - normIdx out.length start ≠ resp.length then out
      else (List.zip (List.range out.length) out).map (fun (p : ℕ × Cx K) =>
        if normIdx out.length start ≤ (p.1 : ℤ) ∧ (p.1 : ℤ) < normIdx out.length (start + resp.length) then
          (match resp[((p.1 : ℤ) - normIdx out.length start).toNat]? with
           | some r => cadd p.2 r
           | none => p.2)
        else p.2) := rfl

/-- the output window keeps its length, whatever the start index -/
theorem place_length (out resp : List (Cx K)) (start : ℤ) :
    (place out resp start).length = out.length := by
  rw [place_eq]
  split_ifs <;> simp

/-- **placement**: if the slice `[start, start + resp.length)` fits in the output, the response
is added there sample by sample and everything else is untouched -/
theorem place_spec (out resp : List (Cx K)) (start : ℤ) (h0 : 0 ≤ start)
    (hfit : start + resp.length ≤ out.length) (i : ℕ) (hi : i < out.length) :
    (place out resp start)[i]'(by rw [place_length]; exact hi)
      = if h : start ≤ (i : ℤ) ∧ (i : ℤ) < start + resp.length
        then cadd out[i] (resp[((i : ℤ) - start).toNat]'(by omega)) else out[i] := by
  have hlo : normIdx out.length start = start := by
    unfold normIdx; rw [if_neg (by omega)]; omega
  have hhi : normIdx out.length (start + resp.length) = start + resp.length := by
    unfold normIdx; rw [if_neg (by omega)]; omega
  have hP : place out resp start = (List.zip (List.range out.length) out).map (fun (p : ℕ × Cx K) =>
        if start ≤ (p.1 : ℤ) ∧ (p.1 : ℤ) < start + resp.length then
          (match resp[((p.1 : ℤ) - start).toNat]? with
           | some r => cadd p.2 r
           | none => p.2)
        else p.2) := by
    rw [place_eq, hlo, hhi, if_neg (by simp)]
  simp only [hP, List.getElem_map, List.getElem_zip, List.getElem_range]
  split_ifs with h
  · rw [List.getElem?_eq_getElem (by omega)]
  · rfl

/-- **out of range**: if the slice starts inside or beyond the array but does not fit, nothing
is written (NumPy raises a broadcast error here; the harness only uses delays that fit) -/
theorem place_out_of_range (out resp : List (Cx K)) (start : ℤ) (h0 : 0 ≤ start)
    (hfit : (out.length : ℤ) < start + resp.length) : place out resp start = out := by
  have hlo : normIdx out.length start = min start out.length := by
    unfold normIdx; rw [if_neg (by omega)]
  have hhi : normIdx out.length (start + resp.length) = out.length := by
    unfold normIdx; rw [if_neg (by omega)]; omega
  rw [place_eq, hlo, hhi]
  split_ifs with h
  · rfl
  · -- only possible for an empty response placed beyond the end: the slice is empty
    have hemp : ¬ (min start (out.length : ℤ) ≤ (out.length : ℤ) ∧ False) := by simp
    apply List.ext_getElem
    · simp
    · intro i h1 h2
      simp only [List.getElem_map, List.getElem_zip, List.getElem_range]
      rw [if_neg]
      omega

/-- **a negative start counts from the end** (NumPy slicing): if the whole slice
`[start, start + resp.length)` has negative bounds not below `−out.length`, the response is
added at `start + out.length`, silently wrapped round to the end of the window -/
theorem place_negative_wraps (out resp : List (Cx K)) (start : ℤ)
    (hlo' : -(out.length : ℤ) ≤ start) (hneg : start + resp.length < 0) :
    place out resp start = place out resp (start + out.length) := by
  have hlo : normIdx out.length start = start + out.length := by
    unfold normIdx; rw [if_pos (by omega)]; omega
  have hhi : normIdx out.length (start + resp.length) = start + out.length + resp.length := by
    unfold normIdx; rw [if_pos (by omega)]; omega
  have hlo2 : normIdx out.length (start + out.length) = start + out.length := by
    unfold normIdx; rw [if_neg (by omega)]; omega
  have hhi2 : normIdx out.length (start + out.length + resp.length) = start + out.length + resp.length := by
    unfold normIdx; rw [if_neg (by omega)]; omega
  rw [place_eq, place_eq, hlo, hhi, hlo2, hhi2]

/-- **a slice straddling index 0 is rejected**: `start < 0 ≤ start + resp.length` with a
non-empty output gives slice bounds `start + nOut … start + n`, whose length is not `n` -/
theorem place_straddle (out resp : List (Cx K)) (start : ℤ) (hout : out ≠ [])
    (hlo' : -(out.length : ℤ) ≤ start) (hneg : start < 0) (hpos : 0 ≤ start + resp.length) :
    place out resp start = out := by
  have : 0 < out.length := List.length_pos_iff.2 hout
  have hlo : normIdx out.length start = start + out.length := by
    unfold normIdx; rw [if_pos (by omega)]; omega
  have hhi : normIdx out.length (start + resp.length) = min (start + resp.length) out.length := by
    unfold normIdx; rw [if_neg (by omega)]
  rw [place_eq, hlo, hhi, if_pos (by omega)]

/-- **response sample `m` lands on output sample `q − t0idx + m`** -/
theorem placement_sample (out resp : List (Cx K)) (q : ℤ) (t0idx m : ℕ) (h0 : 0 ≤ q - t0idx)
    (hfit : q - t0idx + resp.length ≤ out.length) (hm : m < resp.length) :
    (place out resp (q - t0idx))[(q - t0idx + m).toNat]'(by rw [place_length]; omega)
      = cadd (out[(q - t0idx + m).toNat]'(by omega)) resp[m] := by
  rw [place_spec out resp (q - t0idx) h0 hfit _ (by omega), dif_pos (by omega)]
  congr 1
  have : (((q - (t0idx : ℤ) + (m : ℤ)).toNat : ℕ) : ℤ) - (q - t0idx) = m := by omega
  simp only [this, Int.toNat_natCast]

/-- **the time-zero sample of the toneburst lands on output sample `q`** -/
theorem placement_t0 (out resp : List (Cx K)) (q : ℤ) (t0idx : ℕ) (h0 : 0 ≤ q - t0idx)
    (hfit : q - t0idx + resp.length ≤ out.length) (ht0 : t0idx < resp.length) :
    (place out resp (q - t0idx))[q.toNat]'(by rw [place_length]; omega)
      = cadd (out[q.toNat]'(by omega)) resp[t0idx] := by
  have := placement_sample out resp q t0idx t0idx h0 hfit ht0
  simpa using this

end placement

/-! ## 5. A delay that is a whole number of samples -/

/-- a time shift by zero is the identity -/
theorem timeshift_zero (x : List (Cx ℝ)) (freqs : List ℝ) (hlen : x.length ≤ freqs.length) :
    timeshift tR x freqs 0 = x := by
  apply List.ext_getElem
  · rw [timeshift_length]; omega
  · intro k h1 h2
    rw [timeshift_spec tR x freqs 0 k h2 (by omega)]
    simp [cmul, cis]

/-- **aligned delays split exactly**: `delay = q·dt` gives `q` whole samples and remainder `0` -/
theorem aligned_exact (q : ℤ) (dt : ℝ) (hdt : 0 < dt) : splitDelay tR (q * dt) dt = (q, 0) := by
  unfold splitDelay
  simp only [tR_floor, tR_ofInt]
  have : (q : ℝ) * dt / dt = q := by field_simp
  rw [this, Int.floor_intCast, sub_self]


/-- **split + shift + placement for an aligned delay**: for `delay = q·dt` the fractional shift is
by `0`, so the response is the unshifted analytic signal, and placing it at
`start = q − t0idx` puts its time-zero sample `t0idx` exactly on output sample `q` -/
theorem aligned_delay (xf : List (Cx ℝ)) (freqs : List ℝ) (hlen : xf.length ≤ freqs.length)
    (n : ℕ) (q : ℤ) (dt : ℝ) (hdt : 0 < dt) (out : List (Cx ℝ)) (t0idx : ℕ)
    (h0 : 0 ≤ q - t0idx) (hfit : q - t0idx + n ≤ out.length) (ht0 : t0idx < n) :
    rfftToHilbert tR 0 (timeshift tR xf freqs (splitDelay tR (q * dt) dt).2) n
        = rfftToHilbert tR 0 xf n ∧
    ∃ (h1 : q.toNat < (place out (rfftToHilbert tR 0 (timeshift tR xf freqs
              (splitDelay tR (q * dt) dt).2) n) ((splitDelay tR (q * dt) dt).1 - t0idx)).length)
      (h2 : q.toNat < out.length) (h3 : t0idx < (rfftToHilbert tR 0 xf n).length),
      (place out (rfftToHilbert tR 0 (timeshift tR xf freqs (splitDelay tR (q * dt) dt).2) n)
          ((splitDelay tR (q * dt) dt).1 - t0idx))[q.toNat]
        = cadd out[q.toNat] (rfftToHilbert tR 0 xf n)[t0idx] := by
  rw [aligned_exact q dt hdt]
  simp only [timeshift_zero xf freqs hlen, true_and]
  have hl : (rfftToHilbert tR 0 xf n).length = n := rfftToHilbert_length _ _ _ _
  refine ⟨by rw [place_length]; omega, by omega, by omega, ?_⟩
  exact placement_t0 out _ q t0idx h0 (by rw [hl]; exact hfit) (by rw [hl]; exact ht0)

/-! ## 6. Non-vacuity -/

section examples
example : (List.range 4).map (hilbertWeight 4) = [1, 2, 1, 0] := by decide
example : (List.range 5).map (hilbertWeight 5) = [1, 2, 2, 0, 0] := by decide
example : (List.range 1).map (hilbertWeight 1) = [1] := by decide
example : (List.range 5).map (sgnSeq 5) = [0, 1, 1, -1, -1] := by decide
example : (List.range 4).map (sgnSeq 4) = [0, 1, 0, -1] := by decide

/-- rational scalars with exact floor/ceil (the trigonometric fields are placeholders: they are
not used by `lenPulse`, `toneburst2Layout`, `splitDelay`, `place`) -/
def tQ : RT ℚ :=
  { sin := id, cos := id, pi := 3, ofNat := Nat.cast, ofInt := Int.cast, floor := Rat.floor,
    ceil := Rat.ceil }

-- 5 cycles at 5 MHz sampled at 100 MHz: 100 samples, made odd
example : lenPulse tQ 5 5 (1/100) = 101 := by decide +kernel
example : toneburst2Layout tQ 5 5 (1/100) 2 3 = (606, 252) := by decide +kernel
example : splitDelay tQ (7/2) (1/2) = (7, 0) := by decide +kernel
example : splitDelay tQ (15/4) (1/2) = (7, 1/4) := by decide +kernel
example : (toneburst tQ 0 5 5 (1/100) 300 true).length = 300 := toneburst_length ..
example : (toneburst tQ 0 5 5 (1/100) 300 true)[0]'(by rw [toneburst_length]; decide)
    = pulse tQ 5 5 (1/100) (lenPulse tQ 5 5 (1/100) / 2) :=
  toneburst_wrap_zero tQ 0 5 5 (1/100) 300 (by decide +kernel)

-- placement on rational data
example : place [((1:ℚ), (0:ℚ)), (2, 0), (3, 0), (4, 0)] [(10, 1), (20, 2)] 1
    = [(1, 0), (12, 1), (23, 2), (4, 0)] := by decide +kernel
example : place [((1:ℚ), (0:ℚ)), (2, 0), (3, 0), (4, 0)] [(10, 1), (20, 2)] 2
    = [(1, 0), (2, 0), (13, 1), (24, 2)] := by decide +kernel
-- does not fit: unchanged
example : place [((1:ℚ), (0:ℚ)), (2, 0), (3, 0), (4, 0)] [(10, 1), (20, 2)] 3
    = [(1, 0), (2, 0), (3, 0), (4, 0)] := by decide +kernel
-- negative start: counted from the end
example : place [((1:ℚ), (0:ℚ)), (2, 0), (3, 0), (4, 0)] [(10, 1), (20, 2)] (-3)
    = [(1, 0), (12, 1), (23, 2), (4, 0)] := by decide +kernel
-- straddling index 0: rejected
example : place [((1:ℚ), (0:ℚ)), (2, 0), (3, 0), (4, 0)] [(10, 1), (20, 2)] (-1)
    = [(1, 0), (2, 0), (3, 0), (4, 0)] := by decide +kernel
-- time zero of the response (index 1) lands on output sample q = 2
example : (place [((1:ℚ), (0:ℚ)), (2, 0), (3, 0), (4, 0)] [(10, 1), (20, 2)] (2 - 1))[2]?
    = some (23, 2) := by decide +kernel

-- the real theorems instantiated
example : pulse tR 5 5 (1/100) (lenPulse tR 5 5 (1/100) / 2) = (1, 0) := pulse_peak 5 5 (1/100)
example : hann tR 7 3 = 1 := hann_centre 7 (by norm_num)
example : hann tR 7 0 = 0 ∧ hann tR 7 6 = 0 := hann_ends 7 (by norm_num)
example : splitDelay tR ((7 : ℤ) * (1/2 : ℝ)) (1/2) = (7, 0) := aligned_exact 7 (1/2) (by norm_num)

/-- the half spectrum of a real signal, as `rfft` returns it -/
noncomputable def rfftR (x : ℕ → ℝ) (n : ℕ) : List (Cx ℝ) :=
  (List.range (n / 2 + 1)).map (fun k =>
    ((C10.dft (fun l => (x l : ℂ)) n k).re, (C10.dft (fun l => (x l : ℂ)) n k).im))

/-- the hypothesis of `rfftToHilbert_real_part` is satisfiable for every real signal -/
theorem rfftR_spec (x : ℕ → ℝ) (n k : ℕ) (hk : 2 * k ≤ n) :
    toC ((rfftR x n).getD k (0, 0)) = C10.dft (fun l => (x l : ℂ)) n k := by
  rw [getD_of_lt _ k (by simp [rfftR]; omega)]
  simp [rfftR, toC]

example (x : ℕ → ℝ) (n j : ℕ) (hj : j < n) :
    ((rfftToHilbert tR 0 (rfftR x n) n)[j]'(by rw [rfftToHilbert_length]; exact hj)).1 = x j :=
  rfftToHilbert_real_part x (rfftR x n) n j hj (fun k hk => rfftR_spec x n k hk)

/-- the frequency grid `f_k = k/(n dt)`, `k < L` -/
noncomputable def freqGrid (n : ℕ) (dt : ℝ) (L : ℕ) : List ℝ :=
  (List.range L).map (fun (k : ℕ) => (k : ℝ) / (n * dt))

-- delaying by `m` samples through the spectrum shifts the analytic signal circularly
example (x : ℕ → ℝ) (n j : ℕ) (hj : j < n) (dt : ℝ) (hdt : dt ≠ 0) (m : ℤ)
    (hjm : (((j : ℤ) - m) % n).toNat < n) :
    ((rfftToHilbert tR 0 (timeshift tR (rfftR x n) (freqGrid n dt (n / 2 + 1)) (m * dt)) n)[j]'(by
        rw [rfftToHilbert_length]; exact hj)).1 = x (((j : ℤ) - m) % n).toNat := by
  rw [hilbert_shift (rfftR x n) (freqGrid n dt (n / 2 + 1)) n dt hdt m (by simp [rfftR, freqGrid])
    (by intro k h; simp only [freqGrid, List.getElem_map, List.getElem_range]) j hj]
  exact rfftToHilbert_real_part x (rfftR x n) n _ hjm (fun k hk => rfftR_spec x n k hk)
end examples

/-! ## On the source as translated on this run

`Src.timeshift_window` and `Src.delay_remainder` (file `Generated/SrcC11.lean`) are the translations of the window
arithmetic of the kernel `_timeshift_timedomain` and of the remainder formula of `transfer_func_to_timetraces`, made from
`/repo/src` on every run; `Tie.C11` identifies both with the two halves of the model's `splitDelay`. -/
section OnSource
open Arim.Tie.C11

/-- the routines of the translated code at `K = ℝ` -/
noncomputable def srcOps : Src.Ops ℝ :=
  { sin := Real.sin, cos := Real.cos, asin := Real.arcsin, sqrt := Real.sqrt, exp := Real.exp, sinc := id,
    pi := Real.pi, ofNat := fun n => (n : ℝ), ofInt := fun z => (z : ℝ),
    floor := fun x => ⌊x⌋, round := fun x => round x, trunc := fun x => ⌊x⌋ }

theorem rt_srcOps : rt srcOps Int.ceil = tR := rfl

/-- **the split of the source reconstructs the delay**: with `q` the whole-sample part the kernel uses (window start plus
`t0_idx`) and `ρ` the remainder its caller shifts by, `delay = q·dt + ρ` and `0 ≤ ρ < dt` — for every delay and step -/
theorem src_split_reconstructs (delays : ℕ → ℝ) (dt : ℝ) (hdt : 0 < dt) (t0 : ℤ) (n idx : ℕ) :
    let q := (Src.timeshift_window srcOps delays dt t0 n idx).1 + t0
    let ρ := Src.delay_remainder srcOps (delays idx) dt
    delays idx = (q : ℝ) * dt + ρ ∧ 0 ≤ ρ ∧ ρ < dt := by
  simp only [Src.timeshift_window, Src.delay_remainder, srcOps, Int.sub_add_cancel]
  have h1 := Int.floor_le (delays idx / dt)
  have h2 := Int.lt_floor_add_one (delays idx / dt)
  rw [le_div_iff₀ hdt] at h1
  rw [div_lt_iff₀ hdt] at h2
  refine ⟨by ring, by linarith, by nlinarith⟩

/-- the window of the kernel is as long as the response (so that NumPy's slice assignment is defined) -/
theorem src_window_length (delays : ℕ → ℝ) (dt : ℝ) (t0 : ℤ) (n idx : ℕ) :
    (Src.timeshift_window srcOps delays dt t0 n idx).2 - (Src.timeshift_window srcOps delays dt t0 n idx).1 = n := by
  simp only [Src.timeshift_window]; omega

/-- **a delay on a sample, on the source**: `delay = q·dt` opens the window at `q − t0_idx` and leaves no remainder, so
(by `aligned_delay`) the time-zero sample of the response lands exactly on output sample `q` -/
theorem src_aligned (q : ℤ) (dt : ℝ) (hdt : 0 < dt) (t0 : ℤ) (n idx : ℕ) (delays : ℕ → ℝ) (hd : delays idx = q * dt) :
    Src.timeshift_window srcOps delays dt t0 n idx = (q - t0, q - t0 + n) ∧ Src.delay_remainder srcOps (delays idx) dt = 0 := by
  rw [tie_timeshift_window srcOps Int.ceil, tie_delay_remainder srcOps Int.ceil, rt_srcOps, hd, aligned_exact q dt hdt]
  exact ⟨rfl, rfl⟩

/-- non-vacuity on rationals-as-reals: delay 3.75 samples of 0.5 → 7 whole samples, remainder 0.25 -/
example : Src.delay_remainder srcOps (15/4) (1/2) = 1/4 := by
  have h : ⌊(15/4 : ℝ) / (1/2)⌋ = 7 := by
    rw [Int.floor_eq_iff]; constructor <;> norm_num
  simp only [Src.delay_remainder, srcOps, h]; norm_num

end OnSource

end Arim.C11
