import ArimModel.TimeDomain
import Mathlib.Tactic.Ring
import Mathlib.Algebra.Order.Floor.Ring
import Mathlib.Data.Rat.Floor
/-! # C11 — time-domain synthesis places each echo at its delay with the right waveform -/
namespace Arim.C11
open Arim.TD

/-- **The split of a delay is exact for every integer quotient**: `q·dt + (delay − q·dt) = delay`
(in particular for `q = ⌊delay/dt⌋`, the number of whole samples) -/
theorem split_exact {K : Type} [CommRing K] (delay dt : K) (q : Int) :
    (q : K) * dt + (delay - (q : K) * dt) = delay := by ring

/-- with `q = ⌊delay/dt⌋` the remainder lies in `[0, dt)` -/
theorem split_remainder_range {K : Type} [Field K] [LinearOrder K] [IsStrictOrderedRing K] [FloorRing K]
    (delay dt : K) (hdt : 0 < dt) :
    0 ≤ delay - ((⌊delay / dt⌋ : Int) : K) * dt ∧ delay - ((⌊delay / dt⌋ : Int) : K) * dt < dt := by
  have h1 := Int.floor_le (delay / dt)
  have h2 := Int.lt_floor_add_one (delay / dt)
  constructor
  · have : ((⌊delay / dt⌋ : Int) : K) * dt ≤ delay := by
      calc ((⌊delay / dt⌋ : Int) : K) * dt ≤ delay / dt * dt := mul_le_mul_of_nonneg_right h1 hdt.le
        _ = delay := by field_simp
    linarith
  · have : delay < (((⌊delay / dt⌋ : Int) : K) + 1) * dt := by
      calc delay = delay / dt * dt := by field_simp
        _ < (((⌊delay / dt⌋ : Int) : K) + 1) * dt := mul_lt_mul_of_pos_right h2 hdt
    linarith

/-- **Counter-witness for the pre-fix code (finding F4).** On the exact rational value `d` of the
double `0.1`, eight time units contain 79 whole steps and a remainder `8 − 79 d`; pairing that
remainder (what `delay % dt` returns) with the quotient `80` (what `floor(fl(8.0/0.1))` returns
in double arithmetic) does not decompose the delay: `80 d + (8 − 79 d) ≠ 8`. -/
theorem split_mod_counter :
    let d : Rat := 3602879701896397 / 36028797018963968   -- the double 0.1
    Rat.floor (8 / d) = 79 ∧ (80 : Rat) * d + (8 - 79 * d) ≠ 8 := by
  refine ⟨by decide +kernel, by norm_num⟩

/-- in double arithmetic `8.0 / 0.1` is exactly `80.0` -/
theorem float_quotient_is_80 : ((8.0 : Float) / 0.1).toBits = (80.0 : Float).toBits := by decide +kernel

end Arim.C11
