import ArimModel.Das
import ArimProofs.Tie.C02
import ArimProofs.Lemmas.Das
import Mathlib.Data.Rat.Floor
import Mathlib.Tactic.NormNum.Basic
import Mathlib.Analysis.InnerProductSpace.Basic
import Mathlib.Analysis.Complex.Basic
/-! # C02 — delay-and-sum image equals its mathematical definition -/
namespace Arim.C02
open Arim.Das
open scoped RealInnerProductSpace

variable {E : Type*} [NormedAddCommGroup E] [InnerProductSpace ℝ E]

/-- subgradient inequality for the norm -/
theorem norm_sub_ge (z w d : E) (hz : z ≠ d) :
    ‖z - d‖ + ⟪(‖z - d‖⁻¹) • (z - d), w - z⟫ ≤ ‖w - d‖ := by
  have hpos : 0 < ‖z - d‖ := norm_pos_iff.mpr (sub_ne_zero.mpr hz)
  set u := (‖z - d‖⁻¹) • (z - d) with hu
  have hun : ‖u‖ = 1 := by
    rw [hu, norm_smul, norm_inv, norm_norm]; field_simp
  have h1 : ⟪u, w - d⟫ ≤ ‖w - d‖ := by
    calc ⟪u, w - d⟫ ≤ ‖u‖ * ‖w - d‖ := real_inner_le_norm _ _
      _ = ‖w - d‖ := by rw [hun, one_mul]
  have h2 : ⟪u, w - d⟫ = ⟪u, w - z⟫ + ‖z - d‖ := by
    have : w - d = (w - z) + (z - d) := by abel
    rw [this, inner_add_right]
    congr 1
    rw [hu, real_inner_smul_left, real_inner_self_eq_norm_sq]
    field_simp
  linarith

/-- **Geometric median certificate.** If the sum of the unit vectors from the data to `z` has
norm at most `ε` (what the Newton iteration of `geomed` drives to zero), then `z` minimises the
sum of distances up to `ε‖w − z‖`: for `ε = 0` it is *the* geometric median of the delayed
samples. Any real inner-product space (ℂ ≅ ℝ² for the complex samples), any finite data set. -/
theorem geomed_optimal {ι : Type*} (s : Finset ι) (d : ι → E) (z w : E) (ε : ℝ)
    (hz : ∀ i ∈ s, z ≠ d i)
    (hgrad : ‖∑ i ∈ s, (‖z - d i‖⁻¹) • (z - d i)‖ ≤ ε) :
    ∑ i ∈ s, ‖z - d i‖ ≤ ∑ i ∈ s, ‖w - d i‖ + ε * ‖w - z‖ := by
  have hsum : ∑ i ∈ s, (‖z - d i‖ + ⟪(‖z - d i‖⁻¹) • (z - d i), w - z⟫) ≤ ∑ i ∈ s, ‖w - d i‖ :=
    Finset.sum_le_sum (fun i hi => norm_sub_ge z w (d i) (hz i hi))
  rw [Finset.sum_add_distrib, ← sum_inner] at hsum
  have hcs : -(ε * ‖w - z‖) ≤ ⟪∑ i ∈ s, (‖z - d i‖⁻¹) • (z - d i), w - z⟫ := by
    have := abs_real_inner_le_norm (∑ i ∈ s, (‖z - d i‖⁻¹) • (z - d i)) (w - z)
    have h3 : ‖∑ i ∈ s, (‖z - d i‖⁻¹) • (z - d i)‖ * ‖w - z‖ ≤ ε * ‖w - z‖ :=
      mul_le_mul_of_nonneg_right hgrad (norm_nonneg _)
    have := neg_abs_le (⟪∑ i ∈ s, (‖z - d i‖⁻¹) • (z - d i), w - z⟫)
    linarith
  linarith

/-! ### Huber location (aggregation `("huber", τ)`, `arim.im.huber`)

`_huber_iter` replaces the iterate `z` by the weighted mean of the samples with weights `w_i = min(1, τ/‖z − d_i‖)`;
`huber_m_estimate` iterates until the update is below `xtol`. -/

/-- Huber's loss of a distance `r` -/
noncomputable def huberRho (τ r : ℝ) : ℝ := if r ≤ τ then r ^ 2 / 2 else τ * r - τ ^ 2 / 2

/-- the weight of `_huber_iter`: `min(1, τ / r)` -/
noncomputable def huberW (τ r : ℝ) : ℝ := min 1 (τ / r)

/-- `ψ(u) = w(‖u‖) · u`, the gradient of `u ↦ ρ_τ(‖u‖)` -/
noncomputable def huberPsi (τ : ℝ) (u : E) : E := huberW τ ‖u‖ • u

theorem huberPsi_small (τ : ℝ) (u : E) (h : ‖u‖ ≤ τ) : huberPsi τ u = u := by
  unfold huberPsi huberW
  rcases eq_or_ne u 0 with rfl | hu
  · simp
  · have hpos : 0 < ‖u‖ := norm_pos_iff.mpr hu
    rw [min_eq_left ((one_le_div hpos).mpr h), one_smul]

theorem huberPsi_large (τ : ℝ) (u : E) (h : τ < ‖u‖) (hτ : 0 ≤ τ) : huberPsi τ u = (τ / ‖u‖) • u := by
  unfold huberPsi huberW
  have hpos : 0 < ‖u‖ := lt_of_le_of_lt hτ h
  rw [min_eq_right ((div_le_one hpos).mpr h.le)]

/-- **subgradient inequality of Huber's loss** (convexity, no calculus) -/
theorem huber_subgradient (τ : ℝ) (hτ : 0 ≤ τ) (u v : E) :
    huberRho τ ‖u‖ + ⟪huberPsi τ u, v - u⟫ ≤ huberRho τ ‖v‖ := by
  have hcs : ⟪u, v⟫ ≤ ‖u‖ * ‖v‖ := real_inner_le_norm u v
  have hnu := norm_nonneg u
  have hnv := norm_nonneg v
  by_cases hu : ‖u‖ ≤ τ
  · rw [huberPsi_small τ u hu, inner_sub_right, real_inner_self_eq_norm_sq]
    simp only [huberRho, if_pos hu]
    by_cases hv : ‖v‖ ≤ τ
    · rw [if_pos hv]
      have h2 : 0 ≤ ‖u - v‖ ^ 2 := sq_nonneg _
      rw [norm_sub_sq_real] at h2
      nlinarith
    · rw [if_neg hv]
      push_neg at hv
      nlinarith [mul_nonneg (sub_nonneg.mpr hu) (sub_nonneg.mpr hv.le)]
  · push_neg at hu
    have hpos : 0 < ‖u‖ := lt_of_le_of_lt hτ hu
    rw [huberPsi_large τ u hu hτ, inner_smul_left, inner_sub_right, real_inner_self_eq_norm_sq]
    simp only [huberRho, if_neg (not_le.mpr hu), RCLike.conj_to_real]
    have h1 : τ / ‖u‖ * (⟪u, v⟫ - ‖u‖ ^ 2) ≤ τ * ‖v‖ - τ * ‖u‖ := by
      have : τ / ‖u‖ * (⟪u, v⟫ - ‖u‖ ^ 2) = τ * (⟪u, v⟫ / ‖u‖) - τ * ‖u‖ := by
        field_simp
      rw [this]
      have : ⟪u, v⟫ / ‖u‖ ≤ ‖v‖ := by
        rw [div_le_iff₀ hpos]; linarith [mul_comm ‖u‖ ‖v‖]
      nlinarith
    by_cases hv : ‖v‖ ≤ τ
    · rw [if_pos hv]
      nlinarith [sq_nonneg (‖v‖ - τ)]
    · rw [if_neg hv]
      linarith

/-- **Huber location certificate.** If the sum of the `ψ`-scores at `z` has norm at most `ε` (a fixed point of
`_huber_iter` has `ε = 0`, `huber_fixed_point_iff`), then `z` minimises the Huber objective `Σ ρ_τ(‖· − d_i‖)` up to
`ε‖w − z‖`: the value returned is the Huber location of the delayed samples. -/
theorem huber_optimal {ι : Type*} (s : Finset ι) (d : ι → E) (τ : ℝ) (hτ : 0 ≤ τ) (z w : E) (ε : ℝ)
    (hgrad : ‖∑ i ∈ s, huberPsi τ (z - d i)‖ ≤ ε) :
    ∑ i ∈ s, huberRho τ ‖z - d i‖ ≤ ∑ i ∈ s, huberRho τ ‖w - d i‖ + ε * ‖w - z‖ := by
  have hsum : ∑ i ∈ s, (huberRho τ ‖z - d i‖ + ⟪huberPsi τ (z - d i), w - z⟫) ≤ ∑ i ∈ s, huberRho τ ‖w - d i‖ := by
    refine Finset.sum_le_sum (fun i _ => ?_)
    have := huber_subgradient τ hτ (z - d i) (w - d i)
    rwa [show w - d i - (z - d i) = w - z by abel] at this
  rw [Finset.sum_add_distrib, ← sum_inner] at hsum
  have hcs : -(ε * ‖w - z‖) ≤ ⟪∑ i ∈ s, huberPsi τ (z - d i), w - z⟫ := by
    have := abs_real_inner_le_norm (∑ i ∈ s, huberPsi τ (z - d i)) (w - z)
    have h3 : ‖∑ i ∈ s, huberPsi τ (z - d i)‖ * ‖w - z‖ ≤ ε * ‖w - z‖ :=
      mul_le_mul_of_nonneg_right hgrad (norm_nonneg _)
    have := neg_abs_le (⟪∑ i ∈ s, huberPsi τ (z - d i), w - z⟫)
    linarith
  linarith

/-- one step of `_huber_iter` from the iterate `z`: the weighted mean of the samples -/
noncomputable def huberIter {ι : Type*} (s : Finset ι) (d : ι → E) (τ : ℝ) (z : E) : E :=
  (∑ i ∈ s, huberW τ ‖z - d i‖)⁻¹ • ∑ i ∈ s, huberW τ ‖z - d i‖ • d i

/-- **fixed points of the reweighting iteration are exactly the zeros of the score**: `_huber_iter(z) = z` iff
`Σ ψ(z − d_i) = 0` (when the weights do not sum to zero) -/
theorem huber_fixed_point_iff {ι : Type*} (s : Finset ι) (d : ι → E) (τ : ℝ) (z : E)
    (hW : ∑ i ∈ s, huberW τ ‖z - d i‖ ≠ 0) :
    huberIter s d τ z = z ↔ ∑ i ∈ s, huberPsi τ (z - d i) = 0 := by
  unfold huberIter huberPsi
  have hexp : ∑ i ∈ s, huberW τ ‖z - d i‖ • (z - d i)
      = (∑ i ∈ s, huberW τ ‖z - d i‖) • z - ∑ i ∈ s, huberW τ ‖z - d i‖ • d i := by
    simp only [smul_sub, Finset.sum_sub_distrib, Finset.sum_smul]
  rw [hexp, sub_eq_zero]
  generalize (∑ i ∈ s, huberW τ ‖z - d i‖) = W at hW ⊢
  generalize (∑ i ∈ s, huberW τ ‖z - d i‖ • d i) = S
  constructor
  · intro h
    rw [← h, smul_smul, mul_inv_cancel₀ hW, one_smul]
  · intro h
    rw [← h, smul_smul, inv_mul_cancel₀ hW, one_smul]

/-- a fixed point of `_huber_iter` is *the* Huber location: it minimises the objective -/
theorem huber_fixed_point_optimal {ι : Type*} (s : Finset ι) (d : ι → E) (τ : ℝ) (hτ : 0 ≤ τ) (z w : E)
    (hW : ∑ i ∈ s, huberW τ ‖z - d i‖ ≠ 0) (hfix : huberIter s d τ z = z) :
    ∑ i ∈ s, huberRho τ ‖z - d i‖ ≤ ∑ i ∈ s, huberRho τ ‖w - d i‖ := by
  have h0 := (huber_fixed_point_iff s d τ z hW).mp hfix
  have := huber_optimal s d τ hτ z w 0 (by rw [h0, norm_zero])
  simpa using this

/-- **the score is the reweighting step, scaled**: `Σ ψ(z − d_i) = W · (z − _huber_iter(z))` with `W` the sum of the weights -/
theorem huber_score_eq_step {ι : Type*} (s : Finset ι) (d : ι → E) (τ : ℝ) (z : E)
    (hW : ∑ i ∈ s, huberW τ ‖z - d i‖ ≠ 0) :
    ∑ i ∈ s, huberPsi τ (z - d i) = (∑ i ∈ s, huberW τ ‖z - d i‖) • (z - huberIter s d τ z) := by
  unfold huberIter huberPsi
  have hexp : ∑ i ∈ s, huberW τ ‖z - d i‖ • (z - d i)
      = (∑ i ∈ s, huberW τ ‖z - d i‖) • z - ∑ i ∈ s, huberW τ ‖z - d i‖ • d i := by
    simp only [smul_sub, Finset.sum_sub_distrib, Finset.sum_smul]
  rw [hexp, smul_sub, smul_smul, mul_inv_cancel₀ hW, one_smul]

/-- **certificate for a value that is only nearly a fixed point** (what an iteration stopped by a tolerance returns): if one
more reweighting step moves `z` by at most `δ`, then `z` minimises the Huber objective up to `|W| δ ‖w − z‖`, `W` the sum of
the weights (at most the number of samples).  The check's oracle measures exactly this `δ`. -/
theorem huber_near_fixed_point_optimal {ι : Type*} (s : Finset ι) (d : ι → E) (τ : ℝ) (hτ : 0 ≤ τ) (z w : E) (δ : ℝ)
    (hW : ∑ i ∈ s, huberW τ ‖z - d i‖ ≠ 0) (hstep : ‖z - huberIter s d τ z‖ ≤ δ) :
    ∑ i ∈ s, huberRho τ ‖z - d i‖ ≤ ∑ i ∈ s, huberRho τ ‖w - d i‖ + |∑ i ∈ s, huberW τ ‖z - d i‖| * δ * ‖w - z‖ := by
  refine huber_optimal s d τ hτ z w _ ?_
  rw [huber_score_eq_step s d τ z hW, norm_smul, Real.norm_eq_abs]
  exact mul_le_mul_of_nonneg_left hstep (abs_nonneg _)

/-- **Dispatcher table.** With per-element amplitudes exactly mean × {nearest, linear} is
served; without amplitudes mean × {nearest, linear, Lanczos}, median × {nearest, Lanczos} and
Huber × Lanczos (the robust ones for complex128 data only); everything else is an error. -/
theorem dispatch_table (hasAmp : Bool) (agg : Agg) (it : Interp) (c128 : Bool) :
    (∃ k, dispatch hasAmp agg it c128 = .ok k) ↔
      (hasAmp = true ∧ agg = .mean ∧ (it = .nearest ∨ it = .linear)) ∨
      (hasAmp = false ∧ agg = .mean) ∨
      (hasAmp = false ∧ c128 = true ∧ agg = .median ∧ it ≠ .linear) ∨
      (hasAmp = false ∧ c128 = true ∧ agg = .huber ∧ ∃ a, it = .lanczos a) := by
  cases hasAmp <;> cases agg <;> cases it <;> cases c128 <;> simp [dispatch]

/-! ## The kernels over a linearly ordered field with floor -/
section Das
variable {K : Type} [Field K] [LinearOrder K] [FloorRing K]

omit [LinearOrder K] [FloorRing K] in
/-- **The accumulation loop is the mean.** `dasMean` (a left fold over the timetraces followed
by a division) is `(1/N)·Σ_k (term_k or fill)`, for every number of timetraces. -/
theorem dasMean_eq_sum (fill : K) (N : Nat) (term : Nat → Option K) :
    dasMean stdData fill N term = (∑ k ∈ Finset.range N, (term k).getD fill) / (N : K) := by
  unfold dasMean
  simp only [stdData_divNat, stdData_add, stdData_zero]
  rw [foldl_range_add]

omit [LinearOrder K] [FloorRing K] in
/-- the mean kernel is the arithmetic mean of exactly the delayed samples that the robust
aggregations (median, Huber) receive -/
theorem dasMean_eq_delayedSamples (fill : K) (N : Nat) (term : Nat → Option K) :
    dasMean stdData fill N term = (delayedSamples fill N term).sum / (N : K) := by
  rw [dasMean_eq_sum]; unfold delayedSamples; rw [sum_map_range]

/-! ### round half even -/

/-- `round`: within one half of the argument, ties to the even neighbour. Together these
determine the value (`Arim.Das.roundHalfEven_eq_iff`), and it is a nearest integer
(`Arim.Das.roundHalfEven_nearest`). -/
theorem roundHalfEven_spec [IsStrictOrderedRing K] (x : K) :
    |x - (roundHalfEven x : K)| ≤ 1 / 2 ∧
      (|x - (roundHalfEven x : K)| = 1 / 2 → roundHalfEven x % 2 = 0) :=
  ⟨roundHalfEven_abs_le x, roundHalfEven_tie_even x⟩

/-! ### the kernels with the standard primitives, unfolded -/

theorem interpNearest_std {β : Type} (sinc : K → K) (n : Nat) (g : Nat → β) (loc : K) :
    interpNearest (stdOps sinc) n g loc =
      if roundHalfEven loc < 0 ∨ roundHalfEven loc ≥ (n : Int) then none
      else some (g (roundHalfEven loc).toNat) := rfl

theorem interpLinearA_std (sinc : K → K) (n : Nat) (g : Nat → K) (loc : K) :
    interpLinearA (stdOps sinc) stdData n g loc =
      if ⌊loc⌋ < 0 ∨ ⌊loc⌋ + 1 ≥ (n : Int) then none
      else some (g ⌊loc⌋.toNat + (loc - (⌊loc⌋ : K)) * (g (⌊loc⌋ + 1).toNat - g ⌊loc⌋.toNat)) := rfl

theorem interpLinearB_std (sinc : K → K) (n : Nat) (g : Nat → K) (loc : K) :
    interpLinearB (stdOps sinc) stdData n g loc =
      if ⌊loc⌋ < 0 ∨ ⌊loc⌋ + 1 ≥ (n : Int) then none
      else some ((((1 : Int) : K) - (loc - (⌊loc⌋ : K))) * g ⌊loc⌋.toNat +
        (loc - (⌊loc⌋ : K)) * g (⌊loc⌋ + 1).toNat) := rfl

/-! ### nearest -/

/-- nearest-neighbour lookup: in-window iff the round-half-even index is in `[0, n)` -/
theorem nearest_spec {β : Type} (sinc : K → K) (n : Nat) (g : Nat → β) (loc : K) (v : β) :
    interpNearest (stdOps sinc) n g loc = some v ↔
      ∃ i : Nat, i < n ∧ roundHalfEven loc = (i : Int) ∧ v = g i := by
  rw [interpNearest_std]
  split
  · rename_i h
    constructor
    · intro h'; cases h'
    · rintro ⟨i, hi, hr, _⟩; omega
  · rename_i h
    constructor
    · intro hv
      refine ⟨(roundHalfEven loc).toNat, by omega, by omega, ?_⟩
      exact (Option.some.inj hv).symm
    · rintro ⟨i, _, hr, rfl⟩
      rw [hr]; rfl

theorem nearest_none {β : Type} (sinc : K → K) (n : Nat) (g : Nat → β) (loc : K) :
    interpNearest (stdOps sinc) n g loc = none ↔
      roundHalfEven loc < 0 ∨ (n : Int) ≤ roundHalfEven loc := by
  rw [interpNearest_std]
  split
  · rename_i h; simpa using h
  · rename_i h; simpa using h

/-! ### linear -/

theorem floor_eq_natCast_iff (loc : K) (i : Nat) :
    ⌊loc⌋ = (i : Int) ↔ (i : K) ≤ loc ∧ loc < (i : K) + 1 := by
  rw [Int.floor_eq_iff, Int.cast_natCast]

theorem linearA_of_floor (sinc : K → K) (n : Nat) (g : Nat → K) (loc : K) (i : Nat)
    (h : ⌊loc⌋ = (i : Int)) :
    interpLinearA (stdOps sinc) stdData n g loc =
      if i + 1 < n then some (g i + (loc - (i : K)) * (g (i + 1) - g i)) else none := by
  rw [interpLinearA_std]
  simp only [h, Int.cast_natCast, Int.toNat_natCast]
  have h1 : ((i : Int) + 1).toNat = i + 1 := by omega
  rw [h1]
  by_cases hn : i + 1 < n
  · rw [if_neg (by omega), if_pos hn]
  · rw [if_pos (by omega), if_neg hn]

/-- **A lookup before the recorded window always yields the fill value.** (The clause a
truncating `int()` implementation violates for `-1 < loc < 0`, see `linear_trunc_counter`.) -/
theorem linear_none_of_neg (sinc : K → K) (n : Nat) (g : Nat → K) (loc : K) (h : loc < 0) :
    interpLinearA (stdOps sinc) stdData n g loc = none := by
  rw [interpLinearA_std]
  have : ⌊loc⌋ < 0 := by
    rw [Int.floor_lt]; simpa using h
  rw [if_pos (Or.inl this)]

/-- **Linear interpolation**: in-window iff `i ≤ loc < i+1` for a sample index `i` with
`i + 1 < n`, and then the value is `g i + (loc - i)·(g (i+1) - g i)`. -/
theorem linear_spec (sinc : K → K) (n : Nat) (g : Nat → K) (loc v : K) :
    interpLinearA (stdOps sinc) stdData n g loc = some v ↔
      ∃ i : Nat, (i : K) ≤ loc ∧ loc < (i : K) + 1 ∧ i + 1 < n ∧
        v = g i + (loc - (i : K)) * (g (i + 1) - g i) := by
  constructor
  · intro hv
    by_cases hneg : loc < 0
    · rw [linear_none_of_neg sinc n g loc hneg] at hv; cases hv
    · have h0 : 0 ≤ ⌊loc⌋ := Int.floor_nonneg.mpr (not_lt.mp hneg)
      have hi : ⌊loc⌋ = ((⌊loc⌋.toNat : Nat) : Int) := by omega
      rw [linearA_of_floor sinc n g loc _ hi] at hv
      obtain ⟨hl, hu⟩ := (floor_eq_natCast_iff loc _).mp hi
      refine ⟨⌊loc⌋.toNat, hl, hu, ?_⟩
      split at hv
      · rename_i hn; exact ⟨hn, (Option.some.inj hv).symm⟩
      · cases hv
  · rintro ⟨i, hl, hu, hn, rfl⟩
    rw [linearA_of_floor sinc n g loc i ((floor_eq_natCast_iff loc i).mpr ⟨hl, hu⟩), if_pos hn]

/-- `none` iff before the window or the right neighbour is missing -/
theorem linear_none_iff [IsStrictOrderedRing K] (sinc : K → K) (n : Nat) (g : Nat → K) (loc : K) :
    interpLinearA (stdOps sinc) stdData n g loc = none ↔ loc < 0 ∨ (n : K) ≤ loc + 1 := by
  rw [interpLinearA_std]
  have e1 : ⌊loc⌋ < 0 ↔ loc < 0 := by rw [Int.floor_lt]; simp
  have e2 : ⌊loc⌋ + 1 ≥ (n : Int) ↔ (n : K) ≤ loc + 1 := by
    rw [ge_iff_le, ← Int.floor_add_one, Int.le_floor, Int.cast_natCast]
  split
  · rename_i h; rw [e1, e2] at h; simpa using h
  · rename_i h; rw [e1, e2] at h; simpa using h

/-- linear interpolation reproduces the sample at a node -/
theorem linear_node [IsStrictOrderedRing K] (sinc : K → K) (n : Nat) (g : Nat → K) (loc : K) (i : Nat)
    (hloc : loc = (i : K)) (hn : i + 1 < n) :
    interpLinearA (stdOps sinc) stdData n g loc = some (g i) := by
  subst hloc
  rw [linearA_of_floor sinc n g _ i (Int.floor_natCast i), if_pos hn]
  simp

/-- between two nodes the value is a convex combination of the neighbouring samples -/
theorem linear_between [IsStrictOrderedRing K] (sinc : K → K) (n : Nat) (g : Nat → K) (loc : K) (i : Nat)
    (h0 : (i : K) ≤ loc) (h1 : loc < (i : K) + 1) (hn : i + 1 < n) :
    ∃ v, interpLinearA (stdOps sinc) stdData n g loc = some v ∧
      v = (1 - (loc - (i : K))) * g i + (loc - (i : K)) * g (i + 1) ∧
      0 ≤ loc - (i : K) ∧ loc - (i : K) < 1 ∧
      min (g i) (g (i + 1)) ≤ v ∧ v ≤ max (g i) (g (i + 1)) := by
  refine ⟨_, (linear_spec sinc n g loc _).mpr ⟨i, h0, h1, hn, rfl⟩, by ring, by linarith,
    by linarith, ?_, ?_⟩
  · have ht0 : 0 ≤ loc - (i : K) := by linarith
    have ht1 : 0 ≤ 1 - (loc - (i : K)) := by linarith
    rcases le_total (g i) (g (i + 1)) with hab | hab
    · rw [min_eq_left hab]
      have := mul_nonneg ht0 (sub_nonneg.mpr hab)
      linarith
    · rw [min_eq_right hab]
      have := mul_nonneg ht1 (sub_nonneg.mpr hab)
      nlinarith
  · have ht0 : 0 ≤ loc - (i : K) := by linarith
    have ht1 : 0 ≤ 1 - (loc - (i : K)) := by linarith
    rcases le_total (g i) (g (i + 1)) with hab | hab
    · rw [max_eq_right hab]
      have := mul_nonneg ht1 (sub_nonneg.mpr hab)
      nlinarith
    · rw [max_eq_left hab]
      have := mul_nonneg ht0 (sub_nonneg.mpr hab)
      linarith

/-- the two ways the kernels write the linear interpolation agree -/
theorem linearA_eq_linearB (sinc : K → K) (n : Nat) (g : Nat → K) (loc : K) :
    interpLinearA (stdOps sinc) stdData n g loc = interpLinearB (stdOps sinc) stdData n g loc := by
  rw [interpLinearA_std, interpLinearB_std, Int.cast_one]
  split
  · rfl
  · congr 1; ring

/-! ### truncation toward zero is *not* a model of the kernel -/

/-- `interpLinearA` with the sample index computed by truncation toward zero (what `int(loc)`
does) instead of `floor`. -/
def interpLinearTrunc {α β : Type} [Sub α] [Neg α] [LT α] [DecidableLT α]
    (ops : Ops α) (d : Data α β) (n : Nat) (g : Nat → β) (loc : α) : Option β :=
  let i := if loc < ops.ofInt 0 then - ops.floor (-loc) else ops.floor loc
  let frac := loc - ops.ofInt i
  if i < 0 ∨ i + 1 ≥ (n : Int) then none
  else some (d.add (g i.toNat) (d.smul frac (d.sub (g (i + 1).toNat) (g i.toNat))))

theorem interpLinearTrunc_std (sinc : K → K) (n : Nat) (g : Nat → K) (loc : K) :
    interpLinearTrunc (stdOps sinc) stdData n g loc =
      if (if loc < ((0 : Int) : K) then -⌊-loc⌋ else ⌊loc⌋) < 0 ∨
          (if loc < ((0 : Int) : K) then -⌊-loc⌋ else ⌊loc⌋) + 1 ≥ (n : Int) then none
      else some (g (if loc < ((0 : Int) : K) then -⌊-loc⌋ else ⌊loc⌋).toNat +
        (loc - ((if loc < ((0 : Int) : K) then -⌊-loc⌋ else ⌊loc⌋ : Int) : K)) *
          (g ((if loc < ((0 : Int) : K) then -⌊-loc⌋ else ⌊loc⌋) + 1).toNat -
            g (if loc < ((0 : Int) : K) then -⌊-loc⌋ else ⌊loc⌋).toNat)) := rfl

/-- for `0 ≤ loc` truncation and floor agree -/
theorem linear_trunc_eq_of_nonneg (sinc : K → K) (n : Nat) (g : Nat → K) (loc : K)
    (h : 0 ≤ loc) :
    interpLinearTrunc (stdOps sinc) stdData n g loc =
      interpLinearA (stdOps sinc) stdData n g loc := by
  rw [interpLinearTrunc_std, interpLinearA_std, Int.cast_zero, if_neg (not_lt.mpr h)]

/-- **The truncating variant extrapolates before the window**: for `-1 < loc < 0` it returns
`g 0 + loc·(g 1 - g 0)` where the kernel (and the specification) return the fill value. -/
theorem linear_trunc_extrapolates [IsStrictOrderedRing K] (sinc : K → K) (n : Nat) (g : Nat → K) (loc : K)
    (h0 : -1 < loc) (h1 : loc < 0) (hn : 1 < n) :
    interpLinearTrunc (stdOps sinc) stdData n g loc = some (g 0 + loc * (g 1 - g 0)) ∧
      interpLinearA (stdOps sinc) stdData n g loc = none := by
  refine ⟨?_, linear_none_of_neg sinc n g loc h1⟩
  have hf : ⌊-loc⌋ = 0 := by
    rw [Int.floor_eq_iff]; constructor <;> push_cast <;> linarith
  rw [interpLinearTrunc_std, Int.cast_zero, if_pos h1, hf]
  rw [if_neg (by omega)]
  simp

/-- the concrete witness over `ℚ`: four samples, lookup at `-1/4` -/
theorem linear_trunc_counter (sinc : ℚ → ℚ) (g : Nat → ℚ) :
    interpLinearTrunc (stdOps sinc) stdData 4 g (-(1 / 4) : ℚ) =
      some (g 0 + (-(1 / 4)) * (g 1 - g 0)) :=
  (linear_trunc_extrapolates sinc 4 g (-(1 / 4)) (by norm_num) (by norm_num) (by norm_num)).1

/-! ### Lanczos -/

/-- the Lanczos fold is the windowed sum `Σ_{k<2a} L(loc - j_k) · g[j_k mod n]`,
`j_k = ⌊loc⌋ - a + 1 + k`, `L x = sinc x · sinc (x/a)` -/
theorem interpLanczos_std (sinc : K → K) (a n : Nat) (g : Nat → K) (loc : K) :
    interpLanczos (stdOps sinc) stdData a n g loc =
      if loc < ((0 : Int) : K) ∨ ¬ loc < (((n : Nat) : Int) : K) then none
      else some (∑ k ∈ Finset.range (2 * a),
        sinc (loc - ((⌊loc⌋ - (a : Int) + 1 + (k : Int) : Int) : K)) *
          sinc ((loc - ((⌊loc⌋ - (a : Int) + 1 + (k : Int) : Int) : K)) / (((a : Nat) : Int) : K)) *
          g ((⌊loc⌋ - (a : Int) + 1 + (k : Int)) % (n : Int)).toNat) := by
  unfold interpLanczos
  refine ite_congr rfl (fun _ => rfl) (fun _ => congrArg some ?_)
  exact foldl_range_add _ _

theorem lanczos_none_iff (sinc : K → K) (a n : Nat) (g : Nat → K) (loc : K) :
    interpLanczos (stdOps sinc) stdData a n g loc = none ↔ loc < 0 ∨ (n : K) ≤ loc := by
  rw [interpLanczos_std, Int.cast_zero, Int.cast_natCast]
  split
  · rename_i h; simpa using h
  · rename_i h; simpa using h

/-- **Lanczos interpolation reproduces the samples at integer locations**, for any `sinc`
with `sinc 0 = 1` vanishing at the non-zero integers. -/
theorem lanczos_node [IsStrictOrderedRing K] (sinc : K → K) (h0 : sinc 0 = 1) (hz : ∀ z : Int, z ≠ 0 → sinc (z : K) = 0)
    (a n : Nat) (ha : 1 ≤ a) (g : Nat → K) (loc : K) (i : Nat) (hloc : loc = (i : K))
    (hi : i < n) :
    interpLanczos (stdOps sinc) stdData a n g loc = some (g i) := by
  subst hloc
  rw [interpLanczos_std, Int.cast_zero, Int.cast_natCast, Int.floor_natCast]
  have hlt : ¬ ((i : K) < 0 ∨ ¬ (i : K) < (n : K)) := by
    rintro (h | h)
    · exact absurd h (not_lt.mpr (Nat.cast_nonneg i))
    · exact h (Nat.cast_lt.mpr hi)
  rw [if_neg hlt]
  congr 1
  have hx : ∀ k : Nat, (i : K) - (((i : Int) - (a : Int) + 1 + (k : Int) : Int) : K) =
      (((a : Int) - 1 - (k : Int) : Int) : K) := by
    intro k; push_cast; ring
  rw [Finset.sum_eq_single (a - 1)]
  · rw [hx]
    have e1 : (a : Int) - 1 - ((a - 1 : Nat) : Int) = 0 := by omega
    have e2 : ((i : Int) - (a : Int) + 1 + ((a - 1 : Nat) : Int)) % (n : Int) = (i : Int) := by
      have : (i : Int) - (a : Int) + 1 + ((a - 1 : Nat) : Int) = (i : Int) := by omega
      rw [this]
      exact Int.emod_eq_of_lt (by omega) (by omega)
    rw [e1, e2]
    simp [h0]
  · intro k _ hk
    rw [hx, hz _ (by omega)]
    simp
  · intro h
    exfalso; apply h
    rw [Finset.mem_range]; omega

/-! ### amplitudes identically one -/

/-- the two location formulas agree (in a field `x / dt = x * (1 / dt)`, also for `dt = 0`) -/
theorem locB_eq_locA (sinc : K → K) (p : Problem K K) (pt k : Nat) :
    locB (stdOps sinc) p pt k = locA p pt k := by
  unfold locB locA
  rw [stdOps_ofInt, Int.cast_one, ← div_eq_mul_one_div]

/-- **Unit amplitudes**: the amplitude kernels with all amplitudes `1` compute the same
image as the uniform-amplitude kernels (nearest and linear). No hypothesis on `dt` is needed. -/
theorem das_amp_one (sinc : K → K) (p : Problem K K) (it : Interp)
    (hit : it = .nearest ∨ it = .linear) (fill : K) (pt : Nat) :
    dasAmp (stdOps sinc) stdData p (fun _ _ => 1) (fun _ _ => 1) it fill pt =
      dasNoAmp (stdOps sinc) stdData p it fill pt := by
  unfold dasAmp dasNoAmp
  congr 1
  funext k
  rcases hit with rfl | rfl
  · simp [termAmp, termNoAmp, locB_eq_locA]
  · simp [termAmp, termNoAmp, locB_eq_locA, linearA_eq_linearB]

/-- with amplitudes the Lanczos terms are all `none` (the dispatcher refuses this case) -/
theorem das_amp_lanczos (sinc : K → K) (p : Problem K K) (ampTx ampRx : Nat → Nat → K) (a : Nat)
    (fill : K) (pt : Nat) :
    dasAmp (stdOps sinc) stdData p ampTx ampRx (.lanczos a) fill pt =
      (p.N : K) * fill / (p.N : K) := by
  unfold dasAmp
  rw [dasMean_eq_sum]
  simp [termAmp]

/-! ### weights -/

omit [LinearOrder K] [FloorRing K] in
theorem weigh_spec (w : Nat → K) (g : Nat → Nat → K) (k i : Nat) :
    weigh stdData (some w) g k i = w k * g k i := rfl

omit [LinearOrder K] [FloorRing K] in
theorem weigh_none (g : Nat → Nat → K) : weigh (stdData : Data K K) none g = g := rfl

/-- the interpolator selected by `it` in the uniform-amplitude kernels -/
def interp {α β : Type} [Add α] [Sub α] [Mul α] [Div α] [LT α] [DecidableLT α]
    (ops : Ops α) (d : Data α β) (it : Interp) (n : Nat) (g : Nat → β) (loc : α) : Option β :=
  match it with
  | .nearest => interpNearest ops n g loc
  | .linear => interpLinearB ops d n g loc
  | .lanczos a => interpLanczos ops d a n g loc

theorem termNoAmp_eq_interp {α β : Type} [Add α] [Sub α] [Mul α] [Div α] [LT α] [DecidableLT α]
    (ops : Ops α) (d : Data α β) (p : Problem α β) (it : Interp) (pt k : Nat) :
    termNoAmp ops d p it pt k = interp ops d it p.n (p.g k) (locB ops p pt k) := by
  cases it <;> rfl

theorem nearest_scale (sinc : K → K) (n : Nat) (g : Nat → K) (loc c : K) :
    interpNearest (stdOps sinc) n (fun i => c * g i) loc =
      (interpNearest (stdOps sinc) n g loc).map (c * ·) := by
  rw [interpNearest_std, interpNearest_std]
  split <;> rfl

theorem linearA_scale (sinc : K → K) (n : Nat) (g : Nat → K) (loc c : K) :
    interpLinearA (stdOps sinc) stdData n (fun i => c * g i) loc =
      (interpLinearA (stdOps sinc) stdData n g loc).map (c * ·) := by
  rw [interpLinearA_std, interpLinearA_std]
  split
  · rfl
  · simp only [Option.map_some]; congr 1; ring

theorem linearB_scale (sinc : K → K) (n : Nat) (g : Nat → K) (loc c : K) :
    interpLinearB (stdOps sinc) stdData n (fun i => c * g i) loc =
      (interpLinearB (stdOps sinc) stdData n g loc).map (c * ·) := by
  rw [← linearA_eq_linearB, ← linearA_eq_linearB, linearA_scale]

theorem lanczos_scale (sinc : K → K) (a n : Nat) (g : Nat → K) (loc c : K) :
    interpLanczos (stdOps sinc) stdData a n (fun i => c * g i) loc =
      (interpLanczos (stdOps sinc) stdData a n g loc).map (c * ·) := by
  rw [interpLanczos_std, interpLanczos_std]
  split
  · rfl
  · simp only [Option.map_some]
    congr 1
    rw [Finset.mul_sum]
    refine Finset.sum_congr rfl (fun k _ => ?_)
    ring

/-- every interpolator is linear in the samples: scaling the timetrace scales the value and
does not change the window -/
theorem interp_scale (sinc : K → K) (it : Interp) (n : Nat) (g : Nat → K) (loc c : K) :
    interp (stdOps sinc) stdData it n (fun i => c * g i) loc =
      (interp (stdOps sinc) stdData it n g loc).map (c * ·) := by
  cases it
  · exact nearest_scale sinc n g loc c
  · exact linearB_scale sinc n g loc c
  · exact lanczos_scale sinc _ n g loc c

/-- **Delay-and-sum is its definition.** With timetrace weights `w` applied by `weigh`, the
uniform-amplitude image value at `pt` is `(1/N)·Σ_k (w_k · g0_k(τ_k) or fill)` where
`τ_k = (ltTx pt tx_k + ltRx pt rx_k - t0)/dt` is the sample location (`locB_eq_locA`) and
`g0_k(τ)` the chosen interpolation of the unweighted timetrace (`nearest_spec`, `linear_spec`
with `linearA_eq_linearB`, `interpLanczos_std`). -/
theorem das_definition (sinc : K → K) (p : Problem K K) (w : Nat → K) (g0 : Nat → Nat → K)
    (it : Interp) (fill : K) (pt : Nat) :
    dasNoAmp (stdOps sinc) stdData { p with g := weigh stdData (some w) g0 } it fill pt =
      (∑ k ∈ Finset.range p.N,
        match interp (stdOps sinc) stdData it p.n (g0 k) (locA p pt k) with
        | some v => w k * v
        | none => fill) / (p.N : K) := by
  unfold dasNoAmp
  rw [dasMean_eq_sum]
  congr 1
  refine Finset.sum_congr rfl (fun k _ => ?_)
  rw [termNoAmp_eq_interp, ← locB_eq_locA sinc]
  have : (weigh stdData (some w) g0) k = fun i => w k * g0 k i := rfl
  show (interp (stdOps sinc) stdData it p.n (weigh stdData (some w) g0 k)
    (locB (stdOps sinc) p pt k)).getD fill = _
  rw [this, interp_scale]
  cases interp (stdOps sinc) stdData it p.n (g0 k) (locB (stdOps sinc) p pt k) <;> rfl

/-- without weights -/
theorem das_definition_unweighted (sinc : K → K) (p : Problem K K) (it : Interp) (fill : K)
    (pt : Nat) :
    dasNoAmp (stdOps sinc) stdData p it fill pt =
      (∑ k ∈ Finset.range p.N,
        (interp (stdOps sinc) stdData it p.n (p.g k) (locA p pt k)).getD fill) / (p.N : K) := by
  unfold dasNoAmp
  rw [dasMean_eq_sum]
  congr 1
  refine Finset.sum_congr rfl (fun k _ => ?_)
  rw [termNoAmp_eq_interp, locB_eq_locA]

/-! ### The same statements about the kernels as translated from the source on this run

`Src.das_*` (file `Generated/SrcC02.lean`) are the per-image-point translations of `_delay_and_sum_noamp`,
`_delay_and_sum_noamp_linear`, `_delay_and_sum_amplitudes_nearest`, `_delay_and_sum_amplitudes_linear` made from
`/repo/src/arim/im/das.py` on every run; `Tie/C02.lean` identifies them with `dasNoAmp` / `dasAmp`. -/
open Arim.Tie.C02

/-- **the translated nearest kernel is the definition**: `(1/N) Σ_k g_k[round τ_k]` or the fill value -/
theorem src_das_definition_nearest (sinc : K → K) (wt : Nat → Nat → K) (tx rx : Nat → Nat) (ltx lrx : Nat → Nat → K)
    (dt t0 fill : K) (N n pt : Nat) :
    Src.das_noamp_nearest (srcOps (stdOps sinc)) stdData wt tx rx ltx lrx ((stdOps sinc).ofInt 1 / dt) t0 fill N n pt =
      (∑ k ∈ Finset.range N,
        (interp (stdOps sinc) stdData .nearest n (wt k) ((ltx pt (tx k) + lrx pt (rx k) - t0) / dt)).getD fill) / (N : K) := by
  rw [tie_noamp_nearest, das_definition_unweighted]; rfl

/-- **the translated linear kernel is the definition** -/
theorem src_das_definition_linear (sinc : K → K) (wt : Nat → Nat → K) (tx rx : Nat → Nat) (ltx lrx : Nat → Nat → K)
    (dt t0 fill : K) (N n pt : Nat) :
    Src.das_noamp_linear (srcOps (stdOps sinc)) stdData wt tx rx ltx lrx ((stdOps sinc).ofInt 1 / dt) t0 fill N n pt =
      (∑ k ∈ Finset.range N,
        (interp (stdOps sinc) stdData .linear n (wt k) ((ltx pt (tx k) + lrx pt (rx k) - t0) / dt)).getD fill) / (N : K) := by
  rw [tie_noamp_linear, das_definition_unweighted]; rfl

/-- **amplitudes identically one, translated kernels**: the amplitude kernels give the uniform-amplitude image -/
theorem src_das_amp_one (sinc : K → K) (wt : Nat → Nat → K) (tx rx : Nat → Nat) (ltx lrx : Nat → Nat → K)
    (dt t0 fill : K) (N n pt : Nat) :
    Src.das_amplitudes_nearest (srcOps (stdOps sinc)) stdData wt tx rx ltx lrx (fun _ _ => 1) (fun _ _ => 1) dt t0 fill N n pt
        = Src.das_noamp_nearest (srcOps (stdOps sinc)) stdData wt tx rx ltx lrx ((stdOps sinc).ofInt 1 / dt) t0 fill N n pt
      ∧ Src.das_amplitudes_linear (srcOps (stdOps sinc)) stdData wt tx rx ltx lrx (fun _ _ => 1) (fun _ _ => 1) dt t0 fill N n pt
        = Src.das_noamp_linear (srcOps (stdOps sinc)) stdData wt tx rx ltx lrx ((stdOps sinc).ofInt 1 / dt) t0 fill N n pt := by
  rw [tie_amplitudes_nearest, tie_noamp_nearest, tie_amplitudes_linear, tie_noamp_linear]
  exact ⟨das_amp_one sinc _ .nearest (Or.inl rfl) fill pt, das_amp_one sinc _ .linear (Or.inr rfl) fill pt⟩

/-- **the translated Lanczos kernel is the definition**: `(1/N) Σ_k` of the Lanczos-windowed sum of timetrace `k` at
its lookup location (or the fill value outside `[0, n)`), where the window uses the kernels' own translated `sinc` -/
theorem src_das_definition_lanczos (sinc sin : K → K) (pi : K)
    (hs : ∀ x, sinc x = Src.das_sinc (srcOpsT (stdOps sinc) sin pi) x)
    (wt : Nat → Nat → K) (tx rx : Nat → Nat) (ltx lrx : Nat → Nat → K) (dt t0 fill : K) (a N n pt : Nat) :
    Src.das_noamp_lanczos (srcOpsT (stdOps sinc) sin pi) stdData wt tx rx ltx lrx ((stdOps sinc).ofInt 1 / dt) t0 fill a N n pt =
      (∑ k ∈ Finset.range N,
        (interp (stdOps sinc) stdData (.lanczos a) n (wt k) ((ltx pt (tx k) + lrx pt (rx k) - t0) / dt)).getD fill) / (N : K) := by
  rw [tie_noamp_lanczos (stdOps sinc) sin pi stdData hs (by intro s1 s2 v; simp only [stdData_smul]; ring),
    das_definition_unweighted]; rfl

/-- the translated `sinc` of the kernels is `1` at `0` and `sin(πx)/(πx)` elsewhere -/
theorem src_das_sinc_spec (o : Src.Ops K) (x : K) :
    Src.das_sinc o x = if x = o.ofNat 0 then o.ofNat 1 else o.sin (o.pi * x) / (o.pi * x) := rfl

/-- **a lookup before the recorded window gives the fill value in the translated linear kernels** (the clause the
truncating kernel of finding F6 broke): with a single timetrace and `loc < 0` the image value is `fill` -/
theorem src_linear_fill_before_window (sinc : K → K) (wt : Nat → Nat → K) (tx rx : Nat → Nat) (ltx lrx : Nat → Nat → K)
    (dt t0 fill : K) (n pt : Nat) (h : (ltx pt (tx 0) + lrx pt (rx 0) - t0) / dt < 0) :
    Src.das_noamp_linear (srcOps (stdOps sinc)) stdData wt tx rx ltx lrx ((stdOps sinc).ofInt 1 / dt) t0 fill 1 n pt = fill := by
  rw [src_das_definition_linear]
  simp only [Finset.range_one, Finset.sum_singleton, Nat.cast_one, div_one]
  have : interp (stdOps sinc) stdData .linear n (wt 0) ((ltx pt (tx 0) + lrx pt (rx 0) - t0) / dt) = none := by
    show interpLinearB (stdOps sinc) stdData n (wt 0) _ = none
    rw [← linearA_eq_linearB]
    exact linear_none_of_neg sinc n (wt 0) _ h
  rw [this]; rfl

end Das

/-! ## Samples in an algebra over the time scalars (complex samples, real times) -/
section Alg
variable {K V : Type} [Field K] [LinearOrder K] [FloorRing K]
  [Ring V] [Algebra K V]

omit [LinearOrder K] [FloorRing K] in
theorem dasMean_eq_sum_alg (fill : V) (N : Nat) (term : Nat → Option V) :
    dasMean (algData : Data K V) fill N term =
      ((N : K))⁻¹ • ∑ k ∈ Finset.range N, (term k).getD fill := by
  unfold dasMean
  simp only [algData_divNat, algData_add, algData_zero]
  rw [foldl_range_add]

theorem interpLinearA_alg (sinc : K → K) (n : Nat) (g : Nat → V) (loc : K) :
    interpLinearA (stdOps sinc) algData n g loc =
      if ⌊loc⌋ < 0 ∨ ⌊loc⌋ + 1 ≥ (n : Int) then none
      else some (g ⌊loc⌋.toNat + (loc - (⌊loc⌋ : K)) • (g (⌊loc⌋ + 1).toNat - g ⌊loc⌋.toNat)) := rfl

theorem interpLinearB_alg (sinc : K → K) (n : Nat) (g : Nat → V) (loc : K) :
    interpLinearB (stdOps sinc) algData n g loc =
      if ⌊loc⌋ < 0 ∨ ⌊loc⌋ + 1 ≥ (n : Int) then none
      else some ((((1 : Int) : K) - (loc - (⌊loc⌋ : K))) • g ⌊loc⌋.toNat +
        (loc - (⌊loc⌋ : K)) • g (⌊loc⌋ + 1).toNat) := rfl

theorem interpLanczos_alg (sinc : K → K) (a n : Nat) (g : Nat → V) (loc : K) :
    interpLanczos (stdOps sinc) algData a n g loc =
      if loc < ((0 : Int) : K) ∨ ¬ loc < (((n : Nat) : Int) : K) then none
      else some (∑ k ∈ Finset.range (2 * a),
        (sinc (loc - ((⌊loc⌋ - (a : Int) + 1 + (k : Int) : Int) : K)) *
          sinc ((loc - ((⌊loc⌋ - (a : Int) + 1 + (k : Int) : Int) : K)) / (((a : Nat) : Int) : K))) •
          g ((⌊loc⌋ - (a : Int) + 1 + (k : Int)) % (n : Int)).toNat) := by
  unfold interpLanczos
  refine ite_congr rfl (fun _ => rfl) (fun _ => congrArg some ?_)
  exact foldl_range_add _ _

theorem linearA_eq_linearB_alg (sinc : K → K) (n : Nat) (g : Nat → V) (loc : K) :
    interpLinearA (stdOps sinc) algData n g loc = interpLinearB (stdOps sinc) algData n g loc := by
  rw [interpLinearA_alg, interpLinearB_alg, Int.cast_one]
  split
  · rfl
  · congr 1; module

/-- linear interpolation of algebra-valued samples: same window, same formula -/
theorem linear_spec_alg (sinc : K → K) (n : Nat) (g : Nat → V) (loc : K) (v : V) :
    interpLinearA (stdOps sinc) algData n g loc = some v ↔
      ∃ i : Nat, (i : K) ≤ loc ∧ loc < (i : K) + 1 ∧ i + 1 < n ∧
        v = g i + (loc - (i : K)) • (g (i + 1) - g i) := by
  rw [interpLinearA_alg]
  constructor
  · intro hv
    split at hv
    · cases hv
    · rename_i h
      have hi : ⌊loc⌋ = ((⌊loc⌋.toNat : Nat) : Int) := by omega
      obtain ⟨hl, hu⟩ := (floor_eq_natCast_iff loc _).mp hi
      refine ⟨⌊loc⌋.toNat, hl, hu, by omega, ?_⟩
      have h1 : (⌊loc⌋ + 1).toNat = ⌊loc⌋.toNat + 1 := by omega
      have h2 : ((⌊loc⌋.toNat : Nat) : K) = ((⌊loc⌋ : Int) : K) := by
        rw [← Int.cast_natCast, ← hi]
      rw [← h1, h2]
      exact (Option.some.inj hv).symm
  · rintro ⟨i, hl, hu, hn, rfl⟩
    have hf := (floor_eq_natCast_iff loc i).mpr ⟨hl, hu⟩
    rw [hf, if_neg (by omega)]
    have h1 : ((i : Int) + 1).toNat = i + 1 := by omega
    rw [h1, Int.toNat_natCast, Int.cast_natCast]

theorem linear_none_iff_alg [IsStrictOrderedRing K] (sinc : K → K) (n : Nat) (g : Nat → V) (loc : K) :
    interpLinearA (stdOps sinc) algData n g loc = none ↔ loc < 0 ∨ (n : K) ≤ loc + 1 := by
  rw [interpLinearA_alg]
  have e1 : ⌊loc⌋ < 0 ↔ loc < 0 := by rw [Int.floor_lt]; simp
  have e2 : ⌊loc⌋ + 1 ≥ (n : Int) ↔ (n : K) ≤ loc + 1 := by
    rw [ge_iff_le, ← Int.floor_add_one, Int.le_floor, Int.cast_natCast]
  split
  · rename_i h; rw [e1, e2] at h; simpa using h
  · rename_i h; rw [e1, e2] at h; simpa using h

omit [Ring V] [Algebra K V] in
theorem locB_eq_locA_alg (sinc : K → K) (p : Problem K V) (pt k : Nat) :
    locB (stdOps sinc) p pt k = locA p pt k := by
  unfold locB locA
  rw [stdOps_ofInt, Int.cast_one, ← div_eq_mul_one_div]

theorem das_amp_one_alg (sinc : K → K) (p : Problem K V) (it : Interp)
    (hit : it = .nearest ∨ it = .linear) (fill : V) (pt : Nat) :
    dasAmp (stdOps sinc) algData p (fun _ _ => 1) (fun _ _ => 1) it fill pt =
      dasNoAmp (stdOps sinc) algData p it fill pt := by
  unfold dasAmp dasNoAmp
  congr 1
  funext k
  rcases hit with rfl | rfl
  · simp [termAmp, termNoAmp, locB_eq_locA_alg]
  · simp [termAmp, termNoAmp, locB_eq_locA_alg, linearA_eq_linearB_alg]

theorem nearest_smul (sinc : K → K) (n : Nat) (g : Nat → V) (loc c : K) :
    interpNearest (stdOps sinc) n (fun i => c • g i) loc =
      (interpNearest (stdOps sinc) n g loc).map (c • ·) := by
  rw [interpNearest_std, interpNearest_std]
  split <;> rfl

theorem linearB_smul (sinc : K → K) (n : Nat) (g : Nat → V) (loc c : K) :
    interpLinearB (stdOps sinc) algData n (fun i => c • g i) loc =
      (interpLinearB (stdOps sinc) algData n g loc).map (c • ·) := by
  rw [interpLinearB_alg, interpLinearB_alg]
  split
  · rfl
  · simp only [Option.map_some]; congr 1; module

theorem lanczos_smul (sinc : K → K) (a n : Nat) (g : Nat → V) (loc c : K) :
    interpLanczos (stdOps sinc) algData a n (fun i => c • g i) loc =
      (interpLanczos (stdOps sinc) algData a n g loc).map (c • ·) := by
  rw [interpLanczos_alg, interpLanczos_alg]
  split
  · rfl
  · simp only [Option.map_some]
    congr 1
    rw [Finset.smul_sum]
    exact Finset.sum_congr rfl (fun k _ => smul_comm _ _ _)

theorem interp_smul (sinc : K → K) (it : Interp) (n : Nat) (g : Nat → V) (loc c : K) :
    interp (stdOps sinc) algData it n (fun i => c • g i) loc =
      (interp (stdOps sinc) algData it n g loc).map (c • ·) := by
  cases it
  · exact nearest_smul sinc n g loc c
  · exact linearB_smul sinc n g loc c
  · exact lanczos_smul sinc _ n g loc c

/-- `das_definition` for algebra-valued samples (complex data, real weights and times) -/
theorem das_definition_alg (sinc : K → K) (p : Problem K V) (w : Nat → K) (g0 : Nat → Nat → V)
    (it : Interp) (fill : V) (pt : Nat) :
    dasNoAmp (stdOps sinc) algData { p with g := weigh algData (some w) g0 } it fill pt =
      ((p.N : K))⁻¹ • ∑ k ∈ Finset.range p.N,
        match interp (stdOps sinc) algData it p.n (g0 k) (locA p pt k) with
        | some v => w k • v
        | none => fill := by
  unfold dasNoAmp
  rw [dasMean_eq_sum_alg]
  congr 1
  refine Finset.sum_congr rfl (fun k _ => ?_)
  rw [termNoAmp_eq_interp, ← locB_eq_locA_alg sinc]
  have : (weigh algData (some w) g0) k = fun i => w k • g0 k i := rfl
  show (interp (stdOps sinc) algData it p.n (weigh algData (some w) g0 k)
    (locB (stdOps sinc) p pt k)).getD fill = _
  rw [this, interp_smul]
  cases interp (stdOps sinc) algData it p.n (g0 k) (locB (stdOps sinc) p pt k) <;> rfl

end Alg

/-! ## Non-vacuity: concrete rational data -/
section Examples

/-- two timetraces of four samples, `dt = 1/2`, `t0 = 0`; at point 0 the round-trip time of
timetrace 0 is `3/4` (location `3/2`, inside) and of timetrace 1 is `-1/8` (location `-1/4`,
before the window) -/
def exProblem : Problem ℚ ℚ :=
  { N := 2, n := 4, tx := fun k => k, rx := fun k => k,
    g := fun k i => if k = 0 then (i : ℚ) + 1 else 10 * ((i : ℚ) + 1),
    ltTx := fun _ e => if e = 0 then 1 / 2 else -(1 / 4),
    ltRx := fun _ e => if e = 0 then 1 / 4 else 1 / 8,
    t0 := 0, dt := 1 / 2 }

example : locA exProblem 0 0 = 3 / 2 ∧ locA exProblem 0 1 = -(1 / 4) := by decide +kernel

/-- timetrace 0 contributes `g[1] + (1/2)(g[2]-g[1]) = 5/2`, timetrace 1 the fill value -/
example (sinc : ℚ → ℚ) :
    termNoAmp (stdOps sinc) stdData exProblem .linear 0 0 = some (5 / 2) ∧
      termNoAmp (stdOps sinc) stdData exProblem .linear 0 1 = none := by
  have h0 : locA exProblem 0 0 = 3 / 2 := by decide +kernel
  have h1 : locA exProblem 0 1 = -(1 / 4) := by decide +kernel
  constructor
  · show interpLinearB _ _ _ _ _ = _
    rw [← linearA_eq_linearB, locB_eq_locA, h0, linear_spec]
    exact ⟨1, by norm_num, by norm_num, by decide, by decide +kernel⟩
  · show interpLinearB _ _ _ _ _ = _
    rw [← linearA_eq_linearB, locB_eq_locA, h1]
    exact linear_none_of_neg _ _ _ _ (by norm_num)

example : dasNoAmp (stdOps (fun _ => 0)) stdData exProblem .linear 0 0 = 5 / 4 := by
  decide +kernel
example : dasNoAmp (stdOps (fun _ => 0)) stdData exProblem .linear 7 0 = 19 / 4 := by
  decide +kernel
/-- nearest: location `3/2` is a tie and goes to the even index 2 (`g 0 2 = 3`); location `-1/4`
rounds to index 0, inside the window (`g 1 0 = 10`) -/
example : dasNoAmp (stdOps (fun _ => 0)) stdData exProblem .nearest 0 0 = 13 / 2 := by
  decide +kernel
example : dasAmp (stdOps (fun _ => 0)) stdData exProblem (fun _ _ => 2) (fun _ _ => 3)
    .linear 0 0 = 15 / 2 := by decide +kernel
/-- weights `w = (2, 5)` -/
example : dasNoAmp (stdOps (fun _ => 0)) stdData
    { exProblem with g := weigh stdData (some fun k => if k = 0 then 2 else 5) exProblem.g }
    .linear 0 0 = 5 / 2 := by decide +kernel
/-- ties to even: `1/2 ↦ 0`, `3/2 ↦ 2`, `5/2 ↦ 2`, `-1/2 ↦ 0`, `-3/2 ↦ -2` -/
example : (roundHalfEven (1 / 2 : ℚ), roundHalfEven (3 / 2 : ℚ), roundHalfEven (5 / 2 : ℚ),
    roundHalfEven (-(1 / 2) : ℚ), roundHalfEven (-(3 / 2) : ℚ), roundHalfEven (7 / 4 : ℚ)) =
    (0, 2, 2, 0, -2, 2) := by decide +kernel
/-- the truncating variant and the kernel differ on this problem's second timetrace -/
example (sinc : ℚ → ℚ) :
    interpLinearTrunc (stdOps sinc) stdData 4 (exProblem.g 1) (locA exProblem 0 1) =
      some (15 / 2) ∧
    interpLinearA (stdOps sinc) stdData 4 (exProblem.g 1) (locA exProblem 0 1) = none := by
  have h : locA exProblem 0 1 = -(1 / 4) := by decide +kernel
  rw [h]
  refine ⟨?_, linear_none_of_neg _ _ _ _ (by norm_num)⟩
  rw [linear_trunc_counter]
  congr 1
  decide +kernel
/-- Lanczos (a = 2) at the node `loc = 2` with a `sinc` that is `1` at `0` and `0` elsewhere -/
example : interpLanczos (stdOps (fun x : ℚ => if x = 0 then 1 else 0)) stdData 2 4
    (exProblem.g 0) 2 = some 3 := by decide +kernel

end Examples

/-! ## On the source: the kernels of the robust aggregations as translated from `arim/im/huber.py` and `arim/im/geomed.py` -/
section OnSourceRobust

/-- the routines of the translated robust kernels at `K = ℝ` -/
noncomputable def robustOps : Src.Ops ℝ :=
  { sin := id, cos := id, asin := id, sqrt := Real.sqrt, exp := id, sinc := id,
    pi := 0, ofNat := fun n => (n : ℝ), ofInt := fun z => (z : ℝ),
    floor := fun x => ⌊x⌋, round := fun x => round x, trunc := fun x => ⌊x⌋ }

/-- row `i` of the `(n, 2)` array handed to `geomed` / `huber_m_estimate`, as the complex sample it is a view of -/
def smp (data : Nat → Nat → ℝ) (i : Nat) : ℂ := ⟨data i 0, data i 1⟩

/-- a left fold over `range n` whose state after `k` steps is known in closed form -/
theorem foldl_range_closed {σ : Type*} (step : σ → ℕ → σ) (init : σ) (P : ℕ → σ) (h0 : P 0 = init)
    (hs : ∀ k, step (P k) k = P (k + 1)) (n : ℕ) : (List.range n).foldl step init = P n := by
  induction n with
  | zero => simp [h0]
  | succ m ih => rw [List.range_succ, List.foldl_append, ih]; simp [hs]

theorem norm_smp_sub (data : Nat → Nat → ℝ) (x y : ℝ) (i : Nat) :
    ‖(⟨x, y⟩ : ℂ) - smp data i‖ = Real.sqrt ((x - data i 0) * (x - data i 0) + (y - data i 1) * (y - data i 1)) := by
  rw [Complex.norm_def, Complex.normSq_apply]; simp [smp]

theorem pyMin_eq_min (a b : ℝ) : Src.pyMin a b = min a b := by
  unfold Src.pyMin
  split_ifs with h
  · exact (min_eq_right h.le).symm
  · exact (min_eq_left (not_lt.mp h)).symm

/-- **tie**: one step of `_huber_iter` as translated from the source is the reweighting step `huberIter` of the theorems,
on the complex samples the `(n, 2)` array is a view of -/
theorem src_huber_iter_eq (data : Nat → Nat → ℝ) (n : Nat) (τ x0 y0 : ℝ) :
    Src.huber_iter robustOps data n τ x0 y0 =
      ((huberIter (Finset.range n) (smp data) τ (⟨x0, y0⟩ : ℂ)).re, (huberIter (Finset.range n) (smp data) τ (⟨x0, y0⟩ : ℂ)).im) := by
  unfold Src.huber_iter
  dsimp only
  rw [foldl_range_closed _ _ (fun k => (∑ i ∈ Finset.range k, huberW τ ‖(⟨x0, y0⟩ : ℂ) - smp data i‖,
      ∑ i ∈ Finset.range k, data i 0 * huberW τ ‖(⟨x0, y0⟩ : ℂ) - smp data i‖,
      ∑ i ∈ Finset.range k, data i 1 * huberW τ ‖(⟨x0, y0⟩ : ℂ) - smp data i‖))]
  · simp only [huberIter, robustOps, Nat.cast_one]
    have hre : (∑ i ∈ Finset.range n, huberW τ ‖(⟨x0, y0⟩ : ℂ) - smp data i‖ • smp data i).re
        = ∑ i ∈ Finset.range n, data i 0 * huberW τ ‖(⟨x0, y0⟩ : ℂ) - smp data i‖ := by
      rw [Complex.re_sum]; refine Finset.sum_congr rfl (fun i _ => ?_); simp [smp, mul_comm]
    have him : (∑ i ∈ Finset.range n, huberW τ ‖(⟨x0, y0⟩ : ℂ) - smp data i‖ • smp data i).im
        = ∑ i ∈ Finset.range n, data i 1 * huberW τ ‖(⟨x0, y0⟩ : ℂ) - smp data i‖ := by
      rw [Complex.im_sum]; refine Finset.sum_congr rfl (fun i _ => ?_); simp [smp, mul_comm]
    simp only [Complex.real_smul] at hre him
    simp only [Complex.real_smul, Complex.mul_re, Complex.mul_im, Complex.ofReal_re, Complex.ofReal_im, zero_mul, sub_zero, add_zero]
    rw [hre, him]
    refine Prod.ext ?_ ?_ <;> simp only [one_div] <;> ring
  · simp [robustOps]
  · intro k
    simp only [Finset.sum_range_succ, robustOps, Nat.cast_one, pyMin_eq_min, huberW, norm_smp_sub]

/-- **a fixed point of the translated `_huber_iter` is the Huber location of the delayed samples**: if one more step of
the source's iteration returns the iterate itself (what `huber_m_estimate` iterates towards: it stops when the update is
below `xtol`), the iterate minimises the Huber objective over all of ℂ -/
theorem src_huber_fixed_point_optimal (data : Nat → Nat → ℝ) (n : Nat) (τ x0 y0 : ℝ) (hτ : 0 ≤ τ)
    (hW : ∑ i ∈ Finset.range n, huberW τ ‖(⟨x0, y0⟩ : ℂ) - smp data i‖ ≠ 0)
    (hfix : Src.huber_iter robustOps data n τ x0 y0 = (x0, y0)) (w : ℂ) :
    ∑ i ∈ Finset.range n, huberRho τ ‖(⟨x0, y0⟩ : ℂ) - smp data i‖ ≤ ∑ i ∈ Finset.range n, huberRho τ ‖w - smp data i‖ := by
  rw [src_huber_iter_eq] at hfix
  have h : huberIter (Finset.range n) (smp data) τ (⟨x0, y0⟩ : ℂ) = ⟨x0, y0⟩ :=
    Complex.ext (congrArg Prod.fst hfix) (congrArg Prod.snd hfix)
  exact huber_fixed_point_optimal (Finset.range n) (smp data) τ hτ _ w hW h

/-- **what `huber_m_estimate` returns, on the source**: it stops as soon as one step of the translated `_huber_iter` moves the
iterate by at most `xtol` in the l1 sense; a value with that property minimises the Huber objective over all of ℂ up to
`|W| · xtol · ‖w − z‖` (`W` = sum of the weights ≤ number of samples): the Huber location to the documented tolerance -/
theorem src_huber_tolerance_optimal (data : Nat → Nat → ℝ) (n : Nat) (τ x0 y0 xtol : ℝ) (hτ : 0 ≤ τ)
    (hW : ∑ i ∈ Finset.range n, huberW τ ‖(⟨x0, y0⟩ : ℂ) - smp data i‖ ≠ 0)
    (hstop : |x0 - (Src.huber_iter robustOps data n τ x0 y0).1| + |y0 - (Src.huber_iter robustOps data n τ x0 y0).2| ≤ xtol) (w : ℂ) :
    ∑ i ∈ Finset.range n, huberRho τ ‖(⟨x0, y0⟩ : ℂ) - smp data i‖
      ≤ ∑ i ∈ Finset.range n, huberRho τ ‖w - smp data i‖
        + |∑ i ∈ Finset.range n, huberW τ ‖(⟨x0, y0⟩ : ℂ) - smp data i‖| * xtol * ‖w - (⟨x0, y0⟩ : ℂ)‖ := by
  rw [src_huber_iter_eq] at hstop
  refine huber_near_fixed_point_optimal (Finset.range n) (smp data) τ hτ _ w xtol hW ?_
  refine le_trans (Complex.norm_le_abs_re_add_abs_im _) ?_
  simpa using hstop

/-- **tie**: `_f` as translated from the source is the sum of the distances to the samples (the objective of `geomed`) -/
theorem src_geomed_f_eq (data : Nat → Nat → ℝ) (n : Nat) (z : Nat → ℝ) :
    Src.geomed_f robustOps data n z = ∑ i ∈ Finset.range n, ‖(⟨z 0, z 1⟩ : ℂ) - smp data i‖ := by
  unfold Src.geomed_f
  dsimp only
  rw [foldl_range_closed _ _ (fun k => ∑ i ∈ Finset.range k, ‖(⟨z 0, z 1⟩ : ℂ) - smp data i‖)]
  · simp [robustOps]
  · intro k
    simp only [Finset.sum_range_succ, robustOps, norm_smp_sub]

/-- **tie**: the first two outputs of `_gradf_and_inv_hessf` as translated from the source are the real and imaginary
parts of the sum of the unit vectors from the samples to `z` (the gradient of the objective) -/
theorem src_geomed_grad_eq (data : Nat → Nat → ℝ) (n : Nat) (z : Nat → ℝ) :
    ((Src.geomed_gradf_and_inv_hessf robustOps data n z).1, (Src.geomed_gradf_and_inv_hessf robustOps data n z).2.1) =
      ((∑ i ∈ Finset.range n, (‖(⟨z 0, z 1⟩ : ℂ) - smp data i‖⁻¹) • ((⟨z 0, z 1⟩ : ℂ) - smp data i)).re,
       (∑ i ∈ Finset.range n, (‖(⟨z 0, z 1⟩ : ℂ) - smp data i‖⁻¹) • ((⟨z 0, z 1⟩ : ℂ) - smp data i)).im) := by
  unfold Src.geomed_gradf_and_inv_hessf
  dsimp only
  set r : ℕ → ℝ := fun i => ‖(⟨z 0, z 1⟩ : ℂ) - smp data i‖ with hr
  rw [foldl_range_closed _ _ (fun k => (∑ i ∈ Finset.range k, 1 / r i * (z 0 - data i 0), ∑ i ∈ Finset.range k, 1 / r i * (z 1 - data i 1),
      ∑ i ∈ Finset.range k, (1 / r i - 1 / r i * (1 / r i) * (1 / r i) * ((z 0 - data i 0) * (z 0 - data i 0))),
      -∑ i ∈ Finset.range k, (z 0 - data i 0) * (z 1 - data i 1) * (1 / r i * (1 / r i) * (1 / r i)),
      ∑ i ∈ Finset.range k, (1 / r i - 1 / r i * (1 / r i) * (1 / r i) * ((z 1 - data i 1) * (z 1 - data i 1)))))]
  · simp only [Complex.re_sum, Complex.im_sum]
    refine Prod.ext ?_ ?_
    · show (∑ i ∈ Finset.range n, 1 / r i * (z 0 - data i 0)) = _
      refine Finset.sum_congr rfl (fun i _ => ?_); simp [smp, hr]
    · show (∑ i ∈ Finset.range n, 1 / r i * (z 1 - data i 1)) = _
      refine Finset.sum_congr rfl (fun i _ => ?_); simp [smp, hr]
  · simp [robustOps]
  · intro k
    simp only [Finset.sum_range_succ, robustOps, Nat.cast_one, hr, norm_smp_sub]
    refine Prod.ext rfl (Prod.ext rfl (Prod.ext rfl (Prod.ext ?_ rfl)))
    simp only []
    ring

/-- **certificate of `geomed` on the source's own quantities**: if the iterate `z` is none of the samples and the gradient
the source computes at `z` has Euclidean norm at most `ε` (the Newton iteration drives it to zero), then the objective the
source computes at `z` exceeds its value at any other point `w` by at most `ε‖w − z‖` — for `ε = 0`, `z` is the geometric
median of the delayed samples -/
theorem src_geomed_certificate (data : Nat → Nat → ℝ) (n : Nat) (z w : Nat → ℝ) (ε : ℝ)
    (hz : ∀ i < n, (⟨z 0, z 1⟩ : ℂ) ≠ smp data i)
    (hgrad : Real.sqrt ((Src.geomed_gradf_and_inv_hessf robustOps data n z).1 ^ 2
        + (Src.geomed_gradf_and_inv_hessf robustOps data n z).2.1 ^ 2) ≤ ε) :
    Src.geomed_f robustOps data n z ≤ Src.geomed_f robustOps data n w + ε * ‖(⟨w 0, w 1⟩ : ℂ) - ⟨z 0, z 1⟩‖ := by
  rw [src_geomed_f_eq, src_geomed_f_eq]
  refine geomed_optimal (Finset.range n) (smp data) _ _ ε (fun i hi => hz i (Finset.mem_range.mp hi)) ?_
  have h := src_geomed_grad_eq data n z
  have h1 := (Prod.ext_iff.mp h).1
  have h2 := (Prod.ext_iff.mp h).2
  simp only at h1 h2
  rw [Complex.norm_def, Complex.normSq_apply, ← h1, ← h2]
  simpa [sq] using hgrad

/-- **the median kernel returns what its solver makes of the delayed samples of the definition, and a solver output that
passes the certificate is their geometric median.**  `_delay_and_sum_noamp_median_nearest`, as translated from the source,
applies its solver (`geomed`) to the list `g_k(τ_tx + τ_rx)` (nearest sample, fill value outside the window) — the same
delayed samples the mean is taken of; if the value `z` it returns is none of these samples and the sum of the unit vectors
from the samples to `z` has norm at most `ε`, then `z` minimises the sum of distances to the delayed samples up to `ε‖w − z‖` -/
theorem src_das_median_nearest_certificate (ops : Ops ℝ) (d : Data ℝ ℂ) (solver : List ℂ → ℂ) (wt : Nat → Nat → ℂ) (tx rx : Nat → Nat)
    (ltx lrx : Nat → Nat → ℝ) (dt t0 : ℝ) (fill : ℂ) (N n pt : Nat) (ε : ℝ) (w : ℂ) :
    let smpl := fun k => (termNoAmp ops d (Tie.C02.problem wt tx rx ltx lrx dt t0 N n) .nearest pt k).getD fill
    let z := Src.das_noamp_median_nearest (Tie.C02.srcOps ops) wt tx rx ltx lrx (ops.ofInt 1 / dt) t0 fill solver N n pt
    z = solver ((List.range N).map smpl) ∧
    ((∀ k ∈ Finset.range N, z ≠ smpl k) → ‖∑ k ∈ Finset.range N, (‖z - smpl k‖⁻¹) • (z - smpl k)‖ ≤ ε →
      ∑ k ∈ Finset.range N, ‖z - smpl k‖ ≤ ∑ k ∈ Finset.range N, ‖w - smpl k‖ + ε * ‖w - z‖) := by
  intro smpl z
  refine ⟨Tie.C02.tie_noamp_median_nearest ops d solver wt tx rx ltx lrx dt t0 fill N n pt, fun hz hg => ?_⟩
  exact geomed_optimal (Finset.range N) smpl z w ε hz hg

/-- **the Huber kernel**: `_delay_and_sum_noamp_huber_lanczos` applies its solver (`huber_m_estimate(·, τ)`) to the delayed
samples of the definition (Lanczos interpolation); a solver output that is a fixed point of the reweighting step is their
Huber location (it minimises the Huber objective over all of ℂ) -/
theorem src_das_huber_lanczos_fixed_point (ops : Ops ℝ) (sin : ℝ → ℝ) (pi : ℝ) (d : Data ℝ ℂ)
    (hs : ∀ x, ops.sinc x = Src.das_sinc (Tie.C02.srcOpsT ops sin pi) x)
    (hd : ∀ (s1 s2 : ℝ) (v : ℂ), d.smul s2 (d.smul s1 v) = d.smul (s1 * s2) v)
    (solver : List ℂ → ℂ) (wt : Nat → Nat → ℂ) (tx rx : Nat → Nat)
    (ltx lrx : Nat → Nat → ℝ) (dt t0 τ : ℝ) (hτ : 0 ≤ τ) (fill : ℂ) (a N n pt : Nat) (w : ℂ) :
    let smpl := fun k => (termNoAmp ops d (Tie.C02.problem wt tx rx ltx lrx dt t0 N n) (.lanczos a) pt k).getD fill
    let z := Src.das_noamp_huber_lanczos (Tie.C02.srcOpsT ops sin pi) d wt tx rx ltx lrx (ops.ofInt 1 / dt) t0 fill a τ solver N n pt
    z = solver ((List.range N).map smpl) ∧
    (∑ k ∈ Finset.range N, huberW τ ‖z - smpl k‖ ≠ 0 → huberIter (Finset.range N) smpl τ z = z →
      ∑ k ∈ Finset.range N, huberRho τ ‖z - smpl k‖ ≤ ∑ k ∈ Finset.range N, huberRho τ ‖w - smpl k‖) := by
  intro smpl z
  refine ⟨Tie.C02.tie_noamp_huber_lanczos ops sin pi d hs hd solver wt tx rx ltx lrx dt t0 τ fill a N n pt, fun hW hfix => ?_⟩
  exact huber_fixed_point_optimal (Finset.range N) smpl τ hτ z w hW hfix

/-- non-vacuity: two samples `±1`, iterate `0`: one translated step returns `0` (a fixed point, weights `min(1, τ/1)`) -/
example : Src.huber_iter robustOps (fun i j => if j = 0 then (if i = 0 then 1 else -1) else 0) 2 (1 / 2) 0 0 = (0, 0) := by
  simp [Src.huber_iter, robustOps, Src.pyMin, List.range_succ]
  norm_num

end OnSourceRobust

end Arim.C02
