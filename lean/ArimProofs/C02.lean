import ArimModel.Das
import Mathlib.Analysis.InnerProductSpace.Basic
/-! # C02 — delay-and-sum image equals its mathematical definition -/
namespace Arim.C02
open Arim.Das
open scoped RealInnerProductSpace

variable {E : Type*} [NormedAddCommGroup E] [InnerProductSpace ℝ E]

/-- subgradient inequality for the norm -/
theorem norm_sub_ge (z w d : E) (hz : z ≠ d) :
    ‖z - d‖ + ⟪(‖z - d‖⁻¹) • (z - d), w - z⟫ ≤ ‖w - d‖ := by
  have hpos : 0 < ‖z - d‖ := norm_pos_iff.mpr (sub_ne_zero.mpr hz)
  set u := (‖z - d‖⁻¹) • (z - d) with hu
  have hun : ‖u‖ = 1 := by
    rw [hu, norm_smul, norm_inv, norm_norm]; field_simp
  have h1 : ⟪u, w - d⟫ ≤ ‖w - d‖ := by
    calc ⟪u, w - d⟫ ≤ ‖u‖ * ‖w - d‖ := real_inner_le_norm _ _
      _ = ‖w - d‖ := by rw [hun, one_mul]
  have h2 : ⟪u, w - d⟫ = ⟪u, w - z⟫ + ‖z - d‖ := by
    have : w - d = (w - z) + (z - d) := by abel
    rw [this, inner_add_right]
    congr 1
    rw [hu, real_inner_smul_left, real_inner_self_eq_norm_sq]
    field_simp
  linarith

/-- **Geometric median certificate.** If the sum of the unit vectors from the data to `z` has
norm at most `ε` (what the Newton iteration of `geomed` drives to zero), then `z` minimises the
sum of distances up to `ε‖w − z‖`: for `ε = 0` it is *the* geometric median of the delayed
samples. Any real inner-product space (ℂ ≅ ℝ² for the complex samples), any finite data set. -/
theorem geomed_optimal {ι : Type*} (s : Finset ι) (d : ι → E) (z w : E) (ε : ℝ)
    (hz : ∀ i ∈ s, z ≠ d i)
    (hgrad : ‖∑ i ∈ s, (‖z - d i‖⁻¹) • (z - d i)‖ ≤ ε) :
    ∑ i ∈ s, ‖z - d i‖ ≤ ∑ i ∈ s, ‖w - d i‖ + ε * ‖w - z‖ := by
  have hsum : ∑ i ∈ s, (‖z - d i‖ + ⟪(‖z - d i‖⁻¹) • (z - d i), w - z⟫) ≤ ∑ i ∈ s, ‖w - d i‖ :=
    Finset.sum_le_sum (fun i hi => norm_sub_ge z w (d i) (hz i hi))
  rw [Finset.sum_add_distrib, ← sum_inner] at hsum
  have hcs : -(ε * ‖w - z‖) ≤ ⟪∑ i ∈ s, (‖z - d i‖⁻¹) • (z - d i), w - z⟫ := by
    have := abs_real_inner_le_norm (∑ i ∈ s, (‖z - d i‖⁻¹) • (z - d i)) (w - z)
    have h3 : ‖∑ i ∈ s, (‖z - d i‖⁻¹) • (z - d i)‖ * ‖w - z‖ ≤ ε * ‖w - z‖ :=
      mul_le_mul_of_nonneg_right hgrad (norm_nonneg _)
    have := neg_abs_le (⟪∑ i ∈ s, (‖z - d i‖⁻¹) • (z - d i), w - z⟫)
    linarith
  linarith

/-- **Dispatcher table.** With per-element amplitudes exactly mean × {nearest, linear} is
served; without amplitudes mean × {nearest, linear, Lanczos}, median × {nearest, Lanczos} and
Huber × Lanczos (the robust ones for complex128 data only); everything else is an error. -/
theorem dispatch_table (hasAmp : Bool) (agg : Agg) (it : Interp) (c128 : Bool) :
    (∃ k, dispatch hasAmp agg it c128 = .ok k) ↔
      (hasAmp = true ∧ agg = .mean ∧ (it = .nearest ∨ it = .linear)) ∨
      (hasAmp = false ∧ agg = .mean) ∨
      (hasAmp = false ∧ c128 = true ∧ agg = .median ∧ it ≠ .linear) ∨
      (hasAmp = false ∧ c128 = true ∧ agg = .huber ∧ ∃ a, it = .lanczos a) := by
  cases hasAmp <;> cases agg <;> cases it <;> cases c128 <;> simp [dispatch]

end Arim.C02
