import ArimModel.RayCache
/-! # C14 — ray-geometry caching is transparent for every sequence of queries -/
namespace Arim.C14
open Arim.RayCache

/-- a three-interface geometry with every normal side declared -/
def g3 (raw : Bool) : Geo := { n := 3, incSide := fun _ => some true, outSide := fun _ => some true, rawZeroTest := raw }

/-- **Counter-history for the code before the repair (finding F3).** With the raw index tested
against 0, `inc_leg_size(-3)` on a three-interface path raises `IndexError` on a fresh object
but answers `None` once `inc_leg_size(0)` has been cached: the cache is not transparent. -/
theorem raw_zero_test_not_transparent :
    spec (g3 true) .incLegSize (-3) = .error .index ∧
    (query (g3 true) (query (g3 true) {} .incLegSize 0 true).2 .incLegSize (-3) true).1 = .ok .none := ⟨by rfl, by rfl⟩

/-- the same history on the current code: both answers are `None` -/
theorem norm_zero_test_same_history :
    spec (g3 false) .incLegSize (-3) = .ok .none ∧
    (query (g3 false) (query (g3 false) {} .incLegSize 0 true).2 .incLegSize (-3) true).1 = .ok .none := ⟨by rfl, by rfl⟩

end Arim.C14
