import ArimModel.RayCache
import ArimProofs.Lemmas.RayCache
import ArimProofs.Tie.C14
/-! # C14 — ray-geometry caching is transparent for every sequence of queries -/
namespace Arim.C14
open Arim.RayCache

/-- a three-interface geometry with every normal side declared -/
def g3 (raw : Bool) : Geo := { n := 3, incSide := fun _ => some true, outSide := fun _ => some true, rawZeroTest := raw }

/-- **Counter-history for the code before the repair (finding F3).** With the raw index tested
against 0, `inc_leg_size(-3)` on a three-interface path raises `IndexError` on a fresh object
but answers `None` once `inc_leg_size(0)` has been cached: the cache is not transparent. -/
theorem raw_zero_test_not_transparent :
    spec (g3 true) .incLegSize (-3) = .error .index ∧
    (query (g3 true) (query (g3 true) {} .incLegSize 0 true).2 .incLegSize (-3) true).1 = .ok .none := ⟨by rfl, by rfl⟩

/-- the same history on the current code: both answers are `None` -/
theorem norm_zero_test_same_history :
    spec (g3 false) .incLegSize (-3) = .ok .none ∧
    (query (g3 false) (query (g3 false) {} .incLegSize 0 true).2 .incLegSize (-3) true).1 = .ok .none := ⟨by rfl, by rfl⟩

/-! ## 1. negative and positive indices are interchangeable on a fresh object -/

/-- an out-of-range index is an `IndexError` on a fresh object (any version of the code) -/
theorem spec_index_error (g : Geo) (m : Meth) (r : Int) (hr : norm g.n r = none) :
    spec g m r = .error .index := by
  cases m <;>
    simp [spec, query, qLeg, qOrient, qIncLegSize, qIncCart, qIncRadius, qIncPolar, qIncAzimuth,
      qIncAngle, qSignedInc, qConvInc, qOutCart, qOutRadius, qOutPolar, qOutAzimuth, qOutAngle,
      qSignedOut, qConvOut, wrap, hr]

/-- the fresh-object answer only depends on the normalised index (current code) -/
theorem spec_normalised (g : Geo) (h : g.rawZeroTest = false) (m : Meth) (r : Int) (a : Nat)
    (hr : norm g.n r = some a) : spec g m r = spec g m (a : Int) := by
  rw [spec_eq_specN g h, specN_some hr, spec_natCast g h m (norm_lt hr)]

/-- closed form of the fresh-object answer (current code) -/
theorem spec_closed_form (g : Geo) (h : g.rawZeroTest = false) (m : Meth) (r : Int) :
    spec g m r = match norm g.n r with
      | Option.none => .error .index
      | some a => ans g m a :=
  spec_eq_specN g h m r

/-! ## 2. one query on a valid state -/

/-- **The decorator is transparent**, in terms of `Inv`/`spec`: if the body, run with the raw
index on any valid state, answers like the fresh object and keeps the state valid, then so
does the wrapped method. -/
theorem wrap_transparent (g : Geo) (h : g.rawZeroTest = false) (m : Meth)
    (body : St → Int → Res × St)
    (hb : ∀ s, Inv g s → ∀ r a, norm g.n r = some a →
      (body s r).1 = spec g m (a : Int) ∧ Inv g (body s r).2)
    (s : St) (hs : Inv g s) (r : Int) (fin : Bool) :
    (wrap g m body s r fin).1 = spec g m r ∧ Inv g (wrap g m body s r fin).2 := by
  have hq : QOK g m (wrap g m body) := by
    refine wrap_ok g m body fun s hs r a hn => ?_
    obtain ⟨h1, h2⟩ := hb s ((inv_iff_invP g h s).2 hs) r a hn
    exact ⟨by rw [h1, spec_natCast g h m (norm_lt hn)], (inv_iff_invP g h _).1 h2⟩
  obtain ⟨h1, h2⟩ := hq s ((inv_iff_invP g h s).1 hs) r fin
  exact ⟨by rw [h1, spec_eq_specN g h], (inv_iff_invP g h _).2 h2⟩

/-- one query on any valid state answers exactly what a fresh object answers (value class or
error kind) and keeps the state valid (also when the answer is an error) -/
theorem query_transparent (g : Geo) (h : g.rawZeroTest = false) (s : St) (hs : Inv g s)
    (m : Meth) (r : Int) (fin : Bool) :
    (query g s m r fin).1 = spec g m r ∧ Inv g (query g s m r fin).2 := by
  obtain ⟨h1, h2⟩ := query_ok g h m s ((inv_iff_invP g h s).1 hs) r fin
  exact ⟨by rw [h1, spec_eq_specN g h], (inv_iff_invP g h _).2 h2⟩

/-! ## 3. the invariant is kept by every operation -/

theorem inv_init (g : Geo) : Inv g {} := by
  intro m a v hl; simp at hl

theorem inv_clearIntermediate (g : Geo) (s : St) (hs : Inv g s) : Inv g (clearIntermediate s) := by
  intro m a v hl
  unfold clearIntermediate at hl
  simp only [lookup_filter_key (fun k => s.finals.contains k)] at hl
  split at hl
  · exact hs m a v hl
  · cases hl

theorem inv_runQueries (g : Geo) (h : g.rawZeroTest = false) (qs : List (Meth × Int × Bool)) :
    ∀ s, Inv g s → Inv g (runQueries g s qs).2 := by
  induction qs with
  | nil => intro s hs; exact hs
  | cons q rest ih =>
    obtain ⟨m, r, f⟩ := q
    intro s hs
    obtain ⟨-, h2⟩ := query_transparent g h s hs m r f
    cases hq : (query g s m r f).1 with
    | error e => rw [runQueries_cons_error rest hq]; exact h2
    | ok v => rw [runQueries_cons_ok rest hq]; exact ih _ h2

theorem inv_step (g : Geo) (h : g.rawZeroTest = false) (s : St) (hs : Inv g s) (op : Op) :
    Inv g (step g s op).2 := by
  cases op with
  | query m r f => exact (query_transparent g h s hs m r f).2
  | clearIntermediate => exact inv_clearIntermediate g s hs
  | clearAll => exact inv_init g
  | precompute ops =>
    have hi := inv_runQueries g h ops s hs
    simp only [step]
    split
    · exact hi
    · exact inv_clearIntermediate g _ hi
  | beamspread => exact inv_runQueries g h _ s hs
  | revBeamspread => exact inv_runQueries g h _ s hs
  | transRefl => exact inv_runQueries g h _ s hs
  | revTransRefl => exact inv_runQueries g h _ s hs

theorem inv_run (g : Geo) (h : g.rawZeroTest = false) (ops : List Op) :
    ∀ s, Inv g s → Inv g (run g s ops) := by
  induction ops with
  | nil => intro s hs; exact hs
  | cons op ops ih => intro s hs; exact ih _ (inv_step g h s hs op)

/-! ## 4. caching is transparent for every sequence of operations -/

/-- **Main theorem.** After ANY history of operations on a fresh object, every query answers
exactly like a fresh object (same value class, same error kind). -/
theorem cache_transparent (g : Geo) (h : g.rawZeroTest = false) (ops : List Op) (m : Meth)
    (r : Int) (fin : Bool) : (query g (run g {} ops) m r fin).1 = spec g m r :=
  (query_transparent g h _ (inv_run g h ops {} (inv_init g)) m r fin).1

/-- the answers of a block of queries do not depend on the (valid) state they start from -/
theorem runQueries_state_independent (g : Geo) (h : g.rawZeroTest = false)
    (qs : List (Meth × Int × Bool)) :
    ∀ s t, Inv g s → Inv g t → (runQueries g s qs).1 = (runQueries g t qs).1 := by
  induction qs with
  | nil => intro s t _ _; rfl
  | cons q rest ih =>
    obtain ⟨m, r, f⟩ := q
    intro s t hs ht
    obtain ⟨s1, s2⟩ := query_transparent g h s hs m r f
    obtain ⟨t1, t2⟩ := query_transparent g h t ht m r f
    cases hq : spec g m r with
    | error e =>
      rw [runQueries_cons_error rest (s1.trans hq), runQueries_cons_error rest (t1.trans hq)]
    | ok v =>
      rw [runQueries_cons_ok rest (s1.trans hq), runQueries_cons_ok rest (t1.trans hq)]
      simp only [ih _ _ s2 t2]

/-- the answers of `runQueries` (hence of `precompute` blocks and of the model functions
`beamspread`, `rev_beamspread`, `trans_refl`) on a valid state equal those of a fresh object -/
theorem runQueries_transparent (g : Geo) (h : g.rawZeroTest = false)
    (qs : List (Meth × Int × Bool)) (s : St) (hs : Inv g s) :
    (runQueries g s qs).1 = (runQueries g {} qs).1 :=
  runQueries_state_independent g h qs s {} hs (inv_init g)

/-- every operation, on a valid state, answers what it answers on a fresh object -/
theorem step_transparent (g : Geo) (h : g.rawZeroTest = false) (s : St) (hs : Inv g s) (op : Op) :
    (step g s op).1 = (step g {} op).1 := by
  cases op with
  | query m r f =>
    simp only [step]
    rw [(query_transparent g h s hs m r f).1, (query_transparent g h {} (inv_init g) m r f).1]
  | clearIntermediate => rfl
  | clearAll => rfl
  | precompute ops =>
    have hr := runQueries_transparent g h ops s hs
    simp only [step]
    split <;> split <;> exact hr
  | beamspread => exact runQueries_transparent g h _ s hs
  | revBeamspread => exact runQueries_transparent g h _ s hs
  | transRefl => exact runQueries_transparent g h _ s hs
  | revTransRefl => exact runQueries_transparent g h _ s hs

/-- after any history, every operation answers what it answers on a fresh object -/
theorem history_transparent (g : Geo) (h : g.rawZeroTest = false) (ops : List Op) (op : Op) :
    (step g (run g {} ops) op).1 = (step g {} op).1 :=
  step_transparent g h _ (inv_run g h ops {} (inv_init g)) op

/-! ## 5. negative indices, after any history -/

theorem neg_index_interchangeable (g : Geo) (h : g.rawZeroTest = false) (ops : List Op) (m : Meth)
    (r : Int) (hr : -(g.n : Int) ≤ r ∧ r < 0) (fin : Bool) :
    (query g (run g {} ops) m r fin).1 = (query g (run g {} ops) m (r + g.n) fin).1 := by
  rw [cache_transparent g h, cache_transparent g h,
    spec_normalised g h m r _ (norm_neg hr), spec_normalised g h m (r + g.n) _ (norm_add_len hr)]

/-! ## 6. finals -/

/-- a query never un-finalises a key -/
theorem finals_monotone (g : Geo) (s : St) (m : Meth) (r : Int) (fin : Bool) (k : Key)
    (hk : k ∈ s.finals) : k ∈ (query g s m r fin).2.finals :=
  query_finSub g s m r fin k hk

/-- `clear_intermediate_results` keeps every final entry (no hypothesis on duplicates needed:
the filter keeps or drops all entries of a key together) -/
theorem clearIntermediate_keeps_finals (s : St) (k : Key) (hk : k ∈ s.finals) :
    lookup (clearIntermediate s).cache k = lookup s.cache k := by
  unfold clearIntermediate
  simp only [lookup_filter_key (fun k => s.finals.contains k)]
  simp [hk]

/-- ... and drops every non-final entry -/
theorem clearIntermediate_drops_nonfinals (s : St) (k : Key) (hk : k ∉ s.finals) :
    lookup (clearIntermediate s).cache k = none := by
  unfold clearIntermediate
  simp only [lookup_filter_key (fun k => s.finals.contains k)]
  simp [hk]

theorem clearIntermediate_finals (s : St) : (clearIntermediate s).finals = s.finals := rfl

/-- a successful query leaves its answer cached under the normalised key, and final if it
was asked as final -/
theorem query_caches (g : Geo) (s : St) (m : Meth) (r : Int) (fin : Bool) (a : Nat) (v : Cls)
    (hn : norm g.n r = some a) (hv : (query g s m r fin).1 = .ok v) :
    lookup (query g s m r fin).2.cache (m, a) = some v ∧
    (fin = true → (m, a) ∈ (query g s m r fin).2.finals) := by
  cases m <;> exact wrap_caches g _ _ s r fin hn hv

/-- a final answer survives `clear_intermediate_results` -/
theorem final_survives_clear (g : Geo) (s : St) (m : Meth) (r : Int) (a : Nat) (v : Cls)
    (hn : norm g.n r = some a) (hv : (query g s m r true).1 = .ok v) :
    lookup (clearIntermediate (query g s m r true).2).cache (m, a) = some v := by
  obtain ⟨h1, h2⟩ := query_caches g s m r true a v hn hv
  rw [clearIntermediate_keeps_finals _ _ (h2 rfl), h1]

/-! ## 7. the hypothesis `rawZeroTest = false` cannot be dropped, for any geometry -/

/-- generalisation of `raw_zero_test_not_transparent`: with the raw index tested against 0,
on EVERY path with at least one interface `inc_leg_size(-n)` raises `IndexError` on a fresh
object but answers `None` once `inc_leg_size(0)` has been cached -/
theorem raw_zero_test_never_transparent (g : Geo) (h : g.rawZeroTest = true) (hn : 0 < g.n) :
    spec g .incLegSize (-(g.n : Int)) = .error .index ∧
    (query g (query g {} .incLegSize 0 true).2 .incLegSize (-(g.n : Int)) true).1 = .ok .none := by
  have h0 : norm g.n 0 = some 0 := norm_eq_some_iff.2 ⟨hn, Or.inl rfl⟩
  have h1 : norm g.n (-(g.n : Int)) = some 0 := norm_eq_some_iff.2 ⟨hn, Or.inr (by omega)⟩
  have h2 : norm g.n (-(g.n : Int) - 1) = none := norm_eq_none_iff.2 (Or.inl (by omega))
  have h3 : (-(g.n : Int) == 0) = false := by
    rw [Bool.eq_false_iff]; simp only [ne_eq, beq_iff_eq]; omega
  constructor
  · simp [spec, query, qIncLegSize, qLeg, wrap, isFirst, andThen, h, h1, h2, h3]
  · simp [query, qIncLegSize, wrap, isFirst, h, h0, h1, lookup_cons, addFinal]

/-! ## 8. non-vacuity -/

/-- a five-interface geometry whose interface 3 has no declared incoming normal side
(`conv_inc(3)` is a `ValueError`) -/
def gNoSide : Geo :=
  { n := 5, incSide := fun k => if k = 3 then Option.none else some true, outSide := fun _ => some true }

/-- a busy history: model functions (which abort on the `ValueError`), a `precompute` block,
a block that aborts on an error, negative and out-of-range indices, clearing -/
def busy : List Op :=
  [.beamspread, .query .signedOut (-2) false, .precompute [(.convInc, 2, true), (.outAngle, -4, false)],
   .clearIntermediate,
   .precompute [(.incPolar, 1, false), (.convInc, 3, true), (.convOut, 0, true)],
   .revBeamspread, .query .incCart 7 true, .transRefl, .query .convOut (-5) true]

-- the hypothesis of the theorems holds for the current code
example : (g3 false).rawZeroTest = false := rfl
example : gNoSide.rawZeroTest = false := rfl

-- the reached states are not empty, so the theorems are exercised on hits as well as misses
example : (run gNoSide {} busy).cache.length = 13 := by decide
example : (run gNoSide {} busy).finals = [(.convOut, 0), (.convInc, 2), (.convInc, 1)] := by decide
example : (run (g3 false) {} [.beamspread, .clearIntermediate]).cache.length = 3 := by decide

-- the answers along the history: values, `ValueError`s, an `IndexError`
example : (step gNoSide {} .beamspread).1 = [.ok .val, .ok .val, .error .value] := rfl
example : (step gNoSide {} .revBeamspread).1 = [.error .value] := rfl
example : (step gNoSide (run gNoSide {} busy) .revBeamspread).1 = [.error .value] := rfl
example : (step gNoSide {} (.query .incCart 7 true)).1 = [.error .index] := rfl

-- all three kinds of answers and both kinds of errors occur, on a fresh object and after `busy`
example : spec gNoSide .convInc 2 = .ok .val := rfl
example : spec gNoSide .convInc (-5) = .ok .none := rfl
example : spec gNoSide .convInc 3 = .error .value := rfl
example : spec gNoSide .convInc (-2) = .error .value := rfl
example : spec gNoSide .convInc 5 = .error .index := rfl
example : spec gNoSide .outPolar (-1) = .ok .none := rfl
example : (query gNoSide (run gNoSide {} busy) .convInc 2 false).1 = .ok .val := rfl
example : (query gNoSide (run gNoSide {} busy) .convInc (-2) false).1 = .error .value := rfl
example : (query gNoSide (run gNoSide {} busy) .convInc (-6) false).1 = .error .index := rfl
example : (query gNoSide (run gNoSide {} busy) .incLegSize (-5) true).1 = .ok .none := rfl

-- a block that aborts on an error skips the clean-up, and its answers stop at the error;
-- a block that succeeds keeps only the final entries
example : (step gNoSide {} (.precompute [(.incPolar, 1, false), (.convInc, 3, true), (.convOut, 0, true)])).1
    = [.ok .val, .error .value] := rfl
example : (step gNoSide {} (.precompute [(.incPolar, 1, false), (.convInc, 3, true)])).2.cache.length = 6 := by
  decide
example : (step gNoSide {} (.precompute [(.incPolar, 1, false), (.convInc, 2, true)])).2.cache.length = 1 := by
  decide

-- `Inv` is not trivially true, and `query_transparent` needs it: a poisoned cache answers wrongly
def poisoned : St := { cache := [((.incLegSize, 0), .val)] }

example : ¬ Inv (g3 false) poisoned := by
  intro h
  have h1 := (h .incLegSize 0 .val rfl).2
  have h2 : spec (g3 false) .incLegSize ((0 : Nat) : Int) = .ok .none := rfl
  rw [h2] at h1; cases h1

example : (query (g3 false) poisoned .incLegSize (-3) true).1 = .ok .val ∧
    spec (g3 false) .incLegSize (-3) = .ok .none := ⟨rfl, rfl⟩

-- instances of the main theorems
example : (query gNoSide (run gNoSide {} busy) .signedInc (-1) true).1 = spec gNoSide .signedInc (-1) :=
  cache_transparent gNoSide rfl busy _ _ _
example : (query gNoSide (run gNoSide {} busy) .outCart (-3) true).1 =
    (query gNoSide (run gNoSide {} busy) .outCart 2 true).1 :=
  neg_index_interchangeable gNoSide rfl busy .outCart (-3) (by decide) true
example : Inv gNoSide (run gNoSide {} busy) := inv_run gNoSide rfl busy {} (inv_init _)


/-! ## 9. on the source as translated on this run (`ArimProofs/Generated/SrcC14.lean`, tied by `ArimProofs/Tie/C14.lean`)

`SrcC14.query`, `SrcC14.clearIntermediate`, `SrcC14.clearAll`, `SrcC14.precomputeCleansUpOnError` are regenerated from
`/repo/src/arim/ray.py` (decorator, 17 cached methods, clearing methods, `precompute`) every time this file is built.
`srcStep` runs one operation of a history with them; the model functions (`beamspread`, ...) are sequences of final queries,
issued through `SrcC14.query` as well. -/

/-- a block of queries, issued through the translated `query` -/
def srcRunQueries (g : Geo) (s : St) : List (Meth × Int × Bool) → List Res × St
  | [] => ([], s)
  | (m, r, f) :: rest =>
    match Arim.SrcC14.query g s m r f with
    | (.error e, s') => ([.error e], s')
    | (.ok v, s') => let (rs, s'') := srcRunQueries g s' rest; (.ok v :: rs, s'')

/-- one operation of a history, made of the translated pieces only -/
def srcStep (g : Geo) (s : St) : Op → List Res × St
  | .query m r f => let (a, s') := Arim.SrcC14.query g s m r f; ([a], s')
  | .clearIntermediate => ([], Arim.SrcC14.clearIntermediate s)
  | .clearAll => ([], Arim.SrcC14.clearAll s)
  | .precompute ops =>
    let (rs, s') := srcRunQueries g s ops
    if rs.any (fun r => match r with | .error _ => true | .ok _ => false) then
      (rs, if Arim.SrcC14.precomputeCleansUpOnError then Arim.SrcC14.clearIntermediate s' else s')
    else (rs, Arim.SrcC14.clearIntermediate s')
  | .beamspread => srcRunQueries g s (beamspreadQueries g)
  | .revBeamspread => srcRunQueries g s (revBeamspreadQueries g)
  | .transRefl => srcRunQueries g s (transReflQueries g)
  | .revTransRefl => srcRunQueries g s (transReflQueries g)

def srcRun (g : Geo) (s : St) (ops : List Op) : St := ops.foldl (fun s op => (srcStep g s op).2) s

theorem srcRunQueries_eq (g : Geo) (h : g.rawZeroTest = false) (qs : List (Meth × Int × Bool)) :
    ∀ s, srcRunQueries g s qs = runQueries g s qs := by
  induction qs with
  | nil => intro s; rfl
  | cons q rest ih =>
    obtain ⟨m, r, f⟩ := q
    intro s
    simp only [srcRunQueries, runQueries, Arim.Tie.C14.tie_query g h, ih]
    rfl

/-- **tie, one operation**: a step made of the translated pieces is the model's step -/
theorem srcStep_eq (g : Geo) (h : g.rawZeroTest = false) (s : St) (op : Op) : srcStep g s op = step g s op := by
  cases op with
  | query m r f => simp only [srcStep, step, Arim.Tie.C14.tie_query g h]
  | clearIntermediate => rfl
  | clearAll => rfl
  | precompute ops =>
    simp only [srcStep, step, srcRunQueries_eq g h, Arim.Tie.C14.tie_precompute, Arim.Tie.C14.tie_clearIntermediate]
    rfl
  | beamspread => exact srcRunQueries_eq g h _ s
  | revBeamspread => exact srcRunQueries_eq g h _ s
  | transRefl => exact srcRunQueries_eq g h _ s
  | revTransRefl => exact srcRunQueries_eq g h _ s

theorem srcRun_eq (g : Geo) (h : g.rawZeroTest = false) (ops : List Op) : ∀ s, srcRun g s ops = run g s ops := by
  induction ops with
  | nil => intro s; rfl
  | cons op ops ih =>
    intro s
    show srcRun g (srcStep g s op).2 ops = run g (step g s op).2 ops
    rw [srcStep_eq g h, ih]

/-- **Main theorem on the source.** After ANY history run with the translated decorator, methods and clearing operations,
every translated query answers exactly like a fresh object. -/
theorem src_cache_transparent (g : Geo) (h : g.rawZeroTest = false) (ops : List Op) (m : Meth) (r : Int) (fin : Bool) :
    (Arim.SrcC14.query g (srcRun g {} ops) m r fin).1 = (Arim.SrcC14.query g {} m r true).1 := by
  rw [srcRun_eq g h, Arim.Tie.C14.tie_query g h]
  exact cache_transparent g h ops m r fin

/-- every operation (queries, precompute blocks, model functions) after any history answers what it answers first thing on
a fresh object — on the translated source -/
theorem src_history_transparent (g : Geo) (h : g.rawZeroTest = false) (ops : List Op) (op : Op) :
    (srcStep g (srcRun g {} ops) op).1 = (srcStep g {} op).1 := by
  rw [srcRun_eq g h, srcStep_eq g h, srcStep_eq g h]
  exact history_transparent g h ops op

/-- negative and positive indices are interchangeable after any history — on the translated source -/
theorem src_neg_index_interchangeable (g : Geo) (h : g.rawZeroTest = false) (ops : List Op) (m : Meth)
    (r : Int) (hr : -(g.n : Int) ≤ r ∧ r < 0) (fin : Bool) :
    (Arim.SrcC14.query g (srcRun g {} ops) m r fin).1 = (Arim.SrcC14.query g (srcRun g {} ops) m (r + g.n) fin).1 := by
  rw [srcRun_eq g h, Arim.Tie.C14.tie_query g h]
  exact neg_index_interchangeable g h ops m r hr fin

/-- the translated history on a concrete geometry really runs (non-vacuity): the model functions, precompute blocks and
clearing operations of `busy` leave the same cache as the model's run -/
example : (srcRun (g3 false) {} [.beamspread, .query .signedOut (-2) false, .clearIntermediate, .revTransRefl]).cache.length
    = (run (g3 false) {} [.beamspread, .query .signedOut (-2) false, .clearIntermediate, .revTransRefl]).cache.length := by
  rw [srcRun_eq (g3 false) rfl]

end Arim.C14
