import ArimModel.Frame
import ArimProofs.Lemmas.Frame
/-! # C15 — frame bookkeeping never mis-attributes a timetrace to an element pair -/
namespace Arim.C15
open Arim.Frame

/-- the full-matrix enumeration lists exactly the ordered pairs of `[0,n)` -/
theorem mem_fmc (n i j : Nat) : (i, j) ∈ fmc n ↔ i < n ∧ j < n := by
  simp [fmc]

/-- the half-matrix enumeration lists exactly the pairs `i ≤ j < n` -/
theorem mem_hmc (n i j : Nat) : (i, j) ∈ hmc n ↔ i ≤ j ∧ j < n := by
  simp only [hmc, List.mem_flatMap, List.mem_range, List.mem_map, List.mem_filter,
    decide_eq_true_eq, Prod.mk.injEq]
  constructor
  · rintro ⟨a, ha, b, ⟨hb, hab⟩, rfl, rfl⟩; exact ⟨hab, hb⟩
  · rintro ⟨h1, h2⟩; exact ⟨i, by omega, j, ⟨h2, h1⟩, rfl, rfl⟩

example : hmc 3 = [(0,0),(0,1),(0,2),(1,1),(1,2),(2,2)] := by decide
example : inferCapture [(1,0),(0,0),(1,1)] = some Capture.hmc := by decide

/-! ## 1. The enumerations have no duplicate pair -/

/-- `ut.fmc n` never lists a pair twice -/
theorem fmc_nodup (n : Nat) : (fmc n).Nodup := by
  unfold fmc
  rw [List.nodup_flatMap]
  refine ⟨fun i _ => List.Nodup.map (fun a b h => by simpa using h) List.nodup_range, ?_⟩
  refine List.Pairwise.imp_of_mem ?_ (List.nodup_range (n := n))
  intro a b _ _ hab
  simp only [Function.onFun, List.disjoint_left, List.mem_map, List.mem_range]
  rintro x ⟨j, _, rfl⟩ ⟨k, _, h⟩
  simp at h; omega

/-- `ut.hmc n` never lists a pair twice -/
theorem hmc_nodup (n : Nat) : (hmc n).Nodup := by
  unfold hmc
  rw [List.nodup_flatMap]
  refine ⟨fun i _ => List.Nodup.map (fun a b h => by simpa using h) (List.nodup_range.filter _), ?_⟩
  refine List.Pairwise.imp_of_mem ?_ (List.nodup_range (n := n))
  intro a b _ _ hab
  simp only [Function.onFun, List.disjoint_left, List.mem_map]
  rintro x ⟨j, _, rfl⟩ ⟨k, _, h⟩
  simp at h; omega

/-- `ut.fmc n` has `n²` timetraces -/
theorem fmc_length (n : Nat) : (fmc n).length = n * n := by
  simp [fmc, List.length_flatMap]

example : (fmc 3).Nodup ∧ (hmc 3).Nodup ∧ (fmc 3).length = 9 := by decide

/-! ## 2. Recognition of the capture method, in any acquisition order -/

theorem mem_fmc' (n : Nat) (p : Pair) : p ∈ fmc n ↔ p.1 < n ∧ p.2 < n := mem_fmc n p.1 p.2
theorem mem_hmc' (n : Nat) (p : Pair) : p ∈ hmc n ↔ p.1 ≤ p.2 ∧ p.2 < n := mem_hmc n p.1 p.2

/-- `max(tx, rx) + 1` of the enumerations is the number of elements -/
theorem numElements_fmc (n : Nat) (hn : 1 ≤ n) : numElements (fmc n) = some n := by
  rw [numElements_eq_some_iff]
  refine ⟨fun p hp => (mem_fmc' n p).1 hp, (n-1, n-1), (mem_fmc' n _).2 ⟨by simp; omega, by simp; omega⟩, ?_⟩
  simp; omega

theorem numElements_hmc (n : Nat) (hn : 1 ≤ n) : numElements (hmc n) = some n := by
  rw [numElements_eq_some_iff]
  refine ⟨fun p hp => ?_, (n-1, n-1), (mem_hmc' n _).2 ⟨by simp, by simp; omega⟩, ?_⟩
  · have := (mem_hmc' n p).1 hp; omega
  · simp; omega

theorem numElements_hmc_swap (n : Nat) (hn : 1 ≤ n) : numElements ((hmc n).map swap) = some n := by
  rw [numElements_eq_some_iff]
  refine ⟨fun p hp => ?_, (n-1, n-1), ?_, ?_⟩
  · rw [mem_map_swap, mem_hmc'] at hp; simp only [swap] at hp; omega
  · rw [mem_map_swap, mem_hmc']; simp [swap]; omega
  · simp; omega

/-- a full matrix capture on `n ≥ 2` elements is recognised whatever the order in which its
    timetraces are stored (`n = 1` is reported as HMC, see the example below) -/
theorem infer_fmc (n : Nat) (hn : 2 ≤ n) (ps : List Pair) (h : ps.Perm (fmc n)) :
    inferCapture ps = some Capture.fmc := by
  have hne : numElements ps = some n := by rw [numElements_perm h, numElements_fmc n (by omega)]
  have h1 : setEq ps (hmc n) = false := by
    rw [Bool.eq_false_iff, Ne, setEq_iff]
    intro hh
    have := (hh (1, 0)).1 (h.mem_iff.2 ((mem_fmc n 1 0).2 ⟨by omega, by omega⟩))
    rw [mem_hmc] at this; omega
  have h2 : setEq ps ((hmc n).map swap) = false := by
    rw [Bool.eq_false_iff, Ne, setEq_iff]
    intro hh
    have := (hh (0, 1)).1 (h.mem_iff.2 ((mem_fmc n 0 1).2 ⟨by omega, by omega⟩))
    rw [mem_map_swap] at this
    have := (mem_hmc n 1 0).1 this; omega
  have h3 : setEq ps (fmc n) = true := by
    rw [setEq_iff]; exact fun x => h.mem_iff
  simp [inferCapture, hne, h1, h2, h3, h.length_eq]

/-- a half matrix capture (upper `tx ≤ rx`, or lower `rx ≤ tx`) on `n ≥ 1` elements is recognised
    whatever the order in which its timetraces are stored -/
theorem infer_hmc (n : Nat) (hn : 1 ≤ n) (ps : List Pair)
    (h : ps.Perm (hmc n) ∨ ps.Perm ((hmc n).map swap)) :
    inferCapture ps = some Capture.hmc := by
  have hne : numElements ps = some n := by
    rcases h with h | h
    · rw [numElements_perm h, numElements_hmc n hn]
    · rw [numElements_perm h, numElements_hmc_swap n hn]
  have hlen : (hmc n).length = ps.length := by
    rcases h with h | h
    · exact h.length_eq.symm
    · rw [h.length_eq, List.length_map]
  have hs : (setEq ps (hmc n) || setEq ps ((hmc n).map swap)) = true := by
    rw [Bool.or_eq_true, setEq_iff, setEq_iff]
    rcases h with h | h
    · exact Or.inl fun x => h.mem_iff
    · exact Or.inr fun x => h.mem_iff
  rw [Bool.or_eq_true] at hs
  simp only [inferCapture, hne, Option.map_some, hlen, beq_self_eq_true, Bool.true_and]
  rcases hs with hs | hs <;> simp [hs]

/-- soundness of the recognition of a full matrix capture: the frame is a rearrangement of
    `fmc n` for `n = numElements ps`, and `n ≥ 2` (a single-element frame is reported as HMC) -/
theorem infer_fmc_sound (ps : List Pair) (h : inferCapture ps = some Capture.fmc) :
    ∃ n, 2 ≤ n ∧ numElements ps = some n ∧ ps.length = n * n ∧ (∀ p, p ∈ ps ↔ p ∈ fmc n) ∧
      ps.Perm (fmc n) := by
  rw [inferCapture_eq_some_iff] at h
  obtain ⟨n, hn, hc⟩ := h
  split at hc
  · cases hc
  · rename_i hh
    split at hc
    · rename_i hf
      simp only [Bool.and_eq_true, beq_iff_eq] at hf
      have hperm := perm_of_setEq_of_length (fmc_nodup n) hf.2 hf.1
      refine ⟨n, ?_, hn, by rw [← hf.1, fmc_length], (setEq_iff _ _).1 hf.2, hperm⟩
      by_contra hlt
      have hn1 : n = 1 := by
        have : n ≠ 0 := by
          rintro rfl
          rw [numElements_eq_some_iff] at hn
          obtain ⟨_, p, _, hp⟩ := hn; omega
        omega
      subst hn1
      apply hh
      have : hmc 1 = fmc 1 := by decide
      rw [this]
      simp [hf.1, hf.2]
    · cases hc

/-- soundness of the recognition of a half matrix capture -/
theorem infer_hmc_sound (ps : List Pair) (h : inferCapture ps = some Capture.hmc) :
    ∃ n, 1 ≤ n ∧ numElements ps = some n ∧
      (ps.Perm (hmc n) ∨ ps.Perm ((hmc n).map swap)) := by
  rw [inferCapture_eq_some_iff] at h
  obtain ⟨n, hn, hc⟩ := h
  split at hc
  · rename_i hh
    simp only [Bool.and_eq_true, beq_iff_eq, Bool.or_eq_true] at hh
    refine ⟨n, numElements_pos hn, hn, ?_⟩
    rcases hh.2 with hs | hs
    · exact Or.inl (perm_of_setEq_of_length (hmc_nodup n) hs hh.1)
    · exact Or.inr (perm_of_setEq_of_length ((hmc_nodup n).map swap_injective) hs
        (by rw [List.length_map]; exact hh.1))
  · split at hc <;> cases hc

/-- a frame is reported FMC exactly when it is a rearrangement of `fmc n` for some `n ≥ 2` -/
theorem infer_fmc_iff (ps : List Pair) :
    inferCapture ps = some Capture.fmc ↔ ∃ n, 2 ≤ n ∧ ps.Perm (fmc n) :=
  ⟨fun h => by obtain ⟨n, h1, _, _, _, h2⟩ := infer_fmc_sound ps h; exact ⟨n, h1, h2⟩,
   fun ⟨n, h1, h2⟩ => infer_fmc n h1 ps h2⟩

/-- a frame is reported HMC exactly when it is a rearrangement of `hmc n` (or of its mirror image)
    for some `n ≥ 1` -/
theorem infer_hmc_iff (ps : List Pair) :
    inferCapture ps = some Capture.hmc ↔
      ∃ n, 1 ≤ n ∧ (ps.Perm (hmc n) ∨ ps.Perm ((hmc n).map swap)) :=
  ⟨fun h => by obtain ⟨n, h1, _, h2⟩ := infer_hmc_sound ps h; exact ⟨n, h1, h2⟩,
   fun ⟨n, h1, h2⟩ => infer_hmc n h1 ps h2⟩

example : inferCapture [(1,1),(0,1),(1,0),(0,0)] = some Capture.fmc := by decide
example : inferCapture [(1,1),(0,1),(0,0)] = some Capture.hmc := by decide
example : inferCapture [(1,1),(1,0),(0,0)] = some Capture.hmc := by decide
/-- a one-element frame is both FMC and HMC; the code answers HMC -/
example : inferCapture (fmc 1) = some Capture.hmc := by decide
/-- a repeated pair is not mistaken for a missing one -/
example : inferCapture [(1,1),(0,1),(0,1),(0,0)] = some Capture.unsupported := by decide

/-! ## 3. Default timetrace weights -/

theorem weights_length (ps : List Pair) : (defaultWeights ps).length = ps.length := by
  simp [defaultWeights]

/-- the weight of the `k`-th timetrace is 1 when its mirror pair is recorded in the frame
    (this includes `tx = rx`), else 2 -/
theorem weights_rule (ps : List Pair) (k : Nat) (hk : k < ps.length) :
    (defaultWeights ps)[k]? = some (if swap ps[k] ∈ ps then 1 else 2) := by
  simp [defaultWeights, List.getElem?_eq_getElem hk]

example : defaultWeights [(0,0),(0,1),(1,0),(0,2)] = [1,1,1,2] := by decide
/-- HMC: diagonal pairs weigh 1, off-diagonal pairs 2 -/
example : defaultWeights (hmc 2) = [1,2,1] := by decide

/-! ## 4. Expansion by reciprocity

`expand_pairs_mem`, `expand_complete` and `expand_idempotent` hold for every list of timetraces;
the hypothesis `(pairsOf f).Nodup` (enforced by `Frame.__init__`) is only needed where stated
(`expand_payload` is false without it: `[⟨0,0,a⟩, ⟨0,0,b⟩]` is complete, hence returned as is, and
`lookup` finds `a` for the second timetrace). -/
variable {P : Type}

/-- the expanded frame lists exactly the recorded pairs and their mirrors -/
theorem expand_pairs_mem (f : List (TT P)) (p : Pair) :
    p ∈ pairsOf (expand f) ↔ (p ∈ pairsOf f ∨ swap p ∈ pairsOf f) := by
  cases hc : isComplete f
  · rw [pairsOf_expand_of_not_complete f hc, mem_expPairs]
  · rw [expand_eq, hc]
    have := (isComplete_iff f).1 hc p
    simp only [if_true]; tauto

/-- the expanded frame has no duplicate pair (so it is accepted by `Frame.__init__`) -/
theorem expand_pairs_nodup (f : List (TT P)) (hnd : (pairsOf f).Nodup) :
    (pairsOf (expand f)).Nodup := by
  cases hc : isComplete f
  · rw [pairsOf_expand_of_not_complete f hc]; exact sortDedup_nodup _
  · rw [expand_eq, hc]; exact hnd

/-- each timetrace of the expanded frame carries the data recorded for its own pair if that pair
    was recorded, and otherwise the data recorded for the mirror pair: no payload is ever
    attached to an unrelated pair -/
theorem expand_payload (f : List (TT P)) (hnd : (pairsOf f).Nodup) (t : TT P) (ht : t ∈ expand f) :
    lookup f (t.tx, t.rx) = some t.data ∨
      (lookup f (t.tx, t.rx) = none ∧ lookup f (t.rx, t.tx) = some t.data) := by
  cases hc : isComplete f
  · rw [expand_eq, hc] at ht
    simp only [Bool.false_eq_true, if_false, List.mem_filterMap] at ht
    obtain ⟨p, _, hp⟩ := ht
    obtain ⟨h1, h2, h3⟩ := expandEntry_some f p t hp
    obtain ⟨a, b⟩ := p
    simp only at h1 h2
    subst h1 h2
    exact h3
  · rw [expand_eq, hc] at ht
    exact Or.inl (lookup_of_mem f hnd t ht)

/-- the expanded frame is complete (closed under `tx ↔ rx`) -/
theorem expand_complete (f : List (TT P)) : isComplete (expand f) = true := by
  rw [isComplete_iff]
  intro p
  rw [expand_pairs_mem, expand_pairs_mem, swap_swap]; tauto

/-- expanding twice is expanding once -/
theorem expand_idempotent (f : List (TT P)) : expand (expand f) = expand f := by
  rw [expand_eq (expand f), expand_complete]; rfl

/-- no recorded timetrace is lost or altered by the expansion -/
theorem expand_keeps (f : List (TT P)) (hnd : (pairsOf f).Nodup) (t : TT P) (ht : t ∈ f) :
    t ∈ expand f := by
  cases hc : isComplete f
  · rw [expand_eq, hc]
    simp only [Bool.false_eq_true, if_false, List.mem_filterMap]
    refine ⟨(t.tx, t.rx), ?_, ?_⟩
    · rw [mem_expPairs]; exact Or.inl ((mem_pairsOf f _).2 ⟨t, ht, rfl, rfl⟩)
    · simp [expandEntry, lookup_of_mem f hnd t ht]
  · rw [expand_eq, hc]; exact ht

/-- unless the frame was already complete (then it is returned untouched), the expanded frame
    is sorted by `(tx, rx)` in lexicographic order -/
theorem expand_pairs_sorted (f : List (TT P)) (hc : isComplete f = false) :
    (pairsOf (expand f)).Pairwise (fun a b => pairLt a b = true) := by
  rw [pairsOf_expand_of_not_complete f hc]; exact sortDedup_sorted _

/-- a small half-matrix-like frame with distinguishable payloads -/
def exFrame : List (TT Nat) := [⟨1, 0, 10⟩, ⟨0, 0, 20⟩, ⟨1, 1, 30⟩]

example : (pairsOf exFrame).Nodup := by decide
example : isComplete exFrame = false := by decide
example : (expand exFrame).map (fun t => (t.tx, t.rx, t.data))
    = [(0,0,20), (0,1,10), (1,0,10), (1,1,30)] := by decide
example : isComplete (expand exFrame) = true := by decide
example : (expand (expand exFrame)).map (fun t => (t.tx, t.rx, t.data))
    = (expand exFrame).map (fun t => (t.tx, t.rx, t.data)) := by decide
/-- an already complete frame is returned as is, unsorted -/
example : (expand [⟨1, 0, 10⟩, ⟨0, 1, 5⟩] : List (TT Nat)).map (fun t => (t.tx, t.rx, t.data))
    = [(1,0,10), (0,1,5)] := by decide

/-! ## 5. Sub-frame by probe elements -/

/-- key renumbering fact: when no position is selected twice, the `k`-th selected element gets
    the new index `k` -/
theorem mapper_nodup (n : Nat) (pos : List Nat) (hnd : pos.Nodup) (k : Nat) (hk : k < pos.length) :
    mapper n pos pos[k] = k := mapper_getElem n pos hnd k hk

/-- for every old element index retained, the new probe holds the same physical element at the
    renumbered index -/
theorem subprobe_mapper (probe : List Nat) (pos sp : List Nat) (h : take? probe pos = some sp)
    (old : Nat) (ho : old ∈ pos) : sp[mapper probe.length pos old]? = probe[old]? := by
  obtain ⟨hk, hv⟩ := mapper_spec probe.length pos old ho
  obtain ⟨_, h2⟩ := take?_getElem probe pos sp h
  rw [h2 _ hk, hv]

/-- **Sub-frame by probe elements.** Exactly the timetraces whose both elements are retained are
    kept, in their original order, with the same payload, and — read through the probe returned
    with the frame — attached to the same physical elements as before. Holds for both values of
    `make_subprobe` and for every kind of index; neither `pos.Nodup` nor a range hypothesis on the
    frame is needed (when an element is selected twice, `mapper` points to its last copy, which
    holds the same physical element). See `subframe_elements_keep_probe` and
    `subframe_elements_subprobe` for the returned probe. -/
theorem subframe_elements (f : List (TT P)) (probe : List Nat) (ix : Idx) (mk : Bool)
    (pos : List Nat) (hpos : ix.positions probe.length = some pos)
    (f' : List (TT P)) (probe' : List Nat)
    (h : subframeFromElements f probe ix mk = some (f', probe')) :
    f'.map (fun t => (probe'[t.tx]?, probe'[t.rx]?, t.data))
      = (f.filter (fun t => pos.contains t.tx && pos.contains t.rx)).map
          (fun t => (probe[t.tx]?, probe[t.rx]?, t.data)) := by
  simp only [subframeFromElements, hpos, Option.bind_some] at h
  cases mk with
  | false =>
    simp only [Bool.false_eq_true, if_false, Option.some.injEq, Prod.mk.injEq] at h
    obtain ⟨rfl, rfl⟩ := h; rfl
  | true =>
    simp only [if_true, Option.bind_eq_some_iff, Option.map_eq_some_iff, Prod.mk.injEq] at h
    obtain ⟨sp, hsp, g, hg, rfl, rfl⟩ := h
    simp only [mkFrame] at hg
    split at hg
    · cases hg
      rw [List.map_map]
      apply List.map_congr_left
      intro t ht
      simp only [List.mem_filter, Bool.and_eq_true, List.contains_iff_mem] at ht
      simp only [Function.comp]
      rw [subprobe_mapper probe pos sp hsp t.tx ht.2.1, subprobe_mapper probe pos sp hsp t.rx ht.2.2]
    · cases hg

/-- without `make_subprobe` the probe is untouched and the frame is the plain filter -/
theorem subframe_elements_keep_probe (f : List (TT P)) (probe : List Nat) (ix : Idx)
    (pos : List Nat) (hpos : ix.positions probe.length = some pos) :
    subframeFromElements f probe ix false
      = some (f.filter (fun t => pos.contains t.tx && pos.contains t.rx), probe) := by
  simp [subframeFromElements, hpos]

/-- with `make_subprobe` the new probe is the selection `pos` of the old one (`take?`), it has
    one element per selected position, element indices of the new frame are in range, and the
    new frame has no duplicate pair -/
theorem subframe_elements_subprobe (f : List (TT P)) (probe : List Nat) (ix : Idx)
    (pos : List Nat) (hpos : ix.positions probe.length = some pos)
    (f' : List (TT P)) (probe' : List Nat)
    (h : subframeFromElements f probe ix true = some (f', probe')) :
    take? probe pos = some probe' ∧ probe'.length = pos.length ∧
      (∀ k (hk : k < pos.length), probe'[k]? = probe[pos[k]]?) ∧
      (∀ t ∈ f', t.tx < probe'.length ∧ t.rx < probe'.length) ∧ (pairsOf f').Nodup := by
  simp only [subframeFromElements, hpos, Option.bind_some, if_true, Option.bind_eq_some_iff,
    Option.map_eq_some_iff, Prod.mk.injEq] at h
  obtain ⟨sp, hsp, g, hg, rfl, rfl⟩ := h
  rw [mkFrame_eq_some_iff] at hg
  obtain ⟨hnd, rfl⟩ := hg
  obtain ⟨h1, h2⟩ := take?_getElem probe pos sp hsp
  refine ⟨hsp, h1, h2, ?_, hnd⟩
  intro t ht
  simp only [List.mem_map, List.mem_filter, Bool.and_eq_true, List.contains_iff_mem] at ht
  obtain ⟨u, ⟨_, hu1, hu2⟩, rfl⟩ := ht
  obtain ⟨k1, _⟩ := mapper_spec probe.length pos u.tx hu1
  obtain ⟨k2, _⟩ := mapper_spec probe.length pos u.rx hu2
  simp only; omega

/-- the operation never fails on a valid frame: if the frame has no duplicate pair and the
    index is accepted by NumPy (`positions` is `some`), a result is returned, whatever the kind of
    index (slice, mask, integer array, possibly with repeated entries) -/
theorem subframe_elements_succeeds (f : List (TT P)) (hnd : (pairsOf f).Nodup) (probe : List Nat)
    (ix : Idx) (mk : Bool) (pos : List Nat) (hpos : ix.positions probe.length = some pos) :
    ∃ r, subframeFromElements f probe ix mk = some r := by
  cases mk with
  | false => exact ⟨_, subframe_elements_keep_probe f probe ix pos hpos⟩
  | true =>
    obtain ⟨sp, hsp⟩ := take?_isSome probe pos (positions_bound ix probe.length pos hpos)
    have hk : (pairsOf (f.filter (fun t => pos.contains t.tx && pos.contains t.rx))).Nodup :=
      hnd.sublist (List.Sublist.map _ List.filter_sublist)
    have hm : mkFrame ((f.filter (fun t => pos.contains t.tx && pos.contains t.rx)).map
        (fun t => { t with tx := mapper probe.length pos t.tx, rx := mapper probe.length pos t.rx }))
        = some ((f.filter (fun t => pos.contains t.tx && pos.contains t.rx)).map
        (fun t => { t with tx := mapper probe.length pos t.tx, rx := mapper probe.length pos t.rx })) := by
      refine (mkFrame_eq_some_iff _ _).2 ⟨?_, rfl⟩
      simp only [pairsOf, List.map_map] at hk ⊢
      have hinj := (List.nodup_map_iff_inj_on (List.Nodup.of_map _ hk)).1 hk
      rw [List.nodup_map_iff_inj_on (List.Nodup.of_map _ hk)]
      intro t ht u hu htu
      apply hinj t ht u hu
      simp only [List.mem_filter, Bool.and_eq_true, List.contains_iff_mem] at ht hu
      simp only [Function.comp, Prod.mk.injEq] at htu
      have e1 := mapper_inj_on _ pos _ _ ht.2.1 hu.2.1 htu.1
      have e2 := mapper_inj_on _ pos _ _ ht.2.2 hu.2.2 htu.2
      simp [e1, e2]
    exact ⟨_, by simp only [subframeFromElements, hpos, Option.bind_some, if_true, hsp, hm]; rfl⟩

/-- a 3-element half-matrix frame with distinguishable payloads, on a probe whose elements are
    tagged 100, 101, 102 -/
def exHmc : List (TT Nat) := [⟨0,0,1⟩, ⟨0,1,2⟩, ⟨0,2,3⟩, ⟨1,1,4⟩, ⟨1,2,5⟩, ⟨2,2,6⟩]
def exProbe : List Nat := [100, 101, 102]
/-- printable view of a result -/
def view (r : Option (List (TT Nat) × List Nat)) : Option (List (Nat × Nat × Nat) × List Nat) :=
  r.map (fun r => (r.1.map (fun t => (t.tx, t.rx, t.data)), r.2))

example : (Idx.ints [2, 0]).positions exProbe.length = some [2, 0] := by decide
example : view (subframeFromElements exHmc exProbe (.ints [2, 0]) true)
    = some ([(1,1,1), (1,0,3), (0,0,6)], [102, 100]) := by decide
example : view (subframeFromElements exHmc exProbe (.ints [2, 0]) false)
    = some ([(0,0,1), (0,2,3), (2,2,6)], [100, 101, 102]) := by decide
example : view (subframeFromElements exHmc exProbe (.slice (some 1) none 1) true)
    = some ([(0,0,4), (0,1,5), (1,1,6)], [101, 102]) := by decide
example : view (subframeFromElements exHmc exProbe (.mask [true, false, true]) true)
    = some ([(0,0,1), (0,1,3), (1,1,6)], [100, 102]) := by decide
example : view (subframeFromElements exHmc exProbe (.slice none none (-1)) true)
    = some ([(2,2,1), (2,1,2), (2,0,3), (1,1,4), (1,0,5), (0,0,6)], [102, 101, 100]) := by decide
/-- a repeated index: the element is duplicated in the new probe, timetraces refer to the last copy -/
example : view (subframeFromElements exHmc exProbe (.ints [0, 0]) true)
    = some ([(1,1,1)], [100, 100]) := by decide
example : view (subframeFromElements exHmc exProbe (.ints [3]) true) = none := by decide
example : mapper 3 [2, 0] 2 = 0 ∧ mapper 3 [2, 0] 0 = 1 := by decide

end Arim.C15
