import ArimModel.Frame
/-! # C15 — frame bookkeeping never mis-attributes a timetrace to an element pair -/
namespace Arim.C15
open Arim.Frame

/-- the full-matrix enumeration lists exactly the ordered pairs of `[0,n)` -/
theorem mem_fmc (n i j : Nat) : (i, j) ∈ fmc n ↔ i < n ∧ j < n := by
  simp [fmc]

/-- the half-matrix enumeration lists exactly the pairs `i ≤ j < n` -/
theorem mem_hmc (n i j : Nat) : (i, j) ∈ hmc n ↔ i ≤ j ∧ j < n := by
  simp only [hmc, List.mem_flatMap, List.mem_range, List.mem_map, List.mem_filter,
    decide_eq_true_eq, Prod.mk.injEq]
  constructor
  · rintro ⟨a, ha, b, ⟨hb, hab⟩, rfl, rfl⟩; exact ⟨hab, hb⟩
  · rintro ⟨h1, h2⟩; exact ⟨i, by omega, j, ⟨h2, h1⟩, rfl, rfl⟩

example : hmc 3 = [(0,0),(0,1),(0,2),(1,1),(1,2),(2,2)] := by decide
example : inferCapture [(1,0),(0,0),(1,1)] = some Capture.hmc := by decide

end Arim.C15
