import ArimModel.Interface
/-! # C04 — interface coefficients obey Snell, energy conservation and Stokes relations -/
namespace Arim.C04
open Arim.Iface

variable {K : Type} [Add K] [Sub K] [Mul K] [Div K] [Neg K]

/-- in stress units the helper returns the fluid→solid transmission coefficient of the
requested mode, computed with Snell-refracted angles -/
theorem transmission_fluid_solid_stress (t : CTrig K) (m : Media K) (mOut : Mode) (a : K) :
    transmissionAt t m .fluidSolid .L mOut a false =
      .ok (match mOut with
        | .L => (fluidSolid t m a (snell t a m.cF m.cL) (snell t a m.cF m.cT)).2.1
        | .T => (fluidSolid t m a (snell t a m.cF m.cL) (snell t a m.cF m.cT)).2.2) := by
  cases mOut <;> rfl

/-- a transverse wave cannot be incident from the fluid -/
theorem transmission_fluid_T_rejected (t : CTrig K) (m : Media K) (mOut : Mode) (a : K) (d : Bool) :
    transmissionAt t m .fluidSolid .T mOut a d = .error .physics := rfl

end Arim.C04
