import ArimModel.Interface
import ArimProofs.Tie.C04
import ArimProofs.Lemmas.Interface
import Mathlib.Analysis.SpecialFunctions.Trigonometric.Basic
import Mathlib.Analysis.SpecialFunctions.Trigonometric.Inverse
import Mathlib.Analysis.SpecialFunctions.Log.Basic
import Mathlib.Data.Complex.Basic
import Mathlib.Tactic.FieldSimp
import Mathlib.Tactic.Ring
import Mathlib.Tactic.LinearCombination
import Mathlib.Tactic.NormNum
/-! # C04 — interface coefficients obey Snell, energy conservation and Stokes relations -/
namespace Arim.C04
open Arim.Iface

/-! ## 5. Helper selection (`transmission_at_interface`, `reflection_at_interface`), any scalar -/
section Helpers
variable {K : Type} [Add K] [Sub K] [Mul K] [Div K] [Neg K]

/-- in stress units the helper returns the fluid→solid transmission coefficient of the
requested mode, computed with Snell-refracted angles -/
theorem transmission_fluid_solid_stress (t : CTrig K) (m : Media K) (mOut : Mode) (a : K) :
    transmissionAt t m .fluidSolid .L mOut a false =
      .ok (match mOut with
        | .L => (fluidSolid t m a (snell t a m.cF m.cL) (snell t a m.cF m.cT)).2.1
        | .T => (fluidSolid t m a (snell t a m.cF m.cL) (snell t a m.cF m.cT)).2.2) := by
  cases mOut <;> rfl

/-- a transverse wave cannot be incident from the fluid -/
theorem transmission_fluid_T_rejected (t : CTrig K) (m : Media K) (mOut : Mode) (a : K) (d : Bool) :
    transmissionAt t m .fluidSolid .T mOut a d = .error .physics := rfl

/-- the component of a coefficient triple `(·, L, T)` selected by an outgoing mode
(second component for `L`, third for `T`) -/
def pickTrans (r : K × K × K) : Mode → K | .L => r.2.1 | .T => r.2.2

/-- the component of a reflection triple `(L, T, ·)` selected by an outgoing mode -/
def pickRefl (r : K × K × K) : Mode → K | .L => r.1 | .T => r.2.1

/-- the coefficient triple of the solid→fluid problem for an incident mode, at the Snell angles
of the incidence angle `a` (which is the L angle resp. the T angle) -/
def solidFluidAt (t : CTrig K) (m : Media K) : Mode → K → K × K × K
  | .L, a => solidLFluid t m (snell t a m.cL m.cF) a (snell t a m.cL m.cT)
  | .T, a => solidTFluid t m (snell t a m.cT m.cF) (snell t a m.cT m.cL) a

/-- displacement-unit conversion: multiply by `ratio` iff `disp` -/
def withUnits (disp : Bool) (v ratio : K) : K := if disp then v * ratio else v

omit [Add K] [Sub K] [Div K] [Neg K] in
@[simp] theorem withUnits_false (v r : K) : withUnits false v r = v := rfl
omit [Add K] [Sub K] [Div K] [Neg K] in
@[simp] theorem withUnits_true (v r : K) : withUnits true v r = v * r := rfl

/-- **Transmission, fluid → solid** (incident mode necessarily `L`): the `T_L` resp. `T_T`
component of `fluidSolid` at the Snell angles, times `Z_fluid / Z_out` (`Z_out = ρ_s·c(mOut)`)
iff displacement units are requested. -/
theorem transmission_fluid_solid (t : CTrig K) (m : Media K) (mOut : Mode) (a : K) (disp : Bool) :
    transmissionAt t m .fluidSolid .L mOut a disp =
      .ok (withUnits disp
        (pickTrans (fluidSolid t m a (snell t a m.cF m.cL) (snell t a m.cF m.cT)) mOut)
        ((m.rhoF * m.cF) / (m.rhoS * velS m mOut))) := by
  cases mOut <;> cases disp <;> rfl

/-- **Transmission, solid → fluid** (outgoing mode necessarily `L`): the transmission component
of `solidLFluid` resp. `solidTFluid` at the Snell angles, times `Z_in / Z_fluid`
(`Z_in = ρ_s·c(mInc)`) iff displacement units are requested. -/
theorem transmission_solid_fluid (t : CTrig K) (m : Media K) (mInc : Mode) (a : K) (disp : Bool) :
    transmissionAt t m .solidFluid mInc .L a disp =
      .ok (withUnits disp (solidFluidAt t m mInc a).2.2
        ((m.rhoS * velS m mInc) / (m.rhoF * m.cF))) := by
  cases mInc <;> cases disp <;> rfl

/-- a transverse wave cannot be transmitted into the fluid -/
theorem transmission_solid_T_rejected (t : CTrig K) (m : Media K) (mInc : Mode) (a : K) (d : Bool) :
    transmissionAt t m .solidFluid mInc .T a d = .error .physics := rfl

/-- the helper is an error exactly for the two "broken physics" combinations -/
theorem transmission_error_iff (t : CTrig K) (m : Media K) (k : Kind) (mInc mOut : Mode) (a : K)
    (d : Bool) :
    (∃ e, transmissionAt t m k mInc mOut a d = .error e) ↔
      (k = .fluidSolid ∧ mInc = .T) ∨ (k = .solidFluid ∧ mOut = .T) := by
  cases k <;> cases mInc <;> cases mOut <;> cases d <;>
    simp [transmissionAt]

/-- every error of the transmission helper is the `physics` error -/
theorem transmission_error_is_physics (t : CTrig K) (m : Media K) (k : Kind) (mInc mOut : Mode)
    (a : K) (d : Bool) (e : IErr) (h : transmissionAt t m k mInc mOut a d = .error e) :
    e = .physics := by
  cases k <;> cases mInc <;> cases mOut <;> cases d <;>
    simp [transmissionAt] at h <;> exact h.symm

/-- **Reflection on the solid side**: the `R_L` resp. `R_T` component of `solidLFluid` resp.
`solidTFluid` at the Snell angles, times `c(mInc) / c(mOut)` iff displacement units. -/
theorem reflection_solid_fluid (t : CTrig K) (m : Media K) (mInc mOut : Mode) (a : K) (disp : Bool) :
    reflectionAt t m .solidFluid mInc mOut a disp =
      .ok (withUnits disp (pickRefl (solidFluidAt t m mInc a) mOut) (velS m mInc / velS m mOut)) := by
  cases mInc <;> cases mOut <;> cases disp <;> rfl

/-- **Reflection on the fluid side**: the reflection component of `fluidSolid` at the Snell angles
(whatever the mode arguments), times `c_f / c_f` iff displacement units. -/
theorem reflection_fluid_solid (t : CTrig K) (m : Media K) (mInc mOut : Mode) (a : K) (disp : Bool) :
    reflectionAt t m .fluidSolid mInc mOut a disp =
      .ok (withUnits disp (fluidSolid t m a (snell t a m.cF m.cL) (snell t a m.cF m.cT)).1
        (m.cF / m.cF)) := by
  cases disp <;> rfl

/-- the reflection helper never fails -/
theorem reflection_never_error (t : CTrig K) (m : Media K) (k : Kind) (mInc mOut : Mode) (a : K)
    (d : Bool) : ∃ v, reflectionAt t m k mInc mOut a d = .ok v := by
  cases k
  · exact ⟨_, reflection_fluid_solid t m mInc mOut a d⟩
  · exact ⟨_, reflection_solid_fluid t m mInc mOut a d⟩

end Helpers

/-! ## Instantiation at `K = ℂ` -/
noncomputable section Cplx
open Complex

/-- the complex instance of the trigonometric record; the arcsine is an external routine and
stays a parameter -/
def cTrig (asin : ℂ → ℂ) : CTrig ℂ :=
  { sin := Complex.sin, cos := Complex.cos, asin := asin, ofNat := fun n => (n : ℂ) }

/-- real densities and velocities, as complex media parameters -/
def mediaR (ρf ρs cf cl ct : ℝ) : Media ℂ :=
  { rhoF := ρf, rhoS := ρs, cF := cf, cL := cl, cT := ct }

variable (asin : ℂ → ℂ) (m : Media ℂ) (aF aL aT : ℂ)

/-! ### Unfolding lemmas -/

theorem snell_cTrig (a cInc cRef : ℂ) :
    snell (cTrig asin) a cInc cRef = asin (cRef / cInc * sin a) := rfl

theorem nfs_cTrig :
    nfs (cTrig asin) m aF aL aT =
      m.cT * m.cT / (m.cL * m.cL) * sin (2 * aL) * sin (2 * aT) + cos (2 * aT) * cos (2 * aT)
        + m.rhoF * m.cF / (m.rhoS * m.cL) * cos aL / cos aF := by
  simp [nfs, cTrig]

theorem fluidSolid_cTrig :
    fluidSolid (cTrig asin) m aF aL aT =
      ((m.cT * m.cT / (m.cL * m.cL) * sin (2 * aL) * sin (2 * aT) + cos (2 * aT) * cos (2 * aT)
          - m.rhoF * m.cF * cos aL / (m.rhoS * m.cL * cos aF)) / nfs (cTrig asin) m aF aL aT,
       2 * cos (2 * aT) / nfs (cTrig asin) m aF aL aT,
       -2 * (m.cT * m.cT / (m.cL * m.cL)) * sin (2 * aL) / nfs (cTrig asin) m aF aL aT) := by
  simp [fluidSolid, cTrig]

theorem solidLFluid_cTrig :
    solidLFluid (cTrig asin) m aF aL aT =
      ((m.cT * m.cT / (m.cL * m.cL) * sin (2 * aL) * sin (2 * aT) - cos (2 * aT) * cos (2 * aT)
          + m.rhoF * m.cF / (m.rhoS * m.cL) * cos aL / cos aF) / nfs (cTrig asin) m aF aL aT,
       2 * (m.cT * m.cT / (m.cL * m.cL)) * sin (2 * aL) * cos (2 * aT)
          / nfs (cTrig asin) m aF aL aT,
       2 * m.rhoF * m.cF * cos aL * cos (2 * aT)
          / (nfs (cTrig asin) m aF aL aT * m.rhoS * m.cL * cos aF)) := by
  simp [solidLFluid, cTrig]

theorem solidTFluid_cTrig :
    solidTFluid (cTrig asin) m aF aL aT =
      (-sin (4 * aT) / nfs (cTrig asin) m aF aL aT,
       (m.cT * m.cT / (m.cL * m.cL) * sin (2 * aL) * sin (2 * aT) - cos (2 * aT) * cos (2 * aT)
          - m.rhoF * m.cF / (m.rhoS * m.cL) * cos aL / cos aF) / nfs (cTrig asin) m aF aL aT,
       2 * m.rhoF * m.cF * cos aL * sin (2 * aT)
          / (nfs (cTrig asin) m aF aL aT * m.rhoS * m.cL * cos aF)) := by
  simp [solidTFluid, cTrig]

/-- `cos 2a = 1 − 2 sin² a` -/
theorem cos_two_mul_sin (a : ℂ) : cos (2 * a) = 1 - 2 * sin a ^ 2 := by
  rw [Complex.cos_two_mul, Complex.cos_sq']; ring

/-- `sin 4a = 2 sin 2a cos 2a` -/
theorem sin_four_mul (a : ℂ) : sin (4 * a) = 2 * sin (2 * a) * cos (2 * a) := by
  rw [← Complex.sin_two_mul]; congr 1; ring

/-- `N` on the sines and cosines of the three angles -/
theorem nfs_sincos :
    nfs (cTrig asin) m aF aL aT =
      m.cT * m.cT / (m.cL * m.cL) * (2 * sin aL * cos aL) * (2 * sin aT * cos aT)
        + (1 - 2 * sin aT ^ 2) * (1 - 2 * sin aT ^ 2)
        + m.rhoF * m.cF / (m.rhoS * m.cL) * cos aL / cos aF := by
  rw [nfs_cTrig, Complex.sin_two_mul, Complex.sin_two_mul, cos_two_mul_sin]

/-! ### 1. Stokes relations (stress units) -/

/-- **Stokes relation, L wave**: the solid→fluid transmission of an incident L wave is the
fluid→solid transmission into L times `Z_f cos α_L / (Z_L cos α_F)`. Holds for all angles and
media (with the field convention `x / 0 = 0`, no side condition is needed). -/
theorem stokes_L :
    (solidLFluid (cTrig asin) m aF aL aT).2.2 =
      m.rhoF * m.cF * cos aL / (m.rhoS * m.cL * cos aF)
        * (fluidSolid (cTrig asin) m aF aL aT).2.1 := by
  rw [solidLFluid_cTrig, fluidSolid_cTrig]
  simp only
  ring

/-- **Stokes relation, T wave** (with the sign flip): needs Snell's law between the L and T
angles in the solid. -/
theorem stokes_T (hcl : m.cL ≠ 0) (hct : m.cT ≠ 0)
    (hsnell : m.cL * sin aT = m.cT * sin aL) :
    (solidTFluid (cTrig asin) m aF aL aT).2.2 =
      -(m.rhoF * m.cF * cos aT / (m.rhoS * m.cT * cos aF))
        * (fluidSolid (cTrig asin) m aF aL aT).2.2 := by
  rw [solidTFluid_cTrig, fluidSolid_cTrig]
  simp only
  rw [Complex.sin_two_mul, Complex.sin_two_mul]
  have hSt : sin aT = m.cT * sin aL / m.cL := by
    field_simp; linear_combination hsnell
  rw [hSt]
  field_simp

/-- **Stokes relation, mode-converted reflections**: `R_TL` (T incident, L reflected) and `R_LT`
(L incident, T reflected) satisfy `c_T cos α_L · R_TL = − c_L cos α_T · R_LT`
(needs Snell's law between the L and T angles). -/
theorem stokes_refl (hcl : m.cL ≠ 0)
    (hsnell : m.cL * sin aT = m.cT * sin aL) :
    m.cT * cos aL * (solidTFluid (cTrig asin) m aF aL aT).1 =
      -(m.cL * cos aT * (solidLFluid (cTrig asin) m aF aL aT).2.1) := by
  rw [solidTFluid_cTrig, solidLFluid_cTrig]
  simp only
  rw [sin_four_mul, Complex.sin_two_mul, Complex.sin_two_mul]
  have hSt : sin aT = m.cT * sin aL / m.cL := by
    field_simp; linear_combination hsnell
  rw [hSt]
  field_simp

/-! ### 3. Normal incidence -/

theorem nfs_normal (hρs : m.rhoS ≠ 0) (hcl : m.cL ≠ 0) :
    nfs (cTrig asin) m 0 0 0 = (m.rhoS * m.cL + m.rhoF * m.cF) / (m.rhoS * m.cL) := by
  rw [nfs_cTrig]; simp; field_simp

/-- normal incidence from the fluid: `R = (Z_s − Z_f)/(Z_s + Z_f)`, `T_L = 2 Z_s/(Z_s + Z_f)`,
`T_T = 0` with `Z_s = ρ_s c_L`, `Z_f = ρ_f c_f` -/
theorem fluidSolid_normal (hρs : m.rhoS ≠ 0) (hcl : m.cL ≠ 0) :
    fluidSolid (cTrig asin) m 0 0 0 =
      ((m.rhoS * m.cL - m.rhoF * m.cF) / (m.rhoS * m.cL + m.rhoF * m.cF),
       2 * (m.rhoS * m.cL) / (m.rhoS * m.cL + m.rhoF * m.cF), 0) := by
  rw [fluidSolid_cTrig, nfs_normal asin m hρs hcl]
  simp only [mul_zero, Complex.sin_zero, Complex.cos_zero, zero_mul, zero_div, div_div_eq_mul_div]
  refine Prod.ext ?_ (Prod.ext ?_ rfl) <;> simp only <;> congr 1
  · field_simp; ring
  · field_simp

/-- normal incidence of an L wave from the solid: `R_L = (Z_f − Z_s)/(Z_s + Z_f)`, `R_T = 0`,
`T = 2 Z_f/(Z_s + Z_f)` -/
theorem solidLFluid_normal (hρs : m.rhoS ≠ 0) (hcl : m.cL ≠ 0) :
    solidLFluid (cTrig asin) m 0 0 0 =
      ((m.rhoF * m.cF - m.rhoS * m.cL) / (m.rhoS * m.cL + m.rhoF * m.cF), 0,
       2 * (m.rhoF * m.cF) / (m.rhoS * m.cL + m.rhoF * m.cF)) := by
  rw [solidLFluid_cTrig, nfs_normal asin m hρs hcl]
  simp only [mul_zero, Complex.sin_zero, Complex.cos_zero, zero_mul, zero_div, div_div_eq_mul_div]
  refine Prod.ext ?_ (Prod.ext rfl ?_) <;> simp only
  · congr 1; field_simp; ring
  · field_simp

/-- normal incidence of a T wave from the solid: total reflection with sign change,
`R_L = 0`, `R_T = −1`, `T = 0` -/
theorem solidTFluid_normal (hρs : m.rhoS ≠ 0) (hcl : m.cL ≠ 0)
    (hZ : m.rhoS * m.cL + m.rhoF * m.cF ≠ 0) :
    solidTFluid (cTrig asin) m 0 0 0 = (0, -1, 0) := by
  rw [solidTFluid_cTrig, nfs_normal asin m hρs hcl]
  simp only [mul_zero, Complex.sin_zero, Complex.cos_zero, zero_mul, zero_div, neg_zero,
    div_div_eq_mul_div]
  refine Prod.ext rfl (Prod.ext ?_ rfl)
  simp only
  field_simp
  ring

/-- normal incidence through the helper (an arcsine with `asin 0 = 0`): stress-unit transmission
into the L mode is `2 Z_s/(Z_s + Z_f)` -/
theorem transmissionAt_normal_L (hρs : m.rhoS ≠ 0) (hcl : m.cL ≠ 0) (h0 : asin 0 = 0) :
    transmissionAt (cTrig asin) m .fluidSolid .L .L 0 false =
      .ok (2 * (m.rhoS * m.cL) / (m.rhoS * m.cL + m.rhoF * m.cF)) := by
  rw [transmission_fluid_solid]
  simp only [snell_cTrig, Complex.sin_zero, mul_zero, h0, fluidSolid_normal asin m hρs hcl,
    withUnits_false, pickTrans]

/-- normal incidence through the helper: the reflection coefficient seen from the fluid -/
theorem reflectionAt_normal (hρs : m.rhoS ≠ 0) (hcl : m.cL ≠ 0) (h0 : asin 0 = 0)
    (mi mo : Mode) :
    reflectionAt (cTrig asin) m .fluidSolid mi mo 0 false =
      .ok ((m.rhoS * m.cL - m.rhoF * m.cF) / (m.rhoS * m.cL + m.rhoF * m.cF)) := by
  rw [reflection_fluid_solid]
  simp only [snell_cTrig, Complex.sin_zero, mul_zero, h0, fluidSolid_normal asin m hρs hcl,
    withUnits_false]

/-! ### 4. Snell's law -/

/-- the refracted angle returned by `snell` satisfies Snell's law as soon as the external
arcsine is a right inverse of `sin` at the argument used -/
theorem snell_sin (a cInc cRef : ℂ) (hc : cInc ≠ 0)
    (h : sin (asin (cRef / cInc * sin a)) = cRef / cInc * sin a) :
    cInc * sin (snell (cTrig asin) a cInc cRef) = cRef * sin a := by
  rw [snell_cTrig, h]; field_simp

/-- the two refracted angles computed from one incidence angle satisfy Snell's law between
themselves -/
theorem snell_pair (a c0 c1 c2 : ℂ) (hc : c0 ≠ 0)
    (h1 : sin (asin (c1 / c0 * sin a)) = c1 / c0 * sin a)
    (h2 : sin (asin (c2 / c0 * sin a)) = c2 / c0 * sin a) :
    c1 * sin (snell (cTrig asin) a c0 c2) = c2 * sin (snell (cTrig asin) a c0 c1) := by
  rw [snell_cTrig, snell_cTrig, h1, h2]; field_simp

/-! ### 2. Energy conservation (normal energy flux), all regimes at once

`|·|²` is `Complex.normSq`. The sines of the angles are real (real incidence angle and Snell's
law), the cosine of the INCIDENT angle is real (propagating incident wave); the cosines of the
two other angles are whatever complex numbers `Complex.cos` returns: real below the critical
angles, purely imaginary (of either sign) beyond. No sign/branch condition on the imaginary
parts is needed: an evanescent wave enters the balance through `Re (cos α) = 0`. -/

/-- **Energy conservation, fluid → solid.**
`cos α_F/(ρ_f c_f) · (1 − |R|²) = Re cos α_L/(ρ_s c_L) · |T_L|² + Re cos α_T/(ρ_s c_T) · |T_T|²`. -/
theorem energy_fluid_solid (ρf ρs cf cl ct Cf Sl St : ℝ) (aF aL aT : ℂ)
    (hCf : cos aF = Cf) (hSl : sin aL = Sl) (hSt : sin aT = St)
    (hCf0 : Cf ≠ 0) (hρf : ρf ≠ 0) (hρs : ρs ≠ 0) (hcf : cf ≠ 0) (hcl : cl ≠ 0)
    (hsnell : cl * St = ct * Sl)
    (hN : nfs (cTrig asin) (mediaR ρf ρs cf cl ct) aF aL aT ≠ 0) :
    Cf / (ρf * cf) * (1 - normSq (fluidSolid (cTrig asin) (mediaR ρf ρs cf cl ct) aF aL aT).1)
      = (cos aL).re / (ρs * cl)
          * normSq (fluidSolid (cTrig asin) (mediaR ρf ρs cf cl ct) aF aL aT).2.1
        + (cos aT).re / (ρs * ct)
          * normSq (fluidSolid (cTrig asin) (mediaR ρf ρs cf cl ct) aF aL aT).2.2 := by
  have hNdef := nfs_sincos asin (mediaR ρf ρs cf cl ct) aF aL aT
  rw [fluidSolid_cTrig]
  generalize nfs (cTrig asin) (mediaR ρf ρs cf cl ct) aF aL aT = N at hN hNdef ⊢
  simp only [mediaR, Complex.sin_two_mul, cos_two_mul_sin, hCf, hSl, hSt] at hNdef ⊢
  exact IfaceLemmas.energy_fs_core Cf Sl St ρf ρs cf cl ct (cos aL) (cos aT) N hCf0 hρf hρs hcf hcl
    hsnell hNdef hN

/-- **Total reflection**: beyond both critical angles (both refracted cosines have zero real
part) the fluid-side reflection coefficient has modulus one. -/
theorem total_reflection_fluid_solid (ρf ρs cf cl ct Cf Sl St : ℝ) (aF aL aT : ℂ)
    (hCf : cos aF = Cf) (hSl : sin aL = Sl) (hSt : sin aT = St)
    (hCf0 : Cf ≠ 0) (hρf : ρf ≠ 0) (hρs : ρs ≠ 0) (hcf : cf ≠ 0) (hcl : cl ≠ 0)
    (hsnell : cl * St = ct * Sl)
    (hN : nfs (cTrig asin) (mediaR ρf ρs cf cl ct) aF aL aT ≠ 0)
    (hevL : (cos aL).re = 0) (hevT : (cos aT).re = 0) :
    normSq (fluidSolid (cTrig asin) (mediaR ρf ρs cf cl ct) aF aL aT).1 = 1 := by
  have h := energy_fluid_solid asin ρf ρs cf cl ct Cf Sl St aF aL aT hCf hSl hSt hCf0 hρf hρs hcf
    hcl hsnell hN
  rw [hevL, hevT, zero_div, zero_div, zero_mul, zero_mul, add_zero] at h
  have h2 : Cf / (ρf * cf) ≠ 0 := div_ne_zero hCf0 (mul_ne_zero hρf hcf)
  have h3 := (mul_eq_zero.mp h).resolve_left h2
  linarith

/-- **Energy conservation, solid → fluid, incident L wave.**
`cos α_L/(ρ_s c_L) · (1 − |R_L|²) = Re cos α_T/(ρ_s c_T) · |R_T|² + Re cos α_F/(ρ_f c_f) · |T|²`. -/
theorem energy_solid_l_fluid (ρf ρs cf cl ct Cl Sl St : ℝ) (aF aL aT : ℂ)
    (hCl : cos aL = Cl) (hSl : sin aL = Sl) (hSt : sin aT = St)
    (hCf0 : cos aF ≠ 0) (hρs : ρs ≠ 0) (hcl : cl ≠ 0)
    (hsnell : cl * St = ct * Sl)
    (hN : nfs (cTrig asin) (mediaR ρf ρs cf cl ct) aF aL aT ≠ 0) :
    Cl / (ρs * cl) * (1 - normSq (solidLFluid (cTrig asin) (mediaR ρf ρs cf cl ct) aF aL aT).1)
      = (cos aT).re / (ρs * ct)
          * normSq (solidLFluid (cTrig asin) (mediaR ρf ρs cf cl ct) aF aL aT).2.1
        + (cos aF).re / (ρf * cf)
          * normSq (solidLFluid (cTrig asin) (mediaR ρf ρs cf cl ct) aF aL aT).2.2 := by
  have hNdef := nfs_sincos asin (mediaR ρf ρs cf cl ct) aF aL aT
  rw [solidLFluid_cTrig]
  generalize nfs (cTrig asin) (mediaR ρf ρs cf cl ct) aF aL aT = N at hN hNdef ⊢
  simp only [mediaR, Complex.sin_two_mul, cos_two_mul_sin, hCl, hSl, hSt] at hNdef ⊢
  exact IfaceLemmas.energy_slf_core Cl Sl St ρf ρs cf cl ct (cos aF) (cos aT) N hCf0 hρs hcl
    hsnell hNdef hN

/-- **Energy conservation, solid → fluid, incident T wave.**
`cos α_T/(ρ_s c_T) · (1 − |R_T|²) = Re cos α_L/(ρ_s c_L) · |R_L|² + Re cos α_F/(ρ_f c_f) · |T|²`. -/
theorem energy_solid_t_fluid (ρf ρs cf cl ct Ct Sl St : ℝ) (aF aL aT : ℂ)
    (hCt : cos aT = Ct) (hSl : sin aL = Sl) (hSt : sin aT = St)
    (hCf0 : cos aF ≠ 0) (hρs : ρs ≠ 0) (hcl : cl ≠ 0)
    (hsnell : cl * St = ct * Sl)
    (hN : nfs (cTrig asin) (mediaR ρf ρs cf cl ct) aF aL aT ≠ 0) :
    Ct / (ρs * ct) * (1 - normSq (solidTFluid (cTrig asin) (mediaR ρf ρs cf cl ct) aF aL aT).2.1)
      = (cos aL).re / (ρs * cl)
          * normSq (solidTFluid (cTrig asin) (mediaR ρf ρs cf cl ct) aF aL aT).1
        + (cos aF).re / (ρf * cf)
          * normSq (solidTFluid (cTrig asin) (mediaR ρf ρs cf cl ct) aF aL aT).2.2 := by
  have hNdef := nfs_sincos asin (mediaR ρf ρs cf cl ct) aF aL aT
  rw [solidTFluid_cTrig]
  generalize nfs (cTrig asin) (mediaR ρf ρs cf cl ct) aF aL aT = N at hN hNdef ⊢
  simp only [mediaR, sin_four_mul, Complex.sin_two_mul, cos_two_mul_sin, hCt, hSl, hSt]
    at hNdef ⊢
  exact IfaceLemmas.energy_stf_core Ct Sl St ρf ρs cf cl ct (cos aF) (cos aL) N hCf0 hρs hcl
    hsnell hNdef hN

/-! ### Energy conservation at the Snell angles computed by the model, real incidence angle `θ`

The arcsine is only required to be a right inverse of `sin` at the two arguments used. -/

/-- fluid → solid at the angles `snell` computes from a real incidence angle -/
theorem energy_fluid_solid_snell (ρf ρs cf cl ct θ : ℝ)
    (hL : sin (asin ((cl : ℂ) / cf * sin (θ : ℂ))) = (cl : ℂ) / cf * sin (θ : ℂ))
    (hT : sin (asin ((ct : ℂ) / cf * sin (θ : ℂ))) = (ct : ℂ) / cf * sin (θ : ℂ))
    (hcos : Real.cos θ ≠ 0) (hρf : ρf ≠ 0) (hρs : ρs ≠ 0) (hcf : cf ≠ 0) (hcl : cl ≠ 0)
    (hN : nfs (cTrig asin) (mediaR ρf ρs cf cl ct) θ
      (snell (cTrig asin) θ cf cl) (snell (cTrig asin) θ cf ct) ≠ 0) :
    Real.cos θ / (ρf * cf) * (1 - normSq (fluidSolid (cTrig asin) (mediaR ρf ρs cf cl ct) θ
        (snell (cTrig asin) θ cf cl) (snell (cTrig asin) θ cf ct)).1)
      = (cos (snell (cTrig asin) θ cf cl)).re / (ρs * cl)
          * normSq (fluidSolid (cTrig asin) (mediaR ρf ρs cf cl ct) θ
              (snell (cTrig asin) θ cf cl) (snell (cTrig asin) θ cf ct)).2.1
        + (cos (snell (cTrig asin) θ cf ct)).re / (ρs * ct)
          * normSq (fluidSolid (cTrig asin) (mediaR ρf ρs cf cl ct) θ
              (snell (cTrig asin) θ cf cl) (snell (cTrig asin) θ cf ct)).2.2 := by
  refine energy_fluid_solid asin ρf ρs cf cl ct (Real.cos θ) (cl / cf * Real.sin θ)
    (ct / cf * Real.sin θ) _ _ _ (Complex.ofReal_cos θ).symm ?_ ?_ hcos hρf hρs hcf hcl ?_ hN
  · rw [snell_cTrig, hL]; push_cast; ring
  · rw [snell_cTrig, hT]; push_cast; ring
  · ring

/-- **the three helper outputs conserve energy** (fluid → solid, stress units, real incidence
angle): the values returned by `reflectionAt` and `transmissionAt` satisfy the balance. -/
theorem energy_helpers_fluid_solid (ρf ρs cf cl ct θ : ℝ)
    (hL : sin (asin ((cl : ℂ) / cf * sin (θ : ℂ))) = (cl : ℂ) / cf * sin (θ : ℂ))
    (hT : sin (asin ((ct : ℂ) / cf * sin (θ : ℂ))) = (ct : ℂ) / cf * sin (θ : ℂ))
    (hcos : Real.cos θ ≠ 0) (hρf : ρf ≠ 0) (hρs : ρs ≠ 0) (hcf : cf ≠ 0) (hcl : cl ≠ 0)
    (hN : nfs (cTrig asin) (mediaR ρf ρs cf cl ct) θ
      (snell (cTrig asin) θ cf cl) (snell (cTrig asin) θ cf ct) ≠ 0) :
    ∃ R TL TT : ℂ,
      reflectionAt (cTrig asin) (mediaR ρf ρs cf cl ct) .fluidSolid .L .L θ false = .ok R ∧
      transmissionAt (cTrig asin) (mediaR ρf ρs cf cl ct) .fluidSolid .L .L θ false = .ok TL ∧
      transmissionAt (cTrig asin) (mediaR ρf ρs cf cl ct) .fluidSolid .L .T θ false = .ok TT ∧
      Real.cos θ / (ρf * cf) * (1 - normSq R)
        = (cos (snell (cTrig asin) θ cf cl)).re / (ρs * cl) * normSq TL
          + (cos (snell (cTrig asin) θ cf ct)).re / (ρs * ct) * normSq TT :=
  ⟨_, _, _, reflection_fluid_solid _ _ _ _ _ _, transmission_fluid_solid _ _ _ _ _,
    transmission_fluid_solid _ _ _ _ _,
    energy_fluid_solid_snell asin ρf ρs cf cl ct θ hL hT hcos hρf hρs hcf hcl hN⟩

/-- solid → fluid, incident L wave, at the angles `snell` computes from a real incidence angle -/
theorem energy_solid_l_fluid_snell (ρf ρs cf cl ct θ : ℝ)
    (hT : sin (asin ((ct : ℂ) / cl * sin (θ : ℂ))) = (ct : ℂ) / cl * sin (θ : ℂ))
    (hcosF : cos (snell (cTrig asin) θ cl cf) ≠ 0) (hρs : ρs ≠ 0) (hcl : cl ≠ 0)
    (hN : nfs (cTrig asin) (mediaR ρf ρs cf cl ct)
      (snell (cTrig asin) θ cl cf) θ (snell (cTrig asin) θ cl ct) ≠ 0) :
    Real.cos θ / (ρs * cl) * (1 - normSq (solidFluidAt (cTrig asin) (mediaR ρf ρs cf cl ct) .L θ).1)
      = (cos (snell (cTrig asin) θ cl ct)).re / (ρs * ct)
          * normSq (solidFluidAt (cTrig asin) (mediaR ρf ρs cf cl ct) .L θ).2.1
        + (cos (snell (cTrig asin) θ cl cf)).re / (ρf * cf)
          * normSq (solidFluidAt (cTrig asin) (mediaR ρf ρs cf cl ct) .L θ).2.2 := by
  refine energy_solid_l_fluid asin ρf ρs cf cl ct (Real.cos θ) (Real.sin θ)
    (ct / cl * Real.sin θ) _ _ _ (Complex.ofReal_cos θ).symm (Complex.ofReal_sin θ).symm ?_
    hcosF hρs hcl ?_ hN
  · simp only [snell_cTrig, mediaR]; rw [hT]; push_cast; ring
  · field_simp

/-- solid → fluid, incident T wave, at the angles `snell` computes from a real incidence angle -/
theorem energy_solid_t_fluid_snell (ρf ρs cf cl ct θ : ℝ)
    (hL : sin (asin ((cl : ℂ) / ct * sin (θ : ℂ))) = (cl : ℂ) / ct * sin (θ : ℂ))
    (hcosF : cos (snell (cTrig asin) θ ct cf) ≠ 0) (hρs : ρs ≠ 0) (hcl : cl ≠ 0) (hct : ct ≠ 0)
    (hN : nfs (cTrig asin) (mediaR ρf ρs cf cl ct)
      (snell (cTrig asin) θ ct cf) (snell (cTrig asin) θ ct cl) θ ≠ 0) :
    Real.cos θ / (ρs * ct)
        * (1 - normSq (solidFluidAt (cTrig asin) (mediaR ρf ρs cf cl ct) .T θ).2.1)
      = (cos (snell (cTrig asin) θ ct cl)).re / (ρs * cl)
          * normSq (solidFluidAt (cTrig asin) (mediaR ρf ρs cf cl ct) .T θ).1
        + (cos (snell (cTrig asin) θ ct cf)).re / (ρf * cf)
          * normSq (solidFluidAt (cTrig asin) (mediaR ρf ρs cf cl ct) .T θ).2.2 := by
  refine energy_solid_t_fluid asin ρf ρs cf cl ct (Real.cos θ) (cl / ct * Real.sin θ)
    (Real.sin θ) _ _ _ (Complex.ofReal_cos θ).symm ?_ (Complex.ofReal_sin θ).symm
    hcosF hρs hcl ?_ hN
  · simp only [snell_cTrig, mediaR]; rw [hL]; push_cast; ring
  · field_simp

end Cplx

/-! ### Snell's law over `ℝ` with `Real.arcsin` -/
noncomputable section RealSnell

/-- the real instance of the trigonometric record -/
def rTrig : CTrig ℝ :=
  { sin := Real.sin, cos := Real.cos, asin := Real.arcsin, ofNat := fun n => (n : ℝ) }

/-- below the critical angle (`|c₂/c₁ · sin a| ≤ 1`) the refracted angle satisfies Snell's law -/
theorem snell_real (a c1 c2 : ℝ) (hc : c1 ≠ 0) (hle : |c2 / c1 * Real.sin a| ≤ 1) :
    c1 * Real.sin (snell rTrig a c1 c2) = c2 * Real.sin a := by
  have h := abs_le.mp hle
  change c1 * Real.sin (Real.arcsin (c2 / c1 * Real.sin a)) = c2 * Real.sin a
  rw [Real.sin_arcsin h.1 h.2]; field_simp

/-- the refracted angle lies in `[-π/2, π/2]` -/
theorem snell_real_range (a c1 c2 : ℝ) :
    snell rTrig a c1 c2 ∈ Set.Icc (-(Real.pi / 2)) (Real.pi / 2) :=
  Real.arcsin_mem_Icc _

/-- beyond the critical angle the REAL arcsine saturates at `π/2` (so Snell's law fails over `ℝ`:
the complex instance is needed there) -/
theorem snell_real_saturates (a c1 c2 : ℝ) (h : 1 ≤ c2 / c1 * Real.sin a) :
    snell rTrig a c1 c2 = Real.pi / 2 :=
  Real.arcsin_of_one_le h

end RealSnell

/-! ## 6. Non-vacuity: concrete instances -/
noncomputable section Examples
open Complex

/-- water / aluminium at normal incidence -/
example (asin : ℂ → ℂ) :
    fluidSolid (cTrig asin) (mediaR 1000 2700 1480 6320 3130) 0 0 0
      = (974 / 1159, 2133 / 1159, 0) := by
  rw [fluidSolid_normal asin _ (by norm_num [mediaR]) (by norm_num [mediaR])]
  norm_num [mediaR]

example (asin : ℂ → ℂ) :
    solidLFluid (cTrig asin) (mediaR 1000 2700 1480 6320 3130) 0 0 0
      = (-974 / 1159, 0, 185 / 1159) := by
  rw [solidLFluid_normal asin _ (by norm_num [mediaR]) (by norm_num [mediaR])]
  norm_num [mediaR]

example (asin : ℂ → ℂ) :
    solidTFluid (cTrig asin) (mediaR 1000 2700 1480 6320 3130) 0 0 0 = (0, -1, 0) :=
  solidTFluid_normal asin _ (by norm_num [mediaR]) (by norm_num [mediaR]) (by norm_num [mediaR])

/-- the helper at normal incidence, with an arcsine such that `asin 0 = 0` -/
example (asin : ℂ → ℂ) (h0 : asin 0 = 0) :
    transmissionAt (cTrig asin) (mediaR 1000 2700 1480 6320 3130) .fluidSolid .L .L 0 false
      = .ok (2133 / 1159) := by
  rw [transmissionAt_normal_L asin _ (by norm_num [mediaR]) (by norm_num [mediaR]) h0]
  norm_num [mediaR]

/-- Snell over `ℝ`: `c₁ = 1`, `c₂ = 2`, `a = π/6` refracts to `π/2` -/
example : (1 : ℝ) * Real.sin (snell rTrig (Real.pi / 6) 1 2) = 2 * Real.sin (Real.pi / 6) :=
  snell_real _ 1 2 one_ne_zero (by rw [Real.sin_pi_div_six]; norm_num)

/-! An evanescent configuration with rational data: `c_f = c_T = 9`, `c_L = 25`,
`sin α_F = sin α_T = 3/5`, `sin α_L = 5/3 > 1`, realised by `α_L = π/2 + i·log 3`, for which
`cos α_L = −(4/3) i` (negative imaginary part, as with NumPy's principal arcsine). -/

theorem sin_evanescent : sin ((Real.pi / 2 : ℝ) + (Real.log 3 : ℝ) * I) = ((5 / 3 : ℝ) : ℂ) := by
  rw [Complex.sin_add, Complex.cos_mul_I, Complex.sin_mul_I, ← Complex.ofReal_sin,
    ← Complex.ofReal_cos, Real.sin_pi_div_two, Real.cos_pi_div_two, ← Complex.ofReal_cosh,
    Real.cosh_log (by norm_num)]
  norm_num

theorem cos_evanescent : cos ((Real.pi / 2 : ℝ) + (Real.log 3 : ℝ) * I) = -(4 / 3) * I := by
  rw [Complex.cos_add, Complex.cos_mul_I, Complex.sin_mul_I, ← Complex.ofReal_sin,
    ← Complex.ofReal_cos, Real.sin_pi_div_two, Real.cos_pi_div_two, ← Complex.ofReal_sinh,
    Real.sinh_log (by norm_num)]
  norm_num

theorem cos_arcsin_three_fifths : Real.cos (Real.arcsin (3 / 5)) = 4 / 5 := by
  rw [Real.cos_arcsin, show (1 : ℝ) - (3 / 5) ^ 2 = (4 / 5) ^ 2 by norm_num,
    Real.sqrt_sq (by norm_num)]

theorem nfs_evanescent_ne (asin : ℂ → ℂ) :
    nfs (cTrig asin) (mediaR 1 3 9 25 9) ((Real.arcsin (3 / 5) : ℝ) : ℂ)
      ((Real.pi / 2 : ℝ) + (Real.log 3 : ℝ) * I) ((Real.arcsin (3 / 5) : ℝ) : ℂ) ≠ 0 := by
  rw [nfs_sincos, sin_evanescent, cos_evanescent, ← Complex.ofReal_sin, ← Complex.ofReal_cos,
    cos_arcsin_three_fifths, Real.sin_arcsin (by norm_num) (by norm_num)]
  intro h
  have := congrArg Complex.re h
  norm_num [mediaR, Complex.div_re, Complex.normSq_apply] at this

/-- all hypotheses of `energy_fluid_solid` hold in the evanescent configuration; the L wave
carries no flux (`Re cos α_L = 0`, `Im cos α_L < 0`) and the balance is between `R` and `T_T` -/
example (asin : ℂ → ℂ) :
    let aF : ℂ := (Real.arcsin (3 / 5) : ℝ)
    let aL : ℂ := (Real.pi / 2 : ℝ) + (Real.log 3 : ℝ) * I
    (cos aL).re = 0 ∧ (cos aL).im < 0 ∧
    (4 / 5 : ℝ) / (1 * 9) * (1 - normSq (fluidSolid (cTrig asin) (mediaR 1 3 9 25 9) aF aL aF).1)
      = (4 / 5 : ℝ) / (3 * 9) * normSq (fluidSolid (cTrig asin) (mediaR 1 3 9 25 9) aF aL aF).2.2 := by
  intro aF aL
  have hc : cos aF = ((4 / 5 : ℝ) : ℂ) := by
    rw [← Complex.ofReal_cos, cos_arcsin_three_fifths]
  have h := energy_fluid_solid asin 1 3 9 25 9 (4 / 5) (5 / 3) (3 / 5) aF aL aF hc
    sin_evanescent
    (by rw [← Complex.ofReal_sin, Real.sin_arcsin (by norm_num) (by norm_num)])
    (by norm_num) (by norm_num) (by norm_num) (by norm_num) (by norm_num) (by norm_num)
    (nfs_evanescent_ne asin)
  have hre : (cos aL).re = 0 := by rw [cos_evanescent]; simp
  refine ⟨hre, by rw [cos_evanescent]; norm_num, ?_⟩
  rw [hre, hc, Complex.ofReal_re] at h
  rw [h]; ring

/-- the hypotheses of `stokes_T` / `stokes_refl` hold in the same configuration -/
example (asin : ℂ → ℂ) :=
  stokes_refl asin (mediaR 1 3 9 25 9) ((Real.arcsin (3 / 5) : ℝ) : ℂ)
    ((Real.pi / 2 : ℝ) + (Real.log 3 : ℝ) * I) ((Real.arcsin (3 / 5) : ℝ) : ℂ)
    (by norm_num [mediaR])
    (by rw [sin_evanescent, ← Complex.ofReal_sin, Real.sin_arcsin (by norm_num) (by norm_num)]
        norm_num [mediaR])

end Examples


/-! ## 6. The same statements about the code as translated on this run

`Arim.Src.*` (file `Generated/SrcC04.lean`) is the translation of `fluid_solid`, `solid_l_fluid`, `solid_t_fluid`,
`_fluid_solid_n`, `snell_angles` made from `/repo/src/arim/model.py` by `harness/py2lean.py` on every run; the tie
theorems of `Tie/C04.lean` identify them with the model, so the laws above are laws of the translated source. -/
noncomputable section OnSource
open Complex Arim.Tie.C04

/-- the numerical routines at `K = ℂ`: `sin`, `cos` are the complex functions, `arcsin` an external routine -/
def srcOps (asin : ℂ → ℂ) : Src.Ops ℂ :=
  { sin := Complex.sin, cos := Complex.cos, asin := asin, sqrt := id, exp := Complex.exp, sinc := id,
    pi := (Real.pi : ℂ), ofNat := fun n => (n : ℂ), ofInt := fun z => (z : ℂ),
    floor := fun _ => 0, round := fun _ => 0, trunc := fun _ => 0 }

theorem ctrig_srcOps (asin : ℂ → ℂ) : ctrig (srcOps asin) = cTrig asin := rfl

/-- Stokes relation (L) for the translated `solid_l_fluid` / `fluid_solid` -/
theorem src_stokes_L (asin : ℂ → ℂ) (ρf ρs cf cl ct aF aL aT : ℂ) :
    (Src.solid_l_fluid (srcOps asin) aL ρf ρs cf cl ct aF aT).2.2 =
      ρf * cf * cos aL / (ρs * cl * cos aF) * (Src.fluid_solid (srcOps asin) aF ρf ρs cf cl ct aL aT).2.1 := by
  rw [tie_solid_l_fluid, tie_fluid_solid, ctrig_srcOps]
  exact stokes_L asin (media ρf ρs cf cl ct) aF aL aT

/-- Stokes relation (T) for the translated `solid_t_fluid` / `fluid_solid` -/
theorem src_stokes_T (asin : ℂ → ℂ) (ρf ρs cf cl ct aF aL aT : ℂ) (hcl : cl ≠ 0) (hct : ct ≠ 0)
    (hsnell : cl * sin aT = ct * sin aL) :
    (Src.solid_t_fluid (srcOps asin) aT ρf ρs cf cl ct aF aL).2.2 =
      -(ρf * cf * cos aT / (ρs * ct * cos aF)) * (Src.fluid_solid (srcOps asin) aF ρf ρs cf cl ct aL aT).2.2 := by
  rw [tie_solid_t_fluid, tie_fluid_solid, ctrig_srcOps]
  exact stokes_T asin (media ρf ρs cf cl ct) aF aL aT hcl hct hsnell

/-- mode-converted reflections of the translated `solid_t_fluid` / `solid_l_fluid` -/
theorem src_stokes_refl (asin : ℂ → ℂ) (ρf ρs cf cl ct aF aL aT : ℂ) (hcl : cl ≠ 0)
    (hsnell : cl * sin aT = ct * sin aL) :
    ct * cos aL * (Src.solid_t_fluid (srcOps asin) aT ρf ρs cf cl ct aF aL).1 =
      -(cl * cos aT * (Src.solid_l_fluid (srcOps asin) aL ρf ρs cf cl ct aF aT).2.1) := by
  rw [tie_solid_t_fluid, tie_solid_l_fluid, ctrig_srcOps]
  exact stokes_refl asin (media ρf ρs cf cl ct) aF aL aT hcl hsnell

/-- **energy conservation of the translated `fluid_solid` called with a real incidence angle and no refracted
angles** (the code then refracts by its own `snell_angles`): all regimes, complex refracted angles included -/
theorem src_energy_fluid_solid (asin : ℂ → ℂ) (ρf ρs cf cl ct θ : ℝ)
    (hL : sin (asin ((cl : ℂ) / cf * sin (θ : ℂ))) = (cl : ℂ) / cf * sin (θ : ℂ))
    (hT : sin (asin ((ct : ℂ) / cf * sin (θ : ℂ))) = (ct : ℂ) / cf * sin (θ : ℂ))
    (hcos : Real.cos θ ≠ 0) (hρf : ρf ≠ 0) (hρs : ρs ≠ 0) (hcf : cf ≠ 0) (hcl : cl ≠ 0)
    (hN : Src.fluid_solid_n (srcOps asin) θ (Src.snell_angles (srcOps asin) θ cf cl)
      (Src.snell_angles (srcOps asin) θ cf ct) ρf ρs cf cl ct ≠ 0) :
    Real.cos θ / (ρf * cf) * (1 - normSq (Src.fluid_solid_auto (srcOps asin) θ ρf ρs cf cl ct).1)
      = (cos (Src.snell_angles (srcOps asin) θ cf cl)).re / (ρs * cl)
          * normSq (Src.fluid_solid_auto (srcOps asin) θ ρf ρs cf cl ct).2.1
        + (cos (Src.snell_angles (srcOps asin) θ cf ct)).re / (ρs * ct)
          * normSq (Src.fluid_solid_auto (srcOps asin) θ ρf ρs cf cl ct).2.2 := by
  rw [tie_fluid_solid_auto, ctrig_srcOps]
  rw [tie_fluid_solid_n, tie_snell_angles, tie_snell_angles, ctrig_srcOps] at hN
  rw [tie_snell_angles, tie_snell_angles, ctrig_srcOps]
  exact energy_fluid_solid_snell asin ρf ρs cf cl ct θ hL hT hcos hρf hρs hcf hcl hN

/-- the refracted angle of the translated `snell_angles` satisfies Snell's law wherever `sin ∘ arcsin = id` -/
theorem src_snell_sin (asin : ℂ → ℂ) (a cInc cRef : ℂ) (hc : cInc ≠ 0)
    (hasin : sin (asin (cRef / cInc * sin a)) = cRef / cInc * sin a) :
    cInc * sin (Src.snell_angles (srcOps asin) a cInc cRef) = cRef * sin a := by
  rw [tie_snell_angles, ctrig_srcOps, snell_cTrig, hasin]
  field_simp

/-! ### the per-interface helpers as translated (one specialisation per accepted combination of kind, modes and unit) -/

/-- **the helpers return the coefficient of the requested modes**: fluid → solid transmission into `L` / `T` is the
second / third output of the translated `fluid_solid` at the Snell angles of the incident angle -/
theorem src_transmission_selects {K : Type} [Add K] [Sub K] [Mul K] [Div K] [Neg K] (o : Src.Ops K) (a rf rs cf cl ct : K) :
    Src.transmission_at_interface__fluid_solid_LL_stress o a rf rs cf cl ct
        = (Src.fluid_solid o a rf rs cf cl ct (Src.snell_angles o a cf cl) (Src.snell_angles o a cf ct)).2.1 ∧
    Src.transmission_at_interface__fluid_solid_LT_stress o a rf rs cf cl ct
        = (Src.fluid_solid o a rf rs cf cl ct (Src.snell_angles o a cf cl) (Src.snell_angles o a cf ct)).2.2 ∧
    Src.transmission_at_interface__solid_fluid_LL_stress o a rf rs cf cl ct = (Src.solid_l_fluid_auto o a rf rs cf cl ct).2.2 ∧
    Src.transmission_at_interface__solid_fluid_TL_stress o a rf rs cf cl ct = (Src.solid_t_fluid_auto o a rf rs cf cl ct).2.2 :=
  ⟨rfl, rfl, rfl, rfl⟩

/-- reflections: `R_L` / `R_T` of the translated `solid_l_fluid` (`solid_t_fluid`) for an incident L (T) wave; the
reflection seen from the fluid is the first output of `fluid_solid` -/
theorem src_reflection_selects {K : Type} [Add K] [Sub K] [Mul K] [Div K] [Neg K] (o : Src.Ops K) (a rf rs cf cl ct : K) :
    Src.reflection_at_interface__solid_fluid_LL_stress o a rf rs cf cl ct = (Src.solid_l_fluid_auto o a rf rs cf cl ct).1 ∧
    Src.reflection_at_interface__solid_fluid_LT_stress o a rf rs cf cl ct = (Src.solid_l_fluid_auto o a rf rs cf cl ct).2.1 ∧
    Src.reflection_at_interface__solid_fluid_TL_stress o a rf rs cf cl ct = (Src.solid_t_fluid_auto o a rf rs cf cl ct).1 ∧
    Src.reflection_at_interface__solid_fluid_TT_stress o a rf rs cf cl ct = (Src.solid_t_fluid_auto o a rf rs cf cl ct).2.1 ∧
    Src.reflection_at_interface__fluid_solid_LL_stress o a rf rs cf cl ct = (Src.fluid_solid_auto o a rf rs cf cl ct).1 :=
  ⟨rfl, rfl, rfl, rfl, rfl⟩

/-- **displacement units = stress units times the documented impedance ratio** `Z_in / Z_out = ρ_in c_in / (ρ_out c_out)`
(transmissions) resp. `c_in / c_out` (reflections, same medium), with the velocity of the mode on each side -/
theorem src_displacement_ratio {K : Type} [Add K] [Sub K] [Mul K] [Div K] [Neg K] (o : Src.Ops K) (a rf rs cf cl ct : K) :
    Src.transmission_at_interface__fluid_solid_LL_displacement o a rf rs cf cl ct
        = Src.transmission_at_interface__fluid_solid_LL_stress o a rf rs cf cl ct * ((rf * cf) / (rs * cl)) ∧
    Src.transmission_at_interface__fluid_solid_LT_displacement o a rf rs cf cl ct
        = Src.transmission_at_interface__fluid_solid_LT_stress o a rf rs cf cl ct * ((rf * cf) / (rs * ct)) ∧
    Src.transmission_at_interface__solid_fluid_LL_displacement o a rf rs cf cl ct
        = Src.transmission_at_interface__solid_fluid_LL_stress o a rf rs cf cl ct * ((rs * cl) / (rf * cf)) ∧
    Src.transmission_at_interface__solid_fluid_TL_displacement o a rf rs cf cl ct
        = Src.transmission_at_interface__solid_fluid_TL_stress o a rf rs cf cl ct * ((rs * ct) / (rf * cf)) ∧
    Src.reflection_at_interface__solid_fluid_LT_displacement o a rf rs cf cl ct
        = Src.reflection_at_interface__solid_fluid_LT_stress o a rf rs cf cl ct * (cl / ct) ∧
    Src.reflection_at_interface__solid_fluid_TL_displacement o a rf rs cf cl ct
        = Src.reflection_at_interface__solid_fluid_TL_stress o a rf rs cf cl ct * (ct / cl) ∧
    Src.reflection_at_interface__solid_fluid_LL_displacement o a rf rs cf cl ct
        = Src.reflection_at_interface__solid_fluid_LL_stress o a rf rs cf cl ct * (cl / cl) ∧
    Src.reflection_at_interface__solid_fluid_TT_displacement o a rf rs cf cl ct
        = Src.reflection_at_interface__solid_fluid_TT_stress o a rf rs cf cl ct * (ct / ct) ∧
    Src.reflection_at_interface__fluid_solid_LL_displacement o a rf rs cf cl ct
        = Src.reflection_at_interface__fluid_solid_LL_stress o a rf rs cf cl ct * (cf / cf) :=
  ⟨rfl, rfl, rfl, rfl, rfl, rfl, rfl, rfl, rfl⟩

/-- **normal incidence through the translated helpers** (an arcsine with `asin 0 = 0`): the acoustic-impedance formulas
`T = 2 Z_s/(Z_s + Z_f)` into the L mode and `R = (Z_s − Z_f)/(Z_s + Z_f)` seen from the fluid -/
theorem src_helpers_normal_incidence (asin : ℂ → ℂ) (ρf ρs cf cl ct : ℂ) (hρs : ρs ≠ 0) (hcl : cl ≠ 0) (h0 : asin 0 = 0) :
    Src.transmission_at_interface__fluid_solid_LL_stress (srcOps asin) 0 ρf ρs cf cl ct = 2 * (ρs * cl) / (ρs * cl + ρf * cf) ∧
    Src.reflection_at_interface__fluid_solid_LL_stress (srcOps asin) 0 ρf ρs cf cl ct = (ρs * cl - ρf * cf) / (ρs * cl + ρf * cf) := by
  have ht := tie_transmission_fluid_solid_LL_stress (srcOps asin) 0 ρf ρs cf cl ct
  have hr := tie_reflection_fluid_solid_LL_stress (srcOps asin) 0 ρf ρs cf cl ct
  rw [ctrig_srcOps] at ht hr
  rw [transmissionAt_normal_L asin (media ρf ρs cf cl ct) hρs hcl h0] at ht
  rw [reflectionAt_normal asin (media ρf ρs cf cl ct) hρs hcl h0] at hr
  exact ⟨(Except.ok.inj ht).symm, (Except.ok.inj hr).symm⟩

end OnSource

end Arim.C04
