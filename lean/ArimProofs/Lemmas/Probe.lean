import ArimModel.Probe
import ArimProofs.C17
import Mathlib.Tactic.Ring
import Mathlib.Tactic.LinearCombination
/-! Helper lemmas for C16: the vector algebra of proper rotations (`dot`, `cross`, `mulVec`,
    `rotate`) and of coordinate systems, over an arbitrary commutative ring. -/
namespace Arim.C16
open Arim Arim.Geo Arim.Probe Arim.C17

variable {K : Type} [CommRing K]

/-- squared Euclidean distance -/
def sqdist (a b : P3 K) : K := dot (vsub a b) (vsub a b)

/-- determinant as the triple product of the rows -/
def det (r : M3 K) : K := dot r.r0 (cross r.r1 r.r2)

/-- a proper rotation: orthonormal rows (`R Rᵀ = 1`), orthonormal columns (`Rᵀ R = 1`),
    determinant one -/
structure Proper (r : M3 K) : Prop where
  rows : Orthonormal r
  cols : Orthonormal r.transpose
  det1 : det r = 1

/-- the probe frame is good: `î, ĵ` are orthogonal unit vectors -/
structure GoodCS (cs : CS K) : Prop where
  ii : dot cs.i cs.i = 1
  jj : dot cs.j cs.j = 1
  ij : dot cs.i cs.j = 0

/-- the zero vector -/
def zero3 : P3 K := ⟨0, 0, 0⟩
def e1 : P3 K := ⟨1, 0, 0⟩
def e2 : P3 K := ⟨0, 1, 0⟩
def e3 : P3 K := ⟨0, 0, 1⟩

/-! ### linearity -/

theorem mulVec_vsub (r : M3 K) (a b : P3 K) : mulVec r (vsub a b) = vsub (mulVec r a) (mulVec r b) := by
  obtain ⟨⟨a1, a2, a3⟩, ⟨b1, b2, b3⟩, ⟨c1, c2, c3⟩⟩ := r
  cases a; cases b
  apply P3.ext' <;> simp only [mulVec, vsub, dot] <;> ring

theorem mulVec_vadd (r : M3 K) (a b : P3 K) : mulVec r (vadd a b) = vadd (mulVec r a) (mulVec r b) := by
  obtain ⟨⟨a1, a2, a3⟩, ⟨b1, b2, b3⟩, ⟨c1, c2, c3⟩⟩ := r
  cases a; cases b
  apply P3.ext' <;> simp only [mulVec, vadd, dot] <;> ring

theorem vsub_vadd_cancel (a b : P3 K) : vsub (vadd a b) a = b := by
  cases a; cases b; apply P3.ext' <;> simp only [vadd, vsub] <;> ring

theorem vsub_vadd_vadd (a b v : P3 K) : vsub (vadd a v) (vadd b v) = vsub a b := by
  cases a; cases b; cases v; apply P3.ext' <;> simp only [vadd, vsub] <;> ring

theorem vsub_zero3 (a : P3 K) : vsub a zero3 = a := by
  cases a; apply P3.ext' <;> simp only [zero3, vsub] <;> ring

theorem vsub_self (a : P3 K) : vsub a a = zero3 := by
  cases a; apply P3.ext' <;> simp only [zero3, vsub] <;> ring

theorem vadd_neg3 (a : P3 K) : vadd a (neg3 a) = zero3 := by
  cases a; apply P3.ext' <;> simp only [zero3, vadd, neg3] <;> ring

theorem vadd_zero3 (a : P3 K) : vadd zero3 a = a := by
  cases a; apply P3.ext' <;> simp only [zero3, vadd] <;> ring

theorem mulVec_zero3 (r : M3 K) : mulVec r zero3 = zero3 := by
  obtain ⟨⟨a1, a2, a3⟩, ⟨b1, b2, b3⟩, ⟨c1, c2, c3⟩⟩ := r
  apply P3.ext' <;> simp only [mulVec, zero3, dot] <;> ring

/-- differences of rotated points: the centre drops out -/
theorem rotate_vsub (r : M3 K) (c : Option (P3 K)) (a b : P3 K) :
    vsub (rotate a r c) (rotate b r c) = mulVec r (vsub a b) := by
  cases c with
  | none => simp only [rotate, mulVec_vsub]
  | some o =>
    simp only [rotate, vsub_vadd_vadd, ← mulVec_vsub]
    congr 1
    cases a; cases b; cases o; apply P3.ext' <;> simp only [vsub] <;> ring

/-! ### orthogonality -/

/-- `Rᵀ R = 1` (orthonormal columns) ⇒ the dot product is preserved -/
theorem dot_mulVec (r : M3 K) (h : Orthonormal r.transpose) (a b : P3 K) :
    dot (mulVec r a) (mulVec r b) = dot a b := by
  obtain ⟨n0, n1, n2, o01, o02, o12⟩ := h
  obtain ⟨⟨a1, a2, a3⟩, ⟨b1, b2, b3⟩, ⟨c1, c2, c3⟩⟩ := r
  obtain ⟨x, y, z⟩ := a
  obtain ⟨x', y', z'⟩ := b
  simp only [dot, M3.transpose, M3.col0, M3.col1, M3.col2] at n0 n1 n2 o01 o02 o12
  simp only [mulVec, dot]
  linear_combination x * x' * n0 + y * y' * n1 + z * z' * n2 + (x * y' + y * x') * o01
    + (x * z' + z * x') * o02 + (y * z' + z * y') * o12

/-- for orthonormal rows and determinant one, each row is the cross product of the other two
    (`adj R = Rᵀ`) -/
theorem cross_rows (r : M3 K) (h : Orthonormal r) (hd : det r = 1) :
    cross r.r1 r.r2 = r.r0 ∧ cross r.r2 r.r0 = r.r1 ∧ cross r.r0 r.r1 = r.r2 := by
  obtain ⟨n0, n1, n2, o01, o02, o12⟩ := h
  obtain ⟨⟨a1, a2, a3⟩, ⟨b1, b2, b3⟩, ⟨c1, c2, c3⟩⟩ := r
  simp only [dot, det, cross] at n0 n1 n2 o01 o02 o12 hd
  refine ⟨?_, ?_, ?_⟩ <;> apply P3.ext' <;> simp only [cross]
  · linear_combination (-(b2*c3-b3*c2)) * n0 - (c2*a3-c3*a2) * o01 - (a2*b3-a3*b2) * o02 + a1 * hd
  · linear_combination (-(b3*c1-b1*c3)) * n0 - (c3*a1-c1*a3) * o01 - (a3*b1-a1*b3) * o02 + a2 * hd
  · linear_combination (-(b1*c2-b2*c1)) * n0 - (c1*a2-c2*a1) * o01 - (a1*b2-a2*b1) * o02 + a3 * hd
  · linear_combination (-(b2*c3-b3*c2)) * o01 - (c2*a3-c3*a2) * n1 - (a2*b3-a3*b2) * o12 + b1 * hd
  · linear_combination (-(b3*c1-b1*c3)) * o01 - (c3*a1-c1*a3) * n1 - (a3*b1-a1*b3) * o12 + b2 * hd
  · linear_combination (-(b1*c2-b2*c1)) * o01 - (c1*a2-c2*a1) * n1 - (a1*b2-a2*b1) * o12 + b3 * hd
  · linear_combination (-(b2*c3-b3*c2)) * o02 - (c2*a3-c3*a2) * o12 - (a2*b3-a3*b2) * n2 + c1 * hd
  · linear_combination (-(b3*c1-b1*c3)) * o02 - (c3*a1-c1*a3) * o12 - (a3*b1-a1*b3) * n2 + c2 * hd
  · linear_combination (-(b1*c2-b2*c1)) * o02 - (c1*a2-c2*a1) * o12 - (a1*b2-a2*b1) * n2 + c3 * hd

/-- `cross (R a) (R b) = R (cross a b)` for orthonormal rows and determinant one
    (Binet–Cauchy `(r₁·a)(r₂·b) − (r₂·a)(r₁·b) = (r₁×r₂)·(a×b)` and `cross_rows`) -/
theorem cross_mulVec_of_rows (r : M3 K) (h : Orthonormal r) (hd : det r = 1) (a b : P3 K) :
    cross (mulVec r a) (mulVec r b) = mulVec r (cross a b) := by
  obtain ⟨h0, h1, h2⟩ := cross_rows r h hd
  obtain ⟨⟨a1, a2, a3⟩, ⟨b1, b2, b3⟩, ⟨c1, c2, c3⟩⟩ := r
  obtain ⟨x, y, z⟩ := a
  obtain ⟨x', y', z'⟩ := b
  simp only [cross, P3.mk.injEq] at h0 h1 h2
  obtain ⟨h0x, h0y, h0z⟩ := h0
  obtain ⟨h1x, h1y, h1z⟩ := h1
  obtain ⟨h2x, h2y, h2z⟩ := h2
  apply P3.ext' <;> simp only [cross, mulVec, dot]
  · linear_combination (y * z' - z * y') * h0x + (z * x' - x * z') * h0y + (x * y' - y * x') * h0z
  · linear_combination (y * z' - z * y') * h1x + (z * x' - x * z') * h1y + (x * y' - y * x') * h1z
  · linear_combination (y * z' - z * y') * h2x + (z * x' - x * z') * h2y + (x * y' - y * x') * h2z

/-- over a commutative ring, orthonormal rows and determinant one give orthonormal columns
    (`Rᵀ = adj R`, and `adj R · R = det R`) -/
theorem cols_of_rows (r : M3 K) (h : Orthonormal r) (hd : det r = 1) : Orthonormal r.transpose := by
  obtain ⟨h0, h1, h2⟩ := cross_rows r h hd
  obtain ⟨⟨a1, a2, a3⟩, ⟨b1, b2, b3⟩, ⟨c1, c2, c3⟩⟩ := r
  simp only [cross, P3.mk.injEq] at h0 h1 h2
  obtain ⟨h0x, h0y, h0z⟩ := h0
  obtain ⟨h1x, h1y, h1z⟩ := h1
  obtain ⟨h2x, h2y, h2z⟩ := h2
  simp only [det, dot, cross] at hd
  constructor <;> simp only [dot, M3.transpose, M3.col0, M3.col1, M3.col2]
  · linear_combination (-a1) * h0x - b1 * h1x - c1 * h2x + hd
  · linear_combination (-a2) * h0y - b2 * h1y - c2 * h2y + hd
  · linear_combination (-a3) * h0z - b3 * h1z - c3 * h2z + hd
  · linear_combination (-a2) * h0x - b2 * h1x - c2 * h2x
  · linear_combination (-a3) * h0x - b3 * h1x - c3 * h2x
  · linear_combination (-a3) * h0y - b3 * h1y - c3 * h2y

/-- orthonormal rows and determinant one suffice for `Proper` -/
theorem Proper.of_rows_det {r : M3 K} (h : Orthonormal r) (hd : det r = 1) : Proper r :=
  ⟨h, cols_of_rows r h hd, hd⟩

theorem cross_mulVec (r : M3 K) (h : Proper r) (a b : P3 K) :
    cross (mulVec r a) (mulVec r b) = mulVec r (cross a b) :=
  cross_mulVec_of_rows r h.rows h.det1 a b

/-- `rotation_matrix_z` is a proper rotation whenever `c² + s² = 1` -/
theorem rotZ_proper (c s : K) (h : c * c + s * s = 1) : Proper (rotZ 0 1 c s) := by
  refine Proper.of_rows_det (rotZ_orthonormal c s h) ?_
  simp only [det, rotZ, dot, cross]
  linear_combination h

/-! ### coordinate systems -/

/-- PCS coordinates are the components of `p − O` on `î, ĵ, k̂` -/
theorem fromGcs_eq' (cs : CS K) (p : P3 K) :
    cs.fromGcs p = ⟨dot (vsub p cs.origin) cs.i, dot (vsub p cs.origin) cs.j,
      dot (vsub p cs.origin) (cross cs.i cs.j)⟩ := rfl

theorem dot_comm (a b : P3 K) : dot a b = dot b a := by
  cases a; cases b; simp only [dot]; ring

theorem fromGcs_eq (cs : CS K) (p : P3 K) : cs.fromGcs p = mulVec cs.rows (vsub p cs.origin) := by
  rw [fromGcs_eq']
  simp only [mulVec, CS.rows, CS.k, dot_comm (vsub p cs.origin)]

theorem CS.rotate_origin (cs : CS K) (r : M3 K) (c : Option (P3 K)) :
    (cs.rotate r c).origin = rotate cs.origin r c := rfl

/-- the rotated frame's `î` is the rotated `î` (any matrix, any centre) -/
theorem CS.rotate_i (cs : CS K) (r : M3 K) (c : Option (P3 K)) :
    (cs.rotate r c).i = mulVec r cs.i := by
  show vsub (rotate (vadd cs.origin cs.i) r c) (rotate cs.origin r c) = _
  rw [rotate_vsub, vsub_vadd_cancel]

theorem CS.rotate_j (cs : CS K) (r : M3 K) (c : Option (P3 K)) :
    (cs.rotate r c).j = mulVec r cs.j := by
  show vsub (rotate (vadd cs.origin cs.j) r c) (rotate cs.origin r c) = _
  rw [rotate_vsub, vsub_vadd_cancel]

/-- the rotated frame's `k̂` is the rotated `k̂` (proper rotations) -/
theorem CS.rotate_k (cs : CS K) (r : M3 K) (h : Proper r) (c : Option (P3 K)) :
    (cs.rotate r c).k = mulVec r cs.k := by
  simp only [CS.k, CS.rotate_i, CS.rotate_j, cross_mulVec r h]

theorem GoodCS.rotate {cs : CS K} (g : GoodCS cs) (r : M3 K) (h : Proper r) (c : Option (P3 K)) :
    GoodCS (cs.rotate r c) := by
  constructor <;> simp only [CS.rotate_i, CS.rotate_j, dot_mulVec r h.cols]
  exacts [g.ii, g.jj, g.ij]

/-- PCS coordinates of a rotated point in the rotated frame are the old coordinates -/
theorem rotate_fromGcs (cs : CS K) (r : M3 K) (h : Proper r) (c : Option (P3 K)) (p : P3 K) :
    (cs.rotate r c).fromGcs (rotate p r c) = cs.fromGcs p := by
  simp only [fromGcs_eq', CS.rotate_origin, rotate_vsub, CS.rotate_i, CS.rotate_j,
    cross_mulVec r h, dot_mulVec r h.cols]

/-- the same with the frame's origin forced to `0` and the point rotated about the origin
    (how `orientations_pcs` treats the normals) -/
theorem rotate_fromGcs_normal (cs : CS K) (r : M3 K) (h : Proper r) (c : Option (P3 K)) (n : P3 K) :
    ({ cs.rotate r c with origin := ⟨0, 0, 0⟩ } : CS K).fromGcs (rotate n r none)
      = ({ cs with origin := ⟨0, 0, 0⟩ } : CS K).fromGcs n := by
  have hz : ∀ v : P3 K, vsub v ⟨0, 0, 0⟩ = v := vsub_zero3
  simp only [fromGcs_eq', hz, rotate, CS.rotate_i, CS.rotate_j, cross_mulVec r h,
    dot_mulVec r h.cols]

/-- `set_reference_element`: moving only the origin shifts all PCS coordinates by one vector -/
theorem set_reference_shift (cs : CS K) (o p : P3 K) :
    ({ cs with origin := o } : CS K).fromGcs p = vsub (cs.fromGcs p) (cs.fromGcs o) := by
  obtain ⟨⟨ox, oy, oz⟩, ⟨i1, i2, i3⟩, ⟨j1, j2, j3⟩⟩ := cs
  cases o; cases p
  apply P3.ext' <;> simp only [fromGcs_eq', vsub, dot, cross] <;> ring

/-- the origin of a frame has PCS coordinates `0` -/
theorem set_reference_origin (cs : CS K) : cs.fromGcs cs.origin = zero3 := by
  rw [fromGcs_eq, vsub_self, mulVec_zero3]

/-- translation of frame and point together -/
theorem translate_fromGcs (cs : CS K) (p v : P3 K) :
    (cs.translate v).fromGcs (vadd p v) = cs.fromGcs p := by
  rw [fromGcs_eq, fromGcs_eq]
  show mulVec cs.rows (vsub (vadd p v) (vadd cs.origin v)) = _
  rw [vsub_vadd_vadd]

/-- in the global frame PCS and GCS coordinates coincide -/
theorem fromGcs_std (cs : CS K) (ho : cs.origin = zero3) (hi : cs.i = e1) (hj : cs.j = e2) (p : P3 K) :
    cs.fromGcs p = p := by
  obtain ⟨x, y, z⟩ := p
  rw [fromGcs_eq', ho, hi, hj]
  apply P3.ext' <;> simp only [zero3, e1, e2, vsub, dot, cross] <;> ring

/-- the matrix with rows `î, ĵ, k̂` of a good frame is a proper rotation (Lagrange identities) -/
theorem rows_proper {cs : CS K} (g : GoodCS cs) : Proper cs.rows := by
  obtain ⟨ii, jj, ij⟩ := g
  obtain ⟨o, ⟨i1, i2, i3⟩, ⟨j1, j2, j3⟩⟩ := cs
  simp only [dot] at ii jj ij
  refine Proper.of_rows_det ⟨?_, ?_, ?_, ?_, ?_, ?_⟩ ?_ <;> simp only [CS.rows, CS.k, det, dot, cross]
  · exact ii
  · exact jj
  · linear_combination (j1 * j1 + j2 * j2 + j3 * j3) * ii + jj - (i1 * j1 + i2 * j2 + i3 * j3) * ij
  · exact ij
  · ring
  · ring
  · linear_combination (j1 * j1 + j2 * j2 + j3 * j3) * ii + jj - (i1 * j1 + i2 * j2 + i3 * j3) * ij

/-- the rows-matrix of a good frame maps `î ↦ e₁`, `ĵ ↦ e₂` -/
theorem rows_mulVec_i {cs : CS K} (g : GoodCS cs) : mulVec cs.rows cs.i = e1 := by
  obtain ⟨ii, jj, ij⟩ := g
  obtain ⟨o, ⟨i1, i2, i3⟩, ⟨j1, j2, j3⟩⟩ := cs
  simp only [dot] at ii jj ij
  apply P3.ext' <;> simp only [CS.rows, CS.k, mulVec, dot, cross, e1]
  · exact ii
  · linear_combination ij
  · ring

theorem rows_mulVec_j {cs : CS K} (g : GoodCS cs) : mulVec cs.rows cs.j = e2 := by
  obtain ⟨ii, jj, ij⟩ := g
  obtain ⟨o, ⟨i1, i2, i3⟩, ⟨j1, j2, j3⟩⟩ := cs
  simp only [dot] at ii jj ij
  apply P3.ext' <;> simp only [CS.rows, CS.k, mulVec, dot, cross, e2]
  · linear_combination ij
  · exact jj
  · ring

/-- `rotate` preserves squared distances (orthonormal columns suffice) -/
theorem rotate_sqdist (r : M3 K) (h : Orthonormal r.transpose) (c : Option (P3 K)) (a b : P3 K) :
    sqdist (rotate a r c) (rotate b r c) = sqdist a b := by
  simp only [sqdist, rotate_vsub, dot_mulVec r h]

theorem translate_sqdist (a b v : P3 K) : sqdist (vadd a v) (vadd b v) = sqdist a b := by
  simp only [sqdist, vsub_vadd_vadd]

/-! ### lists: left-fold sums, tiled grids -/

section lists

/-- left fold of `+` from `0` -/
def fsum (l : List K) : K := l.foldl (· + ·) 0

theorem foldl_add_init (l : List K) (a : K) : l.foldl (· + ·) a = a + fsum l := by
  unfold fsum
  induction l generalizing a with
  | nil => simp
  | cons x l ih => simp only [List.foldl_cons]; rw [ih (a + x), ih (0 + x)]; ring

theorem fsum_nil : fsum ([] : List K) = 0 := rfl
theorem fsum_cons (x : K) (l : List K) : fsum (x :: l) = x + fsum l := by
  show l.foldl (· + ·) (0 + x) = _
  rw [foldl_add_init]; ring
theorem fsum_append (l l' : List K) : fsum (l ++ l') = fsum l + fsum l' := by
  induction l with
  | nil => simp [fsum_nil]
  | cons x l ih => simp only [List.cons_append, fsum_cons, ih]; ring

/-- Gauss: `2 Σ_{k<n} k p = n (n − 1) p` -/
theorem fsum_range_mul (n : Nat) (p : K) :
    2 * fsum ((List.range n).map (fun (k : Nat) => (k : K) * p)) = n * (n - 1) * p := by
  induction n with
  | zero => simp [fsum_nil]
  | succ n ih =>
    rw [List.range_succ, List.map_append, fsum_append]
    simp only [List.map_cons, List.map_nil, fsum_cons, fsum_nil, Nat.cast_succ]
    linear_combination ih

/-- the axis values of `make_matrix_probe` are `k * pitch` in every case (for a single element the
    pitch is ignored but `k = 0`) -/
theorem axis_eq (n : Nat) (p : K) :
    (List.range n).map (fun (k : Nat) => if n > 1 then (k : K) * p else (k : K))
      = (List.range n).map (fun (k : Nat) => (k : K) * p) := by
  apply List.map_congr_left
  intro k hk
  rw [List.mem_range] at hk
  split
  · rfl
  · have : k = 0 := by omega
    subst this; simp

/-- element `(iy, ix)` of a tiled list -/
theorem flatMap_map_getElem? {β γ δ : Type} (f : β → γ → δ) (xs : List γ) (ys : List β) (iy ix : Nat)
    (hy : iy < ys.length) (hx : ix < xs.length) :
    (ys.flatMap (fun y => xs.map (f y)))[iy * xs.length + ix]? = some (f ys[iy] xs[ix]) := by
  induction ys generalizing iy with
  | nil => simp at hy
  | cons y ys ih =>
    rw [List.flatMap_cons]
    cases iy with
    | zero =>
      rw [List.getElem?_append_left (by simpa using hx)]
      simp [hx]
    | succ iy =>
      rw [List.getElem?_append_right (by simp [Nat.succ_mul]; omega)]
      have : (iy + 1) * xs.length + ix - (xs.map (f y)).length = iy * xs.length + ix := by
        simp [Nat.succ_mul]; omega
      rw [this, ih iy (by simpa using hy)]
      simp

theorem flatMap_map_getElem?' {β γ δ : Type} (f : β → γ → δ) (xs : List γ) (ys : List β) (iy ix : Nat)
    (hy : iy < ys.length) (hx : ix < xs.length) (n : Nat) (hn : xs.length = n) :
    (ys.flatMap (fun y => xs.map (f y)))[iy * n + ix]? = some (f ys[iy] xs[ix]) := by
  subst hn; exact flatMap_map_getElem? f xs ys iy ix hy hx

theorem flatMap_map_length {β γ δ : Type} (f : β → γ → δ) (xs : List γ) (ys : List β) :
    (ys.flatMap (fun y => xs.map (f y))).length = ys.length * xs.length := by
  induction ys with
  | nil => simp
  | cons y ys ih => rw [List.flatMap_cons, List.length_append, ih]; simp [Nat.succ_mul]; omega

theorem fsum_flatMap {β : Type} (F : β → List K) (ys : List β) :
    fsum (ys.flatMap F) = fsum (ys.map (fun y => fsum (F y))) := by
  induction ys with
  | nil => rfl
  | cons y ys ih => rw [List.flatMap_cons, fsum_append, ih, List.map_cons, fsum_cons]

theorem fsum_map_const {β : Type} (l : List β) (c : K) : fsum (l.map (fun _ => c)) = l.length * c := by
  induction l with
  | nil => simp [fsum_nil]
  | cons y l ih => rw [List.map_cons, fsum_cons, ih, List.length_cons, Nat.cast_succ]; ring

theorem fsum_map_mul_left {β : Type} (l : List β) (c : K) (h : β → K) :
    fsum (l.map (fun y => c * h y)) = c * fsum (l.map h) := by
  induction l with
  | nil => simp [fsum_nil]
  | cons y l ih => simp only [List.map_cons, fsum_cons, ih]; ring

theorem fsum_map_sub_const (l : List K) (m : K) :
    fsum (l.map (fun x => x - m)) = fsum l - l.length * m := by
  induction l with
  | nil => simp [fsum_nil]
  | cons y l ih => simp only [List.map_cons, fsum_cons, ih, List.length_cons, Nat.cast_succ]; ring

/-- the running sum of `vadd`, component by component -/
theorem foldl_vadd (l : List (P3 K)) (a : P3 K) :
    l.foldl vadd a = ⟨a.x + fsum (l.map (·.x)), a.y + fsum (l.map (·.y)), a.z + fsum (l.map (·.z))⟩ := by
  induction l generalizing a with
  | nil => simp [fsum_nil]
  | cons p l ih =>
    rw [List.foldl_cons, ih]
    apply P3.ext' <;> simp only [List.map_cons, fsum_cons, vadd] <;> ring

/-- a tiled grid whose axis deviations sum to zero has coordinate sum zero -/
theorem tiled_sum (xs ys : List K) (mx my : K) (hx : fsum (xs.map (fun x => x - mx)) = 0)
    (hy : fsum (ys.map (fun y => y - my)) = 0) :
    (ys.flatMap (fun y => xs.map (fun x => (⟨x - mx, y - my, 0⟩ : P3 K)))).foldl vadd ⟨0, 0, 0⟩
      = zero3 := by
  rw [foldl_vadd]
  apply P3.ext' <;>
    simp only [List.map_flatMap, List.map_map, Function.comp_def, fsum_flatMap, zero3, zero_add]
  · rw [hx, fsum_map_const, mul_zero]
  · simp only [fsum_map_const]
    rw [fsum_map_mul_left, hy, mul_zero]
  · simp only [fsum_map_const, mul_zero]

end lists

end Arim.C16
