import ArimModel.Frame
import Mathlib.Data.List.Nodup
import Mathlib.Data.List.Perm.Subperm
import Mathlib.Data.List.Induction
/-! Helper lemmas for C15 (frame bookkeeping model `ArimModel/Frame.lean`). -/

namespace Arim.Frame

theorem pairLt_iff (a b : Pair) : pairLt a b = true ↔ a.1 < b.1 ∨ (a.1 = b.1 ∧ a.2 < b.2) := by
  simp [pairLt]

theorem pairLt_irrefl (a : Pair) : pairLt a a = false := by
  simp [pairLt]

theorem pairLt_trans {a b c : Pair} (h1 : pairLt a b = true) (h2 : pairLt b c = true) :
    pairLt a c = true := by
  rw [pairLt_iff] at *; omega

theorem pairLt_of_not {a b : Pair} (h1 : pairLt a b = false) (h2 : a ≠ b) : pairLt b a = true := by
  have : ¬ (pairLt a b = true) := by simp [h1]
  rw [pairLt_iff] at *
  obtain ⟨a1, a2⟩ := a; obtain ⟨b1, b2⟩ := b
  simp only [ne_eq, Prod.mk.injEq] at *
  omega

theorem mem_insertSorted (x p : Pair) (l : List Pair) :
    p ∈ insertSorted x l ↔ p = x ∨ p ∈ l := by
  induction l with
  | nil => simp [insertSorted]
  | cons y ys ih =>
    unfold insertSorted
    split
    · simp
    · split
      · rename_i h; have : x = y := by simpa using h
        subst this; simp
      · simp [ih]; tauto

theorem mem_sortDedup (p : Pair) (l : List Pair) : p ∈ sortDedup l ↔ p ∈ l := by
  induction l with
  | nil => simp [sortDedup]
  | cons y ys ih =>
    have : sortDedup (y :: ys) = insertSorted y (sortDedup ys) := rfl
    rw [this, mem_insertSorted, ih]; simp

/-- strict sortedness w.r.t. the lexicographic order -/
def StrictSorted (l : List Pair) : Prop := l.Pairwise (fun a b => pairLt a b = true)

theorem insertSorted_sorted (x : Pair) (l : List Pair) (h : StrictSorted l) :
    StrictSorted (insertSorted x l) := by
  induction l with
  | nil => simp [insertSorted, StrictSorted]
  | cons y ys ih =>
    unfold StrictSorted at *
    rw [List.pairwise_cons] at h
    unfold insertSorted
    split
    · rename_i hxy
      refine List.pairwise_cons.2 ⟨?_, List.pairwise_cons.2 h⟩
      intro a ha
      rcases List.mem_cons.1 ha with rfl | ha
      · exact hxy
      · exact pairLt_trans hxy (h.1 a ha)
    · rename_i hxy
      split
      · exact List.pairwise_cons.2 h
      · rename_i hne
        refine List.pairwise_cons.2 ⟨?_, ih h.2⟩
        intro a ha
        rcases (mem_insertSorted x a ys).1 ha with rfl | ha
        · exact pairLt_of_not (by simpa using hxy) (by simpa using hne)
        · exact h.1 a ha

theorem sortDedup_sorted (l : List Pair) : StrictSorted (sortDedup l) := by
  induction l with
  | nil => simp [sortDedup, StrictSorted]
  | cons y ys ih => exact insertSorted_sorted y _ ih

theorem StrictSorted.nodup {l : List Pair} (h : StrictSorted l) : l.Nodup := by
  refine List.Pairwise.imp ?_ h
  intro a b hab heq
  subst heq
  simp [pairLt_irrefl] at hab

theorem sortDedup_nodup (l : List Pair) : (sortDedup l).Nodup := (sortDedup_sorted l).nodup


theorem subset_iff (a b : List Pair) : subset a b = true ↔ ∀ x ∈ a, x ∈ b := by
  simp [subset]

theorem setEq_iff (a b : List Pair) : setEq a b = true ↔ ∀ x, x ∈ a ↔ x ∈ b := by
  simp only [setEq, Bool.and_eq_true, subset_iff]
  constructor
  · rintro ⟨h1, h2⟩ x; exact ⟨h1 x, h2 x⟩
  · intro h; exact ⟨fun x => (h x).1, fun x => (h x).2⟩

theorem swap_swap (p : Pair) : swap (swap p) = p := rfl

theorem mem_map_swap (p : Pair) (l : List Pair) : p ∈ l.map swap ↔ swap p ∈ l := by
  simp only [List.mem_map]
  constructor
  · rintro ⟨q, hq, rfl⟩; exact hq
  · intro h; exact ⟨swap p, h, rfl⟩

variable {P : Type}

theorem mem_pairsOf (f : List (TT P)) (p : Pair) :
    p ∈ pairsOf f ↔ ∃ t ∈ f, t.tx = p.1 ∧ t.rx = p.2 := by
  obtain ⟨a, b⟩ := p
  simp [pairsOf]

theorem lookup_eq_none (f : List (TT P)) (p : Pair) : lookup f p = none ↔ p ∉ pairsOf f := by
  simp [lookup, mem_pairsOf]

theorem lookup_isSome (f : List (TT P)) (p : Pair) : (lookup f p).isSome ↔ p ∈ pairsOf f := by
  rw [← not_iff_not, ← lookup_eq_none]; simp

/-- a successful lookup returns the payload of a recorded timetrace with that very pair -/
theorem lookup_some_mem (f : List (TT P)) (p : Pair) (d : P) (h : lookup f p = some d) :
    ({ tx := p.1, rx := p.2, data := d } : TT P) ∈ f := by
  simp only [lookup, Option.map_eq_some_iff] at h
  obtain ⟨t, ht, rfl⟩ := h
  have hm := List.mem_of_find?_eq_some ht
  have hp := List.find?_some ht
  simp only [Bool.and_eq_true, beq_iff_eq] at hp
  obtain ⟨tx, rx, d⟩ := t
  simp only at hp
  obtain ⟨rfl, rfl⟩ := hp
  exact hm

/-- on a frame without duplicate pairs, every recorded timetrace is the one found by `lookup` -/
theorem lookup_of_mem (f : List (TT P)) (hnd : (pairsOf f).Nodup) (t : TT P) (ht : t ∈ f) :
    lookup f (t.tx, t.rx) = some t.data := by
  induction f with
  | nil => simp at ht
  | cons u us ih =>
    simp only [pairsOf, List.map_cons, List.nodup_cons] at hnd
    rcases List.mem_cons.1 ht with rfl | ht
    · simp [lookup]
    · have hne : ¬ (u.tx = t.tx ∧ u.rx = t.rx) := by
        rintro ⟨h1, h2⟩
        apply hnd.1
        rw [h1, h2]
        exact List.mem_map.2 ⟨t, ht, rfl⟩
      have := ih hnd.2 ht
      simp only [lookup, List.find?_cons] at this ⊢
      have hb : (u.tx == t.tx && u.rx == t.rx) = false := by
        simpa using hne
      simp only [hb]
      exact this

theorem lookup_eq_some_iff (f : List (TT P)) (hnd : (pairsOf f).Nodup) (p : Pair) (d : P) :
    lookup f p = some d ↔ ({ tx := p.1, rx := p.2, data := d } : TT P) ∈ f :=
  ⟨lookup_some_mem f p d, fun h => lookup_of_mem f hnd _ h⟩

/-! ### `expand` -/

/-- the per-pair step of `expand` -/
def expandEntry (f : List (TT P)) (p : Pair) : Option (TT P) :=
  match lookup f p with
  | some d => some { tx := p.1, rx := p.2, data := d }
  | none => (lookup f (swap p)).map (fun d => { tx := p.1, rx := p.2, data := d })

/-- the sorted duplicate-free list of recorded pairs and their mirrors -/
def expPairs (f : List (TT P)) : List Pair := sortDedup (pairsOf f ++ (pairsOf f).map swap)

theorem expand_eq (f : List (TT P)) :
    expand f = if isComplete f then f else (expPairs f).filterMap (expandEntry f) := rfl

theorem mem_expPairs (f : List (TT P)) (p : Pair) :
    p ∈ expPairs f ↔ p ∈ pairsOf f ∨ swap p ∈ pairsOf f := by
  simp [expPairs, mem_sortDedup, mem_map_swap]

theorem expandEntry_some (f : List (TT P)) (p : Pair) (t : TT P) (h : expandEntry f p = some t) :
    t.tx = p.1 ∧ t.rx = p.2 ∧
      (lookup f p = some t.data ∨ (lookup f p = none ∧ lookup f (swap p) = some t.data)) := by
  unfold expandEntry at h
  split at h
  · rename_i d hd
    cases h; exact ⟨rfl, rfl, Or.inl hd⟩
  · rename_i hn
    simp only [Option.map_eq_some_iff] at h
    obtain ⟨d, hd, rfl⟩ := h
    exact ⟨rfl, rfl, Or.inr ⟨hn, hd⟩⟩

theorem expandEntry_isSome (f : List (TT P)) (p : Pair) (h : p ∈ expPairs f) :
    ∃ t, expandEntry f p = some t := by
  rw [mem_expPairs] at h
  unfold expandEntry
  split
  · exact ⟨_, rfl⟩
  · rename_i hn
    rw [lookup_eq_none] at hn
    have h2 : swap p ∈ pairsOf f := h.resolve_left hn
    rw [← lookup_isSome, Option.isSome_iff_exists] at h2
    obtain ⟨d, hd⟩ := h2
    exact ⟨_, by rw [hd]; rfl⟩

theorem pairsOf_filterMap_expandEntry (f : List (TT P)) (l : List Pair)
    (h : ∀ p ∈ l, p ∈ expPairs f) : pairsOf (l.filterMap (expandEntry f)) = l := by
  induction l with
  | nil => rfl
  | cons p ps ih =>
    obtain ⟨t, ht⟩ := expandEntry_isSome f p (h p (by simp))
    have := expandEntry_some f p t ht
    rw [List.filterMap_cons_some ht]
    simp only [pairsOf, List.map_cons] at ih ⊢
    rw [ih (fun q hq => h q (by simp [hq])), this.1, this.2.1]

/-- when the frame is not already complete, the expanded frame lists exactly `expPairs f` -/
theorem pairsOf_expand_of_not_complete (f : List (TT P)) (h : isComplete f = false) :
    pairsOf (expand f) = expPairs f := by
  rw [expand_eq, h]
  exact pairsOf_filterMap_expandEntry f _ (fun _ hp => hp)

theorem isComplete_iff (f : List (TT P)) :
    isComplete f = true ↔ ∀ p, p ∈ pairsOf f ↔ swap p ∈ pairsOf f := by
  simp [isComplete, setEq_iff, mem_map_swap]

/-! ### `numElements`, permutations -/

theorem foldl_max_spec (l : List Pair) (a : Nat) :
    let M := l.foldl (fun m p => max m (max p.1 p.2)) a
    (∀ p ∈ l, p.1 ≤ M ∧ p.2 ≤ M) ∧ a ≤ M ∧ (M = a ∨ ∃ p ∈ l, M = p.1 ∨ M = p.2) := by
  induction l generalizing a with
  | nil => simp
  | cons q qs ih =>
    simp only [List.foldl_cons]
    have ih' := ih (max a (max q.1 q.2))
    generalize qs.foldl (fun m p => max m (max p.1 p.2)) (max a (max q.1 q.2)) = M at ih'
    obtain ⟨h1, h2, h3⟩ := ih'
    refine ⟨?_, by omega, ?_⟩
    · intro p hp
      rcases List.mem_cons.1 hp with hpq | hp
      · subst hpq; clear h3 h1 ih; omega
      · exact h1 p hp
    · rcases h3 with h3 | ⟨p, hp, h3⟩
      · by_cases ha : max a (max q.1 q.2) = a
        · left; omega
        · right; exact ⟨q, by simp, by omega⟩
      · right; exact ⟨p, by simp [hp], h3⟩

/-- `numElements` is one more than the largest element index appearing in the list -/
theorem numElements_eq_some_iff (ps : List Pair) (n : Nat) :
    numElements ps = some n ↔
      (∀ p ∈ ps, p.1 < n ∧ p.2 < n) ∧ ∃ p ∈ ps, p.1 + 1 = n ∨ p.2 + 1 = n := by
  cases ps with
  | nil => simp [numElements]
  | cons q qs =>
    simp only [numElements, Option.some.injEq]
    obtain ⟨h1, h2, h3⟩ := foldl_max_spec (q :: qs) 0
    generalize (q :: qs).foldl (fun m p => max m (max p.1 p.2)) 0 = M at *
    constructor
    · intro h
      subst h
      refine ⟨fun p hp => by have := h1 p hp; omega, ?_⟩
      rcases h3 with h3 | ⟨p, hp, h3⟩
      · refine ⟨q, by simp, ?_⟩
        have := h1 q (by simp); omega
      · exact ⟨p, hp, by omega⟩
    · rintro ⟨ha, p, hp, hpn⟩
      have := h1 p hp
      rcases h3 with h3 | ⟨r, hr, h3⟩
      · have := ha p hp; omega
      · have := ha r hr; omega

theorem numElements_perm {a b : List Pair} (h : a.Perm b) : numElements a = numElements b := by
  cases hb : numElements b with
  | none =>
    cases b with
    | nil => rw [List.perm_nil.1 h]; rfl
    | cons _ _ => simp [numElements] at hb
  | some n =>
    rw [numElements_eq_some_iff] at hb ⊢
    simpa [h.mem_iff] using hb

theorem setEq_perm_left {a a' b : List Pair} (h : a.Perm a') : setEq a b = setEq a' b := by
  rw [Bool.eq_iff_iff, setEq_iff, setEq_iff]
  simp [h.mem_iff]

theorem perm_of_setEq_of_length {a b : List Pair} (hb : b.Nodup) (hs : setEq a b = true)
    (hl : b.length = a.length) : a.Perm b := by
  rw [setEq_iff] at hs
  have : b.Subperm a := List.subperm_of_subset hb (fun x hx => (hs x).2 hx)
  exact (this.perm_of_length_le (by omega)).symm

theorem inferCapture_eq_some_iff (ps : List Pair) (c : Capture) :
    inferCapture ps = some c ↔ ∃ n, numElements ps = some n ∧
      c = (if (hmc n).length == ps.length && (setEq ps (hmc n) || setEq ps ((hmc n).map swap))
            then Capture.hmc
           else if (fmc n).length == ps.length && setEq ps (fmc n) then Capture.fmc
           else Capture.unsupported) := by
  unfold inferCapture
  cases numElements ps with
  | none => simp
  | some n =>
    simp only [Option.map_some, Option.some.injEq]
    constructor
    · rintro rfl; exact ⟨n, rfl, rfl⟩
    · rintro ⟨m, hm, rfl⟩; cases hm; rfl

theorem swap_injective : Function.Injective swap := by
  intro a b h
  have := congrArg swap h
  simpa [swap_swap] using this

theorem numElements_pos {ps : List Pair} {n : Nat} (h : numElements ps = some n) : 1 ≤ n := by
  rw [numElements_eq_some_iff] at h
  obtain ⟨_, p, _, hp⟩ := h; omega

/-! ### `mapper`, `take?` -/

theorem mapper_nil (n old : Nat) : mapper n [] old = 0 := rfl

theorem mapper_append_singleton (n : Nat) (pos : List Nat) (a old : Nat) :
    mapper n (pos ++ [a]) old = if a = old then pos.length else mapper n pos old := by
  unfold mapper
  rw [List.length_append, List.length_singleton, List.range_succ,
    List.zip_append (by simp), List.foldl_append]
  simp

/-- `mapper` sends an old element index occurring in `pos` to a position of `pos` holding it
    (the last one) -/
theorem mapper_spec (n : Nat) (pos : List Nat) (old : Nat) (h : old ∈ pos) :
    ∃ hk : mapper n pos old < pos.length, pos[mapper n pos old] = old := by
  induction pos using List.reverseRecOn with
  | nil => simp at h
  | append_singleton l a ih =>
    rw [mapper_append_singleton]
    split
    · rename_i ha; subst ha; simp
    · rename_i ha
      have hl : old ∈ l := by
        rcases List.mem_append.1 h with h | h
        · exact h
        · simp at h; omega
      obtain ⟨hk, hv⟩ := ih hl
      refine ⟨by simp; omega, ?_⟩
      rw [List.getElem_append_left hk]; exact hv

theorem mapper_getElem (n : Nat) (pos : List Nat) (hnd : pos.Nodup) (k : Nat) (hk : k < pos.length) :
    mapper n pos pos[k] = k := by
  obtain ⟨h1, h2⟩ := mapper_spec n pos pos[k] (List.getElem_mem hk)
  exact (hnd.getElem_inj_iff).1 h2

theorem take?_getElem {α : Type} (l : List α) (pos : List Nat) (sp : List α)
    (h : take? l pos = some sp) :
    sp.length = pos.length ∧ ∀ k (hk : k < pos.length), sp[k]? = l[pos[k]]? := by
  induction pos generalizing sp with
  | nil => simp [take?] at h; subst h; simp
  | cons a as ih =>
    simp only [take?, List.mapM_cons, Option.bind_eq_bind, Option.pure_def,
      Option.bind_eq_some_iff] at h
    obtain ⟨x, hx, xs, hxs, h⟩ := h
    cases h
    obtain ⟨h1, h2⟩ := ih xs hxs
    refine ⟨by simp [h1], ?_⟩
    intro k hk
    cases k with
    | zero => simp [hx]
    | succ k => simpa using h2 k (by simpa using hk)

theorem noDupPairs_iff (l : List Pair) : noDupPairs l = true ↔ l.Nodup := by
  induction l with
  | nil => simp [noDupPairs]
  | cons p ps ih => simp [noDupPairs, ih]

theorem mkFrame_eq_some_iff (f g : List (TT P)) :
    mkFrame f = some g ↔ (pairsOf f).Nodup ∧ g = f := by
  unfold mkFrame
  rw [← noDupPairs_iff]
  split
  · rename_i h; simp only [Option.some.injEq, h, true_and]; exact eq_comm
  · rename_i h; simp [h]

theorem take?_isSome {α : Type} (l : List α) (pos : List Nat) (h : ∀ i ∈ pos, i < l.length) :
    ∃ sp, take? l pos = some sp := by
  induction pos with
  | nil => exact ⟨[], rfl⟩
  | cons a as ih =>
    obtain ⟨sp, hsp⟩ := ih (fun i hi => h i (by simp [hi]))
    have ha : a < l.length := h a (by simp)
    refine ⟨l[a] :: sp, ?_⟩
    simp only [take?] at hsp ⊢
    simp [List.mapM_cons, hsp, List.getElem?_eq_getElem ha]

theorem take?_bound {α : Type} (l : List α) (pos : List Nat) (sp : List α)
    (h : take? l pos = some sp) : ∀ i ∈ pos, i < l.length := by
  intro i hi
  obtain ⟨k, hk, rfl⟩ := List.getElem_of_mem hi
  obtain ⟨h1, h2⟩ := take?_getElem l pos sp h
  have := h2 k hk
  by_contra hc
  rw [List.getElem?_eq_none (Nat.le_of_not_lt hc), List.getElem?_eq_getElem (by omega)] at this
  cases this

theorem mapper_inj_on (n : Nat) (pos : List Nat) (a b : Nat) (ha : a ∈ pos) (hb : b ∈ pos)
    (h : mapper n pos a = mapper n pos b) : a = b := by
  obtain ⟨h1, h2⟩ := mapper_spec n pos a ha
  obtain ⟨h3, h4⟩ := mapper_spec n pos b hb
  rw [← h2, ← h4]; simp [h]

/-! ### NumPy index kinds -/

theorem arithProg_spec (st step : Int) (count n : Nat) (hs : step ≠ 0)
    (hb : ∀ k : Nat, k < count → 0 ≤ st + step * (k : Int) ∧ st + step * (k : Int) < (n : Int)) :
    (∀ i ∈ (List.range count).map (fun (k : Nat) => (st + step * (k : Int)).toNat), i < n) ∧
      ((List.range count).map (fun (k : Nat) => (st + step * (k : Int)).toNat)).Nodup := by
  constructor
  · intro i hi
    simp only [List.mem_map, List.mem_range] at hi
    obtain ⟨k, hk, rfl⟩ := hi
    have := hb k hk; omega
  · refine List.Nodup.map_on ?_ List.nodup_range
    intro a ha b hb' hab
    simp only [List.mem_range] at ha hb'
    have h1 := hb a ha
    have h2 := hb b hb'
    have : step * (a : Int) = step * (b : Int) := by omega
    have := (Int.mul_eq_mul_left_iff hs).1 this
    omega

theorem pos_step_bound (st sp step : Int) (h0 : 0 < step) (k : Nat)
    (hk : k < ((sp - st - 1) / step + 1).toNat) : 0 ≤ step * (k : Int) ∧ st + step * (k : Int) < sp := by
  have hk' : (k : Int) ≤ (sp - st - 1) / step := by omega
  have h1 : step * (k : Int) ≤ step * ((sp - st - 1) / step) :=
    Int.mul_le_mul_of_nonneg_left hk' (by omega)
  have h2 : step * ((sp - st - 1) / step) ≤ sp - st - 1 := Int.mul_ediv_self_le (by omega)
  have h3 : 0 ≤ step * (k : Int) := Int.mul_nonneg (by omega) (by omega)
  omega


/-- the clamping of a slice bound done by CPython `slice.indices` -/
def sliceNorm (step : Int) (n : Nat) (v : Option Int) (dflt : Int) : Int :=
  match v with
  | none => dflt
  | some s => if s < 0 then max (s + (n : Int)) (if step < 0 then -1 else 0)
              else min s (if step < 0 then (n : Int) - 1 else (n : Int))

theorem sliceNorm_bounds (step : Int) (n : Nat) (v : Option Int) (dflt : Int)
    (h1 : (if step < 0 then -1 else 0) ≤ dflt)
    (h2 : dflt ≤ (if step < 0 then (n : Int) - 1 else (n : Int))) :
    (if step < 0 then -1 else 0) ≤ sliceNorm step n v dflt ∧
      sliceNorm step n v dflt ≤ (if step < 0 then (n : Int) - 1 else (n : Int)) := by
  unfold sliceNorm
  cases v with
  | none => exact ⟨h1, h2⟩
  | some s =>
    simp only
    split <;> split <;> omega

theorem sliceIndices_eq (start stop : Option Int) (step : Int) (n : Nat) :
    sliceIndices start stop step n =
      if step = 0 then none else
      let st := sliceNorm step n start
        (if step < 0 then (if step < 0 then (n : Int) - 1 else (n : Int)) else (if step < 0 then -1 else 0))
      let sp := sliceNorm step n stop
        (if step < 0 then (if step < 0 then -1 else 0) else (if step < 0 then (n : Int) - 1 else (n : Int)))
      let count : Nat :=
        if step > 0 then (if st < sp then ((sp - st - 1) / step + 1).toNat else 0)
        else (if sp < st then ((st - sp - 1) / (-step) + 1).toNat else 0)
      some ((List.range count).map (fun (k : Nat) => (st + step * (k : Int)).toNat)) := by
  rfl

theorem sliceIndices_spec (start stop : Option Int) (step : Int) (n : Nat) (l : List Nat)
    (h : sliceIndices start stop step n = some l) : (∀ i ∈ l, i < n) ∧ l.Nodup := by
  rw [sliceIndices_eq] at h
  split at h
  · cases h
  · rename_i hs
    simp only [Option.some.injEq] at h
    subst h
    apply arithProg_spec _ _ _ _ hs
    intro k hk
    have b1 := sliceNorm_bounds step n start
      (if step < 0 then (if step < 0 then (n : Int) - 1 else (n : Int)) else (if step < 0 then -1 else 0))
      (by split <;> omega) (by split <;> omega)
    have b2 := sliceNorm_bounds step n stop
      (if step < 0 then (if step < 0 then -1 else 0) else (if step < 0 then (n : Int) - 1 else (n : Int)))
      (by split <;> omega) (by split <;> omega)
    generalize sliceNorm step n start _ = st at *
    generalize sliceNorm step n stop _ = sp at *
    by_cases hpos : step > 0
    · have hneg : ¬ step < 0 := by omega
      simp only [hpos, hneg, if_true, if_false] at hk b1 b2
      split at hk
      · have := pos_step_bound st sp step hpos k hk; omega
      · omega
    · have hneg : step < 0 := by omega
      simp only [hpos, hneg, if_true, if_false] at hk b1 b2
      split at hk
      · have := pos_step_bound sp st (-step) (by omega) k hk
        have e : -step * (k : Int) = -(step * (k : Int)) := Int.neg_mul _ _
        omega
      · omega

theorem mem_of_mapM_option {α β : Type} (g : α → Option β) (l : List α) (r : List β)
    (h : l.mapM g = some r) : ∀ y ∈ r, ∃ x ∈ l, g x = some y := by
  induction l generalizing r with
  | nil => simp at h; subst h; simp
  | cons a as ih =>
    simp only [List.mapM_cons, Option.bind_eq_bind, Option.pure_def, Option.bind_eq_some_iff] at h
    obtain ⟨x, hx, xs, hxs, h⟩ := h
    cases h
    intro y hy
    rcases List.mem_cons.1 hy with rfl | hy
    · exact ⟨a, by simp, hx⟩
    · obtain ⟨z, hz, hz'⟩ := ih xs hxs y hy
      exact ⟨z, by simp [hz], hz'⟩

/-- whatever the kind of index, the selected positions are inside the axis -/
theorem positions_bound (ix : Idx) (n : Nat) (pos : List Nat) (h : ix.positions n = some pos) :
    ∀ i ∈ pos, i < n := by
  cases ix with
  | slice a b s => exact (sliceIndices_spec a b s n pos h).1
  | mask m =>
    simp only [Idx.positions] at h
    split at h
    · cases h
    · cases h; intro i hi; simp at hi; exact hi.1
  | ints l =>
    simp only [Idx.positions] at h
    intro i hi
    obtain ⟨z, _, hz⟩ := mem_of_mapM_option _ l pos h i hi
    split at hz
    · cases hz; omega
    · split at hz
      · cases hz; omega
      · cases hz

/-- a slice or a boolean mask never selects a position twice (an integer array may) -/
theorem positions_nodup (ix : Idx) (hix : ∀ l, ix ≠ Idx.ints l) (n : Nat) (pos : List Nat)
    (h : ix.positions n = some pos) : pos.Nodup := by
  cases ix with
  | slice a b s => exact (sliceIndices_spec a b s n pos h).2
  | mask m =>
    simp only [Idx.positions] at h
    split at h
    · cases h
    · cases h; exact List.nodup_range.filter _
  | ints l => exact absurd rfl (hix l)

end Arim.Frame
