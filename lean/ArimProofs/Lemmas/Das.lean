import ArimModel.Das
import Mathlib.Algebra.Order.Floor.Ring
import Mathlib.Algebra.Order.Field.Basic
import Mathlib.Algebra.BigOperators.Group.Finset.Basic
import Mathlib.Algebra.BigOperators.Ring.Finset
import Mathlib.Algebra.Order.Ring.Abs
import Mathlib.Algebra.Ring.Parity
import Mathlib.Algebra.Algebra.Defs
import Mathlib.Algebra.BigOperators.GroupWithZero.Action
import Mathlib.Tactic.Module
import Mathlib.Tactic.Linarith
import Mathlib.Tactic.Ring
import Mathlib.Tactic.Push
/-! Helper lemmas for C02 (delay-and-sum model `ArimModel/Das.lean`): the standard
    instantiation of the numerical primitives over a linearly ordered field with floor,
    round-half-even, and the fold-to-sum lemmas. -/

namespace Arim.Das

section
variable {K : Type} [Field K]

/-- samples in the scalar field itself -/
def stdData : Data K K :=
  { zero := 0, add := (· + ·), sub := (· - ·), mul := (· * ·), smul := (· * ·),
    divNat := fun x n => x / (n : K) }

@[simp] theorem stdData_zero : (stdData : Data K K).zero = 0 := rfl
@[simp] theorem stdData_add (x y : K) : (stdData : Data K K).add x y = x + y := rfl
@[simp] theorem stdData_sub (x y : K) : (stdData : Data K K).sub x y = x - y := rfl
@[simp] theorem stdData_mul (x y : K) : (stdData : Data K K).mul x y = x * y := rfl
@[simp] theorem stdData_smul (x y : K) : (stdData : Data K K).smul x y = x * y := rfl
@[simp] theorem stdData_divNat (x : K) (n : Nat) : (stdData : Data K K).divNat x n = x / (n : K) := rfl
end

section
variable {K V : Type} [Field K] [Ring V] [Algebra K V]

/-- samples in a `K`-algebra `V` (e.g. complex samples, real times): `smul` is the scalar action,
`divNat x n = (n : K)⁻¹ • x` -/
def algData : Data K V :=
  { zero := 0, add := (· + ·), sub := (· - ·), mul := (· * ·), smul := (· • ·),
    divNat := fun x n => ((n : K))⁻¹ • x }

@[simp] theorem algData_zero : (algData : Data K V).zero = 0 := rfl
@[simp] theorem algData_add (x y : V) : (algData : Data K V).add x y = x + y := rfl
@[simp] theorem algData_sub (x y : V) : (algData : Data K V).sub x y = x - y := rfl
@[simp] theorem algData_mul (x y : V) : (algData : Data K V).mul x y = x * y := rfl
@[simp] theorem algData_smul (c : K) (y : V) : (algData : Data K V).smul c y = c • y := rfl
@[simp] theorem algData_divNat (x : V) (n : Nat) :
    (algData : Data K V).divNat x n = ((n : K))⁻¹ • x := rfl
end

variable {K : Type} [Field K] [LinearOrder K] [FloorRing K]

/-- round to nearest integer, ties to the even neighbour (CPython / numba `round`) -/
def roundHalfEven (x : K) : Int :=
  let f := ⌊x⌋
  let d := x - (f : K)
  if d < 1 / 2 then f else if 1 / 2 < d then f + 1 else if f % 2 = 0 then f else f + 1

/-- the standard numerical primitives; `sinc` stays a parameter -/
def stdOps (sinc : K → K) : Ops K :=
  { floor := Int.floor, round := roundHalfEven, ofInt := fun z => (z : K), sinc := sinc }

@[simp] theorem stdOps_floor (sinc : K → K) (x : K) : (stdOps sinc).floor x = ⌊x⌋ := rfl
@[simp] theorem stdOps_round (sinc : K → K) (x : K) : (stdOps sinc).round x = roundHalfEven x := rfl
@[simp] theorem stdOps_ofInt (sinc : K → K) (z : Int) : (stdOps sinc).ofInt z = (z : K) := rfl
@[simp] theorem stdOps_sinc (sinc : K → K) (x : K) : (stdOps sinc).sinc x = sinc x := rfl

/-! ### folds are sums -/

theorem foldl_range_add {M : Type*} [AddCommMonoid M] (f : Nat → M) (N : Nat) :
    (List.range N).foldl (fun acc k => acc + f k) 0 = ∑ k ∈ Finset.range N, f k := by
  induction N with
  | zero => simp
  | succ n ih => rw [List.range_succ, List.foldl_append, ih, Finset.sum_range_succ]; rfl

theorem sum_map_range {M : Type*} [AddCommMonoid M] (f : Nat → M) (N : Nat) :
    ((List.range N).map f).sum = ∑ k ∈ Finset.range N, f k := by
  induction N with
  | zero => simp
  | succ n ih =>
    rw [List.range_succ, List.map_append, List.sum_append, ih, Finset.sum_range_succ]; simp

/-! ### round half even -/

theorem roundHalfEven_cases (x : K) :
    (roundHalfEven x = ⌊x⌋ ∧ (x - (⌊x⌋ : K) < 1 / 2 ∨ (x - (⌊x⌋ : K) = 1 / 2 ∧ ⌊x⌋ % 2 = 0))) ∨
    (roundHalfEven x = ⌊x⌋ + 1 ∧
      (1 / 2 < x - (⌊x⌋ : K) ∨ (x - (⌊x⌋ : K) = 1 / 2 ∧ ⌊x⌋ % 2 = 1))) := by
  unfold roundHalfEven
  simp only
  by_cases h1 : x - (⌊x⌋ : K) < 1 / 2
  · left; rw [if_pos h1]; exact ⟨rfl, Or.inl h1⟩
  · rw [if_neg h1]
    by_cases h2 : 1 / 2 < x - (⌊x⌋ : K)
    · right; rw [if_pos h2]; exact ⟨rfl, Or.inl h2⟩
    · rw [if_neg h2]
      have heq : x - (⌊x⌋ : K) = 1 / 2 := le_antisymm (not_lt.mp h2) (not_lt.mp h1)
      by_cases h3 : ⌊x⌋ % 2 = 0
      · left; rw [if_pos h3]; exact ⟨rfl, Or.inr ⟨heq, h3⟩⟩
      · right; rw [if_neg h3]
        have : ⌊x⌋ % 2 = 1 := by omega
        exact ⟨rfl, Or.inr ⟨heq, this⟩⟩

variable [IsStrictOrderedRing K]

/-- the rounded value is within one half -/
theorem roundHalfEven_abs_le (x : K) : |x - (roundHalfEven x : K)| ≤ 1 / 2 := by
  have h0 := Int.floor_le x
  have h1 := Int.lt_floor_add_one x
  rw [abs_le]
  rcases roundHalfEven_cases x with ⟨hr, h | ⟨h, _⟩⟩ | ⟨hr, h | ⟨h, _⟩⟩ <;> rw [hr] <;>
    push_cast <;> constructor <;> linarith

/-- ties go to the even neighbour -/
theorem roundHalfEven_tie_even (x : K) (h : |x - (roundHalfEven x : K)| = 1 / 2) :
    roundHalfEven x % 2 = 0 := by
  have h0 := Int.floor_le x
  have h1 := Int.lt_floor_add_one x
  rcases roundHalfEven_cases x with ⟨hr, h' | ⟨_, h'⟩⟩ | ⟨hr, h' | ⟨_, h'⟩⟩
  · rw [hr] at h
    rw [abs_of_nonneg (by linarith)] at h
    linarith
  · omega
  · rw [hr] at h
    push_cast at h
    rw [abs_of_nonpos (by linarith)] at h
    linarith
  · omega

/-- **Characterisation of round-half-even**: `z` is the rounded value iff it is within one
half of `x` and, in the tie case, even. -/
theorem roundHalfEven_eq_iff (x : K) (z : Int) :
    roundHalfEven x = z ↔ |x - (z : K)| ≤ 1 / 2 ∧ (|x - (z : K)| = 1 / 2 → z % 2 = 0) := by
  constructor
  · rintro rfl
    exact ⟨roundHalfEven_abs_le x, roundHalfEven_tie_even x⟩
  · rintro ⟨hle, htie⟩
    have h0 := Int.floor_le x
    have h1 := Int.lt_floor_add_one x
    rw [abs_le] at hle
    obtain ⟨hl, hu⟩ := hle
    have hfz : ⌊x⌋ ≤ z := by
      have : ((⌊x⌋ : Int) : K) < ((z + 1 : Int) : K) := by push_cast; linarith
      have := Int.cast_lt.mp this
      omega
    have hzf : z ≤ ⌊x⌋ + 1 := by
      have : ((z : Int) : K) < ((⌊x⌋ + 2 : Int) : K) := by push_cast; linarith
      have := Int.cast_lt.mp this
      omega
    have hz : z = ⌊x⌋ ∨ z = ⌊x⌋ + 1 := by omega
    rcases hz with hz | hz
    · rcases roundHalfEven_cases x with ⟨hr, _⟩ | ⟨hr, h | ⟨h, hodd⟩⟩
      · rw [hr, hz]
      · rw [hz] at hu; linarith
      · have : |x - (z : K)| = 1 / 2 := by
          rw [hz, abs_of_nonneg (by linarith)]; exact h
        have := htie this
        omega
    · rcases roundHalfEven_cases x with ⟨hr, h | ⟨h, heven⟩⟩ | ⟨hr, _⟩
      · rw [hz] at hl; push_cast at hl; linarith
      · have : |x - (z : K)| = 1 / 2 := by
          rw [hz]; push_cast
          rw [abs_of_nonpos (by linarith)]; linarith
        have := htie this
        omega
      · rw [hr, hz]

/-- the rounded value is a nearest integer -/
theorem roundHalfEven_nearest (x : K) (z : Int) :
    |x - (roundHalfEven x : K)| ≤ |x - (z : K)| := by
  by_cases hz : |x - (z : K)| < 1 / 2
  · have : roundHalfEven x = z := (roundHalfEven_eq_iff x z).mpr ⟨hz.le, fun h => by linarith⟩
    rw [this]
  · exact (roundHalfEven_abs_le x).trans (not_lt.mp hz)

end Arim.Das
