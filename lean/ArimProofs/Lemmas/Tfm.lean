import ArimModel.Tfm
import ArimProofs.C15
import Mathlib.Algebra.Order.Floor.Ring
import Mathlib.Algebra.BigOperators.Field
import Mathlib.Algebra.BigOperators.Intervals
import Mathlib.Algebra.Order.BigOperators.Ring.Finset
import Mathlib.Algebra.Order.Field.Basic
import Mathlib.Tactic.Ring
import Mathlib.Tactic.Linarith
import Mathlib.Tactic.FieldSimp
/-! Helper lemmas for C12 (TFM pipelines `ArimModel/Tfm.lean` over the delay-and-sum model
    `ArimModel/Das.lean`): standard instances of `Ops`/`Data` on an ordered field, the mean
    aggregation as a `Finset` sum, the per-pair term, scaling of the interpolations, sums over
    pair lists and the expansion of a pair list by reciprocity. -/

namespace Arim.Tfm
open Arim.Das Arim.Frame

/-! ### standard instances -/

section Std
variable {K : Type} [Field K] [LinearOrder K] [FloorRing K]

/-- nearest integer, ties to even (CPython / numba `round`) -/
def roundHalfEven (x : K) : Int :=
  let f := ⌊x⌋
  let d := x - f
  if d < 1/2 then f else if 1/2 < d then f + 1 else if f % 2 = 0 then f else f + 1

/-- the numerical primitives on a linearly ordered field with floor; `sinc` is a parameter -/
def stdOps (sinc : K → K) : Ops K :=
  { floor := Int.floor, round := roundHalfEven, ofInt := fun z => (z : K), sinc := sinc }

@[simp] theorem stdOps_ofInt (sinc : K → K) (z : Int) : (stdOps sinc).ofInt z = (z : K) := rfl
@[simp] theorem stdOps_round (sinc : K → K) (x : K) : (stdOps sinc).round x = roundHalfEven x := rfl
@[simp] theorem stdOps_floor (sinc : K → K) (x : K) : (stdOps sinc).floor x = ⌊x⌋ := rfl
end Std

section Field
variable {K : Type} [Field K]

/-- samples in the scalar field itself -/
def stdData : Data K K :=
  { zero := 0, add := (· + ·), sub := (· - ·), mul := (· * ·), smul := (· * ·),
    divNat := fun x n => x / (n : K) }

theorem foldl_add_range (f : Nat → K) (N : Nat) :
    (List.range N).foldl (fun acc k => acc + f k) 0 = ∑ k ∈ Finset.range N, f k := by
  induction N with
  | zero => simp
  | succ n ih => rw [List.range_succ, List.foldl_append, ih, Finset.sum_range_succ]; rfl

/-- sum of a function of the `k`-th pair over the positions of a list = sum over the list -/
theorem sum_range_getD {M : Type} [AddCommMonoid M] (L : List Pair) (f : Pair → M) (d : Pair) :
    ∑ k ∈ Finset.range L.length, f (L.getD k d) = (L.map f).sum := by
  induction L with
  | nil => simp
  | cons a l ih =>
    rw [List.length_cons, Finset.sum_range_succ']
    simp only [List.getD_cons_succ, List.getD_cons_zero, List.map_cons, List.sum_cons]
    rw [ih, add_comm]

end Field

/-! ### the mean aggregation is a finite sum -/
section Mean
variable {K : Type} [Field K]

/-- **key lemma**: the fold of `dasMean` is the `Finset` sum over the timetraces -/
theorem dasMean_eq_sum (fill : K) (N : Nat) (term : Nat → Option K) :
    dasMean stdData fill N term = (∑ k ∈ Finset.range N, (term k).getD fill) / (N : K) := by
  unfold dasMean
  exact congrArg (· / (N : K)) (foldl_add_range (fun k => (term k).getD fill) N)

end Mean

/-! ### the term of a timetrace depends only on its pair -/
section Term
variable {α β : Type} [Add α] [Sub α] [Mul α] [Div α] [LT α] [DecidableLT α]

/-- interpolation of one timetrace `g` at fractional index `loc` -/
def interpOf (ops : Ops α) (d : Data α β) (it : Interp) (n : Nat) (g : Nat → β) (loc : α) : Option β :=
  match it with
  | .nearest => interpNearest ops n g loc
  | .linear => interpLinearB ops d n g loc
  | .lanczos a => interpLanczos ops d a n g loc

theorem termNoAmp_eq_interpOf (ops : Ops α) (d : Data α β) (p : Problem α β) (it : Interp) (pt k : Nat) :
    termNoAmp ops d p it pt k = interpOf ops d it p.n (p.g k) (locB ops p pt k) := by
  cases it <;> rfl

/-- fractional sample index of the pair `p` at grid point `pt` -/
def pairLoc (ops : Ops α) (ltTx ltRx : Nat → Nat → α) (t0 dt : α) (pt : Nat) (p : Pair) : α :=
  (ltTx pt p.1 + ltRx pt p.2 - t0) * (ops.ofInt 1 / dt)

/-- the delayed sample of the element pair `p`: a function of the pair only -/
def pairTerm (ops : Ops α) (d : Data α β) (G : Nat → Nat → Nat → β) (n : Nat)
    (ltTx ltRx : Nat → Nat → α) (t0 dt : α) (it : Interp) (pt : Nat) (p : Pair) : Option β :=
  interpOf ops d it n (G p.1 p.2) (pairLoc ops ltTx ltRx t0 dt pt p)

theorem term_frameProblem (ops : Ops α) (d : Data α β) (L : List Pair) (G : Nat → Nat → Nat → β)
    (n : Nat) (ltTx ltRx : Nat → Nat → α) (t0 dt : α) (it : Interp) (pt k : Nat) :
    termNoAmp ops d (frameProblem L G n ltTx ltRx t0 dt) it pt k =
      pairTerm ops d G n ltTx ltRx t0 dt it pt (L.getD k (0, 0)) := by
  rw [termNoAmp_eq_interpOf]; rfl

end Term

/-! ### scaling the samples scales the interpolated value -/
section Scale
variable {K : Type} [Field K] [LinearOrder K]

omit [LinearOrder K] in
theorem foldl_scale (w : K) (c : Nat → K) (h : Nat → K) (l : List Nat) (init : K) :
    l.foldl (fun acc k => acc + c k * (w * h k)) (w * init) =
      w * l.foldl (fun acc k => acc + c k * h k) init := by
  induction l generalizing init with
  | nil => rfl
  | cons a l ih =>
    simp only [List.foldl_cons]
    rw [← ih]; congr 1; ring

/-- `interp (w • g) = w • interp g` for the three interpolations; an out-of-window lookup stays
    out of window -/
theorem interpOf_scale (ops : Ops K) (it : Interp) (n : Nat) (g : Nat → K) (w loc : K) :
    interpOf ops stdData it n (fun i => w * g i) loc =
      (interpOf ops stdData it n g loc).map (fun v => w * v) := by
  cases it with
  | nearest =>
    simp only [interpOf, interpNearest]
    split <;> rfl
  | linear =>
    simp only [interpOf, interpLinearB]
    split
    · rfl
    · simp only [Option.map_some, stdData]; congr 1; ring
  | lanczos a =>
    simp only [interpOf, interpLanczos]
    split
    · rfl
    · simp only [Option.map_some, stdData]
      congr 1
      have := foldl_scale w
        (fun k => ops.sinc (loc - ops.ofInt (ops.floor loc - (a : Int) + 1 + (k : Int))) *
          ops.sinc ((loc - ops.ofInt (ops.floor loc - (a : Int) + 1 + (k : Int))) / ops.ofInt a))
        (fun k => g ((ops.floor loc - (a : Int) + 1 + (k : Int)) % (n : Int)).toNat)
        (List.range (2 * a)) 0
      rw [mul_zero] at this
      exact this

theorem interpOf_scale_getD (ops : Ops K) (it : Interp) (n : Nat) (g : Nat → K) (w loc : K) :
    (interpOf ops stdData it n (fun i => w * g i) loc).getD 0 =
      w * (interpOf ops stdData it n g loc).getD 0 := by
  rw [interpOf_scale]
  cases interpOf ops stdData it n g loc <;> simp

end Scale

/-! ### images as sums over the pair list -/
section Sums
variable {K : Type} [Field K] [LinearOrder K]

/-- the unweighted image of a frame is the mean over the pair list of the per-pair terms -/
theorem das_frame_eq_sum (ops : Ops K) (L : List Pair) (G : Nat → Nat → Nat → K) (ns : Nat)
    (ltTx ltRx : Nat → Nat → K) (t0 dt : K) (it : Interp) (fill : K) (pt : Nat) :
    dasNoAmp ops stdData (frameProblem L G ns ltTx ltRx t0 dt) it fill pt =
      (L.map (fun p => (pairTerm ops stdData G ns ltTx ltRx t0 dt it pt p).getD fill)).sum /
        (L.length : K) := by
  unfold dasNoAmp
  rw [dasMean_eq_sum]
  show (∑ k ∈ Finset.range L.length, _) / (L.length : K) = _
  rw [← sum_range_getD L _ (0, 0)]
  simp only [term_frameProblem]

/-- default weight of a pair in a frame: `1` if the mirror pair is recorded, else `2` -/
def weightOf (L : List Pair) (p : Pair) : Nat := if swap p ∈ L then 1 else 2

theorem defaultWeights_getD (L : List Pair) (k : Nat) (hk : k < L.length) :
    (defaultWeights L).getD k 1 = weightOf L (L.getD k (0, 0)) := by
  simp [defaultWeights, weightOf, hk]

/-- `contactTfm` is the mean over the pair list of `weight · term` (the fill value of an
    out-of-window lookup is not weighted) -/
theorem contact_eq_sum_fill (ops : Ops K) (L : List Pair) (G : Nat → Nat → Nat → K) (ns : Nat)
    (lk : Nat → Nat → K) (t0 dt : K) (it : Interp) (fill : K) (pt : Nat) :
    contactTfm ops stdData L G ns lk t0 dt it fill pt =
      (L.map (fun p => ((pairTerm ops stdData G ns lk lk t0 dt it pt p).map
        (fun v => ops.ofInt (weightOf L p : Nat) * v)).getD fill)).sum / (L.length : K) := by
  unfold contactTfm dasNoAmp
  rw [dasMean_eq_sum]
  show (∑ k ∈ Finset.range L.length, _) / (L.length : K) = _
  rw [← sum_range_getD L _ (0, 0)]
  congr 1
  refine Finset.sum_congr rfl (fun k hk => ?_)
  rw [Finset.mem_range] at hk
  rw [termNoAmp_eq_interpOf]
  show (interpOf ops stdData it ns
      (fun i => defaultWeightsS ops L k * G (L.getD k (0, 0)).1 (L.getD k (0, 0)).2 i)
      (pairLoc ops lk lk t0 dt pt (L.getD k (0, 0)))).getD fill = _
  rw [interpOf_scale, defaultWeightsS, defaultWeights_getD L k hk]
  rfl

/-- `contactTfm` with fill `0` is the mean over the pair list of `weight · term` -/
theorem contact_eq_sum (ops : Ops K) (L : List Pair) (G : Nat → Nat → Nat → K) (ns : Nat)
    (lk : Nat → Nat → K) (t0 dt : K) (it : Interp) (pt : Nat) :
    contactTfm ops stdData L G ns lk t0 dt it 0 pt =
      (L.map (fun p => ops.ofInt (weightOf L p : Nat) *
        (pairTerm ops stdData G ns lk lk t0 dt it pt p).getD 0)).sum / (L.length : K) := by
  rw [contact_eq_sum_fill]
  congr 2
  refine List.map_congr_left (fun p _ => ?_)
  cases pairTerm ops stdData G ns lk lk t0 dt it pt p <;> simp

/-- mirror pair with the two tables exchanged: same delayed sample, for reciprocal data -/
theorem pairTerm_swap {β : Type} (ops : Ops K) (d : Data K β) (G : Nat → Nat → Nat → β)
    (hG : ∀ i j s, G i j s = G j i s) (ns : Nat) (A B : Nat → Nat → K) (t0 dt : K)
    (it : Interp) (pt : Nat) (p : Pair) :
    pairTerm ops d G ns A B t0 dt it pt (swap p) = pairTerm ops d G ns B A t0 dt it pt p := by
  have hg : G p.2 p.1 = G p.1 p.2 := funext (fun s => hG p.2 p.1 s)
  simp only [pairTerm, pairLoc, swap, hg, add_comm (A pt p.2) (B pt p.1)]

omit [LinearOrder K] in
theorem ofInt_weightOf (ops : Ops K) (h1 : ops.ofInt 1 = 1) (h2 : ops.ofInt 2 = 2)
    (L : List Pair) (p : Pair) : ops.ofInt (weightOf L p : Nat) = (weightOf L p : K) := by
  unfold weightOf
  split <;> simp [h1, h2]

end Sums

/-! ### expansion of a pair list by reciprocity, and the default weights -/
section Recip

/-- `L` followed by the mirrors of the pairs of `L` whose mirror is not recorded -/
def expandPairs (L : List Pair) : List Pair :=
  L ++ (L.filter (fun p => decide (swap p ∉ L))).map swap

theorem mem_expandPairs (L : List Pair) (p : Pair) :
    p ∈ expandPairs L ↔ p ∈ L ∨ swap p ∈ L := by
  simp only [expandPairs, List.mem_append, List.mem_map, List.mem_filter, decide_eq_true_eq]
  constructor
  · rintro (h | ⟨q, ⟨hq, _⟩, rfl⟩)
    · exact Or.inl h
    · exact Or.inr (by rw [swap_swap]; exact hq)
  · rintro (h | h)
    · exact Or.inl h
    · by_cases hp : p ∈ L
      · exact Or.inl hp
      · exact Or.inr ⟨swap p, ⟨h, by rw [swap_swap]; exact hp⟩, swap_swap p⟩

theorem expandPairs_nodup (L : List Pair) (h : L.Nodup) : (expandPairs L).Nodup := by
  unfold expandPairs
  refine List.Nodup.append h ((h.filter _).map swap_injective) ?_
  intro q hq hq'
  simp only [List.mem_map, List.mem_filter, decide_eq_true_eq] at hq'
  obtain ⟨r, ⟨_, hr⟩, rfl⟩ := hq'
  exact hr hq

/-- any duplicate-free list with the members of `expandPairs L` is a permutation of it -/
theorem perm_expandPairs (L L' : List Pair) (hL : L.Nodup) (hL' : L'.Nodup)
    (hmem : ∀ p, p ∈ L' ↔ (p ∈ L ∨ swap p ∈ L)) : L'.Perm (expandPairs L) := by
  rw [List.perm_ext_iff_of_nodup hL' (expandPairs_nodup L hL)]
  intro p; rw [hmem, mem_expandPairs]

theorem sum_weightOf_aux {M : Type} [CommSemiring M] (L : List Pair) (T : Pair → M) (l : List Pair) :
    (l.map (fun p => (weightOf L p : M) * T p)).sum =
      (l.map T).sum + ((l.filter (fun p => decide (swap p ∉ L))).map T).sum := by
  induction l with
  | nil => simp
  | cons a l ih =>
    rw [List.map_cons, List.sum_cons, ih, List.map_cons, List.sum_cons]
    by_cases h : swap a ∈ L
    · have hw : weightOf L a = 1 := by simp [weightOf, h]
      rw [List.filter_cons_of_neg (by simpa using h), hw]
      simp [add_assoc]
    · have hw : weightOf L a = 2 := by simp [weightOf, h]
      rw [List.filter_cons_of_pos (by simpa using h), hw, List.map_cons, List.sum_cons]
      push_cast; ring

/-- **weighted sum = sum over the expanded list**: for a swap-invariant `T`, weighting each pair
    of `L` by its default weight amounts to summing `T` over `L` and the missing mirrors.
    (No hypothesis on `L`: duplicates are allowed.) -/
theorem weighted_sum_expand {M : Type} [CommSemiring M] (L : List Pair) (T : Pair → M)
    (hT : ∀ p, T (swap p) = T p) :
    (L.map (fun p => (weightOf L p : M) * T p)).sum = ((expandPairs L).map T).sum := by
  rw [sum_weightOf_aux, expandPairs, List.map_append, List.sum_append, List.map_map]
  congr 3
  funext p; exact (hT p).symm

/-- closed under `swap` and duplicate-free: the mirrored list is a permutation -/
theorem map_swap_perm (L : List Pair) (hnd : L.Nodup) (hcl : ∀ p ∈ L, swap p ∈ L) :
    (L.map swap).Perm L := by
  rw [List.perm_ext_iff_of_nodup (hnd.map swap_injective) hnd]
  intro p
  rw [mem_map_swap]
  exact ⟨fun h => by simpa [swap_swap] using hcl _ h, hcl p⟩

theorem weightOf_of_closed (L : List Pair) (hcl : ∀ p ∈ L, swap p ∈ L) (p : Pair) (hp : p ∈ L) :
    weightOf L p = 1 := by simp [weightOf, hcl p hp]

end Recip

/-! ### spike data -/
section Spike
variable {K : Type} [Field K] [LinearOrder K]

/-- the frame whose `k`-th timetrace is a unit spike at the nearest-sample index of the arrival
    time of the grid point `pstar`; tables, `t0`, `dt` are those of `q` -/
def spikeProblem (ops : Ops K) (q : Problem K K) (pstar : Nat) : Problem K K :=
  { q with g := fun k s => if s = (ops.round (locB ops q pstar k)).toNat then 1 else 0 }

/-- on spike data each delayed sample is `1` or `0`: `1` iff the nearest-sample index at `pt`
    is the one at `pstar` -/
theorem spike_term (ops : Ops K) (q : Problem K K) (pstar pt k : Nat)
    (hwin : 0 ≤ ops.round (locB ops q pstar k) ∧ ops.round (locB ops q pstar k) < (q.n : Int)) :
    (termNoAmp ops stdData (spikeProblem ops q pstar) .nearest pt k).getD 0 =
      if ops.round (locB ops q pt k) = ops.round (locB ops q pstar k) then 1 else 0 := by
  show (interpNearest ops q.n
      (fun s => if s = (ops.round (locB ops q pstar k)).toNat then (1 : K) else 0)
      (locB ops q pt k)).getD 0 = _
  unfold interpNearest
  generalize ops.round (locB ops q pt k) = i
  generalize ops.round (locB ops q pstar k) = j at hwin
  simp only
  split_ifs <;> simp <;> omega

end Spike

section Mean2
variable {K : Type} [Field K]

theorem length_mul_div [CharZero K] {ι : Type} (l : List ι) (S : K) (h : l = [] → S = 0) :
    (l.length : K) * (S / (l.length : K)) = S := by
  cases l with
  | nil => simp [h rfl]
  | cons a l =>
    have : ((a :: l).length : K) ≠ 0 := by
      rw [List.length_cons, Nat.cast_succ]; exact Nat.cast_add_one_ne_zero l.length
    rw [mul_div_cancel₀ _ this]

/-- `N · (S / N) = S` as soon as `S` is a sum of `N` terms (also for `N = 0`) -/
theorem length_mul_mean [CharZero K] {ι : Type} (l : List ι) (f : ι → K) :
    (l.length : K) * ((l.map f).sum / (l.length : K)) = (l.map f).sum := by
  cases l with
  | nil => simp
  | cons a l =>
    have : ((a :: l).length : K) ≠ 0 := by
      rw [List.length_cons, Nat.cast_succ]; exact Nat.cast_add_one_ne_zero l.length
    rw [mul_div_cancel₀ _ this]

end Mean2

end Arim.Tfm
