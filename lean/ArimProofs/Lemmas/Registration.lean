import ArimModel.Registration
import Mathlib.Algebra.BigOperators.Group.List.Basic
import Mathlib.Algebra.Order.BigOperators.Group.List
import Mathlib.Algebra.Order.Field.Basic
import Mathlib.Algebra.Order.Ring.Abs
import Mathlib.Data.List.Perm.Basic
import Mathlib.Data.List.Forall2
import Mathlib.Tactic.Ring
import Mathlib.Tactic.FieldSimp
import Mathlib.Tactic.Linarith
import Mathlib.Tactic.Positivity
/-! Helper lemmas for C19 (front-wall registration). -/
namespace Arim.Reg.Lemmas
open Arim.Reg

section sums
variable {K : Type}

theorem foldl_add_eq [AddMonoid K] (a : K) (l : List K) :
    l.foldl (· + ·) a = a + l.sum := by
  induction l generalizing a with
  | nil => simp
  | cons x xs ih => simp [List.foldl_cons, ih, add_assoc]

/-- the model's left fold is `List.sum` -/
theorem sum_eq [AddMonoid K] (l : List K) : sum (0 : K) l = l.sum := by
  simp [sum, foldl_add_eq]

theorem sum_perm [AddCommMonoid K] {l l' : List K} (h : l.Perm l') :
    sum (0 : K) l = sum (0 : K) l' := by
  rw [sum_eq, sum_eq, h.sum_eq]

end sums

section lsq
variable {K : Type} [Field K]

/-- `lsq` of two lists mapped from the same list, as symmetric sums over that list -/
theorem lsq_map {α : Type} (l : List α) (f g : α → K) :
    lsq (0 : K) (fun n => (n : K)) (l.map f) (l.map g) =
      (((l.map g).sum -
          ((l.length : K) * (l.map (fun a => f a * g a)).sum - (l.map f).sum * (l.map g).sum) /
            ((l.length : K) * (l.map (fun a => f a * f a)).sum - (l.map f).sum * (l.map f).sum) *
          (l.map f).sum) / (l.length : K),
        ((l.length : K) * (l.map (fun a => f a * g a)).sum - (l.map f).sum * (l.map g).sum) /
            ((l.length : K) * (l.map (fun a => f a * f a)).sum - (l.map f).sum * (l.map f).sum)) := by
  simp only [lsq, sum_eq, List.length_map, List.zip_map', List.map_map, Function.comp_def]

theorem lsq_perm {α : Type} {l l' : List α} (h : l.Perm l') (f g : α → K) :
    lsq (0 : K) (fun n => (n : K)) (l.map f) (l.map g) =
      lsq (0 : K) (fun n => (n : K)) (l'.map f) (l'.map g) := by
  rw [lsq_map, lsq_map, h.length_eq, (h.map g).sum_eq, (h.map f).sum_eq,
    (h.map (fun a => f a * g a)).sum_eq, (h.map (fun a => f a * f a)).sum_eq]

theorem sum_map_affine (xs : List K) (p0 p1 : K) :
    (xs.map (fun x => p0 + p1 * x)).sum = (xs.length : K) * p0 + p1 * xs.sum := by
  induction xs with
  | nil => simp
  | cons x xs ih => simp only [List.map_cons, List.sum_cons, List.length_cons, Nat.cast_succ, ih]; ring

theorem sum_map_mul_affine {α : Type} (l : List α) (f : α → K) (p0 p1 : K) :
    (l.map (fun a => f a * (p0 + p1 * f a))).sum =
      p0 * (l.map f).sum + p1 * (l.map (fun a => f a * f a)).sum := by
  induction l with
  | nil => simp
  | cons x xs ih => simp only [List.map_cons, List.sum_cons, ih]; ring

/-- least squares through exactly affine data returns the line (general form, data mapped
from an arbitrary list) -/
theorem lsq_exact_map {α : Type} (l : List α) (f : α → K) (p0 p1 : K)
    (hn : (l.length : K) ≠ 0)
    (hD : (l.length : K) * (l.map (fun a => f a * f a)).sum - (l.map f).sum * (l.map f).sum ≠ 0) :
    lsq (0 : K) (fun n => (n : K)) (l.map f) (l.map (fun a => p0 + p1 * f a)) = (p0, p1) := by
  rw [lsq_map, sum_map_mul_affine]
  have hs : (l.map (fun a => p0 + p1 * f a)).sum = (l.length : K) * p0 + p1 * (l.map f).sum := by
    have := sum_map_affine (l.map f) p0 p1
    simpa [List.map_map, Function.comp_def] using this
  rw [hs]
  set n : K := (l.length : K)
  set sx := (l.map f).sum
  set sxx := (l.map (fun a => f a * f a)).sum
  have h1 : (n * (p0 * sx + p1 * sxx) - sx * (n * p0 + p1 * sx)) / (n * sxx - sx * sx) = p1 := by
    rw [div_eq_iff hD]
    ring
  rw [h1]
  congr 1
  field_simp
  ring

end lsq

section denom
variable {K : Type} [Field K]

/-- `n Σx² − (Σx)²` -/
def lsqDen (xs : List K) : K :=
  (xs.length : K) * (xs.map (fun x => x * x)).sum - xs.sum * xs.sum

theorem sum_sq_sub (a : K) (xs : List K) :
    (xs.map (fun x => (a - x) * (a - x))).sum =
      (xs.length : K) * (a * a) - 2 * a * xs.sum + (xs.map (fun x => x * x)).sum := by
  induction xs with
  | nil => simp
  | cons x xs ih => simp only [List.map_cons, List.sum_cons, List.length_cons, Nat.cast_succ, ih]; ring

theorem lsqDen_cons (a : K) (xs : List K) :
    lsqDen (a :: xs) = lsqDen xs + (xs.map (fun x => (a - x) * (a - x))).sum := by
  rw [sum_sq_sub]
  simp only [lsqDen, List.map_cons, List.sum_cons, List.length_cons, Nat.cast_succ]
  ring


variable [LinearOrder K] [IsStrictOrderedRing K]

theorem sum_sq_sub_nonneg (a : K) (xs : List K) :
    0 ≤ (xs.map (fun x => (a - x) * (a - x))).sum := by
  apply List.sum_nonneg
  intro y hy
  obtain ⟨x, -, rfl⟩ := List.mem_map.1 hy
  exact mul_self_nonneg _

theorem lsqDen_nonneg (xs : List K) : 0 ≤ lsqDen xs := by
  induction xs with
  | nil => simp [lsqDen]
  | cons a xs ih => rw [lsqDen_cons]; exact add_nonneg ih (sum_sq_sub_nonneg a xs)

theorem lsqDen_pos (xs : List K) (h : ∃ a ∈ xs, ∃ b ∈ xs, a ≠ b) : 0 < lsqDen xs := by
  cases xs with
  | nil => obtain ⟨a, ha, _⟩ := h; simp at ha
  | cons c xs =>
    rw [lsqDen_cons]
    by_cases hc : ∃ x ∈ xs, x ≠ c
    · obtain ⟨x, hx, hxc⟩ := hc
      have h1 : (c - x) * (c - x) ≤ (xs.map (fun x => (c - x) * (c - x))).sum := by
        apply List.single_le_sum
        · intro y hy
          obtain ⟨x, -, rfl⟩ := List.mem_map.1 hy
          exact mul_self_nonneg _
        · exact List.mem_map.2 ⟨x, hx, rfl⟩
      have h2 : 0 < (c - x) * (c - x) := mul_self_pos.2 (sub_ne_zero.2 (Ne.symm hxc))
      have := lsqDen_nonneg xs
      linarith
    · have hc : ∀ x ∈ xs, x = c := fun x hx => by_contra (fun hne => hc ⟨x, hx, hne⟩)
      exfalso
      obtain ⟨a, ha, b, hb, hab⟩ := h
      have ha' : a = c := by
        rcases List.mem_cons.1 ha with h | h
        · exact h
        · exact hc a h
      have hb' : b = c := by
        rcases List.mem_cons.1 hb with h | h
        · exact h
        · exact hc b h
      exact hab (ha'.trans hb'.symm)

end denom


theorem two_le_length_of_ne {α : Type} {l : List α} {a b : α} (ha : a ∈ l) (hb : b ∈ l)
    (hab : a ≠ b) : 2 ≤ l.length := by
  match l, ha, hb with
  | [], ha, _ => simp at ha
  | [c], ha, hb =>
    simp only [List.mem_singleton] at ha hb
    exact absurd (ha.trans hb.symm) hab
  | _ :: _ :: _, _, _ => simp

section reg
variable {K : Type} [Field K]

/-- `register` when at least two pulse-echo timetraces exist, in terms of the fitted line -/
theorem register_of_lsq {cosOfSin : K → K} {elemX : Nat → K} {numel : Nat}
    {dead : Nat → Bool} {obs : List (Obs K)} (h : 2 ≤ (pulseEcho dead obs).length) {p0 p1 : K}
    (hl : lsq (0 : K) (fun n => (n : K)) ((pulseEcho dead obs).map (fun o => elemX o.tx))
            ((pulseEcho dead obs).map (·.dist)) = (p0, p1)) :
    register (0 : K) (fun n => (n : K)) cosOfSin elemX numel dead obs =
      some (-p0, p1, (List.range numel).map
        (fun e => (elemX e * cosOfSin p1, -(elemX e * p1) + -p0))) := by
  unfold register
  simp only [Nat.not_lt.2 h, if_false, hl]

theorem register_of_short {cosOfSin : K → K} {elemX : Nat → K} {numel : Nat}
    {dead : Nat → Bool} {obs : List (Obs K)} (h : (pulseEcho dead obs).length < 2) :
    register (0 : K) (fun n => (n : K)) cosOfSin elemX numel dead obs = none := by
  unfold register
  simp only [h, if_true]

end reg

section detect
variable {K : Type} [LinearOrder K]

/-- one step of the `argmaxFirst` fold -/
def amStep (st : K × Nat × Nat) (v : K) : K × Nat × Nat :=
  if st.1 < v then (v, st.2.2 + 1, st.2.2 + 1) else (st.1, st.2.1, st.2.2 + 1)

theorem argmaxFirst_cons (x : K) (rest : List K) :
    argmaxFirst (x :: rest) = some ((rest.foldl amStep (x, 0, 0)).2.1) := rfl

/-- fold invariant: `st = (best, bi, i)` after having seen the prefix `pre` -/
def AmInv (pre : List K) (st : K × Nat × Nat) : Prop :=
  st.2.2 + 1 = pre.length ∧ pre[st.2.1]? = some st.1 ∧
    (∀ (j : Nat) v, pre[j]? = some v → v ≤ st.1) ∧ (∀ (j : Nat) v, j < st.2.1 → pre[j]? = some v → v < st.1)

theorem amInv_step {pre : List K} {st : K × Nat × Nat} (h : AmInv pre st) (v : K) :
    AmInv (pre ++ [v]) (amStep st v) := by
  obtain ⟨h1, h2, h3, h4⟩ := h
  have hbi : st.2.1 < pre.length := (List.getElem?_eq_some_iff.1 h2).1
  unfold amStep
  by_cases hv : st.1 < v
  · rw [if_pos hv]
    refine ⟨by simp [h1], by simp [h1], ?_, ?_⟩
    · intro j w hj
      rw [List.getElem?_append] at hj
      split_ifs at hj with hjl
      · exact (lt_of_le_of_lt (h3 j w hj) hv).le
      · have : j - pre.length = 0 := by
          by_contra hne
          rw [List.getElem?_eq_none (by simp; omega)] at hj
          exact absurd hj (by simp)
        rw [this] at hj
        simp at hj
        exact hj.ge
    · intro j w hjlt hj
      simp only at hjlt
      rw [List.getElem?_append, if_pos (by omega)] at hj
      exact lt_of_le_of_lt (h3 j w hj) hv
  · rw [if_neg hv]
    refine ⟨by simp [h1], by rw [List.getElem?_append, if_pos (by simpa using hbi)]; exact h2, ?_, ?_⟩
    · intro j w hj
      rw [List.getElem?_append] at hj
      split_ifs at hj with hjl
      · exact h3 j w hj
      · have : j - pre.length = 0 := by
          by_contra hne
          rw [List.getElem?_eq_none (by simp; omega)] at hj
          exact absurd hj (by simp)
        rw [this] at hj
        simp at hj
        exact hj ▸ not_lt.1 hv
    · intro j w hjlt hj
      simp only at hjlt
      rw [List.getElem?_append, if_pos (by omega)] at hj
      exact h4 j w hjlt hj

theorem amInv_foldl (rest : List K) {pre : List K} {st : K × Nat × Nat} (h : AmInv pre st) :
    AmInv (pre ++ rest) (rest.foldl amStep st) := by
  induction rest generalizing pre st with
  | nil => simpa using h
  | cons v rest ih =>
    have := ih (amInv_step h v)
    simpa [List.append_assoc] using this

/-- `argmaxFirst` returns the first index of the maximum (`getElem?` form) -/
theorem argmaxFirst_spec' {l : List K} {i : Nat} (h : argmaxFirst l = some i) :
    ∃ m, l[i]? = some m ∧ (∀ (j : Nat) v, l[j]? = some v → v ≤ m) ∧
      (∀ (j : Nat) v, j < i → l[j]? = some v → v < m) := by
  cases l with
  | nil => simp [argmaxFirst] at h
  | cons x rest =>
    rw [argmaxFirst_cons] at h
    have h0 : AmInv [x] (x, 0, 0) := by
      refine ⟨rfl, rfl, ?_, ?_⟩
      · intro j v hj
        cases j with
        | zero => simp at hj; exact hj.ge
        | succ j => simp at hj
      · intro j v hj; simp at hj
    have := amInv_foldl rest h0
    obtain ⟨-, h2, h3, h4⟩ := this
    simp only [Option.some.injEq] at h
    rw [h] at h2 h4
    exact ⟨_, h2, h3, h4⟩

theorem argmaxFirst_eq_none_iff {l : List K} : argmaxFirst l = none ↔ l = [] := by
  cases l with
  | nil => simp [argmaxFirst]
  | cons x rest => simp [argmaxFirst_cons]

omit [LinearOrder K] in
/-- length of `takeWhile p` on a list along which `p` is downward closed: `p` holds exactly at
the indices below that length -/
theorem takeWhile_length_spec (p : K → Bool) (l : List K)
    (hmono : l.Pairwise (fun a b => p b = true → p a = true)) :
    ∀ (i : Nat) v, l[i]? = some v → (p v = true ↔ i < (l.takeWhile p).length) := by
  induction l with
  | nil => intro i v h; simp at h
  | cons a l ih =>
    rw [List.pairwise_cons] at hmono
    intro i v h
    by_cases hpa : p a = true
    · rw [List.takeWhile_cons_of_pos hpa]
      cases i with
      | zero => simp at h; simp [← h, hpa]
      | succ j =>
        simp only [List.getElem?_cons_succ] at h
        rw [ih hmono.2 j v h]
        simp
    · rw [List.takeWhile_cons_of_neg hpa]
      simp only [List.length_nil, Nat.not_lt_zero, iff_false]
      cases i with
      | zero => simp at h; rw [← h]; exact hpa
      | succ j =>
        simp only [List.getElem?_cons_succ] at h
        intro hpv
        exact hpa (hmono.1 v (List.mem_of_getElem? h) hpv)

theorem searchLeft_spec' {samples : List K} (hs : samples.Pairwise (· < ·)) (t : K) :
    ∀ (i : Nat) v, samples[i]? = some v → (v < t ↔ i < searchLeft samples t) := by
  intro i v h
  have := takeWhile_length_spec (fun s => decide (s < t)) samples
    (hs.imp (fun {a b} hab hb => by
      simp only [decide_eq_true_eq] at hb ⊢
      exact lt_trans hab hb)) i v h
  simpa [searchLeft] using this

theorem searchRight_spec' {samples : List K} (hs : samples.Pairwise (· < ·)) (t : K) :
    ∀ (i : Nat) v, samples[i]? = some v → (v ≤ t ↔ i < searchRight samples t) := by
  intro i v h
  have := takeWhile_length_spec (fun s => decide (s ≤ t)) samples
    (hs.imp (fun {a b} hab hb => by
      simp only [decide_eq_true_eq] at hb ⊢
      exact le_trans hab.le hb)) i v h
  simpa [searchRight] using this

theorem searchLeft_le_length (samples : List K) (t : K) :
    searchLeft samples t ≤ samples.length := by
  unfold searchLeft
  exact (List.takeWhile_sublist _).length_le

theorem searchRight_le_length (samples : List K) (t : K) :
    searchRight samples t ≤ samples.length := by
  unfold searchRight
  exact (List.takeWhile_sublist _).length_le

end detect

section detect2
variable {K : Type} [LinearOrder K]

omit [LinearOrder K] in
theorem window_getElem? (l : List K) (lo hi k : Nat) :
    ((l.take hi).drop lo)[k]? = if lo + k < hi then l[lo + k]? else none := by
  rw [List.getElem?_drop, List.getElem?_take]

/-- the core of `detectSurface` for an index window `[lo, hi)` -/
theorem detect_window_spec (abs : K → K) (samples tr : List K) (lo hi : Nat) (t : K)
    (h : (argmaxFirst (((tr.take hi).drop lo).map abs)).bind
          (fun i => ((samples.take hi).drop lo)[i]?) = some t) :
    ∃ i y, lo ≤ i ∧ i < hi ∧ samples[i]? = some t ∧ tr[i]? = some y ∧
      (∀ (j : Nat) z, lo ≤ j → j < hi → tr[j]? = some z → abs z ≤ abs y) ∧
      (∀ (j : Nat) z, lo ≤ j → j < i → tr[j]? = some z → abs z < abs y) := by
  obtain ⟨i', hi', ht⟩ := Option.bind_eq_some_iff.1 h
  obtain ⟨m, hm, hmax, hfirst⟩ := argmaxFirst_spec' hi'
  have hdata : ∀ k : Nat, (((tr.take hi).drop lo).map abs)[k]? =
      (if lo + k < hi then tr[lo + k]? else none).map abs := by
    intro k
    rw [List.getElem?_map, window_getElem?]
  rw [window_getElem?] at ht
  rw [hdata] at hm
  by_cases hlt : lo + i' < hi
  · rw [if_pos hlt] at ht hm
    obtain ⟨y, hy, rfl⟩ := Option.map_eq_some_iff.1 hm
    refine ⟨lo + i', y, Nat.le_add_right _ _, hlt, ht, hy, ?_, ?_⟩
    · intro j z hj1 hj2 hz
      apply hmax (j - lo)
      rw [hdata, if_pos (by omega)]
      have : lo + (j - lo) = j := by omega
      rw [this, hz]
      rfl
    · intro j z hj1 hj2 hz
      apply hfirst (j - lo) _ (by omega)
      rw [hdata, if_pos (by omega)]
      have : lo + (j - lo) = j := by omega
      rw [this, hz]
      rfl
  · rw [if_neg hlt] at ht
    exact absurd ht (by simp)

/-- converse: a non-empty index window yields a result -/
theorem detect_window_isSome (abs : K → K) (samples tr : List K) (lo hi : Nat)
    (hlen : tr.length = samples.length) (hhi : hi ≤ samples.length) (hne : lo < hi) :
    ∃ t, (argmaxFirst (((tr.take hi).drop lo).map abs)).bind
          (fun i => ((samples.take hi).drop lo)[i]?) = some t := by
  have hlen_data : (((tr.take hi).drop lo).map abs).length = hi - lo := by
    simp [List.length_drop, List.length_take]; omega
  have hne' : (((tr.take hi).drop lo).map abs) ≠ [] := by
    intro h0
    rw [h0] at hlen_data
    simp at hlen_data
    omega
  cases hA : argmaxFirst (((tr.take hi).drop lo).map abs) with
  | none => exact absurd (argmaxFirst_eq_none_iff.1 hA) hne'
  | some i' =>
    obtain ⟨m, hm, -, -⟩ := argmaxFirst_spec' hA
    have hi' : i' < hi - lo := by
      rw [← hlen_data]
      exact (List.getElem?_eq_some_iff.1 hm).1
    have : lo + i' < samples.length := by omega
    refine ⟨samples[lo + i'], ?_⟩
    simp only [Option.bind_some]
    rw [window_getElem?, if_pos (by omega)]
    exact List.getElem?_eq_getElem this

end detect2

theorem takeWhile_eq_filter_of_mono {α : Type} (p : α → Bool) (l : List α)
    (hmono : l.Pairwise (fun a b => p b = true → p a = true)) :
    l.takeWhile p = l.filter p := by
  induction l with
  | nil => rfl
  | cons a l ih =>
    rw [List.pairwise_cons] at hmono
    by_cases hpa : p a = true
    · rw [List.takeWhile_cons_of_pos hpa, List.filter_cons_of_pos hpa, ih hmono.2]
    · rw [List.takeWhile_cons_of_neg hpa, List.filter_cons_of_neg hpa]
      symm
      rw [List.filter_eq_nil_iff]
      intro b hb hpb
      exact hpa (hmono.1 b hb hpb)

section
variable {K : Type} [LinearOrder K]

theorem searchLeft_eq_countP {samples : List K} (hs : samples.Pairwise (· < ·)) (t : K) :
    searchLeft samples t = samples.countP (fun s => decide (s < t)) := by
  unfold searchLeft
  rw [takeWhile_eq_filter_of_mono, List.countP_eq_length_filter]
  exact hs.imp (fun {a b} hab hb => by
    simp only [decide_eq_true_eq] at hb ⊢
    exact lt_trans hab hb)

theorem searchRight_eq_countP {samples : List K} (hs : samples.Pairwise (· < ·)) (t : K) :
    searchRight samples t = samples.countP (fun s => decide (s ≤ t)) := by
  unfold searchRight
  rw [takeWhile_eq_filter_of_mono, List.countP_eq_length_filter]
  exact hs.imp (fun {a b} hab hb => by
    simp only [decide_eq_true_eq] at hb ⊢
    exact le_trans hab.le hb)
end
end Arim.Reg.Lemmas

