import ArimModel.ScatMat
import Mathlib.Analysis.SpecialFunctions.Trigonometric.Basic
import Mathlib.Analysis.SpecialFunctions.Complex.Log
import Mathlib.Algebra.BigOperators.Group.Finset.Basic
import Mathlib.Algebra.Ring.GeomSum
import Mathlib.Tactic.FieldSimp
import Mathlib.Tactic.Ring
import Mathlib.Tactic.LinearCombination
/-! Helper lemmas for C10: `interp` as a closed bilinear expression of the two `cell`s, the
    segment chosen by the recursion inside `freqInterp`, orthogonality of the roots of unity. -/
namespace Arim.ScatMatLemmas
open Arim.ScatMat

/-! ### the interpolation kernel in closed form -/

theorem interp_eq_cells {K : Type} [Field K] (o : FOps K) (pi : K) (n : ℕ) (m : ℕ → ℕ → K) (inc out : K) :
    interp o pi n m inc out =
      (let ii := (cell o pi n inc).1
       let fi := (cell o pi n inc).2
       let io := (cell o pi n out).1
       let fo := (cell o pi n out).2
       let ii1 := if ii = n - 1 then 0 else ii + 1
       let io1 := if io = n - 1 then 0 else io + 1
       (1 - fi) * (1 - fo) * m io ii + fi * (1 - fo) * m io ii1
        + (1 - fi) * fo * m io1 ii + fi * fo * m io1 ii1) := by
  unfold interp
  rcases cell o pi n inc with ⟨ii, fi⟩
  rcases cell o pi n out with ⟨io, fo⟩
  by_cases h1 : ii = n - 1 <;> by_cases h2 : io = n - 1 <;> simp [h1, h2] <;> ring


/-! ### frequency interpolation -/

section freq
variable {K : Type} [Field K] [LinearOrder K]

theorem freqInterp_cons2 (f0 f1 : K) (fr : List K) (v0 v1 : K) (vr : List K) (f : K) :
    freqInterp (f0 :: f1 :: fr) (v0 :: v1 :: vr) f = some (freqInterp.go f f0 f1 v0 v1 fr vr) := rfl


/-- the recursion `freqInterp.go` returns the chord of segment `k` whenever `f` lies in segment
`k`, where the first segment extends to `-∞` and the last to `+∞` -/
theorem freqInterp_go_spec (f : K) : ∀ (fr vr : List K) (f0 f1 v0 v1 : K),
    ∀ (hlen : fr.length = vr.length), (f0 :: f1 :: fr).Pairwise (· < ·) →
    ∀ (k : ℕ) (hk : k + 1 < (f0 :: f1 :: fr).length),
      (k = 0 ∨ (f0 :: f1 :: fr)[k] ≤ f) → (k + 2 = (f0 :: f1 :: fr).length ∨ f ≤ (f0 :: f1 :: fr)[k+1]) →
      freqInterp.go f f0 f1 v0 v1 fr vr =
        (v0 :: v1 :: vr)[k]'(by simp at hk ⊢; omega) +
          ((v0 :: v1 :: vr)[k+1]'(by simp at hk ⊢; omega) - (v0 :: v1 :: vr)[k]'(by simp at hk ⊢; omega))
            * (f - (f0 :: f1 :: fr)[k]) / ((f0 :: f1 :: fr)[k+1] - (f0 :: f1 :: fr)[k]) := by
  intro fr
  induction fr with
  | nil =>
    intro vr f0 f1 v0 v1 hlen hs k hk _ _
    have : vr = [] := by cases vr <;> simp_all
    subst this
    have : k = 0 := by simp at hk; omega
    subst this
    simp [freqInterp.go]
  | cons f2 fr' ih =>
    intro vr f0 f1 v0 v1 hlen hs k hk hlo hhi
    cases vr with
    | nil => simp at hlen
    | cons v2 vr' =>
      simp only [List.length_cons, Nat.add_right_cancel_iff] at hlen
      rw [freqInterp.go]
      have hs' : (f1 :: f2 :: fr').Pairwise (· < ·) := (List.pairwise_cons.1 hs).2
      have h01 : f0 < f1 := (List.pairwise_cons.1 hs).1 f1 (by simp)
      have h12 : f1 < f2 := (List.pairwise_cons.1 hs').1 f2 (by simp)
      by_cases hf : f ≤ f1
      · rw [if_pos hf]
        rcases k with _ | k
        · simp
        · -- `k+1 ≥ 1`: then `f = f1` and `k = 0`
          have hlo' : (f1 :: f2 :: fr')[k]'(by simp at hk ⊢; omega) ≤ f := by
            rcases hlo with h | h
            · omega
            · simpa using h
          have hk0 : k = 0 := by
            by_contra hne
            obtain ⟨k', rfl⟩ := Nat.exists_eq_succ_of_ne_zero hne
            have hmem : (f1 :: f2 :: fr')[k'+1]'(by simp at hk ⊢; omega) ∈ (f2 :: fr') := by
              simp only [List.getElem_cons_succ]; exact List.getElem_mem _
            have := (List.pairwise_cons.1 hs').1 _ hmem
            exact absurd (lt_of_lt_of_le this hlo') (not_lt.2 hf)
          subst hk0
          have hff : f = f1 := le_antisymm hf (by simpa using hlo')
          subst hff
          have e1 : f - f0 ≠ 0 := sub_ne_zero.2 h01.ne'
          have e2 : f2 - f ≠ 0 := sub_ne_zero.2 h12.ne'
          simp only [List.getElem_cons_succ, List.getElem_cons_zero, sub_self, mul_zero, zero_div, add_zero]
          field_simp
          ring
      · rw [if_neg hf]
        rcases k with _ | k
        · exfalso
          rcases hhi with h | h
          · simp at h
          · simp at h; exact hf h
        · have := ih vr' f1 f2 v1 v2 hlen hs' k (by simpa using hk)
            (by
              rcases Nat.eq_zero_or_pos k with h | h
              · exact Or.inl h
              · right
                rcases hlo with h' | h'
                · omega
                · simpa using h')
            (by
              rcases hhi with h | h
              · left; simp at h ⊢; omega
              · right; simpa using h)
          simpa using this

end freq

/-! ### roots of unity -/

section roots
open Complex Finset
open scoped Real

/-- orthogonality of the `n`-th roots of unity -/
theorem sum_exp_eq_zero (n : ℕ) (d : ℤ) (hd : ¬ (n : ℤ) ∣ d) (hn : n ≠ 0) :
    ∑ k ∈ range n, exp (2 * π * I * (d * k / n)) = 0 := by
  have hn' : (n : ℂ) ≠ 0 := by exact_mod_cast hn
  set ζ : ℂ := exp (2 * π * I * (d / n)) with hζ
  have h1 : ∀ k : ℕ, exp (2 * π * I * (d * k / n)) = ζ ^ k := by
    intro k
    rw [hζ, ← exp_nat_mul]
    congr 1
    ring
  simp_rw [h1]
  have hζn : ζ ^ n = 1 := by
    rw [hζ, ← exp_nat_mul]
    have : (n : ℂ) * (2 * π * I * (d / n)) = d * (2 * π * I) := by field_simp
    rw [this, exp_int_mul_two_pi_mul_I]
  have hζ1 : ζ ≠ 1 := by
    intro h
    rw [hζ, exp_eq_one_iff] at h
    obtain ⟨q, hq⟩ := h
    apply hd
    refine ⟨q, ?_⟩
    have h2 : (2 * π * I : ℂ) ≠ 0 := two_pi_I_ne_zero
    have : (d : ℂ) = n * q := by
      field_simp at hq
      linear_combination hq
    exact_mod_cast this
  have := geom_sum_mul ζ n
  rw [hζn, sub_self] at this
  exact (mul_eq_zero.1 this).resolve_right (sub_ne_zero.2 hζ1)

end roots

end Arim.ScatMatLemmas
