import Mathlib.Analysis.SpecialFunctions.Trigonometric.ArctanDeriv
import Mathlib.Analysis.SpecialFunctions.Trigonometric.InverseDeriv
import Mathlib.Analysis.SpecialFunctions.Sqrt
/-! # Infinitesimal ray pencils at a planar interface (helper lemmas for C06)

2-D, interface = the line `y = 0`, abscissa `s` along it. A point source sits at `S = (a, h)`, `h > 0`.
All dot products are written out in coordinates; every function is scalar valued. -/
namespace Arim.Pencil
open Real

/-- signed incidence angle (from the normal) of the ray from `S = (a, h)` to `P(s) = (s, 0)` -/
noncomputable def th1 (a h s : ℝ) : ℝ := Real.arctan ((s - a) / h)

/-- length of the ray from `S = (a, h)` to `P(s) = (s, 0)` -/
noncomputable def rho1 (a h s : ℝ) : ℝ := Real.sqrt ((s - a) ^ 2 + h ^ 2)

/-- transmitted (or reflected) angle given by Snell's law `sin th2 = κ sin th1`, `κ = vOut / vIn` -/
noncomputable def th2 (a h κ s : ℝ) : ℝ := Real.arcsin (κ * Real.sin (th1 a h s))

/-- **Transmission.** `F(s) = (V0 - P(s)) ⬝ n(s)` with `V0 = P(s0) - ρ2 • d(s0)`,
`d(s) = (sin th2(s), -cos th2(s))`, `n(s) = (cos th2(s), sin th2(s))`: the signed distance of the candidate
virtual source `V0` from the transmitted ray through `P(s)`. -/
noncomputable def F (a h κ s0 ρ2 s : ℝ) : ℝ :=
  ((s0 - ρ2 * Real.sin (th2 a h κ s0)) - s) * Real.cos (th2 a h κ s)
    + ((0 - ρ2 * (-Real.cos (th2 a h κ s0))) - 0) * Real.sin (th2 a h κ s)

/-- **Reflection.** Same with `d(s) = (sin th2(s), +cos th2(s))`, `n(s) = (cos th2(s), -sin th2(s))`
(the mirror image `y ↦ -y` of the transmission picture). -/
noncomputable def Frefl (a h κ s0 ρ2 s : ℝ) : ℝ :=
  ((s0 - ρ2 * Real.sin (th2 a h κ s0)) - s) * Real.cos (th2 a h κ s)
    + ((0 - ρ2 * Real.cos (th2 a h κ s0)) - 0) * (-Real.sin (th2 a h κ s))

/-- the interface factor of the pencil: `cos² th2 / (κ cos² th1)` -/
noncomputable def gam (a h κ s0 : ℝ) : ℝ :=
  Real.cos (th2 a h κ s0) ^ 2 / (κ * Real.cos (th1 a h s0) ^ 2)

/-! ## elementary facts -/

theorem rho1_pos {a h : ℝ} (hh : 0 < h) (s : ℝ) : 0 < rho1 a h s := by
  unfold rho1; positivity

theorem rho1_sq {a h : ℝ} (s : ℝ) : rho1 a h s ^ 2 = (s - a) ^ 2 + h ^ 2 := by
  unfold rho1; exact Real.sq_sqrt (by positivity)

theorem one_add_sq_div {a h : ℝ} (hh : 0 < h) (s : ℝ) :
    1 + ((s - a) / h) ^ 2 = rho1 a h s ^ 2 / h ^ 2 := by
  rw [rho1_sq]; field_simp; ring

/-- `cos th1 = h / rho1` -/
theorem cos_th1 {a h : ℝ} (hh : 0 < h) (s : ℝ) : Real.cos (th1 a h s) = h / rho1 a h s := by
  unfold th1
  rw [Real.cos_arctan, one_add_sq_div hh, Real.sqrt_div (sq_nonneg _), Real.sqrt_sq (rho1_pos hh s).le,
    Real.sqrt_sq hh.le, one_div, inv_div]

/-- `sin th1 = (s - a) / rho1` -/
theorem sin_th1 {a h : ℝ} (hh : 0 < h) (s : ℝ) : Real.sin (th1 a h s) = (s - a) / rho1 a h s := by
  unfold th1
  rw [Real.sin_arctan, one_add_sq_div hh, Real.sqrt_div (sq_nonneg _), Real.sqrt_sq (rho1_pos hh s).le,
    Real.sqrt_sq hh.le]
  have : rho1 a h s ≠ 0 := (rho1_pos hh s).ne'
  field_simp

theorem cos_th1_pos (a h s : ℝ) : 0 < Real.cos (th1 a h s) := Real.cos_arctan_pos _

/-- the geometric meaning of `F`'s zero: `F s0 = 0` for every candidate distance -/
theorem F_self (a h κ s0 ρ2 : ℝ) : F a h κ s0 ρ2 s0 = 0 := by
  unfold F; ring

theorem Frefl_eq_F (a h κ s0 ρ2 : ℝ) : Frefl a h κ s0 ρ2 = F a h κ s0 ρ2 := by
  funext s; unfold Frefl F; ring

/-- Snell's law holds for `th2` when `|κ sin th1| ≤ 1` -/
theorem sin_th2 {a h κ s : ℝ} (hk : |κ * Real.sin (th1 a h s)| < 1) :
    Real.sin (th2 a h κ s) = κ * Real.sin (th1 a h s) := by
  have := abs_lt.1 hk
  exact Real.sin_arcsin this.1.le this.2.le

/-- below the critical angle the transmitted ray is not grazing -/
theorem cos_th2_pos {a h κ s : ℝ} (hk : |κ * Real.sin (th1 a h s)| < 1) :
    0 < Real.cos (th2 a h κ s) := by
  unfold th2
  rw [Real.cos_arcsin]
  apply Real.sqrt_pos.2
  have := (sq_lt_one_iff_abs_lt_one _).2 hk
  linarith

theorem gam_pos {a h κ s0 : ℝ} (hκ : 0 < κ) (hk : |κ * Real.sin (th1 a h s0)| < 1) :
    0 < gam a h κ s0 := by
  have h1 := cos_th1_pos a h s0
  have h2 := cos_th2_pos hk
  unfold gam; positivity

/-! ## derivatives -/

/-- **Incoming pencil**: `dth1/ds = cos th1 / rho1` -/
theorem hasDerivAt_th1 {a h : ℝ} (hh : 0 < h) (s0 : ℝ) :
    HasDerivAt (th1 a h) (Real.cos (th1 a h s0) / rho1 a h s0) s0 := by
  have hlin : HasDerivAt (fun s : ℝ => (s - a) / h) (1 / h) s0 :=
    ((hasDerivAt_id s0).sub_const a).div_const h
  have := (Real.hasDerivAt_arctan ((s0 - a) / h)).comp s0 hlin
  have hr : rho1 a h s0 ≠ 0 := (rho1_pos hh s0).ne'
  refine HasDerivAt.congr_deriv (f := th1 a h) this ?_
  rw [cos_th1 hh, one_add_sq_div hh]
  field_simp

/-- the same written `cos² th1 / h` -/
theorem cos_div_rho1 {a h : ℝ} (hh : 0 < h) (s0 : ℝ) :
    Real.cos (th1 a h s0) / rho1 a h s0 = Real.cos (th1 a h s0) ^ 2 / h := by
  have hr : rho1 a h s0 ≠ 0 := (rho1_pos hh s0).ne'
  rw [cos_th1 hh]; field_simp

/-- **Snell's law differentiated**: `dth2/ds = κ cos th1 / cos th2 · dth1/ds` -/
theorem hasDerivAt_th2 {a h κ : ℝ} (hh : 0 < h) (s0 : ℝ) (hk : |κ * Real.sin (th1 a h s0)| < 1) :
    HasDerivAt (th2 a h κ)
      (κ * Real.cos (th1 a h s0) / Real.cos (th2 a h κ s0) * (Real.cos (th1 a h s0) / rho1 a h s0)) s0 := by
  have hlt := abs_lt.1 hk
  have hin : HasDerivAt (fun s => κ * Real.sin (th1 a h s))
      (κ * (Real.cos (th1 a h s0) * (Real.cos (th1 a h s0) / rho1 a h s0))) s0 :=
    ((Real.hasDerivAt_sin _).comp s0 (hasDerivAt_th1 hh s0)).const_mul κ
  have := (Real.hasDerivAt_arcsin hlt.1.ne' hlt.2.ne).comp s0 hin
  refine HasDerivAt.congr_deriv (f := th2 a h κ) this ?_
  have hc : Real.cos (th2 a h κ s0) = √(1 - (κ * Real.sin (th1 a h s0)) ^ 2) := by
    unfold th2; rw [Real.cos_arcsin]
  rw [← hc]
  have := (cos_th2_pos hk).ne'
  field_simp

/-- `dth2/ds ≠ 0` : neighbouring transmitted rays are never parallel -/
theorem th2_deriv_pos {a h κ : ℝ} (hh : 0 < h) (hκ : 0 < κ) (s0 : ℝ)
    (hk : |κ * Real.sin (th1 a h s0)| < 1) :
    0 < κ * Real.cos (th1 a h s0) / Real.cos (th2 a h κ s0) * (Real.cos (th1 a h s0) / rho1 a h s0) := by
  have h1 := cos_th1_pos a h s0
  have h2 := cos_th2_pos hk
  have h3 : 0 < rho1 a h s0 := rho1_pos hh s0
  positivity

/-- derivative of `F` at `s0` for an arbitrary candidate distance: `-(cos th2) + ρ2 · th2'(s0)` -/
theorem hasDerivAt_F {a h κ : ℝ} (hh : 0 < h) (s0 ρ2 : ℝ) (hk : |κ * Real.sin (th1 a h s0)| < 1) :
    HasDerivAt (F a h κ s0 ρ2)
      (-Real.cos (th2 a h κ s0) + ρ2 *
        (κ * Real.cos (th1 a h s0) / Real.cos (th2 a h κ s0) * (Real.cos (th1 a h s0) / rho1 a h s0))) s0 := by
  have hθ := hasDerivAt_th2 hh s0 hk
  generalize κ * Real.cos (th1 a h s0) / Real.cos (th2 a h κ s0) * (Real.cos (th1 a h s0) / rho1 a h s0) = D
    at hθ ⊢
  have hcos := (Real.hasDerivAt_cos _).comp s0 hθ
  have hsin := (Real.hasDerivAt_sin _).comp s0 hθ
  have hA : HasDerivAt (fun s => (s0 - ρ2 * Real.sin (th2 a h κ s0)) - s) (-1) s0 := by
    simpa using (hasDerivAt_id s0).const_sub (s0 - ρ2 * Real.sin (th2 a h κ s0))
  have := (hA.mul hcos).add (hsin.const_mul ((0 - ρ2 * (-Real.cos (th2 a h κ s0))) - 0))
  refine HasDerivAt.congr_deriv (f := F a h κ s0 ρ2) this ?_
  have := Real.sin_sq_add_cos_sq (th2 a h κ s0)
  simp only [Function.comp_apply]
  linear_combination (ρ2 * D) * this

end Arim.Pencil
