import ArimModel.Weights
import Mathlib.Algebra.BigOperators.Field
import Mathlib.Algebra.BigOperators.Ring.Finset
import Mathlib.Algebra.BigOperators.Intervals
import Mathlib.Tactic.FieldSimp
import Mathlib.Tactic.Ring
import Mathlib.Tactic.LinearCombination
/-! Helper lemmas on the path-term model `ArimModel/Weights.lean` (C06, C07). -/
namespace Arim.Weights
open Arim.Iface

/-! ## attenuation: the fold is a sum -/
section atten
variable {K : Type} [CommRing K]

theorem foldl_sub_eq (l : List (K × K)) (z : K) :
    l.foldl (fun acc p => acc - p.1 * p.2) z = z - (l.map (fun p => p.1 * p.2)).sum := by
  induction l generalizing z with
  | nil => simp
  | cons p l ih => simp [ih]; ring

end atten

/-! ## transmission/reflection product: the monadic fold is a product -/
section accmul
variable {C : Type} [CommMonoid C]

/-- one step of the accumulator of `transRefl` -/
def accMul (acc : Option C) (c : C) : Option C :=
  match acc with | none => some c | some a => some (a * c)

theorem foldl_accMul_some (cs : List C) (a : C) :
    cs.foldl accMul (some a) = some (a * cs.prod) := by
  induction cs generalizing a with
  | nil => simp
  | cons c cs ih => simp [accMul, ih, mul_assoc]

theorem foldl_accMul_none (cs : List C) :
    cs.foldl accMul none = if cs = [] then none else some cs.prod := by
  cases cs with
  | nil => simp
  | cons c cs => simp [accMul, foldl_accMul_some]

end accmul

section prod
variable {C : Type} [CommMonoid C] [Add C] [Sub C] [Div C] [Neg C]

/-- the value of a coefficient, `1` for an error (only used where there is no error) -/
def coefVal (t : CTrig C) (m : Media C) (disp : Bool) (s : IfaceSpec C) : C :=
  match coef t m disp s with | .ok c => c | .error _ => 1

theorem transmissionAt_error {t : CTrig C} {m : Media C} {k : Kind} {mi mo : Mode} {a : C} {d : Bool}
    {e : IErr} (h : transmissionAt t m k mi mo a d = .error e) : e = .physics := by
  cases k <;> cases mi <;> cases mo <;> simp [transmissionAt] at h <;> exact h.symm

theorem reflectionAt_ok (t : CTrig C) (m : Media C) (k : Kind) (mi mo : Mode) (a : C) (d : Bool) :
    ∃ c, reflectionAt t m k mi mo a d = .ok c := by
  cases k <;> exact ⟨_, rfl⟩

/-- the only error a coefficient can raise is `physics` -/
theorem coef_error {t : CTrig C} {m : Media C} {disp : Bool} {s : IfaceSpec C} {e : IErr}
    (h : coef t m disp s = .error e) : e = .physics := by
  unfold coef at h
  split at h
  · exact transmissionAt_error h
  · obtain ⟨c, hc⟩ := reflectionAt_ok t m s.kind s.modeIn s.modeOut s.theta disp
    rw [hc] at h; cases h

theorem coef_cases (t : CTrig C) (m : Media C) (disp : Bool) (s : IfaceSpec C) :
    coef t m disp s = .ok (coefVal t m disp s) ∨ coef t m disp s = .error .physics := by
  unfold coefVal
  cases h : coef t m disp s with
  | ok c => left; rfl
  | error e => right; rw [coef_error h]

/-- the step function of `transRefl` -/
def trStep (t : CTrig C) (m : Media C) (disp : Bool) (acc : Option C) (s : IfaceSpec C) :
    Except IErr (Option C) := do
  let c ← coef t m disp s
  pure (match acc with | none => some c | some a => some (a * c))

theorem transRefl_eq_foldlM (t : CTrig C) (m : Media C) (disp : Bool) (specs : List (IfaceSpec C)) :
    transRefl t m disp specs = specs.foldlM (trStep t m disp) none := rfl

theorem trStep_ok {t : CTrig C} {m : Media C} {disp : Bool} {s : IfaceSpec C} {c : C}
    (h : coef t m disp s = .ok c) (acc : Option C) :
    trStep t m disp acc s = .ok (accMul acc c) := by
  unfold trStep accMul; rw [h]; rfl

theorem trStep_error {t : CTrig C} {m : Media C} {disp : Bool} {s : IfaceSpec C} {e : IErr}
    (h : coef t m disp s = .error e) (acc : Option C) :
    trStep t m disp acc s = .error e := by
  unfold trStep; rw [h]; rfl

theorem foldlM_trStep_ok (t : CTrig C) (m : Media C) (disp : Bool) (l : List (IfaceSpec C))
    (h : ∀ s ∈ l, coef t m disp s = .ok (coefVal t m disp s)) (acc : Option C) :
    l.foldlM (trStep t m disp) acc = .ok ((l.map (coefVal t m disp)).foldl accMul acc) := by
  induction l generalizing acc with
  | nil => rfl
  | cons s l ih =>
    rw [List.foldlM_cons, trStep_ok (h s (by simp))]
    exact ih (fun s' hs' => h s' (by simp [hs'])) _

theorem foldlM_trStep_error (t : CTrig C) (m : Media C) (disp : Bool) (l : List (IfaceSpec C))
    (h : ∃ s ∈ l, coef t m disp s = .error .physics) (acc : Option C) :
    l.foldlM (trStep t m disp) acc = .error .physics := by
  induction l generalizing acc with
  | nil => simp at h
  | cons s l ih =>
    rw [List.foldlM_cons]
    rcases coef_cases t m disp s with hs | hs
    · rw [trStep_ok hs]
      obtain ⟨s', hs', he⟩ := h
      rcases List.mem_cons.1 hs' with rfl | hmem
      · rw [hs] at he; cases he
      · exact ih ⟨s', hmem, he⟩ _
    · rw [trStep_error hs]; rfl

/-- all coefficients defined: the product of the coefficients (`none` for no interface) -/
theorem transRefl_ok (t : CTrig C) (m : Media C) (disp : Bool) (l : List (IfaceSpec C))
    (h : ∀ s ∈ l, coef t m disp s = .ok (coefVal t m disp s)) :
    transRefl t m disp l =
      .ok (if l = [] then none else some (l.map (coefVal t m disp)).prod) := by
  rw [transRefl_eq_foldlM, foldlM_trStep_ok t m disp l h, foldl_accMul_none]
  simp

theorem transRefl_error (t : CTrig C) (m : Media C) (disp : Bool) (l : List (IfaceSpec C))
    (h : ∃ s ∈ l, coef t m disp s = .error .physics) :
    transRefl t m disp l = .error .physics :=
  foldlM_trStep_error t m disp l h none

theorem transRefl_reverse (t : CTrig C) (m : Media C) (disp : Bool) (l : List (IfaceSpec C)) :
    transRefl t m disp l.reverse = transRefl t m disp l := by
  by_cases h : ∀ s ∈ l, coef t m disp s = .ok (coefVal t m disp s)
  · rw [transRefl_ok t m disp l h,
      transRefl_ok t m disp l.reverse (fun s hs => h s (List.mem_reverse.1 hs))]
    simp [List.map_reverse, List.prod_reverse]
  · have h' : ∃ s ∈ l, coef t m disp s = .error .physics := by
      by_contra hne
      apply h
      intro s hs
      rcases coef_cases t m disp s with h1 | h1
      · exact h1
      · exact absurd ⟨s, hs, h1⟩ hne
    rw [transRefl_error t m disp l h', transRefl_error t m disp l.reverse]
    obtain ⟨s, hs, he⟩ := h'
    exact ⟨s, List.mem_reverse.2 hs, he⟩

end prod

/-! ## virtual distance: the nested loops as a closed formula -/
section vd
variable {K : Type} [Field K]

theorem foldl_range_add (f : ℕ → K) (n : ℕ) (z : K) :
    (List.range n).foldl (fun acc k => acc + f k) z = z + ∑ k ∈ Finset.range n, f k := by
  induction n with
  | zero => simp
  | succ n ih =>
    rw [List.range_succ, List.foldl_append, ih, Finset.sum_range_succ]
    simp [add_assoc]

theorem take_prod_eq (gs : List K) (n : ℕ) :
    (gs.take n).prod = ∏ i ∈ Finset.range n, gs.getD i 1 := by
  induction gs generalizing n with
  | nil => simp
  | cons g gs ih =>
    cases n with
    | zero => simp
    | succ n => rw [List.take_succ_cons, List.prod_cons, ih, Finset.prod_range_succ']; simp [mul_comm]

/-- list form of the closed formula -/
theorem virtualDistance_cons_take (r₁ : K) (rest gs : List K) :
    virtualDistance 1 (r₁ :: rest) gs =
      r₁ + ∑ k ∈ Finset.range rest.length, rest.getD k 1 / (gs.take (k + 1)).prod := by
  unfold virtualDistance
  simp only
  rw [foldl_range_add (fun k => rest.getD k 1 / (gs.take (k + 1)).foldl (· * ·) 1)]
  congr 1
  apply Finset.sum_congr rfl
  intro k _
  rw [List.prod_eq_foldl]

/-- one interface and one leg: `ρ ↦ γ ρ + r`, the rest of the path sees the tube divided by `γ` -/
theorem virtualDistance_step (ρ r γ : K) (rest gs : List K) (hγ : γ ≠ 0) :
    virtualDistance 1 (ρ :: r :: rest) (γ :: gs) = virtualDistance 1 ((γ * ρ + r) :: rest) gs / γ := by
  rw [virtualDistance_cons_take, virtualDistance_cons_take, List.length_cons, Finset.sum_range_succ']
  simp only [List.getD_cons_succ, List.take_succ_cons, List.prod_cons, List.getD_cons_zero,
    List.take_zero, List.prod_nil, mul_one]
  have : ∀ k, rest.getD k 1 / (γ * (gs.take (k + 1)).prod) = rest.getD k 1 / (gs.take (k + 1)).prod / γ := by
    intro k; rw [div_div, mul_comm]
  simp only [this]
  rw [← Finset.sum_div]
  generalize (∑ k ∈ Finset.range rest.length, rest.getD k 1 / (gs.take (k + 1)).prod) = S
  field_simp
  ring

/-- no interface factor left: the legs add up -/
theorem virtualDistance_step_nil (ρ r : K) (rest : List K) :
    virtualDistance 1 (ρ :: r :: rest) [] = virtualDistance 1 ((ρ + r) :: rest) [] := by
  rw [virtualDistance_cons_take, virtualDistance_cons_take, List.length_cons, Finset.sum_range_succ']
  simp
  ring

end vd

/-! ## per-interface lists: `gammas` and `revGammas` as instances of one recursion -/
section ifacemap
variable {K : Type}

/-- apply `f v_in v_out θ` at every interior interface of a path -/
def ifaceMap (f : K → K → K → K) : List K → List K → List K
  | v0 :: v1 :: vs, th :: ths => f v0 v1 th :: ifaceMap f (v1 :: vs) ths
  | _, _ => []

/-- a relation `P v_in v_out θ φ` holds at every interior interface of a path with two angle lists -/
def IfaceAll (P : K → K → K → K → Prop) : List K → List K → List K → Prop
  | v0 :: v1 :: vs, th :: ths, ph :: phs => P v0 v1 th ph ∧ IfaceAll P (v1 :: vs) ths phs
  | _, _, _ => True

theorem ifaceMap_append (f : K → K → K → K) (L : List K) (a x th : K) (ths : List K)
    (h : ths.length = L.length) :
    ifaceMap f (L ++ [a, x]) (ths ++ [th]) = ifaceMap f (L ++ [a]) ths ++ [f a x th] := by
  induction L generalizing ths with
  | nil =>
    cases ths with
    | nil => simp [ifaceMap]
    | cons _ _ => simp at h
  | cons b L ih =>
    cases ths with
    | nil => simp at h
    | cons th' ths =>
      have h' : ths.length = L.length := by simpa using h
      cases L with
      | nil =>
        cases ths with
        | nil => simp [ifaceMap]
        | cons _ _ => simp at h'
      | cons c L =>
        have := ih ths h'
        simp only [List.cons_append] at this ⊢
        simp only [ifaceMap, this, List.cons_append]

theorem ifaceMap_reverse (f : K → K → K → K) (vels thetas : List K)
    (h : thetas.length + 1 = vels.length) :
    ifaceMap f vels.reverse thetas.reverse = (ifaceMap (fun a b th => f b a th) vels thetas).reverse := by
  induction vels generalizing thetas with
  | nil => simp at h
  | cons v0 vs ih =>
    cases vs with
    | nil =>
      have : thetas = [] := by cases thetas <;> simp_all
      subst this; simp [ifaceMap]
    | cons v1 vs =>
      cases thetas with
      | nil => simp at h
      | cons th ths =>
        have h' : ths.length + 1 = (v1 :: vs).length := by simpa using h
        have e1 : (v0 :: v1 :: vs).reverse = vs.reverse ++ [v1, v0] := by simp
        have e2 : (th :: ths).reverse = ths.reverse ++ [th] := by simp
        rw [e1, e2, ifaceMap_append f _ _ _ _ _ (by simpa using h')]
        have e3 : vs.reverse ++ [v1] = (v1 :: vs).reverse := by simp
        rw [e3, ih ths h']
        simp [ifaceMap]

theorem ifaceMap_congr (f g : K → K → K → K) (vels thetas phis : List K)
    (hlen : thetas.length = phis.length)
    (h : IfaceAll (fun v0 v1 th ph => f v0 v1 th = g v0 v1 ph) vels thetas phis) :
    ifaceMap f vels thetas = ifaceMap g vels phis := by
  induction vels generalizing thetas phis with
  | nil => simp [ifaceMap]
  | cons v0 vs ih =>
    cases vs with
    | nil => simp [ifaceMap]
    | cons v1 vs =>
      cases thetas with
      | nil =>
        have : phis = [] := by cases phis <;> simp_all
        subst this; simp [ifaceMap]
      | cons th ths =>
        cases phis with
        | nil => simp at hlen
        | cons ph phs =>
          obtain ⟨h1, h2⟩ := h
          simp only [ifaceMap, h1, ih ths phs (by simpa using hlen) h2]

theorem IfaceAll_mono {P Q : K → K → K → K → Prop} (hPQ : ∀ a b c d, P a b c d → Q a b c d)
    (vels thetas phis : List K) (h : IfaceAll P vels thetas phis) : IfaceAll Q vels thetas phis := by
  induction vels generalizing thetas phis with
  | nil => simp [IfaceAll]
  | cons v0 vs ih =>
    cases vs with
    | nil => simp [IfaceAll]
    | cons v1 vs =>
      cases thetas with
      | nil => simp [IfaceAll]
      | cons th ths =>
        cases phis with
        | nil => simp [IfaceAll]
        | cons ph phs => exact ⟨hPQ _ _ _ _ h.1, ih ths phs h.2⟩

theorem ifaceMap_map (f : K → K → K → K) (g : K → K) (vels thetas : List K) :
    (ifaceMap f vels thetas).map g = ifaceMap (fun a b th => g (f a b th)) vels thetas := by
  induction vels generalizing thetas with
  | nil => simp [ifaceMap]
  | cons v0 vs ih =>
    cases vs with
    | nil => simp [ifaceMap]
    | cons v1 vs =>
      cases thetas with
      | nil => simp [ifaceMap]
      | cons th ths => simp only [ifaceMap, List.map_cons, ih]

theorem ifaceMap_length (f : K → K → K → K) (vels thetas : List K)
    (h : thetas.length + 1 = vels.length) : (ifaceMap f vels thetas).length = thetas.length := by
  induction vels generalizing thetas with
  | nil => simp at h
  | cons v0 vs ih =>
    cases vs with
    | nil =>
      have : thetas = [] := by cases thetas <;> simp_all
      subst this; simp [ifaceMap]
    | cons v1 vs =>
      cases thetas with
      | nil => simp at h
      | cons th ths => simp only [ifaceMap, List.length_cons, ih ths (by simpa using h)]

theorem IfaceAll_and_mem {P : K → K → K → K → Prop} {Q : K → Prop} (vels thetas phis : List K)
    (hQ : ∀ v ∈ vels, Q v) (h : IfaceAll P vels thetas phis) :
    IfaceAll (fun a b c d => Q a ∧ Q b ∧ P a b c d) vels thetas phis := by
  induction vels generalizing thetas phis with
  | nil => simp [IfaceAll]
  | cons v0 vs ih =>
    cases vs with
    | nil => simp [IfaceAll]
    | cons v1 vs =>
      cases thetas with
      | nil => simp [IfaceAll]
      | cons th ths =>
        cases phis with
        | nil => simp [IfaceAll]
        | cons ph phs =>
          exact ⟨⟨hQ v0 (by simp), hQ v1 (by simp), h.1⟩,
            ih ths phs (fun v hv => hQ v (by simp [hv])) h.2⟩

/-- indexed form of the per-interface hypothesis -/
theorem IfaceAll_of_index {P : K → K → K → K → Prop} (vels thetas phis : List K)
    (h : ∀ k (h1 : k + 1 < vels.length) (h2 : k < thetas.length) (h3 : k < phis.length),
      P vels[k] vels[k + 1] thetas[k] phis[k]) :
    IfaceAll P vels thetas phis := by
  induction vels generalizing thetas phis with
  | nil => simp [IfaceAll]
  | cons v0 vs ih =>
    cases vs with
    | nil => simp [IfaceAll]
    | cons v1 vs =>
      cases thetas with
      | nil => simp [IfaceAll]
      | cons th ths =>
        cases phis with
        | nil => simp [IfaceAll]
        | cons ph phs =>
          refine ⟨h 0 (by simp) (by simp) (by simp), ih ths phs ?_⟩
          intro k h1 h2 h3
          exact h (k + 1) (by simpa using h1) (by simpa using h2) (by simpa using h3)

end ifacemap

section gam
variable {K : Type} [Add K] [Sub K] [Mul K] [Div K]

/-- the direct ray-tube factor at one interface, as `gammas` computes it -/
def gammaF (t : RTrig K) (v0 v1 th : K) : K :=
  let nu := v0 / v1
  let s := t.sin th
  let c := t.cos th
  (nu * nu - s * s) / (nu * c * c)

/-- the reverse ray-tube factor at one interface, as `revGammas` computes it -/
def revGammaF (t : RTrig K) (vLast vPrev th : K) : K :=
  let nu := vLast / vPrev
  let s := t.sin th
  let c := t.cos th
  (nu * c * c) / (t.one - nu * nu * s * s)

omit [Add K] in
theorem gammas_eq_ifaceMap (t : RTrig K) (vels thetas : List K) :
    gammas t vels thetas = ifaceMap (gammaF t) vels thetas := by
  induction vels generalizing thetas with
  | nil => simp [gammas, ifaceMap]
  | cons v0 vs ih =>
    cases vs with
    | nil => simp [gammas, ifaceMap]
    | cons v1 vs =>
      cases thetas with
      | nil => simp [gammas, ifaceMap]
      | cons th ths => simp only [gammas, ifaceMap, ih, gammaF]

omit [Add K] in
theorem revGammas_eq_ifaceMap (t : RTrig K) (vels thetas : List K) :
    revGammas t vels thetas = ifaceMap (revGammaF t) vels thetas := by
  induction vels generalizing thetas with
  | nil => simp [revGammas, ifaceMap]
  | cons v0 vs ih =>
    cases vs with
    | nil => simp [revGammas, ifaceMap]
    | cons v1 vs =>
      cases thetas with
      | nil => simp [revGammas, ifaceMap]
      | cons th ths => simp only [revGammas, ifaceMap, ih, revGammaF]

end gam

/-! ## algebra of the ray-tube factor -/
section gamalg
variable {K : Type} [Field K]

/-- with `ν' = 1/ν` the reverse factor is the inverse of the direct one (identity of rational
functions; it also holds, as `0 = 0`, where a denominator vanishes) -/
theorem revGamma_inv_aux (ν s c : K) :
    (ν⁻¹ * c * c) / (1 - ν⁻¹ * ν⁻¹ * s * s) = ((ν * ν - s * s) / (ν * c * c))⁻¹ := by
  by_cases hν : ν = 0
  · subst hν; simp
  rw [inv_div]
  have e : 1 - ν⁻¹ * ν⁻¹ * s * s = (ν * ν - s * s) / (ν * ν) := by field_simp
  rw [e]
  by_cases hd : ν * ν - s * s = 0
  · rw [hd]; simp
  · field_simp

/-- Snell turns the factor of the code into Schmerr's `v_in cos²θ_out / (v_out cos²θ_in)` -/
theorem gamma_snell_aux (vIn vOut s c so co : K) (hv : vOut ≠ 0)
    (snell : vIn * so = vOut * s) (pyth : co * co = 1 - so * so) :
    ((vIn / vOut) * (vIn / vOut) - s * s) / ((vIn / vOut) * c * c) =
      (vIn * co * co) / (vOut * c * c) := by
  have hs : s = vIn / vOut * so := by field_simp; linear_combination -snell
  subst hs
  have e : vIn / vOut * (vIn / vOut) - vIn / vOut * so * (vIn / vOut * so) =
      vIn / vOut * (vIn / vOut * (co * co)) := by rw [pyth]; ring
  rw [e]
  by_cases hν : vIn / vOut = 0
  · have : vIn = 0 := by
      rcases div_eq_zero_iff.1 hν with h | h
      · exact h
      · exact absurd h hv
    subst this; simp
  · rw [mul_assoc (vIn / vOut) c c, mul_div_mul_left _ _ hν]
    by_cases hc : c = 0
    · subst hc; simp
    · field_simp

/-- the direct factor of the reversed ray (incidence `θ_out`, velocities swapped) is the factor
that the reverse routine computes from the direct incidence angle -/
theorem gamma_reversed_aux (vIn vOut s c so co : K) (hv : vIn ≠ 0)
    (snell : vIn * so = vOut * s) (pyth : c * c = 1 - s * s) (pyth' : co * co = 1 - so * so) :
    ((vOut / vIn) * (vOut / vIn) - so * so) / ((vOut / vIn) * co * co) =
      ((vOut / vIn) * c * c) / (1 - (vOut / vIn) * (vOut / vIn) * s * s) := by
  have hs : so = vOut / vIn * s := by field_simp; linear_combination snell
  subst hs
  have e1 : vOut / vIn * (vOut / vIn) - vOut / vIn * s * (vOut / vIn * s) =
      vOut / vIn * (vOut / vIn * (c * c)) := by rw [pyth]; ring
  have e2 : vOut / vIn * co * co = vOut / vIn * (1 - vOut / vIn * (vOut / vIn) * s * s) := by
    rw [mul_assoc, pyth']; ring
  rw [e1, e2]
  by_cases hν : vOut / vIn = 0
  · rw [hν]; simp
  · rw [mul_div_mul_left _ _ hν]; simp only [mul_assoc]

end gamalg

end Arim.Weights
