import ArimModel.TimeDomain
import Mathlib.Analysis.SpecialFunctions.Trigonometric.Basic
import Mathlib.Algebra.BigOperators.Group.Finset.Basic
import Mathlib.Algebra.Order.Floor.Ring
import Mathlib.Tactic.Ring
import Mathlib.Tactic.Linarith
import Mathlib.Tactic.FieldSimp
/-! Helper lemmas for `ArimProofs.C11`: the real instance of `RT`, the reading of a pair as a
    complex number, and the reading of the model's `foldl` sums as `Finset` sums. -/
namespace Arim.TDLemmas
open Arim.TD
open Finset
open scoped Real

/-- the exact real instance of the scalar operations -/
noncomputable def tR : RT ℝ :=
  { sin := Real.sin, cos := Real.cos, pi := Real.pi, ofNat := fun n => (n : ℝ),
    ofInt := fun z => (z : ℝ), floor := Int.floor, ceil := Int.ceil }

@[simp] theorem tR_sin (x : ℝ) : tR.sin x = Real.sin x := rfl
@[simp] theorem tR_cos (x : ℝ) : tR.cos x = Real.cos x := rfl
@[simp] theorem tR_pi : tR.pi = π := rfl
@[simp] theorem tR_ofNat (n : ℕ) : tR.ofNat n = (n : ℝ) := rfl
@[simp] theorem tR_ofInt (z : ℤ) : tR.ofInt z = (z : ℝ) := rfl
@[simp] theorem tR_floor (x : ℝ) : tR.floor x = ⌊x⌋ := rfl
@[simp] theorem tR_ceil (x : ℝ) : tR.ceil x = ⌈x⌉ := rfl

/-- the pair `(a, b)` denotes `a + b i` -/
def toC (a : Cx ℝ) : ℂ := ⟨a.1, a.2⟩

@[simp] theorem toC_re (a : Cx ℝ) : (toC a).re = a.1 := rfl
@[simp] theorem toC_im (a : Cx ℝ) : (toC a).im = a.2 := rfl
@[simp] theorem toC_zero : toC ((0 : ℝ), (0 : ℝ)) = 0 := rfl
@[simp] theorem toC_one : toC ((1 : ℝ), (0 : ℝ)) = 1 := rfl

theorem toC_injective : Function.Injective toC := by
  intro a b h
  have h1 := congrArg Complex.re h
  have h2 := congrArg Complex.im h
  exact Prod.ext h1 h2

theorem toC_cmul (a b : Cx ℝ) : toC (cmul a b) = toC a * toC b := by
  apply Complex.ext <;> simp [cmul, toC]

theorem toC_cadd (a b : Cx ℝ) : toC (cadd a b) = toC a + toC b := by
  apply Complex.ext <;> simp [cadd, toC]

theorem toC_csmul (s : ℝ) (a : Cx ℝ) : toC (csmul s a) = (s : ℂ) * toC a := by
  apply Complex.ext <;> simp [csmul, toC]

/-- `cis x = e^{ix}` -/
theorem toC_cis (x : ℝ) : toC (cis tR x) = Complex.exp (x * Complex.I) := by
  apply Complex.ext
  · simp [cis, toC, Complex.exp_ofReal_mul_I_re]
  · simp [cis, toC, Complex.exp_ofReal_mul_I_im]

/-- the model's left fold with `cadd` is a finite sum -/
theorem toC_foldl_cadd (g : ℕ → Cx ℝ) (init : Cx ℝ) (m : ℕ) :
    toC ((List.range m).foldl (fun acc k => cadd acc (g k)) init)
      = toC init + ∑ k ∈ range m, toC (g k) := by
  induction m with
  | zero => simp
  | succ m ih =>
    rw [List.range_succ, List.foldl_append, List.foldl_cons, List.foldl_nil, toC_cadd, ih,
      sum_range_succ, add_assoc]

end Arim.TDLemmas
