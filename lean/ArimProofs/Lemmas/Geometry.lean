import ArimModel.Geometry
import Mathlib.Tactic.Ring
import Mathlib.Tactic.LinearCombination
import Mathlib.Tactic.FinCases
import Mathlib.LinearAlgebra.Matrix.SemiringInverse
import Mathlib.LinearAlgebra.Matrix.Notation
/-! # Helper lemmas for C17 (geometry)

* a bridge from the model's `M3` (three rows) to Mathlib's `Matrix (Fin 3) (Fin 3)`, used only to
  import the fact that a one-sided inverse of a square matrix over a commutative ring is two-sided;
* indexing into a `flatMap` whose pieces all have the same length (row-major flattening). -/
namespace Arim.C17
open Arim Arim.Geo

section bridge
variable {K : Type} [CommRing K]

/-- the Mathlib matrix with the same entries -/
def toMatrix (m : M3 K) : Matrix (Fin 3) (Fin 3) K :=
  !![m.r0.x, m.r0.y, m.r0.z; m.r1.x, m.r1.y, m.r1.z; m.r2.x, m.r2.y, m.r2.z]

theorem toMatrix_mmul (a b : M3 K) : toMatrix (mmul a b) = toMatrix a * toMatrix b := by
  ext i j
  fin_cases i <;> fin_cases j <;>
    simp [toMatrix, mmul, vecMul, dot, M3.col0, M3.col1, M3.col2, Matrix.mul_apply, Fin.sum_univ_three]

omit [CommRing K] in
theorem toMatrix_transpose (a : M3 K) : toMatrix a.transpose = (toMatrix a).transpose := by
  ext i j
  fin_cases i <;> fin_cases j <;>
    simp [toMatrix, M3.transpose, M3.col0, M3.col1, M3.col2]

/-- the six row-orthonormality equations are exactly `B Bᵀ = 1` -/
theorem rows_orthonormal_iff_toMatrix (b : M3 K) :
    (dot b.r0 b.r0 = 1 ∧ dot b.r1 b.r1 = 1 ∧ dot b.r2 b.r2 = 1 ∧
      dot b.r0 b.r1 = 0 ∧ dot b.r0 b.r2 = 0 ∧ dot b.r1 b.r2 = 0) ↔
    toMatrix b * (toMatrix b).transpose = 1 := by
  constructor
  · rintro ⟨n0, n1, n2, o01, o02, o12⟩
    simp only [dot] at n0 n1 n2 o01 o02 o12
    ext i j
    fin_cases i <;> fin_cases j <;>
      simp [toMatrix, Matrix.mul_apply, Fin.sum_univ_three] <;>
      first
        | exact n0 | exact n1 | exact n2 | exact o01 | exact o02 | exact o12
        | (linear_combination o01) | (linear_combination o02) | (linear_combination o12)
  · intro h
    have e := fun i j => congrFun (congrFun h i) j
    have e00 := e 0 0; have e11 := e 1 1; have e22 := e 2 2
    have e01 := e 0 1; have e02 := e 0 2; have e12 := e 1 2
    simp [toMatrix, Matrix.mul_apply, Fin.sum_univ_three] at e00 e11 e22 e01 e02 e12
    exact ⟨e00, e11, e22, e01, e02, e12⟩

/-- `B Bᵀ = 1 → Bᵀ B = 1` for the model's 3×3 matrices over any commutative ring -/
theorem toMatrix_transpose_mul_of_mul_transpose (b : M3 K)
    (h : toMatrix b * (toMatrix b).transpose = 1) :
    toMatrix b.transpose * (toMatrix b.transpose).transpose = 1 := by
  rw [toMatrix_transpose, Matrix.transpose_transpose]
  exact mul_eq_one_comm.mp h
end bridge

section flat
theorem flatMap_uniform_length {β γ : Type} (f : β → List γ) (m : Nat) (hf : ∀ x, (f x).length = m)
    (xs : List β) : (xs.flatMap f).length = xs.length * m := by
  induction xs with
  | nil => simp
  | cons x xs ih => simp [List.flatMap_cons, ih, hf, Nat.succ_mul, Nat.add_comm]

/-- row-major indexing into a `flatMap` with pieces of uniform length `m` -/
theorem flatMap_uniform_getElem? {β γ : Type} (f : β → List γ) (m : Nat) (hf : ∀ x, (f x).length = m)
    (xs : List β) (i j : Nat) (hi : i < xs.length) (hj : j < m) :
    (xs.flatMap f)[i * m + j]? = (f xs[i])[j]? := by
  induction xs generalizing i with
  | nil => simp at hi
  | cons x xs ih =>
    rw [List.flatMap_cons]
    cases i with
    | zero =>
      simp only [Nat.zero_mul, Nat.zero_add, List.getElem_cons_zero]
      rw [List.getElem?_append_left (by rw [hf]; exact hj)]
    | succ i =>
      have hi' : i < xs.length := by simpa using hi
      rw [List.getElem?_append_right (by rw [hf, Nat.succ_mul]; omega)]
      rw [hf, List.getElem_cons_succ, ← ih i hi']
      congr 1
      rw [Nat.succ_mul]; omega
end flat
end Arim.C17
