import ArimModel.Views
/-! Helper lemmas for C18: `wordLt` / `keyLt` are strict total orders, the stable insertion sort
    is a sorted permutation, `filterUnique` as a structural recursion. Core only. -/
namespace Arim.ViewsLemmas
open Arim.Views

/-! ### characters and words -/

theorem char_lt_total {a b : Char} (h : a ≠ b) : a < b ∨ b < a := by
  rw [Char.lt_def, Char.lt_def]
  have : a.val ≠ b.val := fun e => h (Char.ext e)
  rcases Nat.lt_trichotomy a.val.toNat b.val.toNat with h1 | h1 | h1
  · exact Or.inl (UInt32.lt_iff_toNat_lt.mpr h1)
  · exact absurd (UInt32.toNat_inj.mp h1) this
  · exact Or.inr (UInt32.lt_iff_toNat_lt.mpr h1)

theorem wordLt_irrefl (w : Word) : wordLt w w = false := by
  induction w with
  | nil => rfl
  | cons a as ih => simp [wordLt, ih, Char.lt_irrefl]

theorem wordLt_trans {u v w : Word} (h1 : wordLt u v = true) (h2 : wordLt v w = true) :
    wordLt u w = true := by
  induction u generalizing v w with
  | nil =>
    cases v with
    | nil => simp [wordLt] at h1
    | cons b bs =>
      cases w with
      | nil => simp [wordLt] at h2
      | cons c cs => rfl
  | cons a as ih =>
    cases v with
    | nil => simp [wordLt] at h1
    | cons b bs =>
      cases w with
      | nil => simp [wordLt] at h2
      | cons c cs =>
        simp only [wordLt, Bool.or_eq_true, decide_eq_true_eq, Bool.and_eq_true, beq_iff_eq] at *
        rcases h1 with h1 | ⟨rfl, h1⟩
        · rcases h2 with h2 | ⟨rfl, h2⟩
          · exact Or.inl (Char.lt_trans h1 h2)
          · exact Or.inl h1
        · rcases h2 with h2 | ⟨rfl, h2⟩
          · exact Or.inl h2
          · exact Or.inr ⟨rfl, ih h1 h2⟩

theorem wordLt_total {u v : Word} (h : u ≠ v) : wordLt u v = true ∨ wordLt v u = true := by
  induction u generalizing v with
  | nil =>
    cases v with
    | nil => exact absurd rfl h
    | cons b bs => exact Or.inl rfl
  | cons a as ih =>
    cases v with
    | nil => exact Or.inr rfl
    | cons b bs =>
      simp only [wordLt, Bool.or_eq_true, decide_eq_true_eq, Bool.and_eq_true, beq_iff_eq]
      by_cases hab : a = b
      · subst hab
        have : as ≠ bs := fun e => h (by rw [e])
        rcases ih this with h1 | h1
        · exact Or.inl (Or.inr ⟨rfl, h1⟩)
        · exact Or.inr (Or.inr ⟨rfl, h1⟩)
      · rcases char_lt_total hab with h1 | h1
        · exact Or.inl (Or.inl h1)
        · exact Or.inr (Or.inl h1)

/-! ### generic lexicographic step -/

/-- compare by `f` with `lt`, break ties with `r` -/
def lexBy {α κ : Type} [DecidableEq κ] (lt : κ → κ → Bool) (f : α → κ) (r : α → α → Bool)
    (a b : α) : Bool :=
  if f a ≠ f b then lt (f a) (f b) else r a b

structure StrictTot {κ : Type} (lt : κ → κ → Bool) : Prop where
  irrefl : ∀ x, lt x x = false
  trans : ∀ {x y z}, lt x y = true → lt y z = true → lt x z = true
  total : ∀ {x y}, x ≠ y → lt x y = true ∨ lt y x = true

theorem natLt_strictTot : StrictTot (fun x y : Nat => decide (x < y)) where
  irrefl x := by simp
  trans h1 h2 := by simp at *; omega
  total h := by simp; omega

theorem wordLt_strictTot : StrictTot wordLt where
  irrefl := wordLt_irrefl
  trans := wordLt_trans
  total := wordLt_total

section
variable {α κ : Type} [DecidableEq κ] {lt : κ → κ → Bool} {f : α → κ} {r : α → α → Bool}

theorem lexBy_of_eq {a b : α} (h : f a = f b) : lexBy lt f r a b = r a b := by
  simp [lexBy, h]

theorem lexBy_of_ne {a b : α} (h : f a ≠ f b) : lexBy lt f r a b = lt (f a) (f b) := by
  simp [lexBy, h]

theorem lexBy_irrefl (hr : ∀ a, r a a = false) (a : α) : lexBy lt f r a a = false := by
  simp [lexBy, hr]

theorem lexBy_trans (hlt : StrictTot lt)
    (hr : ∀ a b c, r a b = true → r b c = true → r a c = true) (a b c : α)
    (h1 : lexBy lt f r a b = true) (h2 : lexBy lt f r b c = true) :
    lexBy lt f r a c = true := by
  by_cases hab : f a = f b
  · by_cases hbc : f b = f c
    · rw [lexBy_of_eq hab] at h1
      rw [lexBy_of_eq hbc] at h2
      rw [lexBy_of_eq (hab.trans hbc)]
      exact hr _ _ _ h1 h2
    · have hac : f a ≠ f c := fun e => hbc (hab.symm.trans e)
      rw [lexBy_of_ne hbc] at h2
      rw [lexBy_of_ne hac, hab]
      exact h2
  · by_cases hbc : f b = f c
    · have hac : f a ≠ f c := fun e => hab (e.trans hbc.symm)
      rw [lexBy_of_ne hab] at h1
      rw [lexBy_of_ne hac, ← hbc]
      exact h1
    · rw [lexBy_of_ne hab] at h1
      rw [lexBy_of_ne hbc] at h2
      have h3 := hlt.trans h1 h2
      have hac : f a ≠ f c := by
        intro e
        rw [e, hlt.irrefl] at h3
        cases h3
      rw [lexBy_of_ne hac]
      exact h3

/-- totality up to a residual equivalence `E` -/
theorem lexBy_total (hlt : StrictTot lt) {E : α → α → Prop}
    (hr : ∀ a b, r a b = true ∨ r b a = true ∨ E a b) (a b : α) :
    lexBy lt f r a b = true ∨ lexBy lt f r b a = true ∨ (f a = f b ∧ E a b) := by
  by_cases hab : f a = f b
  · rw [lexBy_of_eq hab, lexBy_of_eq hab.symm]
    rcases hr a b with h | h | h
    · exact Or.inl h
    · exact Or.inr (Or.inl h)
    · exact Or.inr (Or.inr ⟨hab, h⟩)
  · rw [lexBy_of_ne hab, lexBy_of_ne (fun e => hab e.symm)]
    rcases hlt.total hab with h | h
    · exact Or.inl h
    · exact Or.inr (Or.inl h)
end

/-! ### `keyLt` -/

def lastLt (a b : VName) : Bool := wordLt a.2 b.2

theorem keyLt_eq_lex (a b : VName) :
    keyLt a b =
      lexBy (fun x y : Nat => decide (x < y)) (fun v : VName => v.1.length + v.2.length)
      (lexBy (fun x y : Nat => decide (x < y)) (fun v : VName => max v.1.length v.2.length)
      (lexBy (fun x y : Nat => decide (x < y)) (fun v : VName => v.2.length)
      (lexBy (fun x y : Nat => decide (x < y)) (fun v : VName => v.1.length)
      (lexBy wordLt (fun v : VName => v.1) lastLt)))) a b := by
  rfl

theorem lastLt_total (a b : VName) : lastLt a b = true ∨ lastLt b a = true ∨ a.2 = b.2 := by
  by_cases h : a.2 = b.2
  · exact Or.inr (Or.inr h)
  · rcases wordLt_total h with h | h
    · exact Or.inl h
    · exact Or.inr (Or.inl h)

theorem keyLt_irrefl (a : VName) : keyLt a a = false := by
  rw [keyLt_eq_lex]
  exact lexBy_irrefl (lexBy_irrefl (lexBy_irrefl (lexBy_irrefl (lexBy_irrefl
    (fun a => wordLt_irrefl a.2))))) a

theorem keyLt_trans {a b c : VName} (h1 : keyLt a b = true) (h2 : keyLt b c = true) :
    keyLt a c = true := by
  rw [keyLt_eq_lex] at *
  exact lexBy_trans natLt_strictTot (lexBy_trans natLt_strictTot (lexBy_trans natLt_strictTot
    (lexBy_trans natLt_strictTot (lexBy_trans wordLt_strictTot
      (fun a b c (h1 : lastLt a b = true) (h2 : lastLt b c = true) =>
        (wordLt_trans h1 h2 : lastLt a c = true)))))) a b c h1 h2

theorem keyLt_total {a b : VName} (h : a ≠ b) : keyLt a b = true ∨ keyLt b a = true := by
  rw [keyLt_eq_lex, keyLt_eq_lex]
  rcases lexBy_total natLt_strictTot (lexBy_total natLt_strictTot (lexBy_total natLt_strictTot
    (lexBy_total natLt_strictTot (lexBy_total wordLt_strictTot lastLt_total)))) a b with h' | h' | h'
  · exact Or.inl h'
  · exact Or.inr h'
  · exact absurd (Prod.ext h'.2.2.2.2.1 h'.2.2.2.2.2) h

theorem keyLt_asymm {a b : VName} (h : keyLt a b = true) : keyLt b a = false := by
  cases h' : keyLt b a with
  | false => rfl
  | true => have := keyLt_trans h h'; rw [keyLt_irrefl] at this; cases this

/-- the non-strict order `a ≤ b` is `keyLt b a = false`; it is transitive -/
theorem keyLe_trans {a b c : VName} (h1 : keyLt b a = false) (h2 : keyLt c b = false) :
    keyLt c a = false := by
  cases h : keyLt c a with
  | false => rfl
  | true =>
    -- c < a, not b < a, not c < b. By totality b = c, or b < c (then b < a), or ...
    by_cases hbc : b = c
    · subst hbc; rw [h] at h1; cases h1
    · rcases keyLt_total hbc with h' | h'
      · rw [keyLt_trans h' h] at h1; cases h1
      · rw [h'] at h2; cases h2

theorem keyLe_antisymm {a b : VName} (h1 : keyLt b a = false) (h2 : keyLt a b = false) : a = b := by
  by_cases h : a = b
  · exact h
  · rcases keyLt_total h with h' | h'
    · rw [h'] at h2; cases h2
    · rw [h'] at h1; cases h1

/-! ### the stable insertion sort -/

theorem insertView_perm (x : VName) (l : List VName) : (insertView x l).Perm (x :: l) := by
  induction l with
  | nil => exact List.Perm.refl _
  | cons y ys ih =>
    unfold insertView
    split
    · exact List.Perm.refl _
    · exact ((List.Perm.cons y ih).trans (List.Perm.swap x y ys))

theorem foldl_insertView_perm (l acc : List VName) :
    (l.foldl (fun acc x => insertView x acc) acc).Perm (acc ++ l) := by
  induction l generalizing acc with
  | nil => simp
  | cons x xs ih =>
    simp only [List.foldl_cons]
    refine (ih _).trans ?_
    refine ((insertView_perm x acc).append_right xs).trans ?_
    simpa using (List.perm_middle (a := x) (l₁ := acc) (l₂ := xs)).symm

theorem sortViews_perm (l : List VName) : (sortViews l).Perm l := by
  simpa [sortViews] using foldl_insertView_perm l []

abbrev Sorted (l : List VName) : Prop := l.Pairwise (fun a b => keyLt b a = false)

theorem insertView_sorted (x : VName) (l : List VName) (h : Sorted l) : Sorted (insertView x l) := by
  induction l with
  | nil => simp [insertView, Sorted]
  | cons y ys ih =>
    unfold insertView
    rw [Sorted, List.pairwise_cons] at h
    split
    · rename_i hxy
      refine List.Pairwise.cons ?_ (List.Pairwise.cons h.1 h.2)
      intro z hz
      rcases List.mem_cons.mp hz with rfl | hz
      · exact keyLt_asymm hxy
      · exact keyLe_trans (keyLt_asymm hxy) (h.1 z hz)
    · rename_i hxy
      refine List.Pairwise.cons ?_ (ih h.2)
      intro z hz
      rcases List.mem_cons.mp ((insertView_perm x ys).subset hz) with rfl | hz
      · simpa using hxy
      · exact h.1 z hz

theorem foldl_insertView_sorted (l acc : List VName) (h : Sorted acc) :
    Sorted (l.foldl (fun acc x => insertView x acc) acc) := by
  induction l generalizing acc with
  | nil => exact h
  | cons x xs ih => exact ih _ (insertView_sorted x acc h)

theorem sortViews_sorted (l : List VName) : Sorted (sortViews l) :=
  foldl_insertView_sorted l [] List.Pairwise.nil

/-! ### all pairs -/

theorem mem_allPairs {names : List Word} {v : VName} :
    v ∈ allPairs names ↔ v.1 ∈ names ∧ v.2 ∈ names := by
  obtain ⟨a, b⟩ := v
  simp only [allPairs, List.mem_flatMap, List.mem_map, Prod.mk.injEq]
  constructor
  · rintro ⟨tx, htx, rx, hrx, rfl, rfl⟩
    exact ⟨htx, hrx⟩
  · rintro ⟨ha, hb⟩
    exact ⟨a, ha, b, hb, rfl, rfl⟩

theorem allPairs_nodup {names : List Word} (h : names.Nodup) : (allPairs names).Nodup := by
  unfold allPairs
  rw [List.Nodup, List.pairwise_flatMap]
  constructor
  · intro tx _
    rw [List.pairwise_map]
    exact h.imp (fun hne e => hne (Prod.mk.inj e).2)
  · refine h.imp ?_
    intro a b hne x hx y hy e
    simp only [List.mem_map] at hx hy
    obtain ⟨_, _, rfl⟩ := hx
    obtain ⟨_, _, rfl⟩ := hy
    exact hne (Prod.mk.inj e).1

/-! ### `filterUnique` as a structural recursion -/

/-- keep `v` unless its reciprocal is among the views kept so far (`seen`) -/
def uniqAux (seen : List VName) : List VName → List VName
  | [] => []
  | v :: vs => if seen.contains (recip v) then uniqAux seen vs else v :: uniqAux (v :: seen) vs

theorem foldl_filterUnique (l k s : List VName) :
    (l.foldl (fun (st : List VName × List VName) v =>
      if st.2.contains (recip v) then st else (st.1 ++ [v], v :: st.2)) (k, s)).1
      = k ++ uniqAux s l := by
  induction l generalizing k s with
  | nil => simp [uniqAux]
  | cons v vs ih =>
    simp only [List.foldl_cons, uniqAux]
    split
    · exact ih k s
    · rw [ih]; simp

theorem filterUnique_eq (views : List VName) : filterUnique views = uniqAux [] views := by
  simpa [filterUnique] using foldl_filterUnique views [] []

theorem recip_recip (v : VName) : recip (recip v) = v := by simp [recip]

theorem uniqAux_sublist (seen l : List VName) : (uniqAux seen l).Sublist l := by
  induction l generalizing seen with
  | nil => exact List.Sublist.slnil
  | cons v vs ih =>
    unfold uniqAux
    split
    · exact (ih seen).cons v
    · exact (ih (v :: seen)).cons_cons v

/-- nothing kept has its reciprocal among the views seen before -/
theorem uniqAux_not_seen {seen l : List VName} {w : VName} (h : w ∈ uniqAux seen l) :
    recip w ∉ seen := by
  induction l generalizing seen with
  | nil => simp [uniqAux] at h
  | cons v vs ih =>
    unfold uniqAux at h
    split at h
    · exact ih h
    · rename_i hc
      rcases List.mem_cons.mp h with rfl | h
      · simpa using hc
      · exact fun hm => ih h (List.mem_cons_of_mem _ hm)

theorem uniqAux_covers {seen l : List VName} {v : VName} (h : v ∈ l) :
    v ∈ uniqAux seen l ∨ recip v ∈ uniqAux seen l ∨ recip v ∈ seen := by
  induction l generalizing seen with
  | nil => cases h
  | cons x xs ih =>
    unfold uniqAux
    split
    · rename_i hc
      rcases List.mem_cons.mp h with rfl | h
      · exact Or.inr (Or.inr (by simpa using hc))
      · exact ih h
    · rcases List.mem_cons.mp h with rfl | h
      · exact Or.inl List.mem_cons_self
      · rcases ih (seen := x :: seen) h with h' | h' | h'
        · exact Or.inl (List.mem_cons_of_mem _ h')
        · exact Or.inr (Or.inl (List.mem_cons_of_mem _ h'))
        · rcases List.mem_cons.mp h' with h' | h'
          · exact Or.inr (Or.inl (h' ▸ List.mem_cons_self))
          · exact Or.inr (Or.inr h')

theorem uniqAux_one_per_class {seen l : List VName} {v : VName} (h : v ∈ uniqAux seen l)
    (hne : recip v ≠ v) : recip v ∉ uniqAux seen l := by
  induction l generalizing seen with
  | nil => simp [uniqAux]
  | cons x xs ih =>
    unfold uniqAux at h ⊢
    split at h
    · rename_i hc
      rw [if_pos hc]
      exact ih h
    · rename_i hc
      rw [if_neg hc]
      intro hr
      rcases List.mem_cons.mp h with rfl | h
      · rcases List.mem_cons.mp hr with hr | hr
        · exact hne hr
        · have := uniqAux_not_seen hr
          rw [recip_recip] at this
          exact this List.mem_cons_self
      · rcases List.mem_cons.mp hr with hr | hr
        · exact uniqAux_not_seen h (hr ▸ List.mem_cons_self)
        · exact ih h hr

theorem uniqAux_is_first {seen l : List VName} (hnd : l.Nodup) (hdis : ∀ s ∈ seen, s ∉ l)
    {v : VName} (h : v ∈ uniqAux seen l) {i j : Nat} (hi : l[i]? = some v)
    (hj : l[j]? = some (recip v)) : i ≤ j := by
  induction l generalizing seen i j with
  | nil => simp at hi
  | cons x xs ih =>
    cases i with
    | zero => exact Nat.zero_le _
    | succ i =>
      rw [List.getElem?_cons_succ] at hi
      have hvxs : v ∈ xs := List.mem_of_getElem? hi
      rw [List.nodup_cons] at hnd
      have hvx : v ≠ x := fun e => hnd.1 (e ▸ hvxs)
      unfold uniqAux at h
      cases j with
      | zero =>
        exfalso
        simp only [List.getElem?_cons_zero, Option.some.injEq] at hj
        split at h
        · rename_i hc
          rw [hj, recip_recip] at hc
          exact hdis v (by simpa using hc) (List.mem_cons_of_mem _ hvxs)
        · rcases List.mem_cons.mp h with h | h
          · exact hvx h
          · exact uniqAux_not_seen h (hj ▸ List.mem_cons_self)
      | succ j =>
        rw [List.getElem?_cons_succ] at hj
        split at h
        · exact Nat.succ_le_succ (ih hnd.2 (fun s hs hm => hdis s hs (List.mem_cons_of_mem _ hm)) h hi hj)
        · rcases List.mem_cons.mp h with h | h
          · exact absurd h hvx
          · refine Nat.succ_le_succ (ih hnd.2 ?_ h hi hj)
            intro s hs hm
            rcases List.mem_cons.mp hs with rfl | hs
            · exact hnd.1 hm
            · exact hdis s hs (List.mem_cons_of_mem _ hm)

end Arim.ViewsLemmas
