import ArimModel.Config
/-! Helper lemmas for C20 (configuration merge and fragment loading). Core only. -/
namespace Arim.Config

/-! ## 1. `sortByName` is a sorted permutation -/

/-- the order used by `insertByName`: core `String.le` on file names -/
def NameLE (a b : String × Cfg) : Prop := a.1 ≤ b.1

theorem insertByName_perm (x : String × Cfg) (l : List (String × Cfg)) :
    (insertByName x l).Perm (x :: l) := by
  induction l with
  | nil => exact List.Perm.refl _
  | cons y ys ih =>
    simp only [insertByName]
    split
    · exact List.Perm.refl _
    · exact (List.Perm.cons y ih).trans (List.Perm.swap x y ys)

theorem sortByName_perm (l : List (String × Cfg)) : (sortByName l).Perm l := by
  induction l with
  | nil => exact List.Perm.refl _
  | cons x xs ih =>
    show (insertByName x (sortByName xs)).Perm (x :: xs)
    exact (insertByName_perm x _).trans (List.Perm.cons x ih)

theorem insertByName_sorted (x : String × Cfg) (l : List (String × Cfg))
    (h : l.Pairwise NameLE) : (insertByName x l).Pairwise NameLE := by
  induction l with
  | nil => simp [insertByName]
  | cons y ys ih =>
    simp only [insertByName]
    split
    · rename_i hxy
      refine List.Pairwise.cons ?_ h
      intro z hz
      rcases List.mem_cons.1 hz with rfl | hz
      · exact hxy
      · exact String.le_trans hxy (List.rel_of_pairwise_cons h hz)
    · rename_i hxy
      have hyx : y.1 ≤ x.1 := by
        rcases String.le_total x.1 y.1 with h' | h'
        · exact absurd h' hxy
        · exact h'
      refine List.Pairwise.cons ?_ (ih h.tail)
      intro z hz
      have hz' := (insertByName_perm x ys).subset hz
      rcases List.mem_cons.1 hz' with rfl | hz'
      · exact hyx
      · exact List.rel_of_pairwise_cons h hz'

theorem sortByName_sorted (l : List (String × Cfg)) : (sortByName l).Pairwise NameLE := by
  induction l with
  | nil => exact List.Pairwise.nil
  | cons x xs ih => exact insertByName_sorted x _ ih

/-- with distinct names, an entry is determined by its name -/
theorem eq_of_name_eq {l : List (String × Cfg)} (hnd : (l.map (·.1)).Nodup)
    {a b : String × Cfg} (ha : a ∈ l) (hb : b ∈ l) (h : a.1 = b.1) : a = b := by
  induction l with
  | nil => cases ha
  | cons x xs ih =>
    simp only [List.map_cons, List.nodup_cons, List.mem_map, not_exists, not_and] at hnd
    rcases List.mem_cons.1 ha with ha | ha <;> rcases List.mem_cons.1 hb with hb | hb
    · rw [ha, hb]
    · exact absurd (ha ▸ h).symm (hnd.1 b hb)
    · exact absurd (hb ▸ h) (hnd.1 a ha)
    · exact ih hnd.2 ha hb

/-- the sorted listing depends only on the *set* of fragments when names are distinct -/
theorem sortByName_eq_of_perm {l₁ l₂ : List (String × Cfg)} (hp : l₁.Perm l₂)
    (hnd : (l₁.map (·.1)).Nodup) : sortByName l₁ = sortByName l₂ := by
  have p1 := sortByName_perm l₁
  have p2 := sortByName_perm l₂
  refine List.Perm.eq_of_pairwise (le := NameLE) ?_ (sortByName_sorted l₁) (sortByName_sorted l₂)
    (p1.trans (hp.trans p2.symm))
  intro a b ha hb hab hba
  exact eq_of_name_eq hnd (p1.subset ha) (hp.symm.subset (p2.subset hb)) (String.le_antisymm hab hba)

/-! ## 2. key lookup, `upsert` and `mergeKVs` -/

/-- first value stored under `k` in an association list -/
def lookup (kvs : KVs) (k : String) : Option Cfg := (kvs.find? (·.1 = k)).map (·.2)

/-- `d[k]` for a mapping (`none` for scalars and for missing keys) -/
def get? : Cfg → String → Option Cfg
  | .leaf _, _ => none
  | .node kvs, k => (kvs.find? (·.1 = k)).map (·.2)

/-- the keys of a mapping, in insertion order -/
def keys : Cfg → List String
  | .leaf _ => []
  | .node kvs => kvs.map (·.1)

@[simp] theorem get?_node (kvs : KVs) (k : String) : get? (.node kvs) k = lookup kvs k := rfl
@[simp] theorem get?_leaf (s k : String) : get? (.leaf s) k = none := rfl
@[simp] theorem keys_node (kvs : KVs) : keys (.node kvs) = kvs.map (·.1) := rfl
@[simp] theorem keys_leaf (s : String) : keys (.leaf s) = [] := rfl

@[simp] theorem lookup_nil (k : String) : lookup [] k = none := rfl

theorem lookup_cons (k' : String) (v' : Cfg) (rest : KVs) (k : String) :
    lookup ((k', v') :: rest) k = if k' = k then some v' else lookup rest k := by
  unfold lookup
  by_cases h : k' = k <;> simp [h]

theorem lookup_eq_none_iff (b : KVs) (k : String) : lookup b k = none ↔ k ∉ b.map (·.1) := by
  induction b with
  | nil => simp
  | cons p rest ih =>
    obtain ⟨k', v'⟩ := p
    rw [lookup_cons]
    by_cases h : k' = k
    · simp [h]
    · have h' : ¬ k = k' := fun e => h e.symm
      simp [h, h', ih]

theorem mem_of_lookup_eq_some {b : KVs} {k : String} {v : Cfg} (h : lookup b k = some v) :
    (k, v) ∈ b := by
  induction b with
  | nil => simp at h
  | cons p rest ih =>
    obtain ⟨k', v'⟩ := p
    rw [lookup_cons] at h
    by_cases hk : k' = k
    · simp only [hk, if_true, Option.some.injEq] at h
      simp [hk, h]
    · simp only [hk, if_false] at h
      exact List.mem_cons_of_mem _ (ih h)

/-- with distinct keys, membership of a pair is the same as lookup -/
theorem lookup_of_mem {b : KVs} (hnd : (b.map (·.1)).Nodup) {k : String} {v : Cfg}
    (h : (k, v) ∈ b) : lookup b k = some v := by
  induction b with
  | nil => cases h
  | cons p rest ih =>
    obtain ⟨k', v'⟩ := p
    simp only [List.map_cons, List.nodup_cons, List.mem_map, not_exists, not_and] at hnd
    rw [lookup_cons]
    rcases List.mem_cons.1 h with h | h
    · simp only [Prod.mk.injEq] at h
      simp [h.1, h.2]
    · have : ¬ k' = k := fun e => hnd.1 (k, v) h e.symm
      simp only [this, if_false]
      exact ih hnd.2 h

theorem lookup_upsert_self (k : String) (f : Cfg → Cfg) (d : Cfg) (b : KVs) :
    lookup (upsert k f d b) k = some (match lookup b k with | some old => f old | none => d) := by
  induction b with
  | nil => simp [upsert, lookup_cons]
  | cons p rest ih =>
    obtain ⟨k', v'⟩ := p
    by_cases h : k' = k
    · simp [upsert, lookup_cons, h]
    · simp [upsert, lookup_cons, h, ih]

theorem lookup_upsert_ne (k : String) (f : Cfg → Cfg) (d : Cfg) (b : KVs) {k' : String}
    (hne : k' ≠ k) : lookup (upsert k f d b) k' = lookup b k' := by
  have hne' : ¬ k = k' := fun e => hne e.symm
  induction b with
  | nil => simp [upsert, lookup_cons, hne']
  | cons p rest ih =>
    obtain ⟨k₁, v₁⟩ := p
    by_cases h : k₁ = k
    · subst h
      simp [upsert, lookup_cons, hne']
    · simp [upsert, lookup_cons, h, ih]

/-- `upsert` leaves the key list unchanged if the key is present, else appends it -/
theorem keys_upsert (k : String) (f : Cfg → Cfg) (d : Cfg) (b : KVs) :
    (upsert k f d b).map (·.1) = if k ∈ b.map (·.1) then b.map (·.1) else b.map (·.1) ++ [k] := by
  induction b with
  | nil => simp [upsert]
  | cons p rest ih =>
    obtain ⟨k', v'⟩ := p
    by_cases h : k' = k
    · simp [upsert, h]
    · have h' : ¬ k = k' := fun e => h e.symm
      simp only [upsert, h, if_false, List.map_cons, ih, List.mem_cons, h', false_or]
      split <;> simp

theorem mem_keys_upsert (k : String) (f : Cfg → Cfg) (d : Cfg) (b : KVs) (k' : String) :
    k' ∈ (upsert k f d b).map (·.1) ↔ k' ∈ b.map (·.1) ∨ k' = k := by
  rw [keys_upsert]
  split
  · rename_i h
    constructor
    · exact Or.inl
    · rintro (h' | rfl)
      · exact h'
      · exact h
  · simp

theorem nodup_keys_upsert (k : String) (f : Cfg → Cfg) (d : Cfg) (b : KVs)
    (h : (b.map (·.1)).Nodup) : ((upsert k f d b).map (·.1)).Nodup := by
  rw [keys_upsert]
  split
  · exact h
  · rename_i hk
    rw [List.nodup_append]
    refine ⟨h, by simp, ?_⟩
    intro a ha b hb
    simp only [List.mem_singleton] at hb
    subst hb
    intro e; subst e; exact hk ha

/-- every entry of `upsert k f d b` is an old entry, the updated one, or the appended one -/
theorem mem_upsert {k : String} {f : Cfg → Cfg} {d : Cfg} {b : KVs} {p : String × Cfg}
    (h : p ∈ upsert k f d b) :
    p ∈ b ∨ (∃ old, (k, old) ∈ b ∧ p = (k, f old)) ∨ p = (k, d) := by
  induction b with
  | nil => simp [upsert] at h; exact Or.inr (Or.inr h)
  | cons q rest ih =>
    obtain ⟨k', v'⟩ := q
    by_cases hk : k' = k
    · subst hk
      simp only [upsert, if_true, List.mem_cons] at h
      rcases h with h | h
      · exact Or.inr (Or.inl ⟨v', List.mem_cons_self, h⟩)
      · exact Or.inl (List.mem_cons_of_mem _ h)
    · simp only [upsert, hk, if_false, List.mem_cons] at h
      rcases h with h | h
      · exact Or.inl (h ▸ List.mem_cons_self)
      · rcases ih h with h | ⟨old, ho, hp⟩ | h
        · exact Or.inl (List.mem_cons_of_mem _ h)
        · exact Or.inr (Or.inl ⟨old, List.mem_cons_of_mem _ ho, hp⟩)
        · exact Or.inr (Or.inr h)

/-- `upsert` is the identity when the key is present and `f` fixes its value -/
theorem upsert_eq_self {k : String} {f : Cfg → Cfg} {d : Cfg} {b : KVs} {old : Cfg}
    (h : lookup b k = some old) (hf : f old = old) : upsert k f d b = b := by
  induction b with
  | nil => simp at h
  | cons q rest ih =>
    obtain ⟨k', v'⟩ := q
    rw [lookup_cons] at h
    by_cases hk : k' = k
    · simp only [hk, if_true, Option.some.injEq] at h
      simp [upsert, hk, h, hf]
    · simp only [hk, if_false] at h
      simp [upsert, hk, ih h]

theorem mergeKVs_nil (b : KVs) : mergeKVs b [] = b := by simp [mergeKVs]

theorem mergeKVs_cons (b : KVs) (k : String) (v : Cfg) (rest : KVs) :
    mergeKVs b ((k, v) :: rest) = mergeKVs (upsert k (fun old => combine old v) v b) rest := by
  simp [mergeKVs]

@[simp] theorem combine_leaf_right (old : Cfg) (s : String) : combine old (.leaf s) = .leaf s := by
  simp [combine]

@[simp] theorem combine_leaf_left (s : String) (v : Cfg) : combine (.leaf s) v = v := by
  cases v <;> simp [combine]

@[simp] theorem combine_node_node (b t : KVs) :
    combine (.node b) (.node t) = .node (mergeKVs b t) := by
  simp [combine]

theorem lookup_mergeKVs_of_none {t : KVs} {k : String} (h : lookup t k = none) (b : KVs) :
    lookup (mergeKVs b t) k = lookup b k := by
  induction t generalizing b with
  | nil => rw [mergeKVs_nil]
  | cons p rest ih =>
    obtain ⟨k', v'⟩ := p
    rw [lookup_cons] at h
    by_cases hk : k' = k
    · simp [hk] at h
    · simp only [hk, if_false] at h
      rw [mergeKVs_cons, ih h, lookup_upsert_ne _ _ _ _ (fun e => hk e.symm)]

theorem lookup_mergeKVs_of_some {t : KVs} (hnd : (t.map (·.1)).Nodup) {k : String} {v : Cfg}
    (h : lookup t k = some v) (b : KVs) :
    lookup (mergeKVs b t) k
      = some (match lookup b k with | some old => combine old v | none => v) := by
  induction t generalizing b with
  | nil => simp at h
  | cons p rest ih =>
    obtain ⟨k', v'⟩ := p
    simp only [List.map_cons, List.nodup_cons] at hnd
    rw [lookup_cons] at h
    by_cases hk : k' = k
    · subst hk
      simp only [if_true, Option.some.injEq] at h
      subst h
      rw [mergeKVs_cons, lookup_mergeKVs_of_none ((lookup_eq_none_iff _ _).2 hnd.1),
        lookup_upsert_self]
    · simp only [hk, if_false] at h
      rw [mergeKVs_cons, ih hnd.2 h, lookup_upsert_ne _ _ _ _ (fun e => hk e.symm)]

theorem mem_keys_mergeKVs (b t : KVs) (k : String) :
    k ∈ (mergeKVs b t).map (·.1) ↔ k ∈ b.map (·.1) ∨ k ∈ t.map (·.1) := by
  induction t generalizing b with
  | nil => simp [mergeKVs_nil]
  | cons p rest ih =>
    obtain ⟨k', v'⟩ := p
    rw [mergeKVs_cons, ih, mem_keys_upsert]
    simp only [List.map_cons, List.mem_cons]
    constructor
    · rintro ((h | h) | h)
      · exact Or.inl h
      · exact Or.inr (Or.inl h)
      · exact Or.inr (Or.inr h)
    · rintro (h | h | h)
      · exact Or.inl (Or.inl h)
      · exact Or.inl (Or.inr h)
      · exact Or.inr h

/-! ## 3. well-formed trees (Python dicts: distinct keys at every level) -/

/-- at every node the keys are pairwise distinct and all children are well formed -/
inductive WF : Cfg → Prop where
  | leaf (s : String) : WF (.leaf s)
  | node (kvs : KVs) : (kvs.map (·.1)).Nodup → (∀ p ∈ kvs, WF p.2) → WF (.node kvs)

@[simp] theorem wf_leaf (s : String) : WF (.leaf s) := WF.leaf s

theorem wf_node_iff (kvs : KVs) :
    WF (.node kvs) ↔ (kvs.map (·.1)).Nodup ∧ ∀ p ∈ kvs, WF p.2 := by
  constructor
  · intro h; cases h with | node _ h1 h2 => exact ⟨h1, h2⟩
  · intro h; exact WF.node kvs h.1 h.2

/-- simultaneous induction over trees and their child lists (the recursor of the nested
inductive type, specialised to propositions) -/
theorem Cfg.induct {P : Cfg → Prop} {Q : KVs → Prop}
    (leaf : ∀ s, P (.leaf s)) (node : ∀ l, Q l → P (.node l))
    (nil : Q []) (cons : ∀ k v l, P v → Q l → Q ((k, v) :: l)) :
    (∀ c, P c) ∧ (∀ l, Q l) :=
  ⟨fun c => Cfg.rec (motive_1 := P) (motive_2 := Q) (motive_3 := fun p => P p.2)
      leaf node nil (fun _ _ hp hl => cons _ _ _ hp hl) (fun _ _ h => h) c,
   fun l => Cfg.rec_1 (motive_1 := P) (motive_2 := Q) (motive_3 := fun p => P p.2)
      leaf node nil (fun _ _ hp hl => cons _ _ _ hp hl) (fun _ _ h => h) l⟩

/-- well-formedness of an association list -/
def WFL (l : KVs) : Prop := (l.map (·.1)).Nodup ∧ ∀ p ∈ l, WF p.2

theorem wfl_upsert {k : String} {f : Cfg → Cfg} {d : Cfg} {b : KVs} (hb : WFL b)
    (hf : ∀ old, WF old → WF (f old)) (hd : WF d) : WFL (upsert k f d b) := by
  refine ⟨nodup_keys_upsert _ _ _ _ hb.1, ?_⟩
  intro p hp
  rcases mem_upsert hp with h | ⟨old, ho, rfl⟩ | rfl
  · exact hb.2 p h
  · exact hf old (hb.2 _ ho)
  · exact hd

theorem combine_mergeKVs_wf :
    (∀ v, WF v → ∀ old, WF old → WF (combine old v)) ∧
    (∀ t, (∀ p ∈ t, WF p.2) → ∀ b, WFL b → WFL (mergeKVs b t)) := by
  apply Cfg.induct
  · intro s _ old _; simp
  · intro t ih ht old ho
    cases old with
    | leaf s => simpa using ht
    | node b =>
      rw [combine_node_node, wf_node_iff]
      exact ih ((wf_node_iff _).1 ht).2 b ((wf_node_iff _).1 ho)
  · intro _ b hb; rw [mergeKVs_nil]; exact hb
  · intro k v l ihv ihl ht b hb
    rw [mergeKVs_cons]
    have hv : WF v := ht (k, v) List.mem_cons_self
    exact ihl (fun p hp => ht p (List.mem_cons_of_mem _ hp)) _
      (wfl_upsert hb (fun old ho => ihv hv old ho) hv)

/-- `mergeKVs c t = c` when every entry of `t` is already absorbed by `c` -/
theorem mergeKVs_eq_self_of_absorbs {t : KVs} (c : KVs)
    (h : ∀ k v, (k, v) ∈ t → ∃ old, lookup c k = some old ∧ combine old v = old) :
    mergeKVs c t = c := by
  induction t with
  | nil => rw [mergeKVs_nil]
  | cons p rest ih =>
    obtain ⟨k, v⟩ := p
    obtain ⟨old, h1, h2⟩ := h k v List.mem_cons_self
    rw [mergeKVs_cons, upsert_eq_self h1 h2]
    exact ih (fun k v hm => h k v (List.mem_cons_of_mem _ hm))

theorem combine_idem_aux :
    (∀ v, WF v → ∀ old, combine (combine old v) v = combine old v) ∧
    (∀ t : KVs, ∀ p ∈ t, WF p.2 → ∀ old, combine (combine old p.2) p.2 = combine old p.2) := by
  apply Cfg.induct
  · intro s _ old; simp
  · intro t ih ht old
    obtain ⟨hnd, hch⟩ := (wf_node_iff _).1 ht
    have self_idem : ∀ k v, (k, v) ∈ t → combine v v = v := by
      intro k v hm
      have := ih (k, v) hm (hch _ hm) (.leaf "")
      simpa using this
    cases old with
    | leaf s =>
      rw [combine_leaf_left, combine_node_node]
      congr 1
      apply mergeKVs_eq_self_of_absorbs
      intro k v hm
      exact ⟨v, lookup_of_mem hnd hm, self_idem k v hm⟩
    | node b =>
      rw [combine_node_node, combine_node_node]
      congr 1
      apply mergeKVs_eq_self_of_absorbs
      intro k v hm
      rw [lookup_mergeKVs_of_some hnd (lookup_of_mem hnd hm)]
      refine ⟨_, rfl, ?_⟩
      cases lookup b k with
      | none => exact self_idem k v hm
      | some old => exact ih (k, v) hm (hch _ hm) old
  · intro p hp; cases hp
  · intro k v l ihv ihl p hp
    rcases List.mem_cons.1 hp with rfl | hp
    · exact ihv
    · exact ihl p hp

end Arim.Config
