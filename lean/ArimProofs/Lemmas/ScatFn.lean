import ArimModel.ScatFn
import Mathlib.Analysis.SpecialFunctions.Trigonometric.Basic
import Mathlib.Analysis.SpecialFunctions.Pow.Real
import Mathlib.Data.Complex.Basic
import Mathlib.Algebra.BigOperators.Group.Finset.Basic
import Mathlib.LinearAlgebra.Matrix.NonsingularInverse
import Mathlib.Tactic.FieldSimp
import Mathlib.Tactic.Ring
import Mathlib.Tactic.LinearCombination
import Mathlib.Tactic.Positivity
/-! Helper lemmas for C09: the fold of `modalSum` as a `Finset` sum, the behaviour of
`cos (n φ)` / `sin (n φ)` (natural `n`) under `θ ↦ −θ` and under `2π`-shifts, and the symmetry of
the bilinear form of the inverse of a symmetric matrix. -/
namespace Arim.ScatFnLemmas
open Arim.ScatFn

/-- the `foldl` of the model is the finite sum `Σ_{n=0}^{maxn} trig(n φ) · coef n` -/
theorem modalSum_eq_sum {C : Type} [Field C] (t : STrig C) (h0 : t.zero = 0) (trig : C → C)
    (phi : C) (coef : ℕ → C) (maxn : ℕ) :
    modalSum t trig phi coef maxn
      = ∑ n ∈ Finset.range (maxn + 1), trig (t.ofNat n * phi) * coef n := by
  unfold modalSum
  generalize maxn + 1 = m
  induction m with
  | zero => simp [h0]
  | succ m ih => rw [List.range_succ, List.foldl_append, ih, Finset.sum_range_succ]; rfl

/-- `cos(n(π − θ)) = cos(n(θ + π))` for natural `n` -/
theorem cos_nat_flip (n : ℕ) (θ : ℂ) :
    Complex.cos ((n : ℂ) * (-θ + (Real.pi : ℂ))) = Complex.cos ((n : ℂ) * (θ + (Real.pi : ℂ))) := by
  have h : (n : ℂ) * (-θ + (Real.pi : ℂ))
      = -((n : ℂ) * (θ + (Real.pi : ℂ))) + (n : ℂ) * (2 * (Real.pi : ℂ)) := by ring
  rw [h, Complex.cos_add_nat_mul_two_pi, Complex.cos_neg]

/-- `sin(n(π − θ)) = −sin(n(θ + π))` for natural `n` -/
theorem sin_nat_flip (n : ℕ) (θ : ℂ) :
    Complex.sin ((n : ℂ) * (-θ + (Real.pi : ℂ))) = -Complex.sin ((n : ℂ) * (θ + (Real.pi : ℂ))) := by
  have h : (n : ℂ) * (-θ + (Real.pi : ℂ))
      = -((n : ℂ) * (θ + (Real.pi : ℂ))) + (n : ℂ) * (2 * (Real.pi : ℂ)) := by ring
  rw [h, Complex.sin_add_nat_mul_two_pi, Complex.sin_neg]

/-- `cos(n(φ + 2πk)) = cos(nφ)` for natural `n`, integer `k` -/
theorem cos_nat_mul_add_int (n : ℕ) (k : ℤ) (φ : ℂ) :
    Complex.cos ((n : ℂ) * (φ + 2 * (Real.pi : ℂ) * (k : ℂ))) = Complex.cos ((n : ℂ) * φ) := by
  have h : (n : ℂ) * (φ + 2 * (Real.pi : ℂ) * (k : ℂ))
      = (n : ℂ) * φ + (((n : ℤ) * k : ℤ) : ℂ) * (2 * (Real.pi : ℂ)) := by push_cast; ring
  rw [h, Complex.cos_add_int_mul_two_pi]

/-- `sin(n(φ + 2πk)) = sin(nφ)` for natural `n`, integer `k` -/
theorem sin_nat_mul_add_int (n : ℕ) (k : ℤ) (φ : ℂ) :
    Complex.sin ((n : ℂ) * (φ + 2 * (Real.pi : ℂ) * (k : ℂ))) = Complex.sin ((n : ℂ) * φ) := by
  have h : (n : ℂ) * (φ + 2 * (Real.pi : ℂ) * (k : ℂ))
      = (n : ℂ) * φ + (((n : ℤ) * k : ℤ) : ℂ) * (2 * (Real.pi : ℂ)) := by push_cast; ring
  rw [h, Complex.sin_add_int_mul_two_pi]

/-- the bilinear form of the inverse of a symmetric matrix is symmetric (no invertibility
hypothesis is needed: for a singular matrix Mathlib's `A⁻¹` is `0`) -/
theorem symm_inv_form {n K : Type} [Fintype n] [DecidableEq n] [Field K]
    (A : Matrix n n K) (hA : A.transpose = A) (u v : n → K) :
    u ⬝ᵥ (A⁻¹.mulVec v) = v ⬝ᵥ (A⁻¹.mulVec u) := by
  have hinv : (A⁻¹).transpose = A⁻¹ := by rw [Matrix.transpose_nonsing_inv, hA]
  rw [Matrix.dotProduct_mulVec, ← Matrix.mulVec_transpose, hinv, dotProduct_comm]

/-- `(2πf/v)^{5/2} / √(v/f) = (2πf)² √(2π) f / v³`: the wave-speed dependence of the prefactors
`ξ₁^{5/2}/√λ_L`, `ξ₂^{5/2}/√λ_T` of the crack-centre kernel is `v⁻³` -/
theorem rpow_five_half_div_sqrt (f v : ℝ) (hf : 0 < f) (hv : 0 < v) :
    (2 * Real.pi * f / v) ^ ((5 : ℝ) / 2) / Real.sqrt (v / f)
      = (2 * Real.pi * f) ^ 2 * Real.sqrt (2 * Real.pi) * f / v ^ 3 := by
  have hπ := Real.pi_pos
  have hx : 0 < 2 * Real.pi * f / v := by positivity
  have h1 : (2 * Real.pi * f / v) ^ ((5 : ℝ) / 2)
      = (2 * Real.pi * f / v) ^ 2 * Real.sqrt (2 * Real.pi * f / v) := by
    rw [show ((5 : ℝ) / 2) = 2 + 1 / 2 by norm_num, Real.rpow_add hx, Real.rpow_two,
      ← Real.sqrt_eq_rpow]
  have h2 : Real.sqrt (2 * Real.pi * f / v)
      = Real.sqrt (2 * Real.pi) * (f / v) * Real.sqrt (v / f) := by
    have h3 : Real.sqrt (2 * Real.pi) * (f / v) = Real.sqrt (2 * Real.pi * (f / v) ^ 2) := by
      rw [Real.sqrt_mul (x := 2 * Real.pi) (by positivity) ((f / v) ^ 2),
        Real.sqrt_sq (by positivity)]
    rw [h3, ← Real.sqrt_mul (by positivity)]
    congr 1
    field_simp
  have hs : Real.sqrt (v / f) ≠ 0 := by positivity
  rw [h1, h2]
  field_simp

end Arim.ScatFnLemmas
