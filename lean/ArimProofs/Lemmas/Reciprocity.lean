import ArimModel.Interface
import ArimModel.Weights
import ArimProofs.Lemmas.Weights
import ArimProofs.C04
import ArimProofs.C06
import ArimProofs.C07
import Mathlib.Data.List.GetD
import Mathlib.Algebra.Order.BigOperators.GroupWithZero.List
/-! Lemmas for C03 (reciprocity of the immersion model): per-interface ratio of the direct and
reverse coefficients in displacement units, ratio of the direct and reverse beamspreads. -/
namespace Arim.Recip
open Arim.Iface Arim.Weights Arim.C04

/-! ## 1. Coefficient triples: Stokes relations in displacement units, multiplicative form -/
noncomputable section core
open Complex

variable (asin : ℂ → ℂ) (m : Media ℂ) (aF aL aT : ℂ)

/-- front wall, L wave in the solid: `t_dir · ρ_s c_L cos α_L = t_rev · ρ_f c_f cos α_F`
(`t_dir` = fluid→solid into L, `t_rev` = solid→fluid from L, both in displacement units) -/
theorem trans_ratio_L (hρf : m.rhoF ≠ 0) (hρs : m.rhoS ≠ 0) (hcf : m.cF ≠ 0) (hcl : m.cL ≠ 0)
    (hcos : cos aF ≠ 0) :
    ((fluidSolid (cTrig asin) m aF aL aT).2.1 * (m.rhoF * m.cF / (m.rhoS * m.cL)))
        * (m.rhoS * m.cL * cos aL)
      = ((solidLFluid (cTrig asin) m aF aL aT).2.2 * (m.rhoS * m.cL / (m.rhoF * m.cF)))
        * (m.rhoF * m.cF * cos aF) := by
  rw [stokes_L]
  field_simp

/-- front wall, T wave in the solid: `t_dir · ρ_s c_T cos α_T = − t_rev · ρ_f c_f cos α_F` -/
theorem trans_ratio_T (hρf : m.rhoF ≠ 0) (hρs : m.rhoS ≠ 0) (hcf : m.cF ≠ 0) (hcl : m.cL ≠ 0)
    (hct : m.cT ≠ 0) (hcos : cos aF ≠ 0) (hsnell : m.cL * sin aT = m.cT * sin aL) :
    ((fluidSolid (cTrig asin) m aF aL aT).2.2 * (m.rhoF * m.cF / (m.rhoS * m.cT)))
        * (m.rhoS * m.cT * cos aT)
      = -(((solidTFluid (cTrig asin) m aF aL aT).2.2 * (m.rhoS * m.cT / (m.rhoF * m.cF)))
        * (m.rhoF * m.cF * cos aF)) := by
  rw [stokes_T asin m aF aL aT hcl hct hsnell]
  field_simp

/-- mode-converting reflection L → T against T → L:
`r_LT · ρ_s c_T cos α_T = − r_TL · ρ_s c_L cos α_L` (displacement units) -/
theorem refl_ratio_LT (hcl : m.cL ≠ 0) (hct : m.cT ≠ 0)
    (hsnell : m.cL * sin aT = m.cT * sin aL) :
    ((solidLFluid (cTrig asin) m aF aL aT).2.1 * (m.cL / m.cT)) * (m.rhoS * m.cT * cos aT)
      = -(((solidTFluid (cTrig asin) m aF aL aT).1 * (m.cT / m.cL)) * (m.rhoS * m.cL * cos aL)) := by
  have h := stokes_refl asin m aF aL aT hcl hsnell
  have e1 : ((solidLFluid (cTrig asin) m aF aL aT).2.1 * (m.cL / m.cT)) * (m.rhoS * m.cT * cos aT)
      = m.rhoS * (m.cL * cos aT * (solidLFluid (cTrig asin) m aF aL aT).2.1) := by
    field_simp
  have e2 : ((solidTFluid (cTrig asin) m aF aL aT).1 * (m.cT / m.cL)) * (m.rhoS * m.cL * cos aL)
      = m.rhoS * (m.cT * cos aL * (solidTFluid (cTrig asin) m aF aL aT).1) := by
    field_simp
  rw [e1, e2, h]; ring

/-- the same relation read from the T side -/
theorem refl_ratio_TL (hcl : m.cL ≠ 0) (hct : m.cT ≠ 0)
    (hsnell : m.cL * sin aT = m.cT * sin aL) :
    ((solidTFluid (cTrig asin) m aF aL aT).1 * (m.cT / m.cL)) * (m.rhoS * m.cL * cos aL)
      = -(((solidLFluid (cTrig asin) m aF aL aT).2.1 * (m.cL / m.cT)) * (m.rhoS * m.cT * cos aT)) := by
  rw [refl_ratio_LT asin m aF aL aT hcl hct hsnell]; ring

/-! ### Snell images of Snell images -/

/-- refracting twice is refracting once (the arcsine is a right inverse of the sine) -/
theorem snell_snell (hsin : ∀ x, sin (asin x) = x) (a c0 c1 c2 : ℂ) (h1 : c1 ≠ 0) :
    snell (cTrig asin) (snell (cTrig asin) a c0 c1) c1 c2 = snell (cTrig asin) a c0 c2 := by
  simp only [snell_cTrig, hsin]
  congr 1
  field_simp

/-- same velocity on both sides: the angle itself, when the arcsine inverts the sine there -/
theorem snell_self (a c : ℂ) (hc : c ≠ 0) (hasin : asin (sin a) = a) :
    snell (cTrig asin) a c c = a := by
  rw [snell_cTrig, div_self hc, one_mul, hasin]

/-- Snell's law for two images of one angle -/
theorem snell_images (hsin : ∀ x, sin (asin x) = x) (a c0 c1 c2 : ℂ) (h0 : c0 ≠ 0) :
    c1 * sin (snell (cTrig asin) a c0 c2) = c2 * sin (snell (cTrig asin) a c0 c1) := by
  simp only [snell_cTrig, hsin]; field_simp

end core

/-! ## 2. Legs and interior interfaces of an immersion path -/

/-- label of a leg of an immersion path: `none` = in the fluid, `some a` = in the solid with
mode `a` -/
abbrev Leg := Option Mode

section legs
variable {K : Type}

/-- velocity of a leg -/
def legVel (m : Media K) : Leg → K
  | none => m.cF
  | some a => velS m a

/-- density of the medium of a leg -/
def legRho (m : Media K) : Leg → K
  | none => m.rhoF
  | some _ => m.rhoS

/-- polarisation sign of a leg: `−1` for a T wave, `+1` otherwise -/
def legSign [One K] [Neg K] : Leg → K
  | some .T => -1
  | _ => 1

/-- the interior interface met by a ray coming along leg `ℓ` and leaving into the solid with
mode `b`, incidence angle `θ`, as `transmission_reflection_for_path` sees it: the front wall
(transmission fluid→solid, incident mode `L`) when `ℓ` is in the fluid, a reflection against a
solid|fluid wall when `ℓ` is in the solid -/
def specOf (m : Media K) (ℓ : Leg) (b : Mode) (θ : K) : IfaceSpec K :=
  match ℓ with
  | none => ⟨true, .fluidSolid, .L, b, θ, m.cF, velS m b⟩
  | some a => ⟨false, .solidFluid, a, b, θ, velS m a, velS m b⟩

end legs

noncomputable section ratio
open Complex

variable (asin : ℂ → ℂ) (m : Media ℂ)

theorem coef_front (b : Mode) (θ : ℂ) :
    coef (cTrig asin) m true (specOf m none b θ) =
      .ok (pickTrans (fluidSolid (cTrig asin) m θ (snell (cTrig asin) θ m.cF m.cL)
            (snell (cTrig asin) θ m.cF m.cT)) b * ((m.rhoF * m.cF) / (m.rhoS * velS m b))) := by
  simp only [coef, specOf, if_true]
  exact transmission_fluid_solid _ _ _ _ _

theorem coef_front_rev (b : Mode) (θ : ℂ) :
    coef (cTrig asin) m true (revSpec (cTrig asin) (specOf m none b θ)) =
      .ok ((solidFluidAt (cTrig asin) m b (snell (cTrig asin) θ m.cF (velS m b))).2.2
        * ((m.rhoS * velS m b) / (m.rhoF * m.cF))) := by
  simp only [coef, specOf, revSpec, Kind.rev, if_true]
  exact transmission_solid_fluid _ _ _ _ _

theorem coef_refl (a b : Mode) (θ : ℂ) :
    coef (cTrig asin) m true (specOf m (some a) b θ) =
      .ok (pickRefl (solidFluidAt (cTrig asin) m a θ) b * (velS m a / velS m b)) := by
  simp only [coef, specOf]
  exact reflection_solid_fluid _ _ _ _ _ _

theorem coef_refl_rev (a b : Mode) (θ : ℂ) :
    coef (cTrig asin) m true (revSpec (cTrig asin) (specOf m (some a) b θ)) =
      .ok (pickRefl (solidFluidAt (cTrig asin) m b (snell (cTrig asin) θ (velS m a) (velS m b))) a
        * (velS m b / velS m a)) := by
  simp only [coef, specOf, revSpec]
  exact reflection_solid_fluid _ _ _ _ _ _

/-- **Per-interface coefficient ratio, displacement units.** For every interior interface of an
immersion path (front-wall transmission `L → b`, or reflection `a → b` against a solid|fluid
wall), with `θ` the incidence angle and `θ' = snell θ` the exit angle which the reverse routine
uses as its incidence angle:

`coef(direct) · ρ_out c_out cos θ' = σ_in σ_out · coef(reverse) · ρ_in c_in cos θ`

with `σ = −1` for a T leg and `+1` otherwise. Hypotheses: the arcsine is a right inverse of the
sine, it returns `θ` at `sin θ`, non-zero densities and velocities, `cos θ ≠ 0`. -/
theorem coef_ratio (hsin : ∀ x, sin (asin x) = x)
    (hρf : m.rhoF ≠ 0) (hρs : m.rhoS ≠ 0) (hcf : m.cF ≠ 0) (hcl : m.cL ≠ 0) (hct : m.cT ≠ 0)
    (ℓ : Leg) (b : Mode) (θ : ℂ) (hasin : asin (sin θ) = θ) (hcos : cos θ ≠ 0) :
    ∃ cd cr : ℂ,
      coef (cTrig asin) m true (specOf m ℓ b θ) = .ok cd ∧
      coef (cTrig asin) m true (revSpec (cTrig asin) (specOf m ℓ b θ)) = .ok cr ∧
      cd * (legRho m (some b) * legVel m (some b)
              * cos (snell (cTrig asin) θ (legVel m ℓ) (legVel m (some b))))
        = legSign ℓ * legSign (some b) * (cr * (legRho m ℓ * legVel m ℓ * cos θ)) := by
  have hLT := snell_images asin hsin
  rcases ℓ with _ | a
  · -- front wall
    cases b
    · refine ⟨_, _, coef_front asin m _ θ, coef_front_rev asin m _ θ, ?_⟩
      · simp only [pickTrans, solidFluidAt, velS, legRho, legVel, legSign]
        rw [snell_snell asin hsin θ m.cF m.cL m.cF hcl, snell_self asin θ m.cF hcf hasin,
          snell_snell asin hsin θ m.cF m.cL m.cT hcl,
          trans_ratio_L asin m θ _ _ hρf hρs hcf hcl hcos]
        ring
    · refine ⟨_, _, coef_front asin m _ θ, coef_front_rev asin m _ θ, ?_⟩
      · simp only [pickTrans, solidFluidAt, velS, legRho, legVel, legSign]
        rw [snell_snell asin hsin θ m.cF m.cT m.cF hct, snell_self asin θ m.cF hcf hasin,
          snell_snell asin hsin θ m.cF m.cT m.cL hct,
          trans_ratio_T asin m θ _ _ hρf hρs hcf hcl hct hcos (hLT θ m.cF m.cL m.cT hcf)]
        ring
  · -- reflection against a solid|fluid wall
    cases a <;> cases b
    · -- L → L
      refine ⟨_, _, coef_refl asin m _ _ θ, coef_refl_rev asin m _ _ θ, ?_⟩
      · simp only [pickRefl, solidFluidAt, velS, legRho, legVel, legSign]
        rw [snell_self asin θ m.cL hcl hasin]
        ring
    · -- L → T
      refine ⟨_, _, coef_refl asin m _ _ θ, coef_refl_rev asin m _ _ θ, ?_⟩
      · simp only [pickRefl, solidFluidAt, velS, legRho, legVel, legSign]
        rw [snell_snell asin hsin θ m.cL m.cT m.cF hct, snell_snell asin hsin θ m.cL m.cT m.cL hct,
          snell_self asin θ m.cL hcl hasin,
          refl_ratio_LT asin m _ θ _ hcl hct ?_]
        · ring
        · have := hLT θ m.cL m.cL m.cT hcl
          rw [snell_self asin θ m.cL hcl hasin] at this
          exact this
    · -- T → L
      refine ⟨_, _, coef_refl asin m _ _ θ, coef_refl_rev asin m _ _ θ, ?_⟩
      · simp only [pickRefl, solidFluidAt, velS, legRho, legVel, legSign]
        rw [snell_snell asin hsin θ m.cT m.cL m.cF hcl, snell_snell asin hsin θ m.cT m.cL m.cT hcl,
          snell_self asin θ m.cT hct hasin,
          refl_ratio_TL asin m _ _ θ hcl hct ?_]
        · ring
        · have := hLT θ m.cT m.cL m.cT hct
          rw [snell_self asin θ m.cT hct hasin] at this
          exact this
    · -- T → T
      refine ⟨_, _, coef_refl asin m _ _ θ, coef_refl_rev asin m _ _ θ, ?_⟩
      · simp only [pickRefl, solidFluidAt, velS, legRho, legVel, legSign]
        rw [snell_self asin θ m.cT hct hasin]
        ring

end ratio

/-! ## 3. Virtual distance of the reversed path -/
section vdrev
variable {K : Type} [Field K]

/-- splitting the first leg -/
theorem virtualDistance_head_add (a b : K) (rest gs : List K) :
    virtualDistance 1 ((a + b) :: rest) gs = a + virtualDistance 1 (b :: rest) gs := by
  rw [virtualDistance_cons_take, virtualDistance_cons_take, add_assoc]

/-- first interface and first leg peeled off: `d = r₁ + d(rest)/γ₁` -/
theorem virtualDistance_cons_cons (r₁ r₂ γ : K) (rest gs : List K) (hγ : γ ≠ 0) :
    virtualDistance 1 (r₁ :: r₂ :: rest) (γ :: gs) = r₁ + virtualDistance 1 (r₂ :: rest) gs / γ := by
  rw [virtualDistance_step _ _ _ _ _ hγ, virtualDistance_head_add]
  field_simp

/-- one more leg and one more interface at the far end -/
theorem virtualDistance_snoc (L G : List K) (x g : K) (hlen : G.length + 1 = L.length) :
    virtualDistance 1 (L ++ [x]) (G ++ [g]) = virtualDistance 1 L G + x / (G ++ [g]).prod := by
  cases L with
  | nil => simp at hlen
  | cons l₁ L' =>
    have hlen' : G.length = L'.length := by simpa using hlen
    rw [List.cons_append, virtualDistance_cons_take, virtualDistance_cons_take, List.length_append,
      List.length_singleton, Finset.sum_range_succ, add_assoc]
    congr 2
    · apply Finset.sum_congr rfl
      intro k hk
      have hk' : k < L'.length := Finset.mem_range.1 hk
      rw [List.getD_append _ _ _ _ hk', List.take_append_of_le_length (by omega)]
    · rw [List.getD_append_right _ _ _ _ (le_refl _), Nat.sub_self, List.getD_cons_zero]
      congr 1
      rw [List.take_of_length_le (by simp; omega)]

/-- **Virtual distance of the reversed path.** Reversing the legs and replacing the interface
factors by their inverses in reverse order (which is what the reverse beamspread routine does,
`revGammas_inv`) multiplies the virtual distance by the product of the direct factors:
`d_rev = (γ_1 ⋯ γ_{n−1}) · d`. -/
theorem virtualDistance_reverse (legs gs : List K) (hlen : gs.length + 1 = legs.length)
    (hg : ∀ γ ∈ gs, γ ≠ 0) :
    virtualDistance 1 legs.reverse ((gs.map (·⁻¹)).reverse) = gs.prod * virtualDistance 1 legs gs := by
  induction gs generalizing legs with
  | nil =>
    cases legs with
    | nil => simp at hlen
    | cons r rest =>
      have : rest = [] := by cases rest <;> simp_all
      subst this
      simp [virtualDistance]
  | cons γ gs ih =>
    cases legs with
    | nil => simp at hlen
    | cons r₁ rest =>
      cases rest with
      | nil => simp at hlen
      | cons r₂ rest =>
        have hγ : γ ≠ 0 := hg γ (by simp)
        have hlen' : gs.length + 1 = (r₂ :: rest).length := by simpa using hlen
        have hP : gs.prod ≠ 0 := List.prod_ne_zero (fun h => hg 0 (by simp [h]) rfl)
        rw [virtualDistance_cons_cons _ _ _ _ _ hγ, List.reverse_cons (a := r₁), List.map_cons,
          List.reverse_cons (a := γ⁻¹),
          virtualDistance_snoc _ _ _ _ (by simpa using hlen'),
          ih (r₂ :: rest) hlen' (fun g hg' => hg g (by simp [hg'])),
          List.prod_append, List.prod_reverse, ← List.prod_inv, List.prod_singleton, List.prod_cons]
        field_simp
        ring

end vdrev

/-! ## 4. Ratio of the direct and reverse beamspreads (real instance) -/
noncomputable section beam
open Arim.C06 Arim.C07

/-- the virtual distance which the reverse routine computes is `∏γ` times the direct one; no
Snell's law is needed (only `γ' = 1/γ`, `revGammas_inv`) -/
theorem rev_virtualDistance (legs vels thetas : List ℝ) (hlen : thetas.length + 1 = vels.length)
    (hlegs : legs.length = vels.length) (hg : ∀ γ ∈ gammas rT vels thetas, γ ≠ 0) :
    virtualDistance 1 legs.reverse (revGammas rT vels.reverse thetas.reverse)
      = (gammas rT vels thetas).prod * virtualDistance 1 legs (gammas rT vels thetas) := by
  rw [revGammas_inv rT rfl vels thetas hlen]
  exact virtualDistance_reverse legs _ (by rw [gammas_length rT vels thetas hlen]; omega) hg

/-- **Beamspread ratio**: `B = √(γ_1 ⋯ γ_{n−1}) · B_rev` as soon as the interface factors are
positive -/
theorem beamspread_eq_sqrt_mul_rev (legs vels thetas : List ℝ)
    (hlen : thetas.length + 1 = vels.length) (hlegs : legs.length = vels.length)
    (hpos : ∀ γ ∈ gammas rT vels thetas, 0 < γ) :
    beamspread rT legs vels thetas
      = Real.sqrt (gammas rT vels thetas).prod * revBeamspread rT legs vels thetas := by
  have hP : 0 < (gammas rT vels thetas).prod := List.prod_pos hpos
  have h := rev_virtualDistance legs vels thetas hlen hlegs (fun γ hγ => (hpos γ hγ).ne')
  change 1 / Real.sqrt (virtualDistance 1 legs (gammas rT vels thetas))
    = Real.sqrt (gammas rT vels thetas).prod
      * (1 / Real.sqrt (virtualDistance 1 legs.reverse (revGammas rT vels.reverse thetas.reverse)))
  rw [h, Real.sqrt_mul hP.le]
  have : Real.sqrt (gammas rT vels thetas).prod ≠ 0 := (Real.sqrt_pos.2 hP).ne'
  by_cases hd : Real.sqrt (virtualDistance 1 legs (gammas rT vels thetas)) = 0
  · rw [hd]; simp
  · field_simp

/-- squared form: `B_rev² · ∏γ = B²` (non-negative virtual distance) -/
theorem beamspread_sq_eq (legs vels thetas : List ℝ)
    (hlen : thetas.length + 1 = vels.length) (hlegs : legs.length = vels.length)
    (hpos : ∀ γ ∈ gammas rT vels thetas, 0 < γ) :
    revBeamspread rT legs vels thetas ^ 2 * (gammas rT vels thetas).prod
      = beamspread rT legs vels thetas ^ 2 := by
  have hP : 0 < (gammas rT vels thetas).prod := List.prod_pos hpos
  rw [beamspread_eq_sqrt_mul_rev legs vels thetas hlen hlegs hpos, mul_pow, Real.sq_sqrt hP.le]
  ring

end beam

/-! ## 5. Immersion paths as lists of interior interfaces -/
noncomputable section path
open Arim.C06 Arim.C07

/-- one interior interface of a path, seen from the ray: mode of the outgoing leg (in the solid),
real incidence angle `θ`, real exit (refraction/reflection) angle `φ` -/
structure Step where
  mOut : Mode
  θ : ℝ
  φ : ℝ

/-- real media as complex media -/
def toC (m : Media ℝ) : Media ℂ := mediaR m.rhoF m.rhoS m.cF m.cL m.cT

/-- positive densities and velocities -/
structure MediaPos (m : Media ℝ) : Prop where
  rhoF : 0 < m.rhoF
  rhoS : 0 < m.rhoS
  cF : 0 < m.cF
  cL : 0 < m.cL
  cT : 0 < m.cT

theorem velS_toC (m : Media ℝ) (a : Mode) : velS (toC m) a = ((velS m a : ℝ) : ℂ) := by
  cases a <;> rfl

theorem legVel_toC (m : Media ℝ) (ℓ : Leg) : legVel (toC m) ℓ = ((legVel m ℓ : ℝ) : ℂ) := by
  rcases ℓ with _ | a
  · rfl
  · exact velS_toC m a

theorem legRho_toC (m : Media ℝ) (ℓ : Leg) : legRho (toC m) ℓ = ((legRho m ℓ : ℝ) : ℂ) := by
  rcases ℓ with _ | a <;> rfl

theorem velS_pos {m : Media ℝ} (h : MediaPos m) (a : Mode) : 0 < velS m a := by
  cases a
  · exact h.cL
  · exact h.cT

theorem legVel_pos {m : Media ℝ} (h : MediaPos m) (ℓ : Leg) : 0 < legVel m ℓ := by
  rcases ℓ with _ | a
  · exact h.cF
  · exact velS_pos h a

theorem legRho_pos {m : Media ℝ} (h : MediaPos m) (ℓ : Leg) : 0 < legRho m ℓ := by
  rcases ℓ with _ | a
  · exact h.rhoF
  · exact h.rhoS

theorem legSign_mul_self {K : Type} [Ring K] (ℓ : Leg) : (legSign ℓ : K) * legSign ℓ = 1 := by
  rcases ℓ with _ | a
  · simp [legSign]
  · cases a <;> simp [legSign]

/-- the interior interfaces of the path that starts along leg `ℓ` -/
def specsFrom (m : Media ℂ) : Leg → List Step → List (IfaceSpec ℂ)
  | _, [] => []
  | ℓ, st :: sts => specOf m ℓ st.mOut (st.θ : ℂ) :: specsFrom m (some st.mOut) sts

/-- the velocities of the legs -/
def velsFrom (m : Media ℝ) (ℓ : Leg) (steps : List Step) : List ℝ :=
  legVel m ℓ :: steps.map (fun st => velS m st.mOut)

/-- the label of the last leg -/
def lastLeg : Leg → List Step → Leg
  | ℓ, [] => ℓ
  | _, st :: sts => lastLeg (some st.mOut) sts

/-- the geometric hypotheses at every interior interface: the arcsine returns the (real)
incidence angle at its sine, the Snell image of the incidence angle which the reverse routine
computes is the real exit angle `φ`, and both angles are in `(−π/2, π/2)` (positive cosine) -/
def GoodFrom (asin : ℂ → ℂ) (m : Media ℝ) : Leg → List Step → Prop
  | _, [] => True
  | ℓ, st :: sts =>
    (asin (Complex.sin st.θ) = st.θ ∧
      snell (cTrig asin) (st.θ : ℂ) (legVel (toC m) ℓ) (legVel (toC m) (some st.mOut)) = (st.φ : ℂ) ∧
      0 < Real.cos st.θ ∧ 0 < Real.cos st.φ) ∧ GoodFrom asin m (some st.mOut) sts

/-- `∏ ρ_in c_in cos θ` over the interior interfaces -/
def Kin (m : Media ℝ) : Leg → List Step → ℝ
  | _, [] => 1
  | ℓ, st :: sts => legRho m ℓ * legVel m ℓ * Real.cos st.θ * Kin m (some st.mOut) sts

/-- `∏ ρ_out c_out cos φ` over the interior interfaces -/
def Kout (m : Media ℝ) : List Step → ℝ
  | [] => 1
  | st :: sts => legRho m (some st.mOut) * legVel m (some st.mOut) * Real.cos st.φ * Kout m sts

/-- Schmerr's ray-tube factors `c_in cos²φ / (c_out cos²θ)` -/
def gammaList (m : Media ℝ) : Leg → List Step → List ℝ
  | _, [] => []
  | ℓ, st :: sts =>
    (legVel m ℓ * Real.cos st.φ * Real.cos st.φ) / (legVel m (some st.mOut) * Real.cos st.θ * Real.cos st.θ)
      :: gammaList m (some st.mOut) sts

/-- the leg invariant `ρ c^{3/2}` -/
def legG (m : Media ℝ) (ℓ : Leg) : ℝ := legRho m ℓ * legVel m ℓ * Real.sqrt (legVel m ℓ)

theorem legG_pos {m : Media ℝ} (h : MediaPos m) (ℓ : Leg) : 0 < legG m ℓ :=
  mul_pos (mul_pos (legRho_pos h ℓ) (legVel_pos h ℓ)) (Real.sqrt_pos.2 (legVel_pos h ℓ))

theorem Kin_pos {asin : ℂ → ℂ} {m : Media ℝ} (h : MediaPos m) (ℓ : Leg) (steps : List Step)
    (hg : GoodFrom asin m ℓ steps) : 0 < Kin m ℓ steps := by
  induction steps generalizing ℓ with
  | nil => simp [Kin]
  | cons st sts ih =>
    obtain ⟨⟨_, _, hθ, _⟩, hrest⟩ := hg
    exact mul_pos (mul_pos (mul_pos (legRho_pos h ℓ) (legVel_pos h ℓ)) hθ) (ih _ hrest)

theorem velsFrom_length (m : Media ℝ) (ℓ : Leg) (steps : List Step) :
    (velsFrom m ℓ steps).length = steps.length + 1 := by simp [velsFrom]

/-- real Snell's law at an interface, from the hypothesis on the arcsine -/
theorem snell_real_of_good {asin : ℂ → ℂ} (hsin : ∀ x, Complex.sin (asin x) = x) {m : Media ℝ}
    (h : MediaPos m) (ℓ : Leg) (b : Mode) (θ φ : ℝ)
    (hφ : snell (cTrig asin) (θ : ℂ) (legVel (toC m) ℓ) (legVel (toC m) (some b)) = (φ : ℂ)) :
    legVel m ℓ * Real.sin φ = legVel m (some b) * Real.sin θ := by
  have h1 := congrArg Complex.sin hφ
  rw [snell_cTrig, hsin, legVel_toC, legVel_toC] at h1
  have hv : ((legVel m ℓ : ℝ) : ℂ) ≠ 0 := by exact_mod_cast (legVel_pos h ℓ).ne'
  have h2 : ((legVel m ℓ : ℝ) : ℂ) * Complex.sin (φ : ℂ)
      = ((legVel m (some b) : ℝ) : ℂ) * Complex.sin (θ : ℂ) := by
    rw [← h1]; field_simp
  exact_mod_cast h2

/-- under Snell's law the interface factors of the code are Schmerr's factors -/
theorem gammas_eq_gammaList {asin : ℂ → ℂ} (hsin : ∀ x, Complex.sin (asin x) = x) {m : Media ℝ}
    (h : MediaPos m) (ℓ : Leg) (steps : List Step) (hg : GoodFrom asin m ℓ steps) :
    gammas rT (velsFrom m ℓ steps) (steps.map (·.θ)) = gammaList m ℓ steps := by
  induction steps generalizing ℓ with
  | nil => simp [velsFrom, gammas, gammaList]
  | cons st sts ih =>
    obtain ⟨⟨_, hφ, _, _⟩, hrest⟩ := hg
    have hs := snell_real_of_good hsin h ℓ st.mOut st.θ st.φ hφ
    have := gamma_snell rT (legVel m ℓ) (legVel m (some st.mOut)) st.θ st.φ
      (sts.map (fun st => velS m st.mOut)) (sts.map (·.θ)) (legVel_pos h _).ne' hs (rT_pyth st.φ)
    change gammas rT (legVel m ℓ :: legVel m (some st.mOut) :: sts.map (fun st => velS m st.mOut))
      (st.θ :: sts.map (·.θ)) = _
    rw [this]
    change _ :: gammas rT (velsFrom m (some st.mOut) sts) (sts.map (·.θ)) = _
    rw [ih _ hrest]
    rfl

theorem gammaList_pos {asin : ℂ → ℂ} {m : Media ℝ} (h : MediaPos m) (ℓ : Leg) (steps : List Step)
    (hg : GoodFrom asin m ℓ steps) : ∀ γ ∈ gammaList m ℓ steps, 0 < γ := by
  induction steps generalizing ℓ with
  | nil => simp [gammaList]
  | cons st sts ih =>
    obtain ⟨⟨_, _, hθ, hφ⟩, hrest⟩ := hg
    intro γ hγ
    rcases List.mem_cons.1 hγ with rfl | hγ
    · exact div_pos (mul_pos (mul_pos (legVel_pos h ℓ) hφ) hφ)
        (mul_pos (mul_pos (legVel_pos h _) hθ) hθ)
    · exact ih _ hrest γ hγ

/-- one interface: `√γ · (ρ_in c_in cos θ) · ρ_out c_out^{3/2} = (ρ_out c_out cos φ) · ρ_in c_in^{3/2}` -/
theorem sqrt_step (vin vout ρin ρout cθ cφ : ℝ) (hvin : 0 < vin) (hvout : 0 < vout)
    (hθ : 0 < cθ) (hφ : 0 < cφ) :
    Real.sqrt ((vin * cφ * cφ) / (vout * cθ * cθ)) * (ρin * vin * cθ) * (ρout * vout * Real.sqrt vout)
      = (ρout * vout * cφ) * (ρin * vin * Real.sqrt vin) := by
  have e1 : Real.sqrt (vin * cφ * cφ) = Real.sqrt vin * cφ := by
    rw [mul_assoc, Real.sqrt_mul hvin.le, Real.sqrt_mul_self hφ.le]
  have e2 : Real.sqrt (vout * cθ * cθ) = Real.sqrt vout * cθ := by
    rw [mul_assoc, Real.sqrt_mul hvout.le, Real.sqrt_mul_self hθ.le]
  rw [Real.sqrt_div (by positivity), e1, e2]
  have : Real.sqrt vout ≠ 0 := (Real.sqrt_pos.2 hvout).ne'
  field_simp

/-- **Telescoping of the geometric factors**: `√(∏γ) · ∏K_in · G(last leg) = ∏K_out · G(first leg)`
with `G = ρ c^{3/2}` -/
theorem sqrt_gamma_telescope {asin : ℂ → ℂ} {m : Media ℝ} (h : MediaPos m) (ℓ : Leg)
    (steps : List Step) (hg : GoodFrom asin m ℓ steps) :
    Real.sqrt (gammaList m ℓ steps).prod * Kin m ℓ steps * legG m (lastLeg ℓ steps)
      = Kout m steps * legG m ℓ := by
  induction steps generalizing ℓ with
  | nil => simp [gammaList, Kin, Kout, lastLeg]
  | cons st sts ih =>
    have hpos := gammaList_pos h ℓ (st :: sts) hg
    obtain ⟨⟨_, _, hθ, hφ⟩, hrest⟩ := hg
    have IH := ih _ hrest
    have hstep := sqrt_step (legVel m ℓ) (legVel m (some st.mOut)) (legRho m ℓ)
      (legRho m (some st.mOut)) (Real.cos st.θ) (Real.cos st.φ) (legVel_pos h _) (legVel_pos h _) hθ hφ
    simp only [gammaList, Kin, Kout, lastLeg, List.prod_cons] at hpos ⊢
    rw [Real.sqrt_mul (hpos _ (by simp)).le]
    simp only [legG] at IH hstep ⊢
    linear_combination
      (Real.sqrt ((legVel m ℓ * Real.cos st.φ * Real.cos st.φ)
          / (legVel m (some st.mOut) * Real.cos st.θ * Real.cos st.θ))
        * (legRho m ℓ * legVel m ℓ * Real.cos st.θ)) * IH + Kout m sts * hstep

/-- **Telescoping of the coefficients**: no coefficient of the direct or of the reverse product
is an error, and `∏ coef(direct) · ∏K_out = σ_first σ_last · ∏ coef(reverse) · ∏K_in` -/
theorem coef_telescope {asin : ℂ → ℂ} (hsin : ∀ x, Complex.sin (asin x) = x) {m : Media ℝ}
    (h : MediaPos m) (ℓ : Leg) (steps : List Step) (hg : GoodFrom asin m ℓ steps) :
    (∀ s ∈ specsFrom (toC m) ℓ steps,
        coef (cTrig asin) (toC m) true s = .ok (coefVal (cTrig asin) (toC m) true s)) ∧
    (∀ s ∈ (specsFrom (toC m) ℓ steps).map (revSpec (cTrig asin)),
        coef (cTrig asin) (toC m) true s = .ok (coefVal (cTrig asin) (toC m) true s)) ∧
    ((specsFrom (toC m) ℓ steps).map (coefVal (cTrig asin) (toC m) true)).prod * (Kout m steps : ℂ)
      = legSign ℓ * legSign (lastLeg ℓ steps)
        * (((specsFrom (toC m) ℓ steps).map (revSpec (cTrig asin))).map
            (coefVal (cTrig asin) (toC m) true)).prod * (Kin m ℓ steps : ℂ) := by
  induction steps generalizing ℓ with
  | nil =>
    refine ⟨by simp [specsFrom], by simp [specsFrom], ?_⟩
    simp [specsFrom, Kin, Kout, lastLeg, legSign_mul_self]
  | cons st sts ih =>
    obtain ⟨⟨hasin, hφ, hθpos, hφpos⟩, hrest⟩ := hg
    obtain ⟨ih1, ih2, ih3⟩ := ih _ hrest
    have hne : ∀ x : ℝ, 0 < x → (x : ℂ) ≠ 0 := fun x hx => by exact_mod_cast hx.ne'
    have hcos : Complex.cos (st.θ : ℂ) ≠ 0 := by
      rw [← Complex.ofReal_cos]; exact hne _ hθpos
    obtain ⟨cd, cr, h1, h2, h3⟩ := coef_ratio asin (toC m) hsin (hne _ h.rhoF) (hne _ h.rhoS)
      (hne _ h.cF) (hne _ h.cL) (hne _ h.cT) ℓ st.mOut (st.θ : ℂ) hasin hcos
    have hv1 : coefVal (cTrig asin) (toC m) true (specOf (toC m) ℓ st.mOut (st.θ : ℂ)) = cd := by
      simp only [coefVal, h1]
    have hv2 : coefVal (cTrig asin) (toC m) true
        (revSpec (cTrig asin) (specOf (toC m) ℓ st.mOut (st.θ : ℂ))) = cr := by
      simp only [coefVal, h2]
    rw [hφ] at h3
    simp only [legRho_toC, legVel_toC] at h3
    refine ⟨?_, ?_, ?_⟩
    · intro s hs
      rcases List.mem_cons.1 hs with rfl | hs
      · rw [hv1, h1]
      · exact ih1 s hs
    · intro s hs
      simp only [specsFrom, List.map_cons] at hs
      rcases List.mem_cons.1 hs with rfl | hs
      · rw [hv2, h2]
      · exact ih2 s hs
    · simp only [specsFrom, List.map_cons, List.prod_cons, hv1, hv2, Kin, Kout, lastLeg]
      push_cast
      have hsq := legSign_mul_self (K := ℂ) (some st.mOut)
      linear_combination
        (((specsFrom (toC m) (some st.mOut) sts).map (coefVal (cTrig asin) (toC m) true)).prod
          * (Kout m sts : ℂ)) * h3
        + (legSign ℓ * legSign (some st.mOut) * cr
            * ((legRho m ℓ : ℝ) : ℂ) * ((legVel m ℓ : ℝ) : ℂ) * Complex.cos (st.θ : ℂ)) * ih3
        + (legSign ℓ * legSign (lastLeg (some st.mOut) sts) * cr
            * ((legRho m ℓ : ℝ) : ℂ) * ((legVel m ℓ : ℝ) : ℂ) * Complex.cos (st.θ : ℂ)
            * (((specsFrom (toC m) (some st.mOut) sts).map (revSpec (cTrig asin))).map
                (coefVal (cTrig asin) (toC m) true)).prod * (Kin m (some st.mOut) sts : ℂ)) * hsq

end path

end Arim.Recip
