import ArimModel.Fermat
import ArimModel.FermatCache
import Mathlib.Order.Basic
import Mathlib.Data.List.Basic
import Mathlib.Data.List.Forall2
import Mathlib.Algebra.Group.Defs
import Mathlib.Order.Defs.LinearOrder
import Mathlib.Algebra.Order.Monoid.Unbundled.Basic
/-! Helper lemmas for C01 (min-plus scan and the split_queue recursion). -/
namespace Arim
variable {α : Type} [LinearOrder α]

theorem scanMin_succ (f : Nat → α) (m : Nat) :
    scanMin f (m+1) = kstep (scanMin f m) m (f m) := by
  simp [scanMin, List.range_succ, List.foldl_append]

variable [Add α]

/-- validity of an index tuple (reverse order) against leg sizes -/
def validR : List (Leg α) → List Nat → Prop
  | [], [] => True
  | l :: prev, k :: ks => k < l.m ∧ validR prev ks
  | _, _ => False

def allPos : List (Leg α) → Prop
  | [] => True
  | l :: prev => 0 < l.m ∧ allPos prev

omit [Add α] in
theorem scanMinR_succ (f : Nat → Res α) (m : Nat) :
    scanMinR f (m+1) = (match f m with
      | none => scanMinR f m
      | some (v, ks) => match scanMinR f m with
        | none => some (v, ks ++ [m])
        | some (b, kb) => if v < b then some (v, ks ++ [m]) else some (b, kb)) := by
  unfold scanMinR
  rw [List.range_succ, List.foldl_append]
  simp only [List.foldl_cons, List.foldl_nil]
  cases f m with
  | none => rfl
  | some p => rfl

omit [Add α] in
/-- spec of the scan when every candidate is defined -/
theorem scanMinR_spec (f : Nat → Res α) (m : Nat) (hm : 0 < m)
    (hf : ∀ k, k < m → ∃ v ks, f k = some (v, ks)) :
    ∃ v ks k, scanMinR f m = some (v, ks ++ [k]) ∧ k < m ∧ f k = some (v, ks) ∧
      (∀ k' v' ks', k' < m → f k' = some (v', ks') → v ≤ v') := by
  induction m with
  | zero => omega
  | succ m ih =>
    rw [scanMinR_succ]
    obtain ⟨vm, ksm, hfm⟩ := hf m (by omega)
    rcases Nat.eq_zero_or_pos m with h0 | hpos
    · subst h0
      refine ⟨vm, ksm, 0, ?_, by omega, hfm, ?_⟩
      · simp [hfm, scanMinR]
      · intro k' v' ks' hk' hfk'
        have : k' = 0 := by omega
        subst this; rw [hfm] at hfk'; cases hfk'; exact le_refl _
    · obtain ⟨v, ks, k, hs, hk, hfk, hle⟩ := ih hpos (fun k hk => hf k (by omega))
      simp only [hfm, hs]
      by_cases hc : vm < v
      · refine ⟨vm, ksm, m, by simp [hc], by omega, hfm, ?_⟩
        intro k' v' ks' hk' hfk'
        rcases Nat.lt_succ_iff_lt_or_eq.mp hk' with h | h
        · exact le_of_lt (lt_of_lt_of_le hc (hle k' v' ks' h hfk'))
        · subst h; rw [hfm] at hfk'; cases hfk'; exact le_refl _
      · refine ⟨v, ks, k, by simp [hc], by omega, hfk, ?_⟩
        intro k' v' ks' hk' hfk'
        rcases Nat.lt_succ_iff_lt_or_eq.mp hk' with h | h
        · exact hle k' v' ks' h hfk'
        · subst h; rw [hfm] at hfk'; cases hfk'; exact not_lt.mp hc
end Arim

/-! ## Structure of the scan result (no order laws needed) -/
namespace Arim
section Struct
variable {β : Type} [LT β] [DecidableLT β]

theorem scanMinR_succ' (f : Nat → Res β) (m : Nat) :
    scanMinR f (m+1) = (match f m with
      | none => scanMinR f m
      | some (v, ks) => match scanMinR f m with
        | none => some (v, ks ++ [m])
        | some (b, kb) => if v < b then some (v, ks ++ [m]) else some (b, kb)) := by
  unfold scanMinR
  rw [List.range_succ, List.foldl_append]
  simp only [List.foldl_cons, List.foldl_nil]
  cases f m with
  | none => rfl
  | some p => rfl

/-- whatever the scan returns is a candidate, extended by its own index -/
theorem scanMinR_some (f : Nat → Res β) (m : Nat) (v : β) (r : List Nat)
    (h : scanMinR f m = some (v, r)) :
    ∃ k ks, k < m ∧ r = ks ++ [k] ∧ f k = some (v, ks) := by
  induction m generalizing v r with
  | zero => simp [scanMinR] at h
  | succ m ih =>
    rw [scanMinR_succ'] at h
    cases hfm : f m with
    | none =>
      rw [hfm] at h
      obtain ⟨k, ks, hk, hr, hf⟩ := ih v r h
      exact ⟨k, ks, by omega, hr, hf⟩
    | some p =>
      obtain ⟨vm, ksm⟩ := p
      rw [hfm] at h
      cases hs : scanMinR f m with
      | none =>
        rw [hs] at h
        simp only [Option.some.injEq, Prod.mk.injEq] at h
        exact ⟨m, ksm, by omega, h.2.symm, by rw [hfm, h.1]⟩
      | some q =>
        obtain ⟨b, kb⟩ := q
        rw [hs] at h
        by_cases hc : vm < b
        · simp only [hc, if_true, Option.some.injEq, Prod.mk.injEq] at h
          exact ⟨m, ksm, by omega, h.2.symm, by rw [hfm, h.1]⟩
        · simp only [hc, if_false, Option.some.injEq, Prod.mk.injEq] at h
          obtain ⟨k, ks, hk, hr, hf⟩ := ih b kb hs
          exact ⟨k, ks, by omega, by rw [← h.2]; exact hr, by rw [← h.1]; exact hf⟩

variable [Add β]

/-- unfolding of one step of the solver, with the chosen last interior point exposed -/
theorem solveR_cons_some (first : Nat → Nat → β) (l : Leg β) (prev : List (Leg β)) (i j : Nat)
    (v : β) (r : List Nat) (h : solveR first (l :: prev) i j = some (v, r)) :
    ∃ k ks v', k < l.m ∧ r = ks ++ [k] ∧ solveR first prev i k = some (v', ks) ∧
      v = v' + l.t k j := by
  simp only [solveR] at h
  obtain ⟨k, ks, hk, hr, hf⟩ := scanMinR_some _ _ _ _ h
  cases hp : solveR first prev i k with
  | none => simp [hp] at hf
  | some p =>
    obtain ⟨v', ks'⟩ := p
    simp only [hp, Option.map_some, Option.some.injEq, Prod.mk.injEq] at hf
    exact ⟨k, ks, v', hk, hr, by rw [← hf.2, hp], hf.1.symm⟩

end Struct

/-! ## The memoising solver -/
section CacheL
variable {β : Type}

/-- keys of the dict -/
def keysOf (c : Cache β) : List PKey := c.map (·.1)

/-- every stored key has all its prefixes of length ≥ 2 stored too -/
def PrefixClosed (keys : List PKey) : Prop :=
  ∀ q, q ∈ keys → ∀ p, p <+: q → 2 ≤ p.length → p ∈ keys

theorem lookup_some_mem (c : Cache β) (k : PKey) (t : Tbl β) (h : c.lookup k = some t) :
    (k, t) ∈ c := by
  induction c with
  | nil => simp at h
  | cons e c ih =>
    obtain ⟨k', t'⟩ := e
    by_cases hk : k = k'
    · subst hk; simp at h; simp [h]
    · have : (k == k') = false := by simpa using hk
      simp [List.lookup, this] at h
      exact List.mem_cons_of_mem _ (ih h)

theorem lookup_none_iff (c : Cache β) (k : PKey) : c.lookup k = none ↔ k ∉ keysOf c := by
  induction c with
  | nil => simp [keysOf]
  | cons e c ih =>
    obtain ⟨k', t'⟩ := e
    by_cases hk : k = k'
    · subst hk; simp [keysOf]
    · have : (k == k') = false := by simpa using hk
      simp [List.lookup, this, keysOf, hk] 
      simpa [keysOf] using ih

variable [LT β] [DecidableLT β] [Add β]

/-- the cache invariant: every stored table is the table of its key solved alone -/
def CacheInv (legOf : Nat → Leg β) (c : Cache β) : Prop :=
  ∀ k tbl, (k, tbl) ∈ c → tbl = solvePure legOf k

theorem solvePure_snoc (legOf : Nat → Leg β) (K : PKey) (hK : K ≠ []) (l : Nat) :
    solvePure legOf (K ++ [l]) = extendTbl (solvePure legOf K) (legOf l) := by
  cases K with
  | nil => exact absurd rfl hK
  | cons l0 rest =>
    funext i j
    simp [solvePure, extendTbl, solveR]

theorem solveCR_spec (legOf : Nat → Leg β) (rk : List Nat) (c : Cache β)
    (hc : CacheInv legOf c) :
    (solveCR legOf rk c).1 = solvePure legOf rk.reverse ∧ CacheInv legOf (solveCR legOf rk c).2 := by
  induction rk generalizing c with
  | nil => exact ⟨rfl, hc⟩
  | cons l tl ih =>
    cases tl with
    | nil =>
      simp only [solveCR]
      cases hl : c.lookup [l] with
      | none => exact ⟨rfl, hc⟩
      | some t => exact ⟨hc _ _ (lookup_some_mem c _ t hl), hc⟩
    | cons l' prev =>
      simp only [solveCR]
      cases hl : c.lookup (l :: l' :: prev).reverse with
      | some t => exact ⟨hc _ _ (lookup_some_mem c _ t hl), hc⟩
      | none =>
        obtain ⟨h1, h2⟩ := ih c hc
        have hne : (l' :: prev).reverse ≠ [] := by simp
        have htbl : extendTbl (solveCR legOf (l' :: prev) c).1 (legOf l) =
            solvePure legOf (l :: l' :: prev).reverse := by
          rw [List.reverse_cons (a := l), solvePure_snoc legOf _ hne, h1]
        refine ⟨htbl, ?_⟩
        intro k tbl hmem
        rcases List.mem_cons.mp hmem with h | h
        · injection h with hk ht
          rw [ht, hk]; exact htbl
        · exact h2 k tbl h

/-- the keys `_solve` stores for the reversed key `rk`, given the keys already present
    (newest first): the recursion stops at the first cached prefix. -/
def newKeysR (keys : List PKey) : List Nat → List PKey
  | [] => []
  | [_] => []
  | l :: l' :: prev =>
    if (l :: l' :: prev).reverse ∈ keys then [] else
      (l :: l' :: prev).reverse :: newKeysR keys (l' :: prev)

omit [LT β] [DecidableLT β] [Add β] in
theorem mem_newKeysR (keys : List PKey) (rk : List Nat) (p : PKey) :
    p ∈ newKeysR keys rk ↔
      (p <+: rk.reverse ∧ 2 ≤ p.length ∧ ∀ q, p <+: q → q <+: rk.reverse → q ∉ keys) := by
  induction rk with
  | nil =>
    simp only [newKeysR, List.not_mem_nil, List.reverse_nil, List.prefix_nil, false_iff]
    rintro ⟨h, h2, _⟩; subst h; simp at h2
  | cons l tl ih =>
    cases tl with
    | nil =>
      simp only [newKeysR, List.not_mem_nil, false_iff]
      rintro ⟨h, h2, _⟩
      have := h.length_le; simp at this; omega
    | cons l' prev =>
      have hrev : (l :: l' :: prev).reverse = (l' :: prev).reverse ++ [l] := List.reverse_cons
      simp only [newKeysR]
      by_cases hin : (l :: l' :: prev).reverse ∈ keys
      · simp only [hin, if_true, List.not_mem_nil, false_iff]
        rintro ⟨h, _, h3⟩
        exact h3 _ h (List.prefix_refl _) hin
      · simp only [hin, if_false, List.mem_cons, ih]
        rw [hrev] at hin ⊢
        constructor
        · rintro (h | ⟨h1, h2, h3⟩)
          · subst h
            refine ⟨List.prefix_refl _, by simp, ?_⟩
            intro q hq1 hq2
            rw [List.IsPrefix.eq_of_length_le hq2 hq1.length_le]
            exact hin
          · refine ⟨h1.trans (List.prefix_append _ _), h2, ?_⟩
            intro q hq1 hq2
            rcases List.prefix_concat_iff.mp hq2 with h | h
            · rw [h]; exact hin
            · exact h3 q hq1 h
        · rintro ⟨h1, h2, h3⟩
          rcases List.prefix_concat_iff.mp h1 with h | h
          · exact Or.inl h
          · exact Or.inr ⟨h, h2, fun q hq1 hq2 => h3 q hq1 (hq2.trans (List.prefix_append _ _))⟩

theorem solveCR_keys (legOf : Nat → Leg β) (rk : List Nat) (c : Cache β) :
    ∃ added, (solveCR legOf rk c).2 = added ++ c ∧ keysOf added = newKeysR (keysOf c) rk := by
  induction rk generalizing c with
  | nil => exact ⟨[], rfl, rfl⟩
  | cons l tl ih =>
    cases tl with
    | nil =>
      simp only [solveCR]
      cases hl : c.lookup [l] <;> exact ⟨[], rfl, rfl⟩
    | cons l' prev =>
      simp only [solveCR]
      cases hl : c.lookup (l :: l' :: prev).reverse with
      | some t =>
        have : (l :: l' :: prev).reverse ∈ keysOf c := by
          by_contra h
          rw [(lookup_none_iff c _).mpr h] at hl; cases hl
        exact ⟨[], rfl, by simp only [newKeysR, this, if_true]; rfl⟩
      | none =>
        have hnot := (lookup_none_iff c _).mp hl
        obtain ⟨added, h1, h2⟩ := ih c
        refine ⟨(_, _) :: added, by rw [h1]; rfl, ?_⟩
        simp only [newKeysR, hnot, if_false]
        simp only [keysOf, List.map_cons] at h2 ⊢
        rw [h2]

omit [LT β] [DecidableLT β] [Add β] in
theorem newKeysR_nodup (keys : List PKey) (rk : List Nat) : (newKeysR keys rk).Nodup := by
  induction rk with
  | nil => simp [newKeysR]
  | cons l tl ih =>
    cases tl with
    | nil => simp [newKeysR]
    | cons l' prev =>
      simp only [newKeysR]
      split
      · exact List.nodup_nil
      · refine List.nodup_cons.mpr ⟨?_, ih⟩
        intro hmem
        have h := ((mem_newKeysR keys (l' :: prev) _).mp hmem).1.length_le
        simp at h

theorem solveCR_nodup (legOf : Nat → Leg β)
    (rk : List Nat) (c : Cache β) (hn : (keysOf c).Nodup) :
    (keysOf (solveCR legOf rk c).2).Nodup := by
  obtain ⟨added, h1, h2⟩ := solveCR_keys legOf rk c
  rw [h1]
  have : keysOf (added ++ c) = keysOf added ++ keysOf c := by simp [keysOf]
  rw [this, h2, List.nodup_append]
  refine ⟨newKeysR_nodup _ _, hn, ?_⟩
  intro a ha b hb hab
  subst hab
  exact ((mem_newKeysR _ _ _).mp ha).2.2 a (List.prefix_refl _) ((mem_newKeysR _ _ _).mp ha).1 hb
end CacheL

/-! ## Reversed paths -/
section Rev
variable {β : Type}

/-- first table of the reversed path (in `solveR` form): the transposed LAST table -/
def bfirst : (Nat → Nat → β) → List (Nat → Nat → β) → (Nat → Nat → β)
  | t0, [] => transpose t0
  | _, t1 :: rest => bfirst t1 rest

/-- legs of the reversed path, last leg first: `⟨m₁, t₀ᵀ⟩, ⟨m₂, t₁ᵀ⟩, …` -/
def blegs : (Nat → Nat → β) → List (Nat → Nat → β) → List Nat → List (Leg β)
  | t0, t1 :: rest, m1 :: ms => { m := m1, t := transpose t0 } :: blegs t1 rest ms
  | _, _, _ => []

theorem legsP_snoc (ts : List (Nat → Nat → β)) (ms : List Nat) (t : Nat → Nat → β) (m : Nat)
    (h : ts.length = ms.length) :
    legsP (ts ++ [t]) (ms ++ [m]) = legsP ts ms ++ [{ m := m, t := t }] := by
  induction ts generalizing ms with
  | nil => cases ms with
    | nil => rfl
    | cons a b => simp at h
  | cons x xs ih => cases ms with
    | nil => simp at h
    | cons a b =>
      simp only [List.length_cons, Nat.add_right_cancel_iff] at h
      simp [legsP, ih b h]

theorem toR?_snoc (xs : List (Nat → Nat → β)) (ns : List Nat) (t : Nat → Nat → β) (m : Nat)
    (f : Nat → Nat → β) (L : List (Leg β)) (h : toR? xs ns = some (f, L))
    (hl : xs.length = ns.length + 1) :
    toR? (xs ++ [t]) (ns ++ [m]) = some (f, { m := m, t := t } :: L) := by
  cases xs with
  | nil => simp at hl
  | cons x xs' =>
    simp only [List.length_cons, Nat.add_right_cancel_iff] at hl
    simp only [toR?, Option.some.injEq, Prod.mk.injEq] at h
    simp only [List.cons_append, toR?, legsP_snoc xs' ns t m hl, List.reverse_append,
      List.reverse_cons, List.reverse_nil, List.nil_append, List.cons_append]
    rw [h.1, h.2]

theorem toR?_revPath (t0 : Nat → Nat → β) (rest : List (Nat → Nat → β)) (ms : List Nat)
    (h : rest.length = ms.length) :
    toR? (revPath (t0 :: rest) ms).1 (revPath (t0 :: rest) ms).2 =
      some (bfirst t0 rest, blegs t0 rest ms) := by
  induction rest generalizing t0 ms with
  | nil => cases ms with
    | nil => simp [revPath, toR?, legsP, bfirst, blegs]
    | cons a b => simp at h
  | cons t1 rest' ih => cases ms with
    | nil => simp at h
    | cons m1 ms' =>
      simp only [List.length_cons, Nat.add_right_cancel_iff] at h
      have := ih t1 ms' h
      simp only [revPath] at this ⊢
      rw [List.reverse_cons (a := t0), List.map_append, List.reverse_cons (a := m1)]
      exact toR?_snoc _ _ _ _ _ _ this (by simp [h])

theorem sizes_legsP (rest : List (Nat → Nat → β)) (ms : List Nat) (h : rest.length = ms.length) :
    (legsP rest ms).map (·.m) = ms := by
  induction rest generalizing ms with
  | nil => cases ms with
    | nil => rfl
    | cons a b => simp at h
  | cons x xs ih => cases ms with
    | nil => simp at h
    | cons a b =>
      simp only [List.length_cons, Nat.add_right_cancel_iff] at h
      simp [legsP, ih b h]

theorem sizes_blegs (t0 : Nat → Nat → β) (rest : List (Nat → Nat → β)) (ms : List Nat)
    (h : rest.length = ms.length) : (blegs t0 rest ms).map (·.m) = ms := by
  induction rest generalizing t0 ms with
  | nil => cases ms with
    | nil => rfl
    | cons a b => simp at h
  | cons x xs ih => cases ms with
    | nil => simp at h
    | cons a b =>
      simp only [List.length_cons, Nat.add_right_cancel_iff] at h
      simp [blegs, ih x b h]

theorem validR_iff (L : List (Leg β)) (K : List Nat) :
    validR L K ↔ List.Forall₂ (fun m k => k < m) (L.map (·.m)) K := by
  induction L generalizing K with
  | nil => cases K <;> simp [validR]
  | cons l L ih => cases K with
    | nil => simp [validR]
    | cons k K => simp [validR, ih K]

theorem allPos_iff (L : List (Leg β)) : allPos L ↔ ∀ m, m ∈ L.map (·.m) → 0 < m := by
  induction L with
  | nil => simp [allPos]
  | cons l L ih => simp [allPos, ih]

/-- validity of a tuple given in PATH order against the interior sizes in path order -/
def validP (ms ks : List Nat) : Prop := List.Forall₂ (fun m k => k < m) ms ks

theorem validR_length (L : List (Leg β)) (K : List Nat) (h : validR L K) : K.length = L.length := by
  have := ((validR_iff L K).mp h).length_eq
  simpa using this.symm

variable [Add β]

theorem costR_snoc (t0 t1 : Nat → Nat → β) (m1 : Nat) (L : List (Leg β)) (i k1 : Nat)
    (K : List Nat) (j : Nat) (hlen : L.length = K.length)
    (hassoc : ∀ a b c : β, a + b + c = a + (b + c)) :
    costR t0 (L ++ [{ m := m1, t := t1 }]) i (K ++ [k1]) j =
      (costR t1 L k1 K j).map (t0 i k1 + ·) := by
  induction L generalizing K j with
  | nil => cases K with
    | nil => simp [costR]
    | cons a b => simp at hlen
  | cons l L ih => cases K with
    | nil => simp at hlen
    | cons k K =>
      simp only [List.length_cons, Nat.add_right_cancel_iff] at hlen
      simp only [List.cons_append, costR, ih K k hlen, Option.map_map]
      congr 1
      funext x
      exact hassoc _ _ _

/-- the cost of a tuple along the reversed path equals its cost along the path -/
theorem costR_rev (hassoc : ∀ a b c : β, a + b + c = a + (b + c)) (hcomm : ∀ a b : β, a + b = b + a)
    (t0 : Nat → Nat → β) (rest : List (Nat → Nat → β)) (ms : List Nat) (i j : Nat)
    (ks : List Nat) (h : rest.length = ms.length) (hk : ks.length = ms.length) :
    costR (bfirst t0 rest) (blegs t0 rest ms) j ks i =
      costR t0 (legsP rest ms).reverse i ks.reverse j := by
  induction rest generalizing t0 ms ks i with
  | nil => cases ms with
    | nil => cases ks with
      | nil => simp [costR, bfirst, blegs, legsP, transpose]
      | cons a b => simp at hk
    | cons a b => simp at h
  | cons t1 rest' ih => cases ms with
    | nil => simp at h
    | cons m1 ms' => cases ks with
      | nil => simp at hk
      | cons k1 ks' =>
        simp only [List.length_cons, Nat.add_right_cancel_iff] at h hk
        simp only [bfirst, blegs, legsP, costR, List.reverse_cons]
        rw [ih t1 ms' k1 ks' h hk, costR_snoc _ _ _ _ _ _ _ _ ?_ hassoc]
        · congr 1
          funext x
          exact hcomm _ _
        · have := congrArg List.length (sizes_legsP rest' ms' h)
          simp at this
          simp [this, hk]

omit [Add β] in
theorem validR_rev (t0 : Nat → Nat → β) (rest : List (Nat → Nat → β)) (ms : List Nat)
    (ks : List Nat) (h : rest.length = ms.length) :
    validR (blegs t0 rest ms) ks ↔ validR (legsP rest ms).reverse ks.reverse := by
  rw [validR_iff, validR_iff, sizes_blegs t0 rest ms h, List.map_reverse, sizes_legsP rest ms h,
    List.forall₂_reverse_iff]

omit [Add β] in
theorem allPos_legsP (rest : List (Nat → Nat → β)) (ms : List Nat) (h : rest.length = ms.length)
    (hpos : ∀ m, m ∈ ms → 0 < m) : allPos (legsP rest ms).reverse := by
  rw [allPos_iff, List.map_reverse, sizes_legsP rest ms h]
  intro m hm; exact hpos m (List.mem_reverse.mp hm)

omit [Add β] in
theorem allPos_blegs (t0 : Nat → Nat → β) (rest : List (Nat → Nat → β)) (ms : List Nat)
    (h : rest.length = ms.length) (hpos : ∀ m, m ∈ ms → 0 < m) : allPos (blegs t0 rest ms) := by
  rw [allPos_iff, sizes_blegs t0 rest ms h]; exact hpos
end Rev
end Arim
