import ArimModel.Fermat
import Mathlib.Order.Basic
import Mathlib.Order.Defs.LinearOrder
import Mathlib.Algebra.Order.Monoid.Unbundled.Basic
/-! Helper lemmas for C01 (min-plus scan and the split_queue recursion). -/
namespace Arim
variable {α : Type} [LinearOrder α]

theorem scanMin_succ (f : Nat → α) (m : Nat) :
    scanMin f (m+1) = kstep (scanMin f m) m (f m) := by
  simp [scanMin, List.range_succ, List.foldl_append]

variable [Add α]

/-- validity of an index tuple (reverse order) against leg sizes -/
def validR : List (Leg α) → List Nat → Prop
  | [], [] => True
  | l :: prev, k :: ks => k < l.m ∧ validR prev ks
  | _, _ => False

def allPos : List (Leg α) → Prop
  | [] => True
  | l :: prev => 0 < l.m ∧ allPos prev

theorem scanMinR_succ (f : Nat → Res α) (m : Nat) :
    scanMinR f (m+1) = (match f m with
      | none => scanMinR f m
      | some (v, ks) => match scanMinR f m with
        | none => some (v, ks ++ [m])
        | some (b, kb) => if v < b then some (v, ks ++ [m]) else some (b, kb)) := by
  unfold scanMinR
  rw [List.range_succ, List.foldl_append]
  simp only [List.foldl_cons, List.foldl_nil]
  cases f m with
  | none => rfl
  | some p => rfl

/-- spec of the scan when every candidate is defined -/
theorem scanMinR_spec (f : Nat → Res α) (m : Nat) (hm : 0 < m)
    (hf : ∀ k, k < m → ∃ v ks, f k = some (v, ks)) :
    ∃ v ks k, scanMinR f m = some (v, ks ++ [k]) ∧ k < m ∧ f k = some (v, ks) ∧
      (∀ k' v' ks', k' < m → f k' = some (v', ks') → v ≤ v') := by
  induction m with
  | zero => omega
  | succ m ih =>
    rw [scanMinR_succ]
    obtain ⟨vm, ksm, hfm⟩ := hf m (by omega)
    rcases Nat.eq_zero_or_pos m with h0 | hpos
    · subst h0
      refine ⟨vm, ksm, 0, ?_, by omega, hfm, ?_⟩
      · simp [hfm, scanMinR]
      · intro k' v' ks' hk' hfk'
        have : k' = 0 := by omega
        subst this; rw [hfm] at hfk'; cases hfk'; exact le_refl _
    · obtain ⟨v, ks, k, hs, hk, hfk, hle⟩ := ih hpos (fun k hk => hf k (by omega))
      simp only [hfm, hs]
      by_cases hc : vm < v
      · refine ⟨vm, ksm, m, by simp [hc], by omega, hfm, ?_⟩
        intro k' v' ks' hk' hfk'
        rcases Nat.lt_succ_iff_lt_or_eq.mp hk' with h | h
        · exact le_of_lt (lt_of_lt_of_le hc (hle k' v' ks' h hfk'))
        · subst h; rw [hfm] at hfk'; cases hfk'; exact le_refl _
      · refine ⟨v, ks, k, by simp [hc], by omega, hfk, ?_⟩
        intro k' v' ks' hk' hfk'
        rcases Nat.lt_succ_iff_lt_or_eq.mp hk' with h | h
        · exact hle k' v' ks' h hfk'
        · subst h; rw [hfm] at hfk'; cases hfk'; exact not_lt.mp hc
end Arim
