import ArimModel.Chunk
import ArimModel.MinPlus
/-! Helper lemmas for C13 (model `ArimModel/Chunk.lean`): the task lists as grids of slices,
    counting/covering lemmas on grids, interleavings of task programs, the overwrite step,
    the per-tile programs `tileOps`, memory with separate input cells. Core Lean only. -/
namespace Arim.C13
open Arim

/-! ### slices and grids -/

/-- `x` lies in the half-open slice `[r.1, r.2)` -/
def inSlice (x : Nat) (r : Nat × Nat) : Bool := decide (r.1 ≤ x) && decide (x < r.2)

/-- two slices share no index -/
def SliceDisjoint (r r' : Nat × Nat) : Prop := ∀ x, ¬ (inSlice x r = true ∧ inSlice x r' = true)

/-- two tiles share no cell -/
def TileDisjoint (t u : Tile) : Prop := ∀ i j, ¬ (t.mem i j = true ∧ u.mem i j = true)

/-- row slices (outer loop) × column slices (inner loop), in submission order -/
def grid (rs cs : List (Nat × Nat)) : List Tile :=
  rs.flatMap (fun r => cs.map (fun c => ({ r := r, c := c } : Tile)))

theorem minTimesTiles_eq_grid (n m p block : Nat) :
    minTimesTiles n m p block = grid (chunks n (ceilDiv block m)) (chunks p (ceilDiv block m)) := rfl

theorem distTiles_eq_grid (n1 n2 block : Nat) :
    distTiles n1 n2 block = grid (chunks n1 (ceilDiv block 6)) (chunks n2 (ceilDiv block 6)) := rfl

theorem Tile.mem_eq (t : Tile) (i j : Nat) : t.mem i j = (inSlice i t.r && inSlice j t.c) := by
  simp [Tile.mem, inSlice, Bool.and_assoc]

theorem chunk_snd_le (L b i : Nat) : (chunk L b i).2 ≤ L := by
  unfold chunk; exact Nat.min_le_right _ _

theorem mem_chunks {L b : Nat} {r : Nat × Nat} :
    r ∈ chunks L b ↔ ∃ a, a < numChunks L b ∧ chunk L b a = r := by
  simp [chunks]

theorem length_chunks (L b : Nat) : (chunks L b).length = numChunks L b := by
  simp [chunks]

theorem grid_nil (cs : List (Nat × Nat)) : grid [] cs = [] := rfl

theorem grid_cons (r : Nat × Nat) (rs cs : List (Nat × Nat)) :
    grid (r :: rs) cs = cs.map (fun c => ({ r := r, c := c } : Tile)) ++ grid rs cs := by
  simp [grid]

theorem mem_grid {rs cs : List (Nat × Nat)} {t : Tile} :
    t ∈ grid rs cs ↔ t.r ∈ rs ∧ t.c ∈ cs := by
  cases t with
  | mk r c =>
    simp only [grid, List.mem_flatMap, List.mem_map, Tile.mk.injEq]
    constructor
    · rintro ⟨r', hr', c', hc', rfl, rfl⟩; exact ⟨hr', hc'⟩
    · rintro ⟨hr, hc⟩; exact ⟨r, hr, c, hc, rfl, rfl⟩

theorem length_grid (rs cs : List (Nat × Nat)) : (grid rs cs).length = rs.length * cs.length := by
  induction rs with
  | nil => simp [grid]
  | cons r rs ih =>
    rw [grid_cons, List.length_append, List.length_map, ih, List.length_cons, Nat.succ_mul]
    omega

/-- the number of tasks of a grid that own cell `(i,j)` is (number of row slices containing `i`)
× (number of column slices containing `j`) -/
theorem grid_countP (rs cs : List (Nat × Nat)) (i j : Nat) :
    (grid rs cs).countP (fun t => t.mem i j) = rs.countP (inSlice i) * cs.countP (inSlice j) := by
  induction rs with
  | nil => simp [grid]
  | cons r rs ih =>
    rw [grid_cons, List.countP_append, ih, List.countP_map, List.countP_cons]
    have hcomp : ((fun t : Tile => t.mem i j) ∘ fun c => ({ r := r, c := c } : Tile))
        = fun c => (inSlice i r && inSlice j c) := by
      funext c; simp [Tile.mem_eq]
    rw [hcomp]
    cases h : inSlice i r
    · simp
    · simp [Nat.add_mul, Nat.add_comm]

theorem grid_filter_length (rs cs : List (Nat × Nat)) (i j : Nat) :
    ((grid rs cs).filter (fun t => t.mem i j)).length
      = rs.countP (inSlice i) * cs.countP (inSlice j) := by
  rw [← List.countP_eq_length_filter, grid_countP]

theorem grid_any_mem (rs cs : List (Nat × Nat)) (i j : Nat) :
    (grid rs cs).any (fun t => t.mem i j) = (rs.any (inSlice i) && cs.any (inSlice j)) := by
  rw [Bool.eq_iff_iff]
  simp only [List.any_eq_true, Bool.and_eq_true, mem_grid, Tile.mem_eq]
  constructor
  · rintro ⟨t, ⟨hr, hc⟩, h1, h2⟩; exact ⟨⟨t.r, hr, h1⟩, ⟨t.c, hc, h2⟩⟩
  · rintro ⟨⟨r, hr, h1⟩, ⟨c, hc, h2⟩⟩; exact ⟨⟨r, c⟩, ⟨hr, hc⟩, h1, h2⟩

theorem grid_pairwise_disjoint (rs cs : List (Nat × Nat))
    (hr : rs.Pairwise SliceDisjoint) (hc : cs.Pairwise SliceDisjoint) :
    (grid rs cs).Pairwise TileDisjoint := by
  unfold grid
  rw [List.pairwise_flatMap]
  constructor
  · intro r _
    rw [List.pairwise_map]
    refine hc.imp ?_
    intro c c' hcc i j
    simp only [Tile.mem_eq, Bool.and_eq_true]
    rintro ⟨⟨_, h1⟩, ⟨_, h2⟩⟩
    exact hcc j ⟨h1, h2⟩
  · refine hr.imp ?_
    intro r r' hrr x hx y hy i j
    simp only [List.mem_map] at hx hy
    obtain ⟨c, _, rfl⟩ := hx
    obtain ⟨c', _, rfl⟩ := hy
    simp only [Tile.mem_eq, Bool.and_eq_true]
    rintro ⟨⟨h1, _⟩, ⟨h2, _⟩⟩
    exact hrr i ⟨h1, h2⟩

/-- exactly one element of `range N` equals `a` when `a < N` -/
theorem countP_range_eq (a N : Nat) :
    (List.range N).countP (fun i => decide (i = a)) = if a < N then 1 else 0 := by
  induction N with
  | zero => simp
  | succ N ih =>
    rw [List.range_succ, List.countP_append, ih]
    by_cases h1 : a < N
    · have : ¬ N = a := by omega
      simp [h1, this]; omega
    · by_cases h2 : N = a
      · subst h2; simp
      · have : ¬ a < N + 1 := by omega
        simp [h1, h2, this]

/-! ### the overwrite step and tile programs -/

variable {C P V : Type} [DecidableEq C]

/-- the element operation of the kernels: the cell receives the payload, whatever it held -/
def overwrite : C → V → V → V := fun _ v _ => v

theorem runOps_cons (step : C → P → V → V) (s : C → V) (op : C × P) (rest : List (C × P)) :
    runOps step s (op :: rest)
      = runOps step (fun c => if c = op.1 then step op.1 op.2 (s c) else s c) rest := by
  simp [runOps]

/-- if every operation writes a value that is a function `g` of its cell, the final array is
`g` on the addressed cells and the initial array elsewhere — for *every* order of the
operations. -/
theorem runOps_overwrite (g : C → V) (s : C → V) (ops : List (C × V))
    (h : ∀ op ∈ ops, op.2 = g op.1) (c : C) :
    runOps overwrite s ops c = if c ∈ ops.map (·.1) then g c else s c := by
  induction ops generalizing s with
  | nil => simp [runOps]
  | cons op rest ih =>
    rw [runOps_cons, ih _ (fun o ho => h o (List.mem_cons_of_mem _ ho))]
    have hop : op.2 = g op.1 := h op List.mem_cons_self
    by_cases hr : c ∈ rest.map (·.1)
    · have : c ∈ (op :: rest).map (·.1) := by
        rw [List.map_cons]; exact List.mem_cons_of_mem _ hr
      rw [if_pos hr, if_pos this]
    · rw [if_neg hr]
      by_cases hc : c = op.1
      · subst hc
        simp [overwrite, hop]
      · have : ¬ c ∈ (op :: rest).map (·.1) := by
          rw [List.map_cons, List.mem_cons]; rintro (h1 | h1)
          · exact hc h1
          · exact hr h1
        rw [if_neg hc, if_neg this]

/-- the program of one task: its cells in row-major order, each written with `f i j` -/
def tileOps (f : Nat → Nat → V) (t : Tile) : List ((Nat × Nat) × V) :=
  (List.range' t.r.1 (t.r.2 - t.r.1)).flatMap (fun i =>
    (List.range' t.c.1 (t.c.2 - t.c.1)).map (fun j => ((i, j), f i j)))

theorem mem_tileOps (f : Nat → Nat → V) (t : Tile) (op : (Nat × Nat) × V) :
    op ∈ tileOps f t ↔ (t.mem op.1.1 op.1.2 = true ∧ op.2 = f op.1.1 op.1.2) := by
  obtain ⟨⟨i, j⟩, v⟩ := op
  simp only [tileOps, List.mem_flatMap, List.mem_map, List.mem_range'_1, Prod.mk.injEq,
    Tile.mem, Bool.and_eq_true, decide_eq_true_eq]
  constructor
  · rintro ⟨i', hi', j', hj', ⟨rfl, rfl⟩, rfl⟩
    refine ⟨⟨⟨⟨hi'.1, ?_⟩, hj'.1⟩, ?_⟩, rfl⟩ <;> omega
  · rintro ⟨⟨⟨⟨h1, h2⟩, h3⟩, h4⟩, rfl⟩
    refine ⟨i, ⟨h1, ?_⟩, j, ⟨h3, ?_⟩, ⟨rfl, rfl⟩, rfl⟩ <;> omega

theorem cell_mem_tiles_ops (f : Nat → Nat → V) (tiles : List Tile) (i j : Nat) :
    (i, j) ∈ (tiles.flatMap (tileOps f)).map (·.1) ↔ tiles.any (fun t => t.mem i j) = true := by
  simp only [List.mem_map, List.mem_flatMap, List.any_eq_true]
  constructor
  · rintro ⟨op, ⟨t, ht, hop⟩, hc⟩
    rw [mem_tileOps] at hop
    rw [hc] at hop
    exact ⟨t, ht, hop.1⟩
  · rintro ⟨t, ht, hm⟩
    exact ⟨((i, j), f i j), ⟨t, ht, (mem_tileOps f t _).2 ⟨hm, rfl⟩⟩, rfl⟩

/-- any permutation of the element operations of a list of tiles: the cells covered by a tile
hold `f i j`, all other cells keep their initial value -/
theorem runOps_tiles_perm (f : Nat → Nat → V) (s : Nat × Nat → V) (tiles : List Tile)
    (ops : List ((Nat × Nat) × V)) (h : ops.Perm (tiles.flatMap (tileOps f))) (i j : Nat) :
    runOps overwrite s ops (i, j)
      = if tiles.any (fun t => t.mem i j) = true then f i j else s (i, j) := by
  have hval : ∀ op ∈ ops, op.2 = (fun c : Nat × Nat => f c.1 c.2) op.1 := by
    intro op hop
    have := (h.mem_iff).1 hop
    rw [List.mem_flatMap] at this
    obtain ⟨t, _, ht⟩ := this
    exact ((mem_tileOps f t op).1 ht).2
  rw [runOps_overwrite (fun c : Nat × Nat => f c.1 c.2) s ops hval]
  have hmem : (i, j) ∈ ops.map (·.1) ↔ tiles.any (fun t => t.mem i j) = true := by
    rw [← cell_mem_tiles_ops f]
    exact (h.map _).mem_iff
  by_cases hc : tiles.any (fun t => t.mem i j) = true
  · rw [if_pos hc, if_pos (hmem.2 hc)]
  · rw [if_neg hc, if_neg (fun h' => hc (hmem.1 h'))]

/-! ### interleavings of task programs -/

/-- `Interleaving progs ops`: `ops` is obtained by repeatedly taking the *next* operation of
some task `k` (any task that still has one) — every merge of the task programs that keeps each
task's own order; sequential execution in any task order, and every execution by any number of
workers with any completion order, are instances. -/
inductive Interleaving {α : Type} : List (List α) → List α → Prop
  | done {progs : List (List α)} : (∀ p ∈ progs, p = []) → Interleaving progs []
  | step {progs : List (List α)} {k : Nat} {a : α} {rest ops : List α} :
      progs[k]? = some (a :: rest) → Interleaving (progs.set k rest) ops →
      Interleaving progs (a :: ops)

theorem flatten_perm_of_getElem? {α : Type} (progs : List (List α)) (k : Nat) (a : α)
    (rest : List α) (hk : progs[k]? = some (a :: rest)) :
    progs.flatten.Perm (a :: (progs.set k rest).flatten) := by
  induction progs generalizing k with
  | nil => simp at hk
  | cons p ps ih =>
    cases k with
    | zero =>
      simp only [List.getElem?_cons_zero, Option.some.injEq] at hk
      subst hk
      simp
    | succ k =>
      simp only [List.getElem?_cons_succ] at hk
      have := ih k hk
      simp only [List.set_cons_succ, List.flatten_cons]
      exact (List.Perm.append_left p this).trans List.perm_middle

/-- an interleaving executes every operation of every task exactly once -/
theorem Interleaving.perm {α : Type} {progs : List (List α)} {ops : List α}
    (h : Interleaving progs ops) : ops.Perm progs.flatten := by
  induction h with
  | done hall =>
    have : List.flatten _ = [] := List.flatten_eq_nil_iff.2 hall
    rw [this]
  | step hk _ ih =>
    exact (List.Perm.cons _ ih).trans (flatten_perm_of_getElem? _ _ _ _ hk).symm

theorem Interleaving.cons_nil {α : Type} {progs : List (List α)} {ops : List α}
    (h : Interleaving progs ops) : Interleaving ([] :: progs) ops := by
  induction h with
  | done hall =>
    refine Interleaving.done ?_
    intro p hp
    rcases List.mem_cons.1 hp with h | h
    · exact h
    · exact hall p h
  | @step progs k a rest ops hk _ ih =>
    refine Interleaving.step (k := k + 1) (rest := rest) ?_ ?_
    · simpa using hk
    · simpa using ih

/-- sequential execution (task after task, in list order) is an interleaving -/
theorem Interleaving.flatten {α : Type} (progs : List (List α)) :
    Interleaving progs progs.flatten := by
  induction progs with
  | nil => exact Interleaving.done (by simp)
  | cons p ps ih =>
    induction p with
    | nil => simpa using ih.cons_nil
    | cons a rest ihp =>
      rw [List.flatten_cons, List.cons_append]
      refine Interleaving.step (k := 0) (rest := rest) (by simp) ?_
      simpa using ihp

/-- if task `k` only addresses items whose key is `k`, the sub-sequence of an interleaving
with key `t` is exactly the program of task `t` -/
theorem Interleaving.filter_eq {α : Type} (key : α → Nat) {progs : List (List α)}
    {ops : List α} (h : Interleaving progs ops)
    (hown : ∀ k prog, progs[k]? = some prog → ∀ x ∈ prog, key x = k) (t : Nat) :
    ops.filter (fun x => key x = t) = (progs[t]?).getD [] := by
  induction h with
  | @done progs hall =>
    cases hp : progs[t]? with
    | none => simp
    | some p =>
      have := hall p (List.mem_of_getElem? hp)
      simp [this]
  | @step progs k a rest ops hk _ ih =>
    have hklt : k < progs.length := by
      rcases Nat.lt_or_ge k progs.length with h | h
      · exact h
      · rw [List.getElem?_eq_none h] at hk; cases hk
    have hown' : ∀ k' prog, (progs.set k rest)[k']? = some prog → ∀ x ∈ prog, key x = k' := by
      intro k' prog hp x hx
      rw [List.getElem?_set] at hp
      by_cases hkk : k = k'
      · subst hkk
        simp only [if_true, hklt] at hp
        cases hp
        exact hown k (a :: rest) hk x (List.mem_cons_of_mem _ hx)
      · rw [if_neg hkk] at hp
        exact hown k' prog hp x hx
    have iht := ih hown'
    have hka : key a = k := hown k (a :: rest) hk a List.mem_cons_self
    by_cases htk : t = k
    · subst htk
      rw [List.filter_cons, if_pos (by simpa using hka), iht, hk, List.getElem?_set]
      simp [hklt]
    · have h1 : ¬ key a = t := by rw [hka]; exact fun e => htk e.symm
      have h2 : ¬ k = t := fun e => htk e.symm
      rw [List.filter_cons, if_neg (by simpa using h1), iht, List.getElem?_set, if_neg h2]

/-! ### memory with separate input cells -/

section Mem
variable {In Out : Type} [DecidableEq In] [DecidableEq Out]

/-- Memory = inputs (`Sum.inl`) and outputs (`Sum.inr`). An operation addressed to output cell
`o` may read *all current inputs* and the current value of its own cell, and writes its cell. -/
def runMem (step : (In → V) → Out → P → V → V) (mem : Sum In Out → V) (ops : List (Out × P)) :
    Sum In Out → V :=
  ops.foldl (fun mem op => fun c =>
    if c = Sum.inr op.1 then step (fun a => mem (Sum.inl a)) op.1 op.2 (mem c) else mem c) mem

theorem runMem_cons (step : (In → V) → Out → P → V → V) (mem : Sum In Out → V)
    (op : Out × P) (rest : List (Out × P)) :
    runMem step mem (op :: rest)
      = runMem step (fun c => if c = Sum.inr op.1
          then step (fun a => mem (Sum.inl a)) op.1 op.2 (mem c) else mem c) rest := by
  simp [runMem]

end Mem

end Arim.C13
