import ArimModel.RayCache
/-! Helper lemmas for C14 (ray-geometry cache model `ArimModel/RayCache.lean`).

Plan: a closed form `ans g m a` for the answer of a fresh object at the *normalised* index,
an invariant `InvP` ("every cached entry equals the closed form"), a generic lemma about the
decorator `wrap`, then one lemma per query function, layer by layer. The invariant `Inv` of
the statement (phrased with `spec`) is shown equivalent to `InvP` at the end. -/

namespace Arim.RayCache

/-! ## `norm` : Python index normalisation -/

theorem norm_eq_some_iff {n : Nat} {r : Int} {a : Nat} :
    norm n r = some a ↔ a < n ∧ (r = (a : Int) ∨ r = (a : Int) - (n : Int)) := by
  unfold norm
  split
  · simp only [Option.some.injEq]; omega
  · split
    · simp only [Option.some.injEq]; omega
    · simp only [reduceCtorEq, false_iff]; omega

theorem norm_eq_none_iff {n : Nat} {r : Int} :
    norm n r = none ↔ r < -(n : Int) ∨ (n : Int) ≤ r := by
  unfold norm
  split
  · simp only [reduceCtorEq, false_iff]; omega
  · split
    · simp only [reduceCtorEq, false_iff]; omega
    · simp only [true_iff]; omega

theorem norm_lt {n : Nat} {r : Int} {a : Nat} (h : norm n r = some a) : a < n :=
  (norm_eq_some_iff.1 h).1

theorem norm_natCast {n a : Nat} (h : a < n) : norm n (a : Int) = some a :=
  norm_eq_some_iff.2 ⟨h, Or.inl rfl⟩

theorem norm_neg {n : Nat} {r : Int} (h : -(n : Int) ≤ r ∧ r < 0) :
    norm n r = some (r + (n : Int)).toNat := by
  rw [norm_eq_some_iff]; omega

theorem norm_add_len {n : Nat} {r : Int} (h : -(n : Int) ≤ r ∧ r < 0) :
    norm n (r + (n : Int)) = some (r + (n : Int)).toNat := by
  rw [norm_eq_some_iff]; omega

theorem norm_pred {n : Nat} {r : Int} {a : Nat} (h : norm n r = some a) (ha : a ≠ 0) :
    norm n (r - 1) = some (a - 1) := by
  rw [norm_eq_some_iff] at *; omega

theorem norm_succ {n : Nat} {r : Int} {a : Nat} (h : norm n r = some a) (ha : a ≠ n - 1) :
    norm n (r + 1) = some (a + 1) := by
  rw [norm_eq_some_iff] at *; omega

/-! ## `lookup` -/

@[simp] theorem lookup_nil (k : Key) : lookup [] k = none := rfl

theorem lookup_cons (k' : Key) (v : Cls) (c : List (Key × Cls)) (k : Key) :
    lookup ((k', v) :: c) k = if k' = k then some v else lookup c k := by
  unfold lookup
  rw [List.find?_cons]
  by_cases h : k' = k
  · simp [h]
  · have : (k' == k) = false := by simpa using h
    simp [this, h]

theorem lookup_filter_key (p : Key → Bool) (c : List (Key × Cls)) (k : Key) :
    lookup (c.filter (fun e => p e.1)) k = if p k then lookup c k else none := by
  induction c with
  | nil => simp
  | cons e c ih =>
    obtain ⟨k', v⟩ := e
    rw [List.filter_cons]
    by_cases hk : k' = k
    · subst hk
      by_cases hp : p k' = true
      · simp [hp, lookup_cons]
      · have hp' : p k' = false := by simpa using hp
        simp only [hp', Bool.false_eq_true, ↓reduceIte] at ih ⊢
        exact ih
    · by_cases hp : p k' = true
      · simp only [hp, ↓reduceIte, lookup_cons, hk]; exact ih
      · have hp' : p k' = false := by simpa using hp
        simp only [hp', Bool.false_eq_true, ↓reduceIte, lookup_cons, hk]; exact ih

/-! ## `andThen` -/

theorem andThen_ok (v : Cls) (s : St) (k : Cls → St → Res × St) :
    andThen (.ok v, s) k = k v s := rfl

theorem andThen_error (e : Err) (s : St) (k : Cls → St → Res × St) :
    andThen (.error e, s) k = (.error e, s) := rfl

theorem andThen_of_fst_ok {x : Res × St} {v : Cls} (k : Cls → St → Res × St) (h : x.1 = .ok v) :
    andThen x k = k v x.2 := by
  obtain ⟨a, s⟩ := x; simp only at h; subst h; rfl

theorem andThen_of_fst_error {x : Res × St} {e : Err} (k : Cls → St → Res × St)
    (h : x.1 = .error e) : andThen x k = (.error e, x.2) := by
  obtain ⟨a, s⟩ := x; simp only at h; subst h; rfl

/-! ## closed form of the fresh-object answer, at the normalised index -/

/-- `inc_*`: `None` at the first interface -/
def incAns (a : Nat) : Res := if a = 0 then .ok .none else .ok .val
/-- `out_*`: `None` at the last interface -/
def outAns (n a : Nat) : Res := if a = n - 1 then .ok .none else .ok .val

/-- the answer of a fresh object for method `m` at the normalised index `a` -/
def ans (g : Geo) : Meth → Nat → Res
  | .legPoints, _ => .ok .val
  | .orient, _ => .ok .val
  | .incLegSize, a => incAns a
  | .incCart, a => incAns a
  | .incRadius, a => incAns a
  | .incPolar, a => incAns a
  | .incAzimuth, a => incAns a
  | .incAngle, a => incAns a
  | .signedInc, a => incAns a
  | .convInc, a =>
    if a = 0 then .ok .none else
    match g.incSide a with
    | Option.none => .error .value
    | some _ => .ok .val
  | .outCart, a => outAns g.n a
  | .outRadius, a => outAns g.n a
  | .outPolar, a => outAns g.n a
  | .outAzimuth, a => outAns g.n a
  | .outAngle, a => outAns g.n a
  | .signedOut, a => outAns g.n a
  | .convOut, a =>
    if a = g.n - 1 then .ok .none else
    match g.outSide a with
    | Option.none => .error .value
    | some _ => .ok .val

/-- closed form of `spec` (proved below, `spec_eq_specN`) -/
def specN (g : Geo) (m : Meth) (r : Int) : Res :=
  match norm g.n r with
  | Option.none => .error .index
  | some a => ans g m a

theorem specN_some {g : Geo} {m : Meth} {r : Int} {a : Nat} (h : norm g.n r = some a) :
    specN g m r = ans g m a := by simp [specN, h]

theorem specN_none {g : Geo} {m : Meth} {r : Int} (h : norm g.n r = none) :
    specN g m r = .error .index := by simp [specN, h]

/-- every cached entry is in range and equals the closed-form answer for its key -/
def InvP (g : Geo) (s : St) : Prop :=
  ∀ m a v, lookup s.cache (m, a) = some v → a < g.n ∧ ans g m a = .ok v

theorem invP_init (g : Geo) : InvP g {} := by
  intro m a v h; simp at h

theorem invP_of_cache_eq {g : Geo} {s t : St} (h : t.cache = s.cache) (hs : InvP g s) : InvP g t := by
  intro m a v hl; rw [h] at hl; exact hs m a v hl

theorem addFinal_cache (s : St) (k : Key) : (addFinal s k).cache = s.cache := by
  unfold addFinal; split <;> rfl

theorem invP_addFinal {g : Geo} {s : St} (k : Key) (hs : InvP g s) : InvP g (addFinal s k) :=
  invP_of_cache_eq (addFinal_cache s k) hs

theorem invP_insert {g : Geo} {s : St} {m : Meth} {a : Nat} {v : Cls} (hs : InvP g s)
    (ha : a < g.n) (hv : ans g m a = .ok v) :
    InvP g { s with cache := ((m, a), v) :: s.cache } := by
  intro m' a' v' hl
  simp only [lookup_cons] at hl
  split at hl
  · next heq =>
    injection heq with h1 h2; subst h1; subst h2
    injection hl with hl; subst hl
    exact ⟨ha, hv⟩
  · exact hs m' a' v' hl

/-- "the computation `x` answers `res` and leaves a valid cache" -/
def T (g : Geo) (x : Res × St) (res : Res) : Prop := x.1 = res ∧ InvP g x.2

theorem T_pure {g : Geo} {s : St} (hs : InvP g s) (res : Res) : T g (res, s) res := ⟨rfl, hs⟩

theorem T_andThen {g : Geo} {x : Res × St} {k : Cls → St → Res × St} {v : Cls} {res : Res}
    (hx : T g x (.ok v)) (hk : ∀ s, InvP g s → T g (k v s) res) : T g (andThen x k) res := by
  rw [andThen_of_fst_ok k hx.1]; exact hk _ hx.2

theorem T_andThen_error {g : Geo} {x : Res × St} {k : Cls → St → Res × St} {e : Err}
    (hx : T g x (.error e)) : T g (andThen x k) (.error e) := by
  rw [andThen_of_fst_error k hx.1]; exact ⟨rfl, hx.2⟩

/-- a query function answers the closed form on every valid state and keeps the state valid -/
def QOK (g : Geo) (m : Meth) (Q : St → Int → Bool → Res × St) : Prop :=
  ∀ s, InvP g s → ∀ r fin, T g (Q s r fin) (specN g m r)

theorem QOK.some {g : Geo} {m : Meth} {Q : St → Int → Bool → Res × St} (hQ : QOK g m Q)
    {s : St} (hs : InvP g s) {r : Int} {a : Nat} (hn : norm g.n r = some a) (fin : Bool) :
    T g (Q s r fin) (ans g m a) := by
  have := hQ s hs r fin; rwa [specN_some hn] at this

/-- **The decorator is transparent.** If the body, run with the raw index on a valid state,
answers the closed form at the normalised index and keeps the state valid, so does the
wrapped method: a hit returns an entry that equals the closed form, a miss stores the answer
computed with the raw index under the normalised key. -/
theorem wrap_ok (g : Geo) (m : Meth) (body : St → Int → Res × St)
    (hb : ∀ s, InvP g s → ∀ r a, norm g.n r = some a → T g (body s r) (ans g m a)) :
    QOK g m (wrap g m body) := by
  intro s hs r fin
  unfold wrap T
  cases hn : norm g.n r with
  | none => exact ⟨(specN_none hn).symm, hs⟩
  | some a =>
    rw [specN_some hn]
    simp only
    cases hl : lookup s.cache (m, a) with
    | some v =>
      refine ⟨((hs m a v hl).2).symm, ?_⟩
      cases fin
      · exact hs
      · exact invP_addFinal _ hs
    | none =>
      obtain ⟨h1, h2⟩ := hb s hs r a hn
      rcases hbr : body s r with ⟨res, s'⟩
      rw [hbr] at h1 h2
      simp only at h1 h2
      cases res with
      | error e => exact ⟨h1, h2⟩
      | ok v =>
        refine ⟨h1, ?_⟩
        have hi := invP_insert h2 (norm_lt hn) h1.symm
        cases fin
        · exact hi
        · exact invP_addFinal _ hi

/-! ## the seventeen query functions, layer by layer -/

theorem isFirst_eq {g : Geo} (h : g.rawZeroTest = false) {r : Int} {a : Nat}
    (hn : norm g.n r = some a) : isFirst g r = decide (a = 0) := by
  unfold isFirst; rw [Bool.eq_iff_iff]; simp [h, hn]

theorem isLast_eq {g : Geo} {r : Int} {a : Nat}
    (hn : norm g.n r = some a) : isLast g r = decide (a = g.n - 1) := by
  unfold isLast; rw [Bool.eq_iff_iff]; simp [hn]

theorem qLeg_ok (g : Geo) : QOK g .legPoints (qLeg g) :=
  wrap_ok g _ _ fun _ hs _ _ _ => T_pure hs _

theorem qOrient_ok (g : Geo) : QOK g .orient (qOrient g) :=
  wrap_ok g _ _ fun _ hs _ _ _ => T_pure hs _

theorem qIncLegSize_ok (g : Geo) (h : g.rawZeroTest = false) : QOK g .incLegSize (qIncLegSize g) := by
  refine wrap_ok g _ _ fun s hs r a hn => ?_
  simp only [isFirst_eq h hn, ans, incAns]
  by_cases ha : a = 0
  · simp only [ha, decide_true, ↓reduceIte]; exact T_pure hs _
  · simp only [ha, decide_false, Bool.false_eq_true, ↓reduceIte]
    refine T_andThen ((qLeg_ok g).some hs (norm_pred hn ha) false) fun s hs => ?_
    refine T_andThen ((qLeg_ok g).some hs hn false) fun s hs => ?_
    exact T_pure hs _

theorem qIncCart_ok (g : Geo) (h : g.rawZeroTest = false) : QOK g .incCart (qIncCart g) := by
  refine wrap_ok g _ _ fun s hs r a hn => ?_
  simp only [isFirst_eq h hn, ans, incAns]
  by_cases ha : a = 0
  · simp only [ha, decide_true, ↓reduceIte]; exact T_pure hs _
  · simp only [ha, decide_false, Bool.false_eq_true, ↓reduceIte]
    refine T_andThen ((qLeg_ok g).some hs (norm_pred hn ha) false) fun s hs => ?_
    refine T_andThen ((qLeg_ok g).some hs hn false) fun s hs => ?_
    refine T_andThen ((qOrient_ok g).some hs hn false) fun s hs => ?_
    exact T_pure hs _

/-- a sub-call whose answer is `incAns a`, split on `a = 0` -/
theorem T_inc_cases {g : Geo} {x : Res × St} {a : Nat} (hx : T g x (incAns a)) :
    (a = 0 ∧ T g x (.ok .none)) ∨ (a ≠ 0 ∧ T g x (.ok .val)) := by
  unfold incAns at hx
  by_cases ha : a = 0
  · left; simp only [ha, ↓reduceIte] at hx; exact ⟨ha, hx⟩
  · right; simp only [ha, ↓reduceIte] at hx; exact ⟨ha, hx⟩

theorem T_out_cases {g : Geo} {x : Res × St} {n a : Nat} (hx : T g x (outAns n a)) :
    (a = n - 1 ∧ T g x (.ok .none)) ∨ (a ≠ n - 1 ∧ T g x (.ok .val)) := by
  unfold outAns at hx
  by_cases ha : a = n - 1
  · left; simp only [ha, ↓reduceIte] at hx; exact ⟨ha, hx⟩
  · right; simp only [ha, ↓reduceIte] at hx; exact ⟨ha, hx⟩

theorem incAns_zero {a : Nat} (h : a = 0) : incAns a = .ok .none := by simp [incAns, h]
theorem incAns_pos {a : Nat} (h : a ≠ 0) : incAns a = .ok .val := by simp [incAns, h]
theorem outAns_last {n a : Nat} (h : a = n - 1) : outAns n a = .ok .none := by simp [outAns, h]
theorem outAns_inner {n a : Nat} (h : a ≠ n - 1) : outAns n a = .ok .val := by simp [outAns, h]

theorem qIncRadius_ok (g : Geo) (h : g.rawZeroTest = false) : QOK g .incRadius (qIncRadius g) := by
  refine wrap_ok g _ _ fun s hs r a hn => ?_
  simp only [ans]
  rcases T_inc_cases ((qIncCart_ok g h).some hs hn false) with ⟨ha, hx⟩ | ⟨ha, hx⟩
  · rw [incAns_zero ha]; exact T_andThen hx fun s hs => T_pure hs _
  · rw [incAns_pos ha]; exact T_andThen hx fun s hs => T_pure hs _

theorem qIncAzimuth_ok (g : Geo) (h : g.rawZeroTest = false) : QOK g .incAzimuth (qIncAzimuth g) := by
  refine wrap_ok g _ _ fun s hs r a hn => ?_
  simp only [ans]
  rcases T_inc_cases ((qIncCart_ok g h).some hs hn false) with ⟨ha, hx⟩ | ⟨ha, hx⟩
  · rw [incAns_zero ha]; exact T_andThen hx fun s hs => T_pure hs _
  · rw [incAns_pos ha]; exact T_andThen hx fun s hs => T_pure hs _

theorem qIncPolar_ok (g : Geo) (h : g.rawZeroTest = false) : QOK g .incPolar (qIncPolar g) := by
  refine wrap_ok g _ _ fun s hs r a hn => ?_
  simp only [ans]
  rcases T_inc_cases ((qIncCart_ok g h).some hs hn false) with ⟨ha, hx⟩ | ⟨ha, hx⟩
  · rw [incAns_zero ha]; exact T_andThen hx fun s hs => T_pure hs _
  · rw [incAns_pos ha]
    refine T_andThen hx fun s hs => ?_
    have := (qIncRadius_ok g h).some hs hn false
    simp only [ans, incAns_pos ha] at this
    exact T_andThen this fun s hs => T_pure hs _

theorem qIncAngle_ok (g : Geo) (h : g.rawZeroTest = false) : QOK g .incAngle (qIncAngle g) :=
  wrap_ok g _ _ fun _ hs _ _ hn => (qIncPolar_ok g h).some hs hn false

theorem qSignedInc_ok (g : Geo) (h : g.rawZeroTest = false) : QOK g .signedInc (qSignedInc g) := by
  refine wrap_ok g _ _ fun s hs r a hn => ?_
  simp only [ans]
  rcases T_inc_cases ((qIncAzimuth_ok g h).some hs hn false) with ⟨ha, hx⟩ | ⟨ha, hx⟩
  · rw [incAns_zero ha]; exact T_andThen hx fun s hs => T_pure hs _
  · rw [incAns_pos ha]
    refine T_andThen hx fun s hs => ?_
    have := (qIncPolar_ok g h).some hs hn false
    simp only [ans, incAns_pos ha] at this
    exact T_andThen this fun s hs => T_pure hs _

theorem qConvInc_ok (g : Geo) (h : g.rawZeroTest = false) : QOK g .convInc (qConvInc g) := by
  refine wrap_ok g _ _ fun s hs r a hn => ?_
  simp only [isFirst_eq h hn, ans, hn, Option.bind_some]
  by_cases ha : a = 0
  · simp only [ha, decide_true, ↓reduceIte]; exact T_pure hs _
  · simp only [ha, decide_false, Bool.false_eq_true, ↓reduceIte]
    cases g.incSide a with
    | none => exact T_pure hs _
    | some b =>
      have := (qIncPolar_ok g h).some hs hn false
      simpa only [ans, incAns_pos ha] using this

theorem qOutCart_ok (g : Geo) : QOK g .outCart (qOutCart g) := by
  refine wrap_ok g _ _ fun s hs r a hn => ?_
  simp only [isLast_eq hn, ans, outAns]
  by_cases ha : a = g.n - 1
  · simp only [ha, decide_true, ↓reduceIte]; exact T_pure hs _
  · simp only [ha, decide_false, Bool.false_eq_true, ↓reduceIte]
    refine T_andThen ((qLeg_ok g).some hs hn false) fun s hs => ?_
    refine T_andThen ((qLeg_ok g).some hs (norm_succ hn ha) false) fun s hs => ?_
    refine T_andThen ((qOrient_ok g).some hs hn false) fun s hs => ?_
    exact T_pure hs _

theorem qOutRadius_ok (g : Geo) : QOK g .outRadius (qOutRadius g) := by
  refine wrap_ok g _ _ fun s hs r a hn => ?_
  simp only [ans]
  rcases T_out_cases ((qOutCart_ok g).some hs hn false) with ⟨ha, hx⟩ | ⟨ha, hx⟩
  · rw [outAns_last ha]; exact T_andThen hx fun s hs => T_pure hs _
  · rw [outAns_inner ha]; exact T_andThen hx fun s hs => T_pure hs _

theorem qOutAzimuth_ok (g : Geo) : QOK g .outAzimuth (qOutAzimuth g) := by
  refine wrap_ok g _ _ fun s hs r a hn => ?_
  simp only [ans]
  rcases T_out_cases ((qOutCart_ok g).some hs hn false) with ⟨ha, hx⟩ | ⟨ha, hx⟩
  · rw [outAns_last ha]; exact T_andThen hx fun s hs => T_pure hs _
  · rw [outAns_inner ha]; exact T_andThen hx fun s hs => T_pure hs _

theorem qOutPolar_ok (g : Geo) : QOK g .outPolar (qOutPolar g) := by
  refine wrap_ok g _ _ fun s hs r a hn => ?_
  simp only [ans]
  rcases T_out_cases ((qOutCart_ok g).some hs hn false) with ⟨ha, hx⟩ | ⟨ha, hx⟩
  · rw [outAns_last ha]; exact T_andThen hx fun s hs => T_pure hs _
  · rw [outAns_inner ha]
    refine T_andThen hx fun s hs => ?_
    have := (qOutRadius_ok g).some hs hn false
    simp only [ans, outAns_inner ha] at this
    exact T_andThen this fun s hs => T_pure hs _

theorem qOutAngle_ok (g : Geo) : QOK g .outAngle (qOutAngle g) :=
  wrap_ok g _ _ fun _ hs _ _ hn => (qOutPolar_ok g).some hs hn false

theorem qSignedOut_ok (g : Geo) : QOK g .signedOut (qSignedOut g) := by
  refine wrap_ok g _ _ fun s hs r a hn => ?_
  simp only [ans]
  rcases T_out_cases ((qOutAzimuth_ok g).some hs hn false) with ⟨ha, hx⟩ | ⟨ha, hx⟩
  · rw [outAns_last ha]; exact T_andThen hx fun s hs => T_pure hs _
  · rw [outAns_inner ha]
    refine T_andThen hx fun s hs => ?_
    have := (qOutPolar_ok g).some hs hn false
    simp only [ans, outAns_inner ha] at this
    exact T_andThen this fun s hs => T_pure hs _

theorem qConvOut_ok (g : Geo) : QOK g .convOut (qConvOut g) := by
  refine wrap_ok g _ _ fun s hs r a hn => ?_
  simp only [isLast_eq hn, ans, hn, Option.bind_some]
  by_cases ha : a = g.n - 1
  · simp only [ha, decide_true, ↓reduceIte]; exact T_pure hs _
  · simp only [ha, decide_false, Bool.false_eq_true, ↓reduceIte]
    cases g.outSide a with
    | none => exact T_pure hs _
    | some b =>
      have := (qOutPolar_ok g).some hs hn false
      simpa only [ans, outAns_inner ha] using this

/-- every method answers the closed form on every valid state and keeps the state valid -/
theorem query_ok (g : Geo) (h : g.rawZeroTest = false) (m : Meth) :
    QOK g m (fun s r fin => query g s m r fin) := by
  cases m <;> simp only [query]
  · exact qLeg_ok g
  · exact qOrient_ok g
  · exact qIncLegSize_ok g h
  · exact qIncCart_ok g h
  · exact qIncRadius_ok g h
  · exact qIncPolar_ok g h
  · exact qIncAzimuth_ok g h
  · exact qIncAngle_ok g h
  · exact qSignedInc_ok g h
  · exact qConvInc_ok g h
  · exact qOutCart_ok g
  · exact qOutRadius_ok g
  · exact qOutPolar_ok g
  · exact qOutAzimuth_ok g
  · exact qOutAngle_ok g
  · exact qSignedOut_ok g
  · exact qConvOut_ok g

/-! ## `spec`, the invariant of the statement, histories -/

/-- the fresh-object answer has the closed form `specN` (current code) -/
theorem spec_eq_specN (g : Geo) (h : g.rawZeroTest = false) (m : Meth) (r : Int) :
    spec g m r = specN g m r :=
  (query_ok g h m {} (invP_init g) r true).1

theorem spec_natCast (g : Geo) (h : g.rawZeroTest = false) (m : Meth) {a : Nat} (ha : a < g.n) :
    spec g m (a : Int) = ans g m a := by
  rw [spec_eq_specN g h, specN_some (norm_natCast ha)]

/-- every cached entry is in range and equals the fresh-object answer for its key -/
def Inv (g : Geo) (s : St) : Prop :=
  ∀ m a v, lookup s.cache (m, a) = some v → a < g.n ∧ spec g m (a : Int) = .ok v

theorem inv_iff_invP (g : Geo) (h : g.rawZeroTest = false) (s : St) : Inv g s ↔ InvP g s := by
  constructor
  · intro hs m a v hl
    obtain ⟨h1, h2⟩ := hs m a v hl
    exact ⟨h1, by rw [← spec_natCast g h m h1]; exact h2⟩
  · intro hs m a v hl
    obtain ⟨h1, h2⟩ := hs m a v hl
    exact ⟨h1, by rw [spec_natCast g h m h1]; exact h2⟩

/-- the state after a history of operations -/
def run (g : Geo) (s : St) (ops : List Op) : St :=
  ops.foldl (fun s op => (step g s op).2) s

@[simp] theorem run_nil (g : Geo) (s : St) : run g s [] = s := rfl
@[simp] theorem run_cons (g : Geo) (s : St) (op : Op) (ops : List Op) :
    run g s (op :: ops) = run g (step g s op).2 ops := rfl
theorem run_append (g : Geo) (s : St) (ops ops' : List Op) :
    run g s (ops ++ ops') = run g (run g s ops) ops' := by
  simp [run, List.foldl_append]

theorem runQueries_nil (g : Geo) (s : St) : runQueries g s [] = ([], s) := rfl

theorem runQueries_cons_error {g : Geo} {s : St} {m : Meth} {r : Int} {f : Bool} {e : Err}
    (rest : List (Meth × Int × Bool)) (h : (query g s m r f).1 = .error e) :
    runQueries g s ((m, r, f) :: rest) = ([.error e], (query g s m r f).2) := by
  rcases hq : query g s m r f with ⟨res, s'⟩
  rw [hq] at h; simp only at h; subst h
  simp only [runQueries, hq]

theorem runQueries_cons_ok {g : Geo} {s : St} {m : Meth} {r : Int} {f : Bool} {v : Cls}
    (rest : List (Meth × Int × Bool)) (h : (query g s m r f).1 = .ok v) :
    runQueries g s ((m, r, f) :: rest) =
      (.ok v :: (runQueries g (query g s m r f).2 rest).1,
       (runQueries g (query g s m r f).2 rest).2) := by
  rcases hq : query g s m r f with ⟨res, s'⟩
  rw [hq] at h; simp only at h; subst h
  simp only [runQueries, hq]

/-! ## finals only grow during queries -/

/-- the finals of `s` are finals of `t` -/
def FinSub (s t : St) : Prop := ∀ k, k ∈ s.finals → k ∈ t.finals

theorem FinSub.refl (s : St) : FinSub s s := fun _ h => h
theorem FinSub.trans {s t u : St} (h1 : FinSub s t) (h2 : FinSub t u) : FinSub s u :=
  fun k h => h2 k (h1 k h)

theorem finSub_addFinal (s : St) (k : Key) : FinSub s (addFinal s k) := by
  intro k' h; unfold addFinal; split
  · exact h
  · exact List.mem_cons_of_mem _ h

theorem mem_addFinal (s : St) (k : Key) : k ∈ (addFinal s k).finals := by
  unfold addFinal; split
  · next h => simpa using h
  · exact List.mem_cons_self

theorem wrap_finSub (g : Geo) (m : Meth) (body : St → Int → Res × St)
    (hb : ∀ s r, FinSub s (body s r).2) (s : St) (r : Int) (fin : Bool) :
    FinSub s (wrap g m body s r fin).2 := by
  unfold wrap
  cases norm g.n r with
  | none => exact FinSub.refl s
  | some a =>
    simp only
    cases lookup s.cache (m, a) with
    | some v =>
      cases fin
      · exact FinSub.refl s
      · exact finSub_addFinal s _
    | none =>
      have hb' := hb s r
      rcases hbr : body s r with ⟨res, s'⟩
      rw [hbr] at hb'
      simp only at hb' ⊢
      cases res with
      | error e => exact hb'
      | ok v =>
        have h2 : FinSub s { s' with cache := ((m, a), v) :: s'.cache } := hb'
        cases fin
        · exact h2
        · exact h2.trans (finSub_addFinal _ _)

theorem andThen_finSub {s : St} {x : Res × St} {k : Cls → St → Res × St}
    (hx : FinSub s x.2) (hk : ∀ v s', FinSub s' (k v s').2) : FinSub s (andThen x k).2 := by
  obtain ⟨res, s'⟩ := x
  cases res with
  | error e => exact hx
  | ok v => exact hx.trans (hk v s')

theorem qLeg_finSub (g : Geo) (s : St) (r : Int) (fin : Bool) : FinSub s (qLeg g s r fin).2 :=
  wrap_finSub _ _ _ (fun s _ => FinSub.refl s) s r fin

theorem qOrient_finSub (g : Geo) (s : St) (r : Int) (fin : Bool) : FinSub s (qOrient g s r fin).2 :=
  wrap_finSub _ _ _ (fun s _ => FinSub.refl s) s r fin

theorem qIncLegSize_finSub (g : Geo) (s : St) (r : Int) (fin : Bool) :
    FinSub s (qIncLegSize g s r fin).2 := by
  refine wrap_finSub _ _ _ (fun s r => ?_) s r fin
  split
  · exact FinSub.refl _
  · exact andThen_finSub (qLeg_finSub _ _ _ _) fun _ _ =>
      andThen_finSub (qLeg_finSub _ _ _ _) fun _ _ => FinSub.refl _

theorem qIncCart_finSub (g : Geo) (s : St) (r : Int) (fin : Bool) :
    FinSub s (qIncCart g s r fin).2 := by
  refine wrap_finSub _ _ _ (fun s r => ?_) s r fin
  split
  · exact FinSub.refl _
  · exact andThen_finSub (qLeg_finSub _ _ _ _) fun _ _ =>
      andThen_finSub (qLeg_finSub _ _ _ _) fun _ _ =>
      andThen_finSub (qOrient_finSub _ _ _ _) fun _ _ => FinSub.refl _

theorem qIncRadius_finSub (g : Geo) (s : St) (r : Int) (fin : Bool) :
    FinSub s (qIncRadius g s r fin).2 := by
  refine wrap_finSub _ _ _ (fun s r => ?_) s r fin
  refine andThen_finSub (qIncCart_finSub _ _ _ _) fun _ _ => ?_
  split <;> exact FinSub.refl _

theorem qIncAzimuth_finSub (g : Geo) (s : St) (r : Int) (fin : Bool) :
    FinSub s (qIncAzimuth g s r fin).2 := by
  refine wrap_finSub _ _ _ (fun s r => ?_) s r fin
  refine andThen_finSub (qIncCart_finSub _ _ _ _) fun _ _ => ?_
  split <;> exact FinSub.refl _

theorem qIncPolar_finSub (g : Geo) (s : St) (r : Int) (fin : Bool) :
    FinSub s (qIncPolar g s r fin).2 := by
  refine wrap_finSub _ _ _ (fun s r => ?_) s r fin
  refine andThen_finSub (qIncCart_finSub _ _ _ _) fun _ _ => ?_
  split
  · exact FinSub.refl _
  · exact andThen_finSub (qIncRadius_finSub _ _ _ _) fun _ _ => FinSub.refl _

theorem qIncAngle_finSub (g : Geo) (s : St) (r : Int) (fin : Bool) :
    FinSub s (qIncAngle g s r fin).2 :=
  wrap_finSub _ _ _ (fun _ _ => qIncPolar_finSub _ _ _ _) s r fin

theorem qSignedInc_finSub (g : Geo) (s : St) (r : Int) (fin : Bool) :
    FinSub s (qSignedInc g s r fin).2 := by
  refine wrap_finSub _ _ _ (fun s r => ?_) s r fin
  refine andThen_finSub (qIncAzimuth_finSub _ _ _ _) fun _ _ => ?_
  split
  · exact FinSub.refl _
  · exact andThen_finSub (qIncPolar_finSub _ _ _ _) fun _ _ => FinSub.refl _

theorem qConvInc_finSub (g : Geo) (s : St) (r : Int) (fin : Bool) :
    FinSub s (qConvInc g s r fin).2 := by
  refine wrap_finSub _ _ _ (fun s r => ?_) s r fin
  split
  · exact FinSub.refl _
  · split
    · exact FinSub.refl _
    · exact qIncPolar_finSub _ _ _ _

theorem qOutCart_finSub (g : Geo) (s : St) (r : Int) (fin : Bool) :
    FinSub s (qOutCart g s r fin).2 := by
  refine wrap_finSub _ _ _ (fun s r => ?_) s r fin
  split
  · exact FinSub.refl _
  · exact andThen_finSub (qLeg_finSub _ _ _ _) fun _ _ =>
      andThen_finSub (qLeg_finSub _ _ _ _) fun _ _ =>
      andThen_finSub (qOrient_finSub _ _ _ _) fun _ _ => FinSub.refl _

theorem qOutRadius_finSub (g : Geo) (s : St) (r : Int) (fin : Bool) :
    FinSub s (qOutRadius g s r fin).2 := by
  refine wrap_finSub _ _ _ (fun s r => ?_) s r fin
  refine andThen_finSub (qOutCart_finSub _ _ _ _) fun _ _ => ?_
  split <;> exact FinSub.refl _

theorem qOutAzimuth_finSub (g : Geo) (s : St) (r : Int) (fin : Bool) :
    FinSub s (qOutAzimuth g s r fin).2 := by
  refine wrap_finSub _ _ _ (fun s r => ?_) s r fin
  refine andThen_finSub (qOutCart_finSub _ _ _ _) fun _ _ => ?_
  split <;> exact FinSub.refl _

theorem qOutPolar_finSub (g : Geo) (s : St) (r : Int) (fin : Bool) :
    FinSub s (qOutPolar g s r fin).2 := by
  refine wrap_finSub _ _ _ (fun s r => ?_) s r fin
  refine andThen_finSub (qOutCart_finSub _ _ _ _) fun _ _ => ?_
  split
  · exact FinSub.refl _
  · exact andThen_finSub (qOutRadius_finSub _ _ _ _) fun _ _ => FinSub.refl _

theorem qOutAngle_finSub (g : Geo) (s : St) (r : Int) (fin : Bool) :
    FinSub s (qOutAngle g s r fin).2 :=
  wrap_finSub _ _ _ (fun _ _ => qOutPolar_finSub _ _ _ _) s r fin

theorem qSignedOut_finSub (g : Geo) (s : St) (r : Int) (fin : Bool) :
    FinSub s (qSignedOut g s r fin).2 := by
  refine wrap_finSub _ _ _ (fun s r => ?_) s r fin
  refine andThen_finSub (qOutAzimuth_finSub _ _ _ _) fun _ _ => ?_
  split
  · exact FinSub.refl _
  · exact andThen_finSub (qOutPolar_finSub _ _ _ _) fun _ _ => FinSub.refl _

theorem qConvOut_finSub (g : Geo) (s : St) (r : Int) (fin : Bool) :
    FinSub s (qConvOut g s r fin).2 := by
  refine wrap_finSub _ _ _ (fun s r => ?_) s r fin
  split
  · exact FinSub.refl _
  · split
    · exact FinSub.refl _
    · exact qOutPolar_finSub _ _ _ _

theorem query_finSub (g : Geo) (s : St) (m : Meth) (r : Int) (fin : Bool) :
    FinSub s (query g s m r fin).2 := by
  cases m <;> simp only [query]
  · exact qLeg_finSub _ _ _ _
  · exact qOrient_finSub _ _ _ _
  · exact qIncLegSize_finSub _ _ _ _
  · exact qIncCart_finSub _ _ _ _
  · exact qIncRadius_finSub _ _ _ _
  · exact qIncPolar_finSub _ _ _ _
  · exact qIncAzimuth_finSub _ _ _ _
  · exact qIncAngle_finSub _ _ _ _
  · exact qSignedInc_finSub _ _ _ _
  · exact qConvInc_finSub _ _ _ _
  · exact qOutCart_finSub _ _ _ _
  · exact qOutRadius_finSub _ _ _ _
  · exact qOutPolar_finSub _ _ _ _
  · exact qOutAzimuth_finSub _ _ _ _
  · exact qOutAngle_finSub _ _ _ _
  · exact qSignedOut_finSub _ _ _ _
  · exact qConvOut_finSub _ _ _ _

/-! ## a successful query leaves its answer cached (and final, if asked as final) -/

theorem wrap_caches (g : Geo) (m : Meth) (body : St → Int → Res × St) (s : St) (r : Int)
    (fin : Bool) {a : Nat} {v : Cls} (hn : norm g.n r = some a)
    (hv : (wrap g m body s r fin).1 = .ok v) :
    lookup (wrap g m body s r fin).2.cache (m, a) = some v ∧
    (fin = true → (m, a) ∈ (wrap g m body s r fin).2.finals) := by
  unfold wrap at hv ⊢
  simp only [hn] at hv ⊢
  cases hl : lookup s.cache (m, a) with
  | some w =>
    simp only [hl] at hv ⊢
    injection hv with hv; subst hv
    cases fin
    · exact ⟨hl, by simp⟩
    · exact ⟨by simpa [addFinal_cache] using hl, fun _ => mem_addFinal _ _⟩
  | none =>
    simp only [hl] at hv ⊢
    rcases hbr : body s r with ⟨res, s'⟩
    rw [hbr] at hv
    cases res with
    | error e => simp at hv
    | ok w =>
      simp only at hv ⊢
      injection hv with hv; subst hv
      cases fin
      · exact ⟨by simp [lookup_cons], by simp⟩
      · exact ⟨by simp [addFinal_cache, lookup_cons], fun _ => mem_addFinal _ _⟩

end Arim.RayCache
