import Mathlib.Analysis.SpecialFunctions.Trigonometric.Basic
import Mathlib.Data.Complex.Basic
import Mathlib.Tactic.FieldSimp
import Mathlib.Tactic.Ring
import Mathlib.Tactic.Linarith
import Mathlib.Tactic.LinearCombination
/-! Algebraic cores of the energy-conservation theorems of C04: the Krautkrämer coefficients
written on real sines `Sl St`, one real (incident) cosine and ARBITRARY complex cosines for the
other two angles. -/
namespace Arim.IfaceLemmas
open Complex

/-- `1 − |(P−Q)/(P+Q)|² = 4 Re(P·conj Q)/|P+Q|²` -/
theorem one_sub_normSq_ratio (P Q : ℂ) (h : P + Q ≠ 0) :
    1 - normSq ((P - Q) / (P + Q)) = 4 * (P * (starRingEnd ℂ) Q).re / normSq (P + Q) := by
  have hN' : normSq (P + Q) ≠ 0 := by simpa [normSq_eq_zero] using h
  rw [normSq_add] at hN'
  rw [normSq_div, normSq_add, normSq_sub]
  field_simp
  ring

/-- fluid → solid: incident cosine `Cf` real, refracted cosines `Cl Ct` arbitrary complex -/
theorem energy_fs_core (Cf Sl St ρf ρs cf cl ct : ℝ) (Cl Ct N : ℂ)
    (hCf : Cf ≠ 0) (hρf : ρf ≠ 0) (hρs : ρs ≠ 0) (hcf : cf ≠ 0) (hcl : cl ≠ 0)
    (hsnell : cl * St = ct * Sl)
    (hNdef : N = ct * ct / (cl * cl) * (2 * Sl * Cl) * (2 * St * Ct)
        + (1 - 2 * St ^ 2) * (1 - 2 * St ^ 2) + ρf * cf / (ρs * cl) * Cl / Cf)
    (hN : N ≠ 0) :
    Cf / (ρf * cf) * (1 - normSq
      ((ct * ct / (cl * cl) * (2 * Sl * Cl) * (2 * St * Ct) + (1 - 2 * St ^ 2) * (1 - 2 * St ^ 2)
          - ρf * cf * Cl / (ρs * cl * Cf)) / N))
    = Cl.re / (ρs * cl) * normSq (2 * (1 - 2 * St ^ 2) / N)
      + Ct.re / (ρs * ct) * normSq (-2 * (ct * ct / (cl * cl)) * (2 * Sl * Cl) / N) := by
  subst hNdef
  set P : ℂ := ct * ct / (cl * cl) * (2 * Sl * Cl) * (2 * St * Ct)
    + (1 - 2 * St ^ 2) * (1 - 2 * St ^ 2) with hP
  set Q : ℂ := ρf * cf / (ρs * cl) * Cl / Cf with hQ
  have hQ' : (ρf * cf * Cl / (ρs * cl * Cf) : ℂ) = Q := by
    rw [hQ]; ring
  rw [hQ', one_sub_normSq_ratio P Q hN, normSq_div, normSq_div]
  have hN' : normSq (P + Q) ≠ 0 := by simpa [normSq_eq_zero] using hN
  have hSt : St = ct * Sl / cl := by field_simp; linarith
  have e1 : (P * (starRingEnd ℂ) Q).re =
      ρf * cf / (ρs * cl * Cf) * (ct * ct / (cl * cl) * 4 * Sl * St * normSq Cl * Ct.re
        + (1 - 2 * St ^ 2) ^ 2 * Cl.re) := by
    rw [hP, hQ]
    obtain ⟨a, b⟩ := Cl
    obtain ⟨c, d⟩ := Ct
    simp only [normSq_apply, mul_re, mul_im, div_re, div_im, ofReal_re, ofReal_im, pow_two,
      conj_re, conj_im, add_re, add_im, sub_re, sub_im, one_re, one_im, re_ofNat, im_ofNat,
      mul_zero, zero_mul, sub_zero, add_zero, zero_div]
    field_simp
    ring
  have e2 : normSq (2 * (1 - 2 * (St:ℂ) ^ 2)) = 4 * (1 - 2 * St ^ 2) ^ 2 := by
    have : (2 * (1 - 2 * (St:ℂ) ^ 2)) = ((2 * (1 - 2 * St ^ 2) : ℝ) : ℂ) := by push_cast; ring
    rw [this, normSq_ofReal]; ring
  have e3 : normSq (-2 * ((ct:ℂ) * ct / (cl * cl)) * (2 * Sl * Cl)) =
      16 * (ct * ct / (cl * cl)) ^ 2 * Sl ^ 2 * normSq Cl := by
    have : (-2 * ((ct:ℂ) * ct / (cl * cl)) * (2 * Sl * Cl)) =
        ((-2 * (ct * ct / (cl * cl)) * (2 * Sl) : ℝ) : ℂ) * Cl := by push_cast; ring
    rw [this, normSq_mul, normSq_ofReal]; ring
  rw [e1, e2, e3]
  subst hSt
  field_simp
  ring

/-- solid (L incident) → fluid: incident cosine `Cl` real, `Cf Ct` arbitrary complex -/
theorem energy_slf_core (Cl Sl St ρf ρs cf cl ct : ℝ) (Cf Ct N : ℂ)
    (hCf : Cf ≠ 0) (hρs : ρs ≠ 0) (hcl : cl ≠ 0)
    (hsnell : cl * St = ct * Sl)
    (hNdef : N = ct * ct / (cl * cl) * (2 * Sl * Cl) * (2 * St * Ct)
        + (1 - 2 * St ^ 2) * (1 - 2 * St ^ 2) + ρf * cf / (ρs * cl) * Cl / Cf)
    (hN : N ≠ 0) :
    Cl / (ρs * cl) * (1 - normSq
      ((ct * ct / (cl * cl) * (2 * Sl * Cl) * (2 * St * Ct) - (1 - 2 * St ^ 2) * (1 - 2 * St ^ 2)
          + ρf * cf / (ρs * cl) * Cl / Cf) / N))
    = Ct.re / (ρs * ct) * normSq
        (2 * (ct * ct / (cl * cl)) * (2 * Sl * Cl) * (1 - 2 * St ^ 2) / N)
      + Cf.re / (ρf * cf) * normSq
        (2 * ρf * cf * Cl * (1 - 2 * St ^ 2) / (N * ρs * cl * Cf)) := by
  set D : ℂ := (1 - 2 * St ^ 2) * (1 - 2 * St ^ 2) with hD
  set P : ℂ := ct * ct / (cl * cl) * (2 * Sl * Cl) * (2 * St * Ct)
    + ρf * cf / (ρs * cl) * Cl / Cf with hP
  have hNPQ : N = P + D := by rw [hNdef, hP]; ring
  have hnum : (ct * ct / (cl * cl) * (2 * Sl * Cl) * (2 * St * Ct) - D
      + ρf * cf / (ρs * cl) * Cl / Cf : ℂ) = P - D := by rw [hP]; ring
  rw [hnum, hNPQ, one_sub_normSq_ratio P D (hNPQ ▸ hN), normSq_div, normSq_div]
  have hN' : normSq (P + D) ≠ 0 := by simpa [normSq_eq_zero] using (hNPQ ▸ hN)
  have hCf' : normSq Cf ≠ 0 := by simpa [normSq_eq_zero] using hCf
  have hSt : St = ct * Sl / cl := by field_simp; linarith
  have e1 : (P * (starRingEnd ℂ) D).re =
      (1 - 2 * St ^ 2) ^ 2 * (ct * ct / (cl * cl) * 4 * Sl * St * Cl * Ct.re
        + ρf * cf / (ρs * cl) * Cl * Cf.re / normSq Cf) := by
    rw [hP, hD]
    obtain ⟨a, b⟩ := Cf
    obtain ⟨c, d⟩ := Ct
    simp only [normSq_apply] at hCf'
    simp only [normSq_apply, mul_re, mul_im, div_re, div_im, ofReal_re, ofReal_im, pow_two,
      conj_re, conj_im, add_re, add_im, sub_re, sub_im, one_re, one_im, re_ofNat, im_ofNat,
      mul_zero, zero_mul, sub_zero, add_zero, zero_div]
    field_simp
    ring
  have e2 : normSq (2 * ((ct:ℂ) * ct / (cl * cl)) * (2 * Sl * Cl) * (1 - 2 * St ^ 2)) =
      16 * (ct * ct / (cl * cl)) ^ 2 * Sl ^ 2 * Cl ^ 2 * (1 - 2 * St ^ 2) ^ 2 := by
    have : (2 * ((ct:ℂ) * ct / (cl * cl)) * (2 * Sl * Cl) * (1 - 2 * St ^ 2)) =
        ((2 * (ct * ct / (cl * cl)) * (2 * Sl * Cl) * (1 - 2 * St ^ 2) : ℝ) : ℂ) := by
      push_cast; ring
    rw [this, normSq_ofReal]; ring
  have e3 : normSq (2 * (ρf:ℂ) * cf * Cl * (1 - 2 * St ^ 2)) =
      4 * ρf ^ 2 * cf ^ 2 * Cl ^ 2 * (1 - 2 * St ^ 2) ^ 2 := by
    have : (2 * (ρf:ℂ) * cf * Cl * (1 - 2 * St ^ 2)) =
        ((2 * ρf * cf * Cl * (1 - 2 * St ^ 2) : ℝ) : ℂ) := by push_cast; ring
    rw [this, normSq_ofReal]; ring
  rw [e1, e2, e3, normSq_mul, normSq_mul, normSq_mul, normSq_ofReal, normSq_ofReal]
  subst hSt
  field_simp
  ring

/-- solid (T incident) → fluid: incident cosine `Ct` real, `Cf Cl` arbitrary complex -/
theorem energy_stf_core (Ct Sl St ρf ρs cf cl ct : ℝ) (Cf Cl N : ℂ)
    (hCf : Cf ≠ 0) (hρs : ρs ≠ 0) (hcl : cl ≠ 0)
    (hsnell : cl * St = ct * Sl)
    (hNdef : N = ct * ct / (cl * cl) * (2 * Sl * Cl) * (2 * St * Ct)
        + (1 - 2 * St ^ 2) * (1 - 2 * St ^ 2) + ρf * cf / (ρs * cl) * Cl / Cf)
    (hN : N ≠ 0) :
    Ct / (ρs * ct) * (1 - normSq
      ((ct * ct / (cl * cl) * (2 * Sl * Cl) * (2 * St * Ct) - (1 - 2 * St ^ 2) * (1 - 2 * St ^ 2)
          - ρf * cf / (ρs * cl) * Cl / Cf) / N))
    = Cl.re / (ρs * cl) * normSq
        (-(2 * (2 * St * Ct) * (1 - 2 * St ^ 2)) / N)
      + Cf.re / (ρf * cf) * normSq
        (2 * ρf * cf * Cl * (2 * St * Ct) / (N * ρs * cl * Cf)) := by
  set P : ℂ := ct * ct / (cl * cl) * (2 * Sl * Cl) * (2 * St * Ct) with hP
  set Q : ℂ := (1 - 2 * St ^ 2) * (1 - 2 * St ^ 2) + ρf * cf / (ρs * cl) * Cl / Cf with hQ
  have hNPQ : N = P + Q := by rw [hNdef, hP, hQ]; ring
  have hnum : (P - (1 - 2 * St ^ 2) * (1 - 2 * St ^ 2)
      - ρf * cf / (ρs * cl) * Cl / Cf : ℂ) = P - Q := by rw [hQ]; ring
  rw [hnum, hNPQ, one_sub_normSq_ratio P Q (hNPQ ▸ hN), normSq_div, normSq_div]
  have hN' : normSq (P + Q) ≠ 0 := by simpa [normSq_eq_zero] using (hNPQ ▸ hN)
  have hCf' : normSq Cf ≠ 0 := by simpa [normSq_eq_zero] using hCf
  have hSt : St = ct * Sl / cl := by field_simp; linarith
  have e1 : (P * (starRingEnd ℂ) Q).re =
      ct * ct / (cl * cl) * 4 * Sl * St * Ct * ((1 - 2 * St ^ 2) ^ 2 * Cl.re
        + ρf * cf / (ρs * cl) * normSq Cl * Cf.re / normSq Cf) := by
    rw [hP, hQ]
    obtain ⟨a, b⟩ := Cf
    obtain ⟨c, d⟩ := Cl
    simp only [normSq_apply] at hCf'
    simp only [normSq_apply, mul_re, mul_im, div_re, div_im, ofReal_re, ofReal_im, pow_two,
      conj_re, conj_im, add_re, add_im, sub_re, sub_im, one_re, one_im, re_ofNat, im_ofNat,
      mul_zero, zero_mul, sub_zero, add_zero, zero_div]
    field_simp
    ring
  have e2 : normSq (-(2 * (2 * (St:ℂ) * Ct) * (1 - 2 * St ^ 2))) =
      16 * St ^ 2 * Ct ^ 2 * (1 - 2 * St ^ 2) ^ 2 := by
    have : (-(2 * (2 * (St:ℂ) * Ct) * (1 - 2 * St ^ 2))) =
        ((-(2 * (2 * St * Ct) * (1 - 2 * St ^ 2)) : ℝ) : ℂ) := by push_cast; ring
    rw [this, normSq_ofReal]; ring
  have e3 : normSq (2 * (ρf:ℂ) * cf * Cl * (2 * St * Ct)) =
      16 * ρf ^ 2 * cf ^ 2 * St ^ 2 * Ct ^ 2 * normSq Cl := by
    have : (2 * (ρf:ℂ) * cf * Cl * (2 * St * Ct)) =
        ((2 * ρf * cf * (2 * St * Ct) : ℝ) : ℂ) * Cl := by push_cast; ring
    rw [this, normSq_mul, normSq_ofReal]; ring
  rw [e1, e2, e3, normSq_mul, normSq_mul, normSq_mul, normSq_ofReal, normSq_ofReal]
  subst hSt
  field_simp
  ring

end Arim.IfaceLemmas
