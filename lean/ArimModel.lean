import ArimModel.Wire
import ArimModel.MinPlus
import ArimModel.Fermat
import ArimModel.Chunk
import ArimModel.Frame
import ArimModel.Config
import ArimModel.Views
import ArimModel.RayCache
