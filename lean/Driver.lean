import ArimModel
open Arim Arim.Wire

def parseSet (s : String) : Option (Array (P3 Float)) := do
  let rows ← floatMat? s
  let pts ← rows.mapM (fun r => match r with
    | [x, y, z] => some ({ x := x, y := y, z := z } : P3 Float)
    | _ => none)
  pure pts.toArray

def splitPath (l : List String) (ids : List Nat) (vs : List Float) (isId : Bool) :
    Option (List Nat × List Float) :=
  match l with
  | [] => some (ids.reverse, vs.reverse)
  | t :: ts => if isId then do let n ← nat? t; splitPath ts (n :: ids) vs false
               else do let v ← float? t; splitPath ts ids (v :: vs) true

/-- float32 working precision: distances are computed in double by the numba kernel, stored
    in a float32 table, divided by the float32 velocity; the min-plus runs in float32. -/
def legTime32 (ps qs : Array (P3 Float)) (v : Float) (k j : Nat) : Float32 :=
  (dist3 Float.sqrt (ps.getD k ⟨0,0,0⟩) (qs.getD j ⟨0,0,0⟩)).toFloat32 / v.toFloat32

def toLegs32 (sets : List (Array (P3 Float))) (vels : List Float) :
    Option ((Nat → Nat → Float32) × List (Leg Float32) × Nat × Nat) :=
  match sets, vels with
  | s0 :: s1 :: rest, v0 :: vrest =>
    if rest.length ≠ vrest.length then none else
    let rec go (prev : Array (P3 Float)) (ss : List (Array (P3 Float))) (vs : List Float)
        (acc : List (Leg Float32)) : List (Leg Float32) × Nat :=
      match ss, vs with
      | s :: ss', v :: vs' => go s ss' vs' ({ m := prev.size, t := legTime32 prev s v } :: acc)
      | _, _ => (acc, prev.size)
    let (legsRev, lastSize) := go s1 rest vrest []
    some (legTime32 s0 s1 v0, legsRev, s0.size, lastSize)
  | _, _ => none

/-- `fermat <f64|f32> <set>|<set>|... <path> <path> ...` with `path = s0:v:s1:v:s2`.
    Answer per path: `times/idx;idx;...` row-major over (i,j). -/
def opFermat (args : List String) : Option String := do
  match args with
  | prec :: setsS :: pathsS =>
    let sets ← (setsS.splitOn "|").mapM parseSet
    let sets := sets.toArray
    let outs ← pathsS.mapM (fun ps => do
      let (ids, vs) ← splitPath (ps.splitOn ":") [] [] true
      let ss ← ids.mapM (fun i => sets[i]?)
      if prec == "f32" then
        let (first, legs, n, p) ← toLegs32 ss vs
        let cells := (List.range n).flatMap (fun i => (List.range p).map (fun j => solveR first legs i j))
        let cells ← cells.mapM id
        pure (showFloats (cells.map (·.1.toFloat)) ++ "/" ++ join (cells.map (fun c => showNats c.2)) ";")
      else
        let fp : FPath Float := { sets := ss, vels := vs }
        let (first, legs, n, p) ← fp.toLegs Float.sqrt { x := 0, y := 0, z := 0 }
        let cells := (List.range n).flatMap (fun i => (List.range p).map (fun j => solveR first legs i j))
        let cells ← cells.mapM id
        pure (showFloats (cells.map (·.1)) ++ "/" ++ join (cells.map (fun c => showNats c.2)) ";"))
    pure (join outs " ")
  | _ => none

/-- `minplus <n> <m> <p> <t1 rows> <t2 rows>`: the kernel alone; answer `times/indices` -/
def opMinPlus (args : List String) : Option String := do
  match args with
  | [nS, mS, pS, aS, bS] =>
    let n ← nat? nS; let m ← nat? mS; let p ← nat? pS
    let a ← floatMat? aS; let b ← floatMat? bS
    let a := (a.map List.toArray).toArray; let b := (b.map List.toArray).toArray
    if a.size ≠ n || b.size ≠ m then none else
    let t1 := fun i k => (a.getD i #[]).getD k 0
    let t2 := fun k j => (b.getD k #[]).getD j 0
    let cells := (List.range n).flatMap (fun i => (List.range p).map (fun j => minPlus m t1 t2 i j))
    let cells ← cells.mapM id
    pure (showFloats (cells.map (·.1)) ++ "/" ++ showNats (cells.map (·.2)))
  | _ => none

def showPair (p : Nat × Nat) : String := s!"{p.1}:{p.2}"
def showTile (t : Tile) : String := s!"{t.r.1}:{t.r.2}x{t.c.1}:{t.c.2}"

/-- `chunks L b` / `mtiles n m p block` / `dtiles n1 n2 block` -/
def opChunks (args : List String) : Option String := do
  match args with
  | [l, b] => let l ← nat? l; let b ← nat? b
              if b = 0 then none else pure (join ((chunks l b).map showPair))
  | _ => none
def opMTiles (args : List String) : Option String := do
  match args with
  | [n, m, p, b] => let n ← nat? n; let m ← nat? m; let p ← nat? p; let b ← nat? b
                    if b = 0 || m = 0 then none else pure (join ((minTimesTiles n m p b).map showTile))
  | _ => none
def opDTiles (args : List String) : Option String := do
  match args with
  | [n, m, b] => let n ← nat? n; let m ← nat? m; let b ← nat? b
                 if b = 0 then none else pure (join ((distTiles n m b).map showTile))
  | _ => none

/-! ### C15 frames -/
section FrameOps
open Arim.Frame

def showPairs (l : List Pair) : String := join (l.map (fun p => s!"{p.1}:{p.2}"))

def optInt? (s : String) : Option (Option Int) := if s == "n" then some none else (int? s).map some

def parseIdx (s : String) : Option Idx :=
  match s.splitOn "_" with
  | ["s", a, b, c] => do let a ← optInt? a; let b ← optInt? b; let c ← int? c; pure (Idx.slice a b c)
  | ["m", bits] => some (Idx.mask (bits.toList.map (· == '1')))
  | ["i", l] => (intList? l).map Idx.ints
  | _ => none

def parseFrame (s : String) : Option (List (TT Nat)) :=
  (splitNE s ",").mapM (fun t => match t.splitOn ":" with
    | [a, b, c] => do let a ← nat? a; let b ← nat? b; let c ← nat? c; pure { tx := a, rx := b, data := c }
    | _ => none)

def showCapture : Option Capture → String
  | none => "err" | some .fmc => "fmc" | some .hmc => "hmc" | some .unsupported => "unsupported"

def showState (f : List (TT Nat)) (probe : List Nat) : String :=
  let ps := pairsOf f
  join (f.map (fun t => s!"{t.tx}:{t.rx}:{t.data}")) ++ "|" ++ showNats probe ++ "|" ++
    showCapture (inferCapture ps) ++ "|" ++ showNats (defaultWeights ps) ++ "|" ++ showBool (isComplete f)

def frameStep (st : List (TT Nat) × List Nat) (op : String) : Option (Option (List (TT Nat) × List Nat)) :=
  match op.splitOn "=" with
  | ["expand"] => some (some (expand st.1, st.2))
  | ["filt"] => some (some st)
  | ["sub", ix] => (parseIdx ix).map (fun ix => (subframe st.1 ix).map (fun f => (f, st.2)))
  | ["subel", ix, mk] => (parseIdx ix).map (fun ix => subframeFromElements st.1 st.2 ix (mk == "1"))
  | _ => none

/-- `frame <numel> <tx:rx:data,...> <op> ...` → states after each op, `;`-separated -/
def opFrame (args : List String) : Option String := do
  match args with
  | n :: fr :: ops =>
    let n ← nat? n
    let f ← parseFrame fr
    let rec go (st : List (TT Nat) × List Nat) (ops : List String) (acc : List String) : Option (List String) :=
      match ops with
      | [] => some acc.reverse
      | o :: os => match frameStep st o with
        | none => none
        | some none => some (("E" :: acc).reverse)
        | some (some st') => go st' os (showState st'.1 st'.2 :: acc)
    let outs ← go (f, List.range n) ops [showState f (List.range n)]
    pure (join outs ";")
  | _ => none

def opEnum (args : List String) : Option String := do
  match args with
  | [k, n] => let n ← nat? n
              if k == "fmc" then pure (showPairs (fmc n)) else if k == "hmc" then pure (showPairs (hmc n)) else none
  | _ => none
end FrameOps

/-! ### C20 configuration trees: leaf = `'text`, node = `(k=v;k=v)` -/
section ConfigOps
open Arim.Config

partial def parseCfg (cs : List Char) : Option (Cfg × List Char) :=
  match cs with
  | '\'' :: rest =>
    let txt := rest.takeWhile (fun c => c != ';' && c != ')')
    some (Cfg.leaf (String.ofList txt), rest.dropWhile (fun c => c != ';' && c != ')'))
  | '(' :: rest =>
    let rec items (cs : List Char) (acc : List (String × Cfg)) : Option (List (String × Cfg) × List Char) :=
      match cs with
      | ')' :: r => some (acc.reverse, r)
      | _ =>
        let k := cs.takeWhile (· != '=')
        match cs.dropWhile (· != '=') with
        | '=' :: r =>
          match parseCfg r with
          | some (v, r') =>
            match r' with
            | ';' :: r'' => items r'' ((String.ofList k, v) :: acc)
            | ')' :: r'' => some (((String.ofList k, v) :: acc).reverse, r'')
            | _ => none
          | none => none
        | _ => none
    (items rest []).map (fun (kv, r) => (Cfg.node kv, r))
  | _ => none

def cfg? (s : String) : Option Cfg :=
  match parseCfg s.toList with
  | some (c, []) => some c
  | _ => none

partial def showCfg : Cfg → String
  | .leaf s => "'" ++ s
  | .node kv => "(" ++ join (kv.map (fun (k, v) => k ++ "=" ++ showCfg v)) ";" ++ ")"

def opMerge (args : List String) : Option String := do
  match args with
  | [a, b] => let a ← cfg? a; let b ← cfg? b; pure (showCfg (merge a b))
  | _ => none

/-- `loadconf <base> name cfg name cfg ...` (listing order) → documented result, listing-order result -/
def opLoadConf (args : List String) : Option String := do
  match args with
  | base :: rest =>
    let base ← cfg? base
    let rec pairs (l : List String) (acc : List (String × Cfg)) : Option (List (String × Cfg)) :=
      match l with
      | [] => some acc.reverse
      | n :: c :: r => do let c ← cfg? c; pairs r ((n, c) :: acc)
      | _ => none
    let listing ← pairs rest []
    pure (showCfg (loadConf base listing) ++ " " ++ showCfg (loadConfListingOrder base listing))
  | _ => none
end ConfigOps

/-! ### C18 views -/
section ViewOps
open Arim.Views

def showWord (w : Word) : String := String.ofList w
def showVName (v : VName) : String := showWord v.1 ++ "-" ++ showWord v.2
def showOB : Option Bool → String | none => "N" | some true => "T" | some false => "F"
def showIface (i : Iface) : String :=
  let pts := match i.pts with | .probe => "probe" | .frontwall => "frontwall" | .backwall => "backwall" | .grid => "grid"
  let k := match i.kind with | none => "N" | some .fluidSolid => "fluid_solid" | some .solidFluid => "solid_fluid"
  let tr := match i.tr with | none => "N" | some .transmission => "transmission" | some .reflection => "reflection"
  let ag := match i.against with | none => "N" | some .couplant => "couplant" | some .block => "block" | some .under => "under"
  join [pts, k, tr, ag, showOB i.inc, showOB i.out] ":"
def showMat : Mat → String | .couplant => "couplant" | .block => "block" | .under => "under"
def showPath (p : PathSpec) : String :=
  join [showWord p.name, showWord p.modes, join (p.mats.map showMat), join (p.ifaces.map showIface) ";"] "|"

def setup? (s : String) : Option Setup :=
  match s.toList with
  | ['i'] => some .immersion
  | ['c', a, b, c] => some (.contact (a == '1') (b == '1') (c == '1'))
  | _ => none

def opViewnames (args : List String) : Option String := do
  match args with
  | [names, u] =>
    let ws := (splitNE names ",").map String.toList
    pure (join ((makeViewnames ws (u == "1")).map showVName))
  | _ => none

def opRecip (args : List String) : Option String := do
  match args with
  | [v] => let v ← splitName v; pure (showVName (recip v))
  | _ => none

/-- `pathspec <setup> <word>` → spec | reversed | reversed twice -/
def opPathSpec (args : List String) : Option String := do
  match args with
  | [su, w] =>
    let su ← setup? su
    match expectedPath su w.toList with
    | none => pure "none"
    | some p =>
      let r := p.reverse
      let rr := r.bind PathSpec.reverse
      let sh := fun (o : Option PathSpec) => match o with | none => "err" | some q => showPath q
      pure (showPath p ++ " " ++ sh r ++ " " ++ sh rr)
  | _ => none
end ViewOps

/-! ### C14 ray-geometry cache -/
section CacheOps
open Arim.RayCache

def methNames : List (String × Meth) := [
  ("leg_points", .legPoints), ("orientations_of_legs_points", .orient), ("inc_leg_size", .incLegSize),
  ("inc_leg_cartesian", .incCart), ("inc_leg_radius", .incRadius), ("inc_leg_polar", .incPolar),
  ("inc_leg_azimuth", .incAzimuth), ("inc_angle", .incAngle), ("signed_inc_angle", .signedInc),
  ("conventional_inc_angle", .convInc), ("out_leg_cartesian", .outCart), ("out_leg_radius", .outRadius),
  ("out_leg_polar", .outPolar), ("out_leg_azimuth", .outAzimuth), ("out_angle", .outAngle),
  ("signed_out_angle", .signedOut), ("conventional_out_angle", .convOut)]
def meth? (s : String) : Option Meth := (methNames.find? (·.1 == s)).map (·.2)
def methName (m : Meth) : String := ((methNames.find? (·.2 == m)).map (·.1)).getD "?"

def flag? (c : Char) : Option (Option Bool) :=
  if c == 'T' then some (some true) else if c == 'F' then some (some false) else if c == 'N' then some none else none

def parseQ (s : String) : Option (Meth × Int × Bool) :=
  match s.splitOn ":" with
  | [m, r, f] => do let m ← meth? m; let r ← int? r; pure (m, r, f == "1")
  | _ => none

def parseOp (s : String) : Option Op :=
  match s.splitOn "=" with
  | ["q", q] => (parseQ q).map (fun (m, r, f) => Op.query m r f)
  | ["ci"] => some .clearIntermediate
  | ["ca"] => some .clearAll
  | ["pc", qs] => ((splitNE qs "+").mapM parseQ).map Op.precompute
  | ["pc"] => some (.precompute [])
  | ["bs"] => some .beamspread
  | ["rbs"] => some .revBeamspread
  | ["tr"] => some .transRefl
  | ["rtr"] => some .revTransRefl
  | _ => none

def showRes : Res → String
  | .ok .none => "none" | .ok .val => "val" | .error .index => "eIndex" | .error .value => "eValue"

def keyStr (k : Key) : String := methName k.1 ++ ":" ++ toString k.2
def sortStrs (l : List String) : List String := (l.toArray.qsort (· < ·)).toList

/-- `rgcache <n> <incflags> <outflags> <raw 0|1> op ...` → per op `answers|cache keys|final keys` -/
def opRgCache (args : List String) : Option String := do
  match args with
  | n :: inc :: out :: raw :: ops =>
    let n ← nat? n
    let incF ← inc.toList.mapM flag?
    let outF ← out.toList.mapM flag?
    let g : Geo := { n := n, incSide := fun i => (incF[i]?).join, outSide := fun i => (outF[i]?).join,
                     rawZeroTest := raw == "1" }
    let ops ← ops.mapM parseOp
    let (outs, _) := ops.foldl (fun (acc : List String × St) op =>
      let (rs, s') := step g acc.2 op
      (acc.1 ++ [join (rs.map showRes) "+" ++ "|" ++ join (sortStrs (s'.cache.map (fun e => keyStr e.1))) ++ "|" ++
        join (sortStrs (s'.finals.map keyStr))], s')) ([], {})
    pure (join outs ";")
  | _ => none
end CacheOps

/-! ### C02 delay-and-sum -/
section DasOps
open Arim.Das Arim.Num

def interp? (s : String) : Option Interp :=
  match s.toList with
  | ['n'] => some .nearest
  | ['l'] => some .linear
  | 'z' :: r => (String.ofList r).toNat?.map Interp.lanczos
  | _ => none

def mat2 {γ : Type} (m : List (List γ)) (dflt : γ) : Nat → Nat → γ :=
  let a := (m.map List.toArray).toArray
  fun i j => (a.getD i #[]).getD j dflt

def zip2 {γ : Type} (re im : List (List γ)) : List (List (γ × γ)) :=
  (re.zip im).map (fun (r, i) => r.zip i)

/-- generic body, instantiated at Rat and Float -/
def dasRun {α : Type} [Add α] [Sub α] [Mul α] [Div α] [LT α] [DecidableLT α]
    (ops : Ops α) (d : Data α (α × α)) (zero : α) (num? : String → Option α) (mat? : String → Option (List (List α)))
    (lst? : String → Option (List α)) (shw : α → String) (args : List String) : Option String := do
  match args with
  | [amp, it, fre, fim, t0, dt, tx, rx, gre, gim, ltx, lrx, atre, atim, arre, arim, w] =>
    let it ← interp? it
    let fre ← num? fre; let fim ← num? fim; let t0 ← num? t0; let dt ← num? dt
    let tx ← natList? tx; let rx ← natList? rx
    let gre ← mat? gre; let gim ← mat? gim
    let ltx ← mat? ltx; let lrx ← mat? lrx
    let g0 := mat2 (zip2 gre gim) (zero, zero)
    let wOpt : Option (Nat → α) ← (if w == "-" then some none else (lst? w).map (fun l => some (fun k => l.toArray.getD k zero)))
    let n := (gre.head?.map List.length).getD 0
    let p : Problem α (α × α) := {
      N := tx.length
      n := n
      tx := (fun k => tx.toArray.getD k 0)
      rx := (fun k => rx.toArray.getD k 0)
      g := weigh d wOpt g0
      ltTx := mat2 ltx zero
      ltRx := mat2 lrx zero
      t0 := t0
      dt := dt }
    let npts := ltx.length
    let res ← (if amp == "1" then do
        let atre ← mat? atre; let atim ← mat? atim; let arre ← mat? arre; let arim ← mat? arim
        let aT := mat2 (zip2 atre atim) (zero, zero)
        let aR := mat2 (zip2 arre arim) (zero, zero)
        pure ((List.range npts).map (fun pt => dasAmp ops d p aT aR it (fre, fim) pt))
      else pure ((List.range npts).map (fun pt => dasNoAmp ops d p it (fre, fim) pt)))
    pure (join (res.map (fun v => shw v.1 ++ ":" ++ shw v.2)))
  | _ => none

def opDas (args : List String) : Option String :=
  match args with
  | "q" :: rest => dasRun ratOps cratData (0 : Rat) rat? ratMat? ratList? showRat rest
  | "f" :: rest => dasRun floatOps cfloatData (0 : Float) float? floatMat? floatList? showFloat rest
  | _ => none

def opDispatch (args : List String) : Option String := do
  match args with
  | [amp, agg, it, c128] =>
    let it ← interp? it
    let agg ← (match agg with | "mean" => some Agg.mean | "median" => some Agg.median | "huber" => some Agg.huber | _ => none)
    pure (match dispatch (amp == "1") agg it (c128 == "1") with
      | .ok k => (toString (repr k)).replace "Arim.Das.Kernel." ""
      | .error e => "err:" ++ (toString (repr e)).replace "Arim.Das.DErr." "")
  | _ => none
end DasOps

/-! ### C12 TFM pipelines (exact rationals) -/
section TfmOps
open Arim.Das Arim.Num Arim.Tfm Arim.Frame

def pairs? (s : String) : Option (List Pair) :=
  (splitNE s ",").mapM (fun t => match t.splitOn ":" with
    | [a, b] => do let a ← nat? a; let b ← nat? b; pure (a, b)
    | _ => none)

/-- data indexed by element pair, from rows aligned with the pair list -/
def pairData (pairs : List Pair) (rows : List (List (Rat × Rat))) : Nat → Nat → Nat → CRat :=
  let tbl := (pairs.zip rows).toArray
  fun tx rx i => match tbl.find? (fun e => e.1.1 == tx && e.1.2 == rx) with
    | some e => e.2.toArray.getD i (0, 0)
    | none => (0, 0)

/-- `ctfm <it> <fre> <fim> <t0> <dt> <pairs> <Gre> <Gim> <lookup[point][element]>` -/
def opCtfm (args : List String) : Option String := do
  match args with
  | [it, fre, fim, t0, dt, ps, gre, gim, lk] =>
    let it ← interp? it; let fre ← rat? fre; let fim ← rat? fim; let t0 ← rat? t0; let dt ← rat? dt
    let ps ← pairs? ps; let gre ← ratMat? gre; let gim ← ratMat? gim; let lk ← ratMat? lk
    let n := (gre.head?.map List.length).getD 0
    let G := pairData ps (zip2 gre gim)
    let res := (List.range lk.length).map (fun pt => contactTfm ratOps cratData ps G n (mat2 lk 0) t0 dt it (fre, fim) pt)
    pure (join (res.map (fun v => showRat v.1 ++ ":" ++ showRat v.2)))
  | _ => none

/-- `vtfm <it> <fre> <fim> <t0> <dt> <pairs> <Gre> <Gim> <timesTx[element][point]> <timesRx[element][point]>` -/
def opVtfm (args : List String) : Option String := do
  match args with
  | [it, fre, fim, t0, dt, ps, gre, gim, ttx, trx] =>
    let it ← interp? it; let fre ← rat? fre; let fim ← rat? fim; let t0 ← rat? t0; let dt ← rat? dt
    let ps ← pairs? ps; let gre ← ratMat? gre; let gim ← ratMat? gim
    let ttx ← ratMat? ttx; let trx ← ratMat? trx
    let n := (gre.head?.map List.length).getD 0
    let G := pairData ps (zip2 gre gim)
    let npts := (ttx.head?.map List.length).getD 0
    let res := (List.range npts).map (fun pt => tfmForView ratOps cratData ps G n (mat2 ttx 0) (mat2 trx 0) t0 dt it (fre, fim) pt)
    pure (join (res.map (fun v => showRat v.1 ++ ":" ++ showRat v.2)))
  | _ => none
end TfmOps

/-! ### C17 geometry (Float) -/
section GeoOps
open Arim.Geo Arim.Num

def v3? (s : String) : Option (P3 Float) := do
  match ← floatList? s with
  | [x, y, z] => pure ⟨x, y, z⟩
  | _ => none
def m3? (s : String) : Option (M3 Float) := do
  match ← floatList? s with
  | [a, b, c, d, e, f, g, h, i] => pure ⟨⟨a, b, c⟩, ⟨d, e, f⟩, ⟨g, h, i⟩⟩
  | _ => none
def showV3 (v : P3 Float) : String := showFloats [v.x, v.y, v.z]
def showM3 (m : M3 Float) : String := showFloats [m.r0.x, m.r0.y, m.r0.z, m.r1.x, m.r1.y, m.r1.z, m.r2.x, m.r2.y, m.r2.z]
def optF? (s : String) : Option (Option Float) := if s == "-" then some none else (float? s).map some
def natToF (n : Nat) : Float := n.toFloat
def floatCeil (x : Float) : Int := -(floatFloor (-x))

def opGeo (args : List String) : Option String := do
  match args with
  | ["togcs", c, b, o] => let c ← v3? c; let b ← m3? b; let o ← v3? o; pure (showV3 (toGcs c b o))
  | ["fromgcs", c, b, o] => let c ← v3? c; let b ← m3? b; let o ← v3? o; pure (showV3 (fromGcs c b o))
  | ["rotate", c, r, o] =>
    let c ← v3? c; let r ← m3? r
    let o ← (if o == "-" then some none else (v3? o).map some)
    pure (showV3 (rotate c r o))
  | ["csfrom", o, i, j, p] => let o ← v3? o; let i ← v3? i; let j ← v3? j; let p ← v3? p
                              pure (showV3 ((⟨o, i, j⟩ : CS Float).fromGcs p))
  | ["csto", o, i, j, p] => let o ← v3? o; let i ← v3? i; let j ← v3? j; let p ← v3? p
                            pure (showV3 ((⟨o, i, j⟩ : CS Float).toGcs p))
  | ["csrot", o, i, j, r, c] =>
    let o ← v3? o; let i ← v3? i; let j ← v3? j; let r ← m3? r
    let c ← (if c == "-" then some none else (v3? c).map some)
    let cs := (⟨o, i, j⟩ : CS Float).rotate r c
    pure (showV3 cs.origin ++ "|" ++ showV3 cs.i ++ "|" ++ showV3 cs.j)
  | ["rot", ax, a] =>
    let a ← float? a
    let (c, sn) := (Float.cos a, Float.sin a)
    let m ← (match ax with | "x" => some (rotX 0 1 c sn) | "y" => some (rotY 0 1 c sn) | "z" => some (rotZ 0 1 c sn) | _ => none)
    pure (showM3 m)
  | ["ypr", y, p, r] =>
    let y ← float? y; let p ← float? p; let r ← float? r
    pure (showM3 (rotYpr 0 1 (Float.cos y) (Float.sin y) (Float.cos p) (Float.sin p) (Float.cos r) (Float.sin r)))
  | ["iso3d", a, i, j, b, u, v] =>
    let a ← v3? a; let i ← v3? i; let j ← v3? j; let b ← v3? b; let u ← v3? u; let v ← v3? v
    let (m, pp) := isometry3d a i j b u v
    pure (showM3 m ++ "|" ++ showV3 pp)
  | ["grid", xmin, xmax, ymin, ymax, zmin, zmax, dx, dy, dz] =>
    let xmin ← float? xmin; let xmax ← float? xmax; let ymin ← float? ymin; let ymax ← float? ymax
    let zmin ← float? zmin; let zmax ← float? zmax; let dx ← float? dx; let dy ← float? dy; let dz ← float? dz
    let ax := fun lo hi d => gridAxis natToF floatRound Float.abs lo hi d
    pure (showFloats (ax xmin xmax dx) ++ "|" ++ showFloats (ax ymin ymax dy) ++ "|" ++ showFloats (ax zmin zmax dz))
  | ["centred", size, pixel] =>
    let size ← float? size; let pixel ← float? pixel
    pure (toString (centredNum floatCeil 1.0 size pixel))
  | ["order", nx, ny, nz] =>
    let nx ← nat? nx; let ny ← nat? ny; let nz ← nat? nz
    let pts := gridPoints ((List.range nx).map natToF) ((List.range ny).map natToF) ((List.range nz).map natToF)
    pure (join (pts.map (fun p => s!"{p.x.toUInt64.toNat}:{p.y.toUInt64.toNat}:{p.z.toUInt64.toNat}")))
  | ["rectbox", p, a, b, c, d, e, f] =>
    let p ← v3? p; let a ← optF? a; let b ← optF? b; let c ← optF? c; let d ← optF? d; let e ← optF? e; let f ← optF? f
    pure (showBool (inRectbox p a b c d e f))
  | _ => none
end GeoOps

/-! ### C16 probe motions (Float) -/
section ProbeOps
open Arim.Geo Arim.Probe Arim.Num

def parseProbeOp (s : String) : Option (Op Float) :=
  match s.splitOn "=" with
  | ["t", v] => (v3? v).map Op.translate
  | ["r", m, c] => do
      let m ← m3? m
      let c ← (if c == "-" then some none else (v3? c).map some)
      pure (Op.rotate m c)
  | ["flip"] => some .flip
  | ["toO"] => some .toO
  | ["reset"] => some .reset
  | ["ref", r] => match r with
      | "first" => some (.setRef .first) | "last" => some (.setRef .last) | "mean" => some (.setRef .mean)
      | k => (int? k).map (fun k => .setRef (.idx k))
  | _ => none

def showProbe (s : State Float) : String :=
  join (s.locs.map showV3) ";" ++ "|" ++ join (s.normals.map showV3) ";" ++ "|" ++
    showV3 s.pcs.origin ++ ";" ++ showV3 s.pcs.i ++ ";" ++ showV3 s.pcs.j ++ ";" ++ showV3 s.pcs.k ++ "|" ++
    join ((locsPcs s).map showV3) ";" ++ "|" ++ join ((normalsPcs 0 s).map showV3) ";"

/-- `probe <numx> <pitchx> <numy> <pitchy> <normal> op ...` → state after each op -/
def opProbe (args : List String) : Option String := do
  match args with
  | nx :: px :: ny :: py :: nrm :: ops =>
    let nx ← nat? nx; let ny ← nat? ny; let px ← float? px; let py ← float? py; let nrm ← v3? nrm
    let locs := matrixProbe 0 natToF nx ny px py
    let s0 : State Float := { locs := locs, normals := locs.map (fun _ => nrm),
                              pcs := ⟨⟨0, 0, 0⟩, ⟨1, 0, 0⟩, ⟨0, 1, 0⟩⟩ }
    let ops ← ops.mapM parseProbeOp
    let cpi := Float.cos pi
    let spi := Float.sin pi
    let rec go (s : State Float) (ops : List (Op Float)) (acc : List String) : List String :=
      match ops with
      | [] => acc.reverse
      | o :: os => match step 0 1 natToF cpi spi s o with
        | none => ("E" :: acc).reverse
        | some s' => go s' os (showProbe s' :: acc)
    pure (join (go s0 ops [showProbe s0]) " ")
  | _ => none
end ProbeOps

/-! ### C05 ray geometry (Float) -/
section RayGeomOps
open Arim.Geo Arim.RayGeom Arim.Num

def floatTrig : Trig Float := { sqrt := Float.sqrt, acos := Float.acos, atan2 := Float.atan2, pi := pi, two := 2.0 }

def showLeg : Option (RayGeom.Leg Float) → String
  | none => "N"
  | some l => showFloats [l.size, l.cart.x, l.cart.y, l.cart.z, l.radius, l.polar, l.azimuth, l.signed] ++ "," ++
      (match l.conventional with | none => "E" | some c => showFloat c)

/-- `raygeom <points ;> <frames ;> <incflags> <outflags> <vels>` → `inc/out` per interface, `|` travel time, `|` same for the reversed ray -/
def opRayGeom (args : List String) : Option String := do
  match args with
  | [pts, frs, inc, out, vels] =>
    let pts ← floatMat? pts; let frs ← floatMat? frs
    let incF ← inc.toList.mapM flag?; let outF ← out.toList.mapM flag?
    let vels ← floatList? vels
    let nodes ← (List.range pts.length).mapM (fun k => do
      let p ← pts[k]?; let f ← frs[k]?
      match p, f with
      | [x, y, z], [a, b, c, d, e, f', g, h, i] =>
        pure ({ p := ⟨x, y, z⟩, frame := ⟨⟨a, b, c⟩, ⟨d, e, f'⟩, ⟨g, h, i⟩⟩, incSide := (incF[k]?).join, outSide := (outF[k]?).join } : Node Float)
      | _, _ => none)
    let sh := fun (ray : List (Node Float)) =>
      join ((List.range ray.length).map (fun k => showLeg (incLeg floatTrig ray k) ++ "/" ++ showLeg (outLeg floatTrig ray k))) ";"
    let tt := match travelTime floatTrig nodes vels with | some t => showFloat t | none => "N"
    pure (sh nodes ++ "|" ++ tt ++ "|" ++ sh (reverseRay nodes))
  | _ => none
end RayGeomOps

/-! ### C04 interface coefficients (complex and real doubles) -/
section IfaceOps
open Arim.Iface

def cfTrig : CTrig CF := { sin := CF.sin, cos := CF.cos, asin := CF.asin, ofNat := fun n => CF.ofReal n.toFloat }
def rfTrig : CTrig Float := { sin := Float.sin, cos := Float.cos, asin := Float.asin, ofNat := fun n => n.toFloat }
def showCF (z : CF) : String := showFloat z.re ++ "," ++ showFloat z.im
def mode? (s : String) : Option Mode := if s == "L" then some .L else if s == "T" then some .T else none
def kind? (s : String) : Option Kind := if s == "fluid_solid" then some .fluidSolid else if s == "solid_fluid" then some .solidFluid else none

def ifaceRun {K : Type} [Add K] [Sub K] [Mul K] [Div K] [Neg K] (t : CTrig K) (lift : Float → K)
    (ang? : String → String → Option K) (shw : K → String) (args : List String) : Option String := do
  match args with
  | fn :: rhoF :: rhoS :: cF :: cL :: cT :: are :: aim :: rest =>
    let rhoF ← float? rhoF; let rhoS ← float? rhoS; let cF ← float? cF; let cL ← float? cL; let cT ← float? cT
    let a ← ang? are aim
    let m : Media K := { rhoF := lift rhoF, rhoS := lift rhoS, cF := lift cF, cL := lift cL, cT := lift cT }
    let sh3 := fun (r : K × K × K) => shw r.1 ++ ";" ++ shw r.2.1 ++ ";" ++ shw r.2.2
    match fn, rest with
    | "fs", [] =>
      let aL := snell t a m.cF m.cL; let aT := snell t a m.cF m.cT
      pure (sh3 (fluidSolid t m a aL aT) ++ ";" ++ shw aL ++ ";" ++ shw aT)
    | "slf", [] =>
      let aF := snell t a m.cL m.cF; let aT := snell t a m.cL m.cT
      pure (sh3 (solidLFluid t m aF a aT) ++ ";" ++ shw aF ++ ";" ++ shw aT)
    | "stf", [] =>
      let aF := snell t a m.cT m.cF; let aL := snell t a m.cT m.cL
      pure (sh3 (solidTFluid t m aF aL a) ++ ";" ++ shw aF ++ ";" ++ shw aL)
    | "trans", [k, mi, mo, disp] =>
      let k ← kind? k; let mi ← mode? mi; let mo ← mode? mo
      pure (match transmissionAt t m k mi mo a (disp == "1") with | .ok v => shw v | .error _ => "E")
    | "refl", [k, mi, mo, disp] =>
      let k ← kind? k; let mi ← mode? mi; let mo ← mode? mo
      pure (match reflectionAt t m k mi mo a (disp == "1") with | .ok v => shw v | .error _ => "E")
    | _, _ => none
  | _ => none

def opIface (args : List String) : Option String :=
  match args with
  | "c" :: rest => ifaceRun cfTrig CF.ofReal (fun re im => do let re ← float? re; let im ← float? im; pure ⟨re, im⟩) showCF rest
  | "r" :: rest => ifaceRun rfTrig id (fun re _ => float? re) showFloat rest
  | _ => none
end IfaceOps

/-! ### C06/C07/C08 path terms (one ray) -/
section WeightOps
open Arim.Iface Arim.Weights

def rTrig : RTrig Float := { sin := Float.sin, cos := Float.cos, sqrt := Float.sqrt, exp := Float.exp, one := 1.0, zero := 0.0 }

def spec? (s : String) (theta vIn vOut : Float) : Option (IfaceSpec CF) :=
  match s.splitOn ":" with
  | [tr, k, mi, mo] => do
    let k ← kind? k; let mi ← mode? mi; let mo ← mode? mo
    pure { transmission := tr == "t", kind := k, modeIn := mi, modeOut := mo,
           theta := CF.ofReal theta, vIn := CF.ofReal vIn, vOut := CF.ofReal vOut }
  | _ => none

def showEC : Except IErr (Option CF) → String
  | .error _ => "E" | .ok none => "N" | .ok (some z) => showCF z

/-- `weights <legs> <vels> <thetas> <specs ;> <alphas> <rhoF> <rhoS> <cF> <cL> <cT>` -/
def opWeights (args : List String) : Option String := do
  match args with
  | [legs, vels, ths, specs, alphas, rhoF, rhoS, cF, cL, cT] =>
    let legs ← floatList? legs; let vels ← floatList? vels; let ths ← floatList? ths; let alphas ← floatList? alphas
    let rhoF ← float? rhoF; let rhoS ← float? rhoS; let cF ← float? cF; let cL ← float? cL; let cT ← float? cT
    let m : Media CF := { rhoF := CF.ofReal rhoF, rhoS := CF.ofReal rhoS, cF := CF.ofReal cF, cL := CF.ofReal cL, cT := CF.ofReal cT }
    let sp := splitNE specs ";"
    let specs ← (List.range sp.length).mapM (fun k => do
      let s ← sp[k]?; let th ← ths[k]?; let vi ← vels[k]?; let vo ← vels[k + 1]?
      spec? s th vi vo)
    pure (join [showFloat (beamspread rTrig legs vels ths), showFloat (revBeamspread rTrig legs vels ths),
      showEC (transRefl cfTrig m false specs), showEC (transRefl cfTrig m true specs),
      showEC (revTransRefl cfTrig m false specs), showEC (revTransRefl cfTrig m true specs),
      showFloat (attenuation rTrig alphas legs)] "|")
  | _ => none
end WeightOps

/-! ### C19 registration (Float) -/
section RegOps
open Arim.Reg

/-- `register <elemX> <dead bits> <tx:rx:dist,...>` → `z0|sin|x:z,...` -/
def opRegister (args : List String) : Option String := do
  match args with
  | [xs, dead, obs] =>
    let xs ← floatList? xs
    let deadL := dead.toList.map (· == '1')
    let obs ← (splitNE obs ",").mapM (fun t => match t.splitOn ":" with
      | [a, b, d] => do let a ← nat? a; let b ← nat? b; let d ← float? d; pure ({ tx := a, rx := b, dist := d } : Obs Float)
      | _ => none)
    match register 0.0 natToF (fun p => Float.cos (Float.asin p)) (fun e => xs.toArray.getD e 0) xs.length (fun e => deadL.toArray.getD e false) obs with
    | none => pure "E"
    | some (z0, s1, pts) => pure (showFloat z0 ++ "|" ++ showFloat s1 ++ "|" ++ join (pts.map (fun p => showFloat p.1 ++ ":" ++ showFloat p.2)))
  | _ => none

/-- `detect <samples> <trace> <tmin|-> <tmax|->` → time or `N` -/
def opDetect (args : List String) : Option String := do
  match args with
  | [smp, tr, tmin, tmax] =>
    let smp ← floatList? smp; let tr ← floatList? tr
    let tmin ← optF? tmin; let tmax ← optF? tmax
    pure (match detectSurface Float.abs smp tr tmin tmax with | none => "N" | some t => showFloat t)
  | _ => none
end RegOps

/-! ### C10 scattering matrices (exact rationals) -/
section ScatMatOps
open Arim.ScatMat

def ratF : FOps Rat := { floor := Rat.floor, ofInt := fun z => (z : Rat) }

/-- `scatinterp <n> <pi> <M re rows> <M im rows> <inc list> <out list>` → re:im per query -/
def opScatInterp (args : List String) : Option String := do
  match args with
  | [n, pi, mre, mim, incs, outs] =>
    let n ← nat? n; let pi ← rat? pi
    let mre ← ratMat? mre; let mim ← ratMat? mim
    let incs ← ratList? incs; let outs ← ratList? outs
    let fre := mat2 mre 0; let fim := mat2 mim 0
    let res := (incs.zip outs).map (fun (a, b) => (interp ratF pi n fre a b, interp ratF pi n fim a b))
    pure (join (res.map (fun v => showRat v.1 ++ ":" ++ showRat v.2)))
  | _ => none

/-- `scatangles <n> <pi>` → the angle grid -/
def opScatAngles (args : List String) : Option String := do
  match args with
  | [n, pi] => let n ← nat? n; let pi ← rat? pi
               pure (showRats ((List.range n).map (angle ratF pi n)))
  | _ => none

/-- `freqinterp <freqs> <vals> <f>` -/
def opFreqInterp (args : List String) : Option String := do
  match args with
  | [fs, vs, f] => let fs ← ratList? fs; let vs ← ratList? vs; let f ← rat? f
                   (freqInterp fs vs f).map showRat
  | _ => none

/-- `rotshift <n> <M rows> <k>` → shifted matrix rows -/
def opRotShift (args : List String) : Option String := do
  match args with
  | [n, m, k] =>
    let n ← nat? n; let m ← ratMat? m; let k ← int? k
    let r := rotateShift n (mat2 m 0) k
    pure (join ((List.range n).map (fun j => showRats ((List.range n).map (fun i => r j i)))) ";")
  | _ => none
end ScatMatOps

/-! ### C09 scattering functions (complex doubles) -/
section ScatFnOps
open Arim.ScatFn

def sTrig : STrig CF := { sin := CF.sin, cos := CF.cos, ofNat := fun n => CF.ofReal n.toFloat, pi := CF.ofReal Arim.Num.pi,
                          sqrtI := ⟨Float.sqrt 0.5, Float.sqrt 0.5⟩, zero := ⟨0, 0⟩ }

def cfList? (s : String) : Option (List CF) := do
  let l ← floatList? s
  let rec go (l : List Float) (acc : List CF) : Option (List CF) :=
    match l with
    | [] => some acc.reverse
    | re :: im :: r => go r (⟨re, im⟩ :: acc)
    | _ => none
  go l []

/-- `sdh <alpha> <beta> <maxn> <aLL re,im,...> <x ...> <bTT ...> <inc list> <out list>` → LL;LT;TL;TT per query -/
def opSdh (args : List String) : Option String := do
  match args with
  | [al, be, mx, a, x, b, incs, outs] =>
    let al ← float? al; let be ← float? be; let mx ← nat? mx
    let a ← cfList? a; let x ← cfList? x; let b ← cfList? b
    let incs ← floatList? incs; let outs ← floatList? outs
    let arr := fun (l : List CF) (n : Nat) => l.toArray.getD n ⟨0, 0⟩
    let k : SdhCoef CF := { alpha := CF.ofReal al, beta := CF.ofReal be, maxn := mx, aLL := arr a, x := arr x, bTT := arr b }
    pure (join ((incs.zip outs).map (fun (i, o) =>
      let i := CF.ofReal i; let o := CF.ofReal o
      join [showCF (sdhLL sTrig k i o), showCF (sdhLT sTrig k i o), showCF (sdhTL sTrig k i o), showCF (sdhTT sTrig k i o)] ";")) "|")
  | _ => none
end ScatFnOps

/-! ### C11 time-domain synthesis (Float) -/
section TDOps
open Arim.TD Arim.Num

def tdRT : RT Float := { sin := Float.sin, cos := Float.cos, pi := pi, ofNat := fun n => n.toFloat, ofInt := fun z => Float.ofInt z,
                         floor := floatFloor, ceil := floatCeil }
def showCx (z : Cx Float) : String := showFloat z.1 ++ "," ++ showFloat z.2
def cxList? (s : String) : Option (List (Cx Float)) := (cfList? s).map (fun l => l.map (fun z => (z.re, z.im)))

def opToneburst (args : List String) : Option String := do
  match args with
  | [cyc, f, dt, ns, wrap] =>
    let cyc ← nat? cyc; let f ← float? f; let dt ← float? dt; let ns ← nat? ns
    let l := lenPulse tdRT cyc f dt
    let ns := if ns == 0 then l else ns
    if l > ns then pure "E" else
    pure (toString l ++ "|" ++ join ((toneburst tdRT 0.0 cyc f dt ns (wrap == "1")).map showCx) ";")
  | _ => none

def opTb2 (args : List String) : Option String := do
  match args with
  | [cyc, f, dt, nb, na] =>
    let cyc ← nat? cyc; let f ← float? f; let dt ← float? dt; let nb ← nat? nb; let na ← nat? na
    let r := toneburst2Layout tdRT cyc f dt nb na
    pure s!"{r.1} {r.2}"
  | _ => none

def opHilbert (args : List String) : Option String := do
  match args with
  | [n, xf] => let n ← nat? n; let xf ← cxList? xf
               pure (join ((rfftToHilbert tdRT 0.0 xf n).map showCx) ";")
  | _ => none

/-- `tftt <t0out> <dt> <Nout> <t0idx> <ntone> <freqs> <tonef> <numtraces> entry...`
    with `entry = trace:delay:tf` (tf = one coefficient or one per frequency) -/
def opTftt (args : List String) : Option String := do
  match args with
  | t0 :: dt :: nout :: t0idx :: ntone :: freqs :: tonef :: ntr :: entries =>
    let t0 ← float? t0; let dt ← float? dt; let nout ← nat? nout; let t0idx ← nat? t0idx; let ntone ← nat? ntone
    let freqs ← floatList? freqs; let tonef ← cxList? tonef; let ntr ← nat? ntr
    let init : List (List (Cx Float)) := List.replicate ntr (List.replicate nout ((0.0, 0.0) : Cx Float))
    let res ← entries.foldlM (fun (acc : List (List (Cx Float))) e => do
      match e.splitOn ":" with
      | [k, d, tf] =>
        let k ← nat? k; let d ← float? d; let tf ← cxList? tf
        let tfFull := if tf.length == 1 then List.replicate freqs.length (tf.headD (0.0, 0.0)) else tf
        let d' := d - t0
        let (q, r) := splitDelay tdRT d' dt
        let shifted := timeshift tdRT tfFull freqs r
        let prod := (List.zip shifted tonef).map (fun p => cmul p.1 p.2)
        let resp := rfftToHilbert tdRT 0.0 prod ntone
        let row ← acc[k]?
        pure (acc.set k (place row resp (q - (t0idx : Int))))
      | _ => none) init
    pure (join (res.map (fun row => join (row.map showCx) ";")) "|")
  | _ => none
end TDOps

/-! ### C08 assembly of the model coefficients (complex doubles) -/
section AssemblyOps
open Arim.Assembly Arim.ScatMat

def floatF : FOps Float := { floor := Arim.Num.floatFloor, ofInt := fun z => Float.ofInt z }

/-- `assemble <sw 4 bits> <dir> <trans> <beam> <att> <rtrans> <rbeam> <sqrtlam>` (complex re,im) → tx weight | rx weight -/
def opAssemble (args : List String) : Option String := do
  match args with
  | [sw, vals] =>
    let b := sw.toList.map (· == '1')
    let vals ← cfList? vals
    match b, vals with
    | [d, t, bm, a], [dir, trans, beam, att, rtrans, rbeam, sl] =>
      let s : Switches := { directivity := d, transrefl := t, beamspread := bm, attenuation := a }
      pure (showCF (txWeight s ⟨1, 0⟩ dir trans beam att) ++ "|" ++ showCF (rxWeight s ⟨1, 0⟩ dir rtrans rbeam att sl))
    | _, _ => none
  | _ => none

def cfMat? (s : String) : Option (List (List CF)) := (splitNE s ";").mapM cfList?
def cmat2 (m : List (List CF)) : Nat → Nat → CF :=
  let a := (m.map List.toArray).toArray
  fun i j => (a.getD i #[]).getD j ⟨0, 0⟩

/-- `modelamp <tx> <rx> <Q rows> <Q' rows> <thTx rows> <thRx rows> <a> f <c0..c3>` or `... m <n> <M rows>`
    → amplitudes[p][k] -/
def opModelAmp (args : List String) : Option String := do
  match args with
  | tx :: rx :: q :: q' :: ttx :: trx :: a :: kind :: rest =>
    let tx ← natList? tx; let rx ← natList? rx
    let q ← cfMat? q; let q' ← cfMat? q'
    let ttx ← floatMat? ttx; let trx ← floatMat? trx; let a ← float? a
    let S ← (match kind, rest with
      | "f", [cs] => do
        let cs ← cfList? cs
        match cs with
        | [c0, c1, c2, c3] =>
          pure (fun (x y : Float) => c0 + c1 * CF.ofReal (Float.sin x) + c2 * CF.ofReal (Float.cos (2 * y)) + c3 * CF.ofReal (Float.sin (x - 2 * y)))
        | _ => none
      | "m", [n, m] => do
        let n ← nat? n; let m ← cfMat? m
        let mre := fun j i => (cmat2 m j i).re
        let mim := fun j i => (cmat2 m j i).im
        pure (fun (x y : Float) => (⟨interp floatF Arim.Num.pi n mre x y, interp floatF Arim.Num.pi n mim x y⟩ : CF))
      | _, _ => none)
    let npts := ttx.length
    let txf := fun k => tx.toArray.getD k 0
    let rxf := fun k => rx.toArray.getD k 0
    let res := (List.range npts).map (fun p => (List.range tx.length).map (fun k =>
      modelAmp S (mat2 ttx 0) (mat2 trx 0) (cmat2 q) (cmat2 q') a txf rxf p k))
    pure (join (res.map (fun row => join (row.map showCF) ";")) "|")
  | _ => none
end AssemblyOps

/-- `fermatcache <key> <key> ...` (key = leg ids in path order): the keys stored in the solver's
    result cache after solving the paths in this order -/
def opFermatCache (args : List String) : Option String := do
  let keys ← args.mapM natList?
  let legOf : Nat → Leg Nat := fun _ => { m := 1, t := fun _ _ => 0 }
  let cache := (solveAll legOf [] keys).2
  pure (join (sortStrs (cache.map (fun e => showNats e.1))) ";")

def route (op : String) (args : List String) : String :=
  let r : Option String :=
    match op with
    | "fermat" => opFermat args
    | "minplus" => opMinPlus args
    | "chunks" => opChunks args
    | "fermatcache" => opFermatCache args
    | "assemble" => opAssemble args
    | "modelamp" => opModelAmp args
    | "toneburst" => opToneburst args
    | "tb2" => opTb2 args
    | "hilbert" => opHilbert args
    | "tftt" => opTftt args
    | "sdh" => opSdh args
    | "scatinterp" => opScatInterp args
    | "scatangles" => opScatAngles args
    | "freqinterp" => opFreqInterp args
    | "rotshift" => opRotShift args
    | "register" => opRegister args
    | "detect" => opDetect args
    | "weights" => opWeights args
    | "iface" => opIface args
    | "raygeom" => opRayGeom args
    | "probe" => opProbe args
    | "geo" => opGeo args
    | "ctfm" => opCtfm args
    | "vtfm" => opVtfm args
    | "das" => opDas args
    | "dasdispatch" => opDispatch args
    | "rgcache" => opRgCache args
    | "viewnames" => opViewnames args
    | "recip" => opRecip args
    | "pathspec" => opPathSpec args
    | "merge" => opMerge args
    | "loadconf" => opLoadConf args
    | "frame" => opFrame args
    | "enum" => opEnum args
    | "mtiles" => opMTiles args
    | "dtiles" => opDTiles args
    | _ => none
  match r with
  | some s => "ok " ++ s
  | none => "err Parse"

partial def loop (h : IO.FS.Stream) (out : IO.FS.Stream) : IO Unit := do
  let line ← h.getLine
  if line.isEmpty then return ()
  let ws := (line.trimAscii.toString.splitOn " ").filter (· ≠ "")
  match ws with
  | [] => out.putStrLn "err Empty"
  | op :: args => out.putStrLn (route op args)
  loop h out

def main : IO Unit := do
  let out ← IO.getStdout
  loop (← IO.getStdin) out
  out.flush
