import ArimModel.Wire
import ArimModel.Num
import ArimProofs.Generated.SrcC01
import ArimProofs.Generated.SrcC02
import ArimProofs.Generated.SrcC04
import ArimProofs.Generated.SrcC05
import ArimProofs.Generated.SrcC11
import ArimProofs.Generated.SrcC13
import ArimProofs.Generated.SrcC17
/-! Translation validation: this driver executes the *generated* definitions (`ArimProofs/Generated/Src*.lean`, rewritten from
    /repo/src on every run) on IEEE doubles, so that the harness can compare what the translator made of a Python function
    with what the Python function computes.  It checks the translator's reading of the source — the link the tie theorems
    cannot check.  Core only (the generated files import no Mathlib), compiled as `lean_exe srcdriver`. -/
open Arim Arim.Wire Arim.Das Arim.Num

def truncF (x : Float) : Int := if x < 0 then -(floatFloor (-x)) else floatFloor x

def fops : Src.Ops Float :=
  { sin := Float.sin, cos := Float.cos, asin := Float.asin, sqrt := Float.sqrt, exp := Float.exp, sinc := floatSinc,
    pi := Arim.Num.pi, ofNat := fun n => n.toFloat, ofInt := fun z => Float.ofInt z,
    floor := floatFloor, round := floatRound, trunc := truncF }

def getF (l : List Float) (i : Nat) : Float := l.getD i 0
def getRow (m : List (List Float)) (i : Nat) : List Float := m.getD i []

def opHuber (a : List String) : Option String :=
  match a with
  | [d, tau, x0, y0] => do
    let rows ← floatMat? d
    let r := Src.huber_iter fops (fun i j => getF (getRow rows i) j) rows.length (← float? tau) (← float? x0) (← float? y0)
    pure (showFloats [r.1, r.2])
  | _ => none

def opGeomed (a : List String) : Option String :=
  match a with
  | [d, zx, zy] => do
    let rows ← floatMat? d
    let z : Nat → Float := fun k => if k == 0 then (float? zx).getD 0 else (float? zy).getD 0
    let _ ← float? zx
    let _ ← float? zy
    let data : Nat → Nat → Float := fun i j => getF (getRow rows i) j
    let f := Src.geomed_f fops data rows.length z
    let g := Src.geomed_gradf_and_inv_hessf fops data rows.length z
    pure (showFloats [f, g.1, g.2.1, g.2.2.1, g.2.2.2.1, g.2.2.2.2])
  | _ => none

def opChunks (a : List String) : Option String :=
  match a with
  | [shape, block, axis] => do
    let sh ← (splitNE shape ",").mapM nat?
    let r := Src.chunk_array fops (fun k => sh.getD k 0) sh.length (← nat? block) (← nat? axis)
    pure (join (r.map (fun t => s!"{t.1}:{t.2.1}:{t.2.2}")))
  | _ => none

def showM3 (m : Arim.Geo.M3 Float) : String :=
  showFloats [m.r0.x, m.r0.y, m.r0.z, m.r1.x, m.r1.y, m.r1.z, m.r2.x, m.r2.y, m.r2.z]

def opRot (a : List String) : Option String :=
  match a with
  | ["x", t] => do pure (showM3 (Src.rotation_matrix_x fops (← float? t)))
  | ["y", t] => do pure (showM3 (Src.rotation_matrix_y fops (← float? t)))
  | ["z", t] => do pure (showM3 (Src.rotation_matrix_z fops (← float? t)))
  | ["ypr", y, p, r] => do pure (showM3 (Src.rotation_matrix_ypr fops (← float? y) (← float? p) (← float? r)))
  | _ => none

def opSigned (a : List String) : Option String :=
  match a with
  | [p, az] => do pure (showFloat (Src.signed_leg_angle fops (← float? p) (← float? az)))
  | _ => none

/-- `expand d n m p  interior(d*n*m ints, C order)  new(n*p ints)  i j` -/
def opExpand (a : List String) : Option String :=
  match a with
  | [d, n, m, p, inter, nw, i, j] => do
    let d ← nat? d; let n ← nat? n; let m ← nat? m; let p ← nat? p
    let it ← (splitNE inter ",").mapM int?
    let nv ← (splitNE nw ",").mapM int?
    let _ := n
    let r := Src.expand_rays_cell fops (fun k i j => it.getD ((k * n + i) * m + j) 0) (fun i j => nv.getD (i * p + j) 0) d (← nat? i) (← nat? j)
    pure (join (r.map toString))
  | _ => none

/-- `minplus n m p t1 t2 i j` : one cell of the translated kernel entered with (inf, -1) -/
def opMinCell (a : List String) : Option String :=
  match a with
  | [t1, t2, i, j] => do
    let a1 ← floatMat? t1; let a2 ← floatMat? t2
    let inf : Float := 1.0 / 0.0
    let r := Src.find_minimum_times_cell fops (fun i k => getF (getRow a1 i) k) (fun k j => getF (getRow a2 k) j) inf (-1) a2.length (← nat? i) (← nat? j)
    pure (showFloat r.1 ++ "/" ++ toString r.2)
  | _ => none

/-- `tswin delay dt t0 n` : window of the translated `_timeshift_timedomain`, and the translated remainder of its caller -/
def opTsWin (a : List String) : Option String :=
  match a with
  | [delay, dt, t0, n] => do
    let d ← float? delay; let dt ← float? dt
    let w := Src.timeshift_window fops (fun _ => d) dt (← int? t0) (← nat? n) 0
    pure (toString w.1 ++ ":" ++ toString w.2 ++ "/" ++ showFloat (Src.delay_remainder fops d dt))
  | _ => none

/-- `frame to|from|rot0|rotc  v(3 floats)  M(9 floats, rows)  o(3 floats)` : the translated `to_gcs` / `from_gcs` / `rotate` on one point -/
def opFrame (a : List String) : Option String :=
  match a with
  | [which, v, m, o] => do
    let v ← floatList? v; let m ← floatList? m; let o ← floatList? o
    let g := fun (l : List Float) (i : Nat) => l.getD i 0
    let pv : Arim.P3 Float := ⟨g v 0, g v 1, g v 2⟩
    let po : Arim.P3 Float := ⟨g o 0, g o 1, g o 2⟩
    let pm : Arim.Geo.M3 Float := ⟨⟨g m 0, g m 1, g m 2⟩, ⟨g m 3, g m 4, g m 5⟩, ⟨g m 6, g m 7, g m 8⟩⟩
    let r : Arim.P3 Float ← match which with
      | "to" => some (Src.to_gcs fops pv pm po)
      | "from" => some (Src.from_gcs fops pv pm po)
      | "rot0" => some (Src.rotate_about_origin fops pv pm)
      | "rotc" => some (Src.rotate_about_centre fops pv pm po)
      | _ => none
    pure (showFloats [r.x, r.y, r.z])
  | _ => none

def route (op : String) (args : List String) : String :=
  let r := match op with
    | "huber" => opHuber args
    | "geomed" => opGeomed args
    | "chunks" => opChunks args
    | "rot" => opRot args
    | "signed" => opSigned args
    | "expand" => opExpand args
    | "mincell" => opMinCell args
    | "tswin" => opTsWin args
    | "frame" => opFrame args
    | _ => none
  match r with
  | some s => "ok " ++ s
  | none => "err Parse"

partial def loop (h : IO.FS.Stream) (out : IO.FS.Stream) : IO Unit := do
  let line ← h.getLine
  if line.isEmpty then return ()
  let ws := (line.trimAscii.toString.splitOn " ").filter (· ≠ "")
  match ws with
  | [] => out.putStrLn "err Empty"
  | op :: args => out.putStrLn (route op args)
  loop h out

def main : IO Unit := do
  let out ← IO.getStdout
  loop (← IO.getStdin) out
  out.flush
