import ArimProofs.C01
import ArimProofs.C13
