import ArimProofs.C01
