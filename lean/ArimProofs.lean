import ArimProofs.C01
import ArimProofs.C13
import ArimProofs.C15
import ArimProofs.C20
import ArimProofs.C18
import ArimProofs.C14
import ArimProofs.C02
import ArimProofs.C12
